"""C20 -- native programs and their C runtime are memory-safe; the runtime containers behave as sequences.
Proof: NV/Props/Properties_C20.v (DynArray refinement + invariant, Gc invariant) over constants measured on the current
dyn_array.c (tools/gen/gen_rtparams.py).  Correspondence: probes/dyn_probe.c and gc_probe.c (ASan+UBSan build, real
dyn_array.c / gc.c / emitted nl_array_slice) vs the extracted models on generated operation histories.
End to end: tools/props/c20_native.py (native programs built by nanoc with a sanitizing cc)."""
import os, json, hashlib
import vlib
import c20_native

KINDS = {1: 'i', 2: 'f', 3: 's', 4: 'o', 5: 'a', 8: 'b'}        # ElementType code -> typed API letter
ALLK = [1, 2, 3, 4, 5, 6, 7, 8]
I64MAX = 9223372036854775807
ASAN_ENV = dict(os.environ, ASAN_OPTIONS='detect_leaks=0:allocator_may_return_null=1:abort_on_error=0',
                UBSAN_OPTIONS='print_stacktrace=0')

VALS = {'i': [0, 1, 0x7fffffffffffffff, 0x8000000000000000, 0xffffffffffffffff, 0x100000000, 0xdeadbeef],
        'f': [0, 0x8000000000000000, 0x3ff0000000000000, 0x7ff0000000000000, 0x7ff8000000000001, 0xfff0000000000000, 0x1],
        's': [0, 0x1000, 0x7ffdeadbeef0, 0xffffffffffffffff],
        'a': [0, 0x2000, 0x602000000010],
        'o': [0, 1, 2, 0xff, 0x100],
        'b': [0, 1, 0x7f, 0x80, 0xff, 0x100, 0x1ff]}


def rnd_val(rng, k):
    if rng.random() < 0.4:
        return rng.choice(VALS[k])
    return rng.getrandbits(64 if k not in 'ob' else 10)


def rnd_index(rng, n):
    """mostly valid, otherwise exactly the boundaries the asserts test"""
    r = rng.random()
    if n > 0 and r < 0.97:
        return rng.choice([0, n - 1, rng.randrange(n)])
    return rng.choice([-1, n, n + 1, -I64MAX - 1, I64MAX, 4294967296 + (n // 2), -n])


def measured_flags():
    """the two behaviours the translator measured on the current code (NV/gen/RtParams.v)"""
    s = open(os.path.join(vlib.COQ, 'NV', 'gen', 'RtParams.v')).read()
    return dict(clone_struct_fixed='rt_clone_struct_fixed : bool := true' in s, slice_clamped='rt_slice_clamped : bool := true' in s,
                push_self_safe='rt_push_self_safe : bool := true' in s)


FLAGS = dict(clone_struct_fixed=False, slice_clamped=False, push_self_safe=False)


def gen_history(rng, maxlen, stats):
    """one history: list of probe lines.  Tracks the length so that indices hit both sides of every bound."""
    kind = rng.choice(ALLK)
    lines = []
    r = rng.random()
    if r < 0.35:
        c = rng.choice([0, 3, 7, 8, 9, 15, 16, 17, 33, -1])
        lines.append('newcap %d %d' % (kind, c)); cap = max(8, c)
    else:
        lines.append('new %d' % kind); cap = 8
    n = 0
    es = None                      # struct size once known
    L = rng.choice([12, 30, 60, 120, maxlen, maxlen]) if maxlen > 120 else rng.randrange(3, maxlen + 1)
    burst = 0
    target = rng.choice([7, 8, 9, 16, 17, 18, 31, 32, 33, 64, 65, 129])     # lengths around the growth points
    while len(lines) < L:
        if n > 600:                # keep long histories cheap: shrink now and then
            lines.append(rng.choice(['clear', 'slice %d %d' % (rng.randrange(n), rng.randrange(40))])); stats['shrink'] += 1
            if lines[-1] == 'clear': n = 0
            else:
                a, b = [int(x) for x in lines[-1].split()[1:]]; n = max(0, min(n, a + b) - min(a, n))
                if kind == 7 and n > 0: stats['abort_expected'] += 1; break
            continue
        r = rng.random()
        if kind in KINDS:
            k = KINDS[kind]
            pushp = 0.85 if n == 0 else 0.5 if n < target else 0.25
            if burst > 0 or rng.random() < pushp:
                if burst == 0 and rng.random() < 0.15: burst = rng.randrange(3, 40)
                burst = max(0, burst - 1)
                lines.append('push %s %x' % (k, rnd_val(rng, k))); n += 1; stats['push'] += 1
            elif r < 0.14:
                lines.append('pop %s' % k); n = max(0, n - 1); stats['pop'] += 1
            elif r < 0.34:
                i = rnd_index(rng, n); lines.append('get %s %d' % (k, i)); stats['get'] += 1
                if not (0 <= i < n): stats['abort_expected'] += 1; break
            elif r < 0.50:
                i = rnd_index(rng, n); lines.append('set %s %d %x' % (k, i, rnd_val(rng, k))); stats['set'] += 1
                if not (0 <= i < n): stats['abort_expected'] += 1; break
            elif r < 0.62:
                i = rnd_index(rng, n); lines.append('rm %d' % i); stats['rm'] += 1
                if not (0 <= i < n): stats['abort_expected'] += 1; break
                n -= 1
            elif r < 0.65:
                lines.append('clear'); n = 0; stats['clear'] += 1
            elif r < 0.71:
                c = rng.choice([0, cap, cap + 1, n, 2 * cap, 17, 100, -3]); lines.append('reserve %d' % c); cap = max(cap, c); stats['reserve'] += 1
            elif r < 0.75:
                lines.append('len'); stats['len'] += 1
            elif r < 0.82:
                lines.append('clone'); stats['clone'] += 1
            elif r < 0.95:
                a = rng.choice([0, 1, n // 2, n, n + 3, -2, rng.randrange(n + 1)])
                b = rng.choice([0, 1, n, n + 5, -1, 9, 17, rng.randrange(n + 2), I64MAX if FLAGS['slice_clamped'] else I64MAX - max(0, min(a, n))])
                lines.append('slice %d %d' % (a, b)); stats['slice'] += 1
                a2 = min(max(a, 0), n); n = max(0, min(n, a2 + max(b, 0)) - a2)
            elif r < 0.985 and kind == 3:
                lines.append('pushnull'); stats['pushnull'] += 1
            elif r < 0.992:
                # wrong typed call: must be stopped by the type assert
                other = rng.choice([x for x in 'ifsoab' if x != k])
                lines.append(rng.choice(['push %s 1' % other, 'pop %s' % other, 'get %s 0' % other, 'set %s 0 1' % other]))
                stats['type_mismatch'] += 1; stats['abort_expected'] += 1; break
            elif n == 0 and r < 0.997:
                # empty array of another type is promoted to a struct array by push_struct
                sz = rng.choice([1, 2, 5, 8, 16, 24, 255]); es = sz
                lines.append('pushs ' + ''.join('%02x' % rng.randrange(256) for _ in range(sz))); kind = 6; n = 1; stats['promote'] += 1
            else:
                lines.append('gets 0'); stats['type_mismatch'] += 1; stats['abort_expected'] += 1; break
        elif kind == 6:
            if es is None:
                es = rng.choice([1, 2, 3, 8, 12, 16, 24, 40, 255])
            blob = lambda s=es: ''.join('%02x' % rng.randrange(256) for _ in range(s))
            pushp = 0.85 if n == 0 else 0.5 if n < target else 0.25
            if burst > 0 or rng.random() < pushp:
                if burst == 0 and rng.random() < 0.15: burst = rng.randrange(3, 30)
                burst = max(0, burst - 1)
                lines.append('pushs ' + blob()); n += 1; stats['pushs'] += 1
            elif r < 0.15:
                lines.append('pops %d' % es); n = max(0, n - 1); stats['pops'] += 1
            elif r < 0.35:
                lines.append('gets %d' % rnd_index(rng, n)); stats['gets'] += 1
            elif r < 0.55:
                lines.append('sets %d %s' % (rnd_index(rng, n), blob())); stats['sets'] += 1
            elif r < 0.68:
                i = rnd_index(rng, n); lines.append('rm %d' % i); stats['rm'] += 1
                if not (0 <= i < n): stats['abort_expected'] += 1; break
                n -= 1
            elif r < 0.71:
                lines.append('clear'); n = 0; stats['clear'] += 1
            elif r < 0.77:
                c = rng.choice([0, cap, cap + 1, 2 * cap, 17, 100]); lines.append('reserve %d' % c); cap = max(cap, c); stats['reserve'] += 1
            elif r < 0.81:
                lines.append('len'); stats['len'] += 1
            elif r < 0.85 and FLAGS['clone_struct_fixed']:
                lines.append('clone'); stats['clone_struct'] += 1
            elif r < 0.97:
                a = rng.choice([0, 1, n // 2, n, n + 3, -2, rng.randrange(n + 1)])
                b = rng.choice([0, 1, n, n + 5, -1, 9, 17, rng.randrange(n + 2)])
                lines.append('slice %d %d' % (a, b)); stats['slice'] += 1
                a2 = min(max(a, 0), n); n = max(0, min(n, a2 + max(b, 0)) - a2)
            elif r < 0.99:
                # wrong size / wrong family
                bad = rng.choice(['pushs ' + blob(es + 1), 'pops %d' % (es + 1), 'sets 0 ' + blob(es + 1), 'push i 1', 'get i 0', 'pop f'])
                if n == 0 and bad.startswith(('pops', 'sets')) and False: pass
                lines.append(bad); stats['type_mismatch'] += 1
                if not (bad.startswith('pushs') and n == 0 and False): stats['abort_expected'] += 1
                break
            else:
                lines.append('pushs ' + blob(256 if rng.random() < 0.5 else 300)); stats['struct_size_ge_256'] += 1; stats['abort_expected'] += 1; break
        else:  # kind 7 (ELEM_POINTER): no typed family; only the untyped entry points
            if r < 0.3: lines.append('len')
            elif r < 0.5: lines.append('clear')
            elif r < 0.6: lines.append('reserve %d' % rng.choice([0, 9, 17]))
            elif r < 0.7: lines.append('clone')
            elif r < 0.8: lines.append('slice %d %d' % (rng.choice([0, 1, -1]), rng.choice([0, 1, 5])))
            elif r < 0.9:
                lines.append('rm %d' % rng.choice([0, -1, 1])); stats['abort_expected'] += 1; break
            elif r < 0.95:
                lines.append('pushs ' + '0102030405060708'); kind = 6; es = 8; n = 1; stats['promote'] += 1
            else:
                lines.append('push i 5'); stats['type_mismatch'] += 1; stats['abort_expected'] += 1; break
            stats['pointer_ops'] += 1
    stats['histories'] += 1
    stats['maxlen_seen'] = max(stats['maxlen_seen'], n)
    return lines


def gen_selfref_history(rng, maxlen, stats):
    """History whose VALUE operands are elements of the SAME array (pushat / setat / pushpop for the typed families, pushse / setse
    for struct arrays = the call the transpiler emits for (array_push xs (at xs i))), with the capacity tracked EXACTLY so that the
    self-referential push is placed at length == capacity-1, capacity and capacity+1 of every growth step.  While the open finding
    c20:dyn:push-own-struct-elem is present (FLAGS['push_self_safe'] false) the struct push at length == capacity is left to the
    dedicated crash cases: the probe would die there."""
    kind = rng.choice([1, 2, 3, 4, 5, 8, 6, 6])
    k = KINDS.get(kind)
    es = rng.choice([1, 2, 8, 16, 24, 40]) if kind == 6 else None
    c0 = rng.choice([None, None, 7, 8, 9, 16, 17])
    if c0 is None:
        lines = ['new %d' % kind]; cap = 8
    else:
        lines = ['newcap %d %d' % (kind, c0)]; cap = max(8, c0)
    n = 0
    st = dict(n=0, cap=cap)
    blob = lambda: ''.join('%02x' % rng.randrange(256) for _ in range(es))
    tag = 'struct' if kind == 6 else k

    def grow_if_full():
        if st['n'] >= st['cap']:
            st['cap'] *= 2

    def fresh():
        grow_if_full()
        lines.append('pushs ' + blob() if kind == 6 else 'push %s %x' % (k, rnd_val(rng, k))); st['n'] += 1; stats['sr:fresh_push'] += 1

    def cls():
        if st['n'] == st['cap'] - 1: return 'cap-1'
        if st['n'] == st['cap']: return 'cap'
        if st['n'] == st['cap'] // 2 + 1 and st['cap'] > 8: return 'cap+1'
        return 'other'

    def selfpush():
        c = cls()
        if kind == 6 and c == 'cap' and not FLAGS['push_self_safe']:
            stats['sr:pushse:cap:AVOIDED(open finding c20:dyn:push-own-struct-elem, replayed by the crash cases)'] += 1
            return fresh()
        i = rng.choice([0, st['n'] - 1, rng.randrange(st['n'])])
        grow_if_full()
        lines.append('pushse %d' % i if kind == 6 else 'pushat %s %d' % (k, i)); st['n'] += 1
        stats['sr:%s:%s:%s' % ('pushse' if kind == 6 else 'pushat', tag, c)] += 1

    L = rng.randrange(10, maxlen + 1)
    for _ in range(rng.choice([2, 4])):
        fresh()
    while len(lines) < L:
        r = rng.random()
        if st['n'] == 0:
            fresh(); continue
        if r < 0.30:
            want = rng.choice(['cap-1', 'cap', 'cap+1'])
            target = {'cap-1': st['cap'] - 1, 'cap': st['cap'], 'cap+1': st['cap'] + 1}[want]
            if target > 140:
                target = st['cap'] // 2 + 1 if st['cap'] > 8 else 7
            while st['n'] < target: fresh()
            while st['n'] > target:
                lines.append('pops %d' % es if kind == 6 else 'pop %s' % k); st['n'] -= 1
            selfpush()
            lines.append('gets %d' % (st['n'] - 1) if kind == 6 else 'get %s %d' % (k, st['n'] - 1))
        elif r < 0.42:
            selfpush()
        elif r < 0.56:
            i = rng.choice([0, st['n'] - 1, rng.randrange(st['n'])]); j = rng.choice([i, 0, st['n'] - 1, rng.randrange(st['n'])])
            lines.append('setse %d %d' % (i, j) if kind == 6 else 'setat %s %d %d' % (k, i, j)); stats['sr:set_from_same:%s:%s' % (tag, 'i==j' if i == j else 'i!=j')] += 1
        elif r < 0.64 and kind != 6:
            lines.append('pushpop %s' % k); stats['sr:pushpop:%s:%s' % (tag, 'cap' if st['n'] - 1 == st['cap'] - 1 else 'other')] += 1
        elif r < 0.72:
            lines.append('pops %d' % es if kind == 6 else 'pop %s' % k); st['n'] -= 1
        elif r < 0.78:
            lines.append('rm %d' % rng.randrange(st['n'])); st['n'] -= 1
        elif r < 0.82:
            fresh()
        elif r < 0.86:
            a = rng.randrange(st['n'] + 1); b = rng.choice([0, 1, st['n'], 9, rng.randrange(st['n'] + 2)])
            lines.append('slice %d %d' % (a, b)); m = max(0, min(st['n'], a + b) - a)
            st['n'] = m; st['cap'] = 8
            while st['cap'] < m: st['cap'] *= 2
            stats['sr:slice'] += 1
        elif r < 0.89 and (kind != 6 or FLAGS['clone_struct_fixed']):
            lines.append('clone'); st['cap'] = max(8, st['n']); stats['sr:clone'] += 1
        elif r < 0.92:
            c = rng.choice([st['cap'] + 1, st['n'], 2 * st['cap'], 17]); lines.append('reserve %d' % c); st['cap'] = max(st['cap'], c)
        elif r < 0.95:
            lines.append('len')
        elif r < 0.975:
            # index outside the array as the SOURCE of the value: typed get asserts / get_struct answers NULL and push_struct asserts
            i = rng.choice([-1, st['n'], st['n'] + 7])
            lines.append('pushse %d' % i if kind == 6 else 'pushat %s %d' % (k, i)); stats['sr:source_index_out_of_range'] += 1; stats['abort_expected'] += 1
            break
        else:
            i = rng.choice([-1, st['n']])
            lines.append('setse 0 %d' % i if kind == 6 else 'setat %s 0 %d' % (k, i)); stats['sr:source_index_out_of_range'] += 1; stats['abort_expected'] += 1
            break
    stats['sr:histories'] += 1
    stats['sr:kind:%s' % tag] += 1
    return lines


# histories at the border of defined behaviour, each run in its own probe process.  The first seven are the witnesses of the
# REPAIRED findings c20:dyn:clone-struct (c3b7222) and c20:dyn:slice-overflow (9ae9f7a): the model now describes the repaired code,
# so they must run to the end with the model's answers (a sanitizer death is a regression -> VIOLATION).  The last two are
# still undefined in the C (capacity*elem_size overflows int64; caller-controlled size): the model says Crash, the code must die.
CRASH_CASES = [
    ('c20:dyn:clone-struct', ['new 6', 'pushs 0102', 'clone']),
    ('c20:dyn:clone-struct', ['new 6', 'clone']),
    ('c20:dyn:clone-struct', ['new 6'] + ['pushs 0a0b0c'] * 9 + ['clone']),
    ('c20:dyn:clone-struct', ['new 1', 'pushs 0102030405060708', 'clone']),
    ('c20:dyn:slice-overflow', ['new 1', 'push i 1', 'push i 2', 'slice 1 %d' % I64MAX]),
    ('c20:dyn:slice-overflow', ['new 2', 'push f 1', 'slice 5 %d' % I64MAX]),
    ('c20:dyn:slice-overflow', ['new 6', 'pushs 01', 'pushs 02', 'slice 2 %d' % (I64MAX - 1)]),
    # OPEN finding (outside reviewer): push_struct whose source is an element of the same array, at length == capacity (8, 16, and after
    # auto-promotion): the model says Crash while rt_push_self_safe is measured false
    ('c20:dyn:push-own-struct-elem', ['new 6'] + ['pushs %02x07' % i for i in range(8)] + ['pushse 0']),
    ('c20:dyn:push-own-struct-elem', ['new 6'] + ['pushs %02x0709' % i for i in range(16)] + ['pushse 15']),
    ('c20:dyn:push-own-struct-elem', ['newcap 6 9'] + ['pushs aabbccdd'] * 9 + ['pushse 4']),
    ('c20:dyn:push-own-struct-elem', ['new 1'] + ['pushs 0102030405060708'] * 8 + ['pushse 7']),
    (None, ['new 1', 'push i 1', 'reserve 1152921504606846976']),          # capacity*elem_size overflows int64: caller-controlled size
    (None, ['newcap 2 2305843009213693952']),
]


# a history the C stops by assert although the sequence specification would accept it (a defect that is not a memory error)
ABORT_CASES = [
    ('c20:dyn:struct-size-ge-256', ['new 6', 'pushs ' + 'ab' * 256]),
    ('c20:dyn:struct-size-ge-256', ['new 1', 'pushs ' + 'cd' * 300]),
]


def probe_extra():
    inc = os.path.join(vlib.BUILD, 'gen', 'nl_array_slice.inc')
    h = hashlib.sha256(open(inc, 'rb').read()).hexdigest()[:16]
    return ['-DSLICE_INC="%s"' % inc, '-DSLICE_HASH=0x%s' % h]


def run_probe(probe, lines, timeout=600):
    rc, o, e = vlib.sh([probe], input=('\n'.join(lines) + '\n').encode(), timeout=timeout, env=ASAN_ENV)
    return rc, o.splitlines(), e


def san_lines(e):
    return [l for l in e.splitlines() if 'runtime error:' in l or 'ERROR: AddressSanitizer' in l or 'SUMMARY:' in l]


def dyn_correspondence(ck, probe, ref):
    from collections import Counter
    stats = Counter()
    rng = ck.rng
    hist = []
    corpus = os.path.join(vlib.VERIF, 'corpus', 'C20')
    if os.path.isdir(corpus):
        for f in sorted(os.listdir(corpus)):
            if f.endswith('.dyn'):
                hist.append([l for l in open(os.path.join(corpus, f)).read().splitlines() if l.strip()]); stats['corpus'] += 1
    nh, maxlen = (150, 5000) if ck.thorough else (600, 200)
    for _ in range(nh):
        hist.append(gen_history(rng, maxlen, stats))
    for _ in range(2500 if ck.thorough else 300):
        hist.append(gen_selfref_history(rng, 200 if rng.random() < 0.9 or not ck.thorough else 1500, stats))
    if ck.thorough:
        for _ in range(3000):
            hist.append(gen_history(rng, 200, stats))
    lines = [l for h in hist for l in h]
    rc, impl, err = run_probe(probe, lines, timeout=1500)
    model = vlib.run_lines(ref, lines, timeout=1500)
    sl = san_lines(err)
    if rc != 0 or sl:
        k = len(impl)
        # find the history the probe died in
        pos, hh = 0, None
        for h in hist:
            if pos + len(h) > k: hh = h[:k - pos + 1]; break
            pos += len(h)
        ck.fail('c20:dyn:crash:' + hashlib.sha256('\n'.join(hh or []).encode()).hexdigest()[:12],
                'dyn_probe died / sanitizer report on a history the model calls defined (rc=%s): %s' % (rc, '; '.join(sl[:2])),
                dict(part='dyn', history=hh, stderr=err[-3000:], engine='dyn_probe(asan)', model_says=model[k] if k < len(model) else None))
    bad = 0
    pos = 0
    for h in hist:
        hi = impl[pos:pos + len(h)]; hm = model[pos:pos + len(h)]
        aborted = any(x == 'abort' for x in hm)
        nontriv = len(h) >= 4 and any(('len=' in x and ' len=0 ' not in x) for x in hm)
        ck.count(tuple(h), nontriv, n=len(hi))
        for j, (a, m) in enumerate(zip(hi, hm)):
            if m.startswith('oom') and j > 0:
                break                         # allocator answer not modelled: rest of this history is not compared
            if a != m:
                bad += 1
                ck.fail('c20:dyn:' + hashlib.sha256('\n'.join(h[:j + 1]).encode()).hexdigest()[:12],
                        'dyn_array differs from the model after "%s": impl=%s model=%s' % (h[j], a[:200], m[:200]),
                        dict(part='dyn', history=h[:j + 1], expected_model=m, observed_impl=a, correspondence='dyn_probe vs nvref_c20'))
                break
        pos += len(h)
        if bad > 10: break
    if len(model) != len(lines):
        ck.fail('c20:dyn:linecount', 'model answered %d of %d lines' % (len(model), len(lines)), dict(part='dyn'))
    stats['lines'] = len(lines)
    stats['model_abort'] = sum(1 for m in model if m.startswith('abort'))
    stats['model_abs_mismatch'] = sum(1 for m in model if 'ABS-MISMATCH' in m or 'INV-BROKEN' in m)
    stats['grown_states'] = sum(1 for m in model if ' cap=16 ' in m or ' cap=32 ' in m or ' cap=64 ' in m or ' cap=17 ' in m or ' cap=34 ' in m)
    if stats['model_abs_mismatch']:
        k = next(i for i, m in enumerate(model) if 'ABS-MISMATCH' in m or 'INV-BROKEN' in m)
        ck.fail('c20:dyn:abs-mismatch', 'extracted model: concrete step and list step disagree at "%s": %s' % (lines[k], model[k][:200]),
                dict(part='dyn', line=lines[k], model=model[k]))
    k = next((i for i, l in enumerate(lines) if l.startswith('slice') and 'cap=' in model[i]), 5)
    ck.sample(dict(op=lines[k], impl=impl[k] if k < len(impl) else None, model=model[k]))
    k = next((i for i, l in enumerate(lines) if l.startswith('pops') and model[i].startswith('pop 1')), 6)
    ck.sample(dict(op=lines[k], impl=impl[k] if k < len(impl) else None, model=model[k]))
    return dict(stats)


def dyn_crash_cases(ck, probe, ref):
    """Histories at the border of the specification's domain, each in its own probe process.  The model's parameters are
    measured on the current code, so: model says Crash  <=>  the real code dies with a sanitizer report at that operation
    (that replays the open findings); model says defined  <=>  the real code answers exactly what the model answers."""
    seen = {}
    for key, h in CRASH_CASES:
        rc, impl, err = run_probe(probe, h, timeout=60)
        model = vlib.run_lines(ref, h)
        sl = san_lines(err)
        died = rc != 0 and len(impl) == len(h) - 1 and bool(sl)
        ck.count(('crash', tuple(h)), True)
        if model[-1].split()[0] == 'crash':
            if died:
                if key:
                    ck.fail(key, 'dyn runtime leaves defined behaviour on %r: %s' % (h, sl[0][:200]),
                            dict(part='dyn-crash', history=h, stderr=err[-1500:], engine='dyn_probe(asan)', expected_model='crash'))
                seen.setdefault(key or 'caller-controlled-size', []).append(sl[0][:160])
            else:
                ck.fail('c20:dyn:crashcase-impl:' + (key or ' '.join(h)[:40]), 'model predicts Crash but the real code survived %r (rc=%s, %s)' % (h, rc, impl[-1:]),
                        dict(part='dyn-crash', history=h, expected_model='crash', observed_impl=impl[-1:], correspondence='dyn_probe vs nvref_c20'))
        else:
            # the code present handles this history (repaired): ordinary correspondence
            seen.setdefault((key or 'case') + ':repaired', []).append(model[-1][:120])
            if rc != 0 or sl or impl != model:
                ck.fail('c20:dyn:crashcase-repaired:' + (key or ' '.join(h)[:40]),
                        'the code handles %r but differs from the model: impl=%s model=%s %s' % (h, impl[-1:], model[-1:], '; '.join(sl[:1])),
                        dict(part='dyn', history=h, expected_model=model[-1], observed_impl=impl[-1:], stderr=err[-1500:], correspondence='dyn_probe vs nvref_c20'))
    for key, h in ABORT_CASES:
        rc, impl, err = run_probe(probe, h, timeout=60)
        model = vlib.run_lines(ref, h)
        ck.count(('abortcase', tuple(h)), True)
        if rc != 0 or san_lines(err) or impl != model:
            ck.fail('c20:dyn:abortcase:' + key, 'dyn_array differs from the model on %r: impl=%s model=%s' % ([x[:30] for x in h], impl[-1:], [m[:80] for m in model[-1:]]),
                    dict(part='dyn', history=h, expected_model=model[-1][:300], observed_impl=[x[:300] for x in impl[-1:]], correspondence='dyn_probe vs nvref_c20'))
        elif impl[-1] == 'abort':
            ck.fail(key, 'native DynArray refuses a struct of %d bytes (assert, exit 134)' % ((len(h[-1]) - 6) // 2),
                    dict(part='dyn', history=h, observed_impl='abort', engine='dyn_probe(asan)'))
            seen.setdefault(key, []).append('abort')
        else:
            seen.setdefault(key + ':repaired', []).append(impl[-1][:60])
    return seen


# ------------------------------------------------------------------------------------------------ gc.c
GC_TYPES = [2, 4, 5]          # STRING, CLOSURE, OPAQUE (no payload the destructor would walk; arrays go through dyn_probe)
GC_WITNESSES = [
    ['reset', 'alloc 8 2', 'release 1', 'release 1', 'managed 1'],                                   # double release: silent
    ['reset', 'alloc 8 2', 'release 1', 'alloc 8 2', 'release 1', 'managed 2', 'retainsafe 2'],      # stale release after address reuse
]


def gen_gc_history(rng, maxlen, stale, stats):
    lines = ['reset']
    cnt = []                      # python's view of each handle's reference count (exact when there are no stale releases)
    L = rng.randrange(5, maxlen + 1)
    while len(lines) < L:
        r = rng.random()
        live = [i + 1 for i, c in enumerate(cnt) if c > 0]
        if len(live) > 48 and r < 0.8:
            r = 0.5                # keep the live set small (the probe and the model print the whole list after every op)
        if r < 0.28 or not cnt:
            lines.append('alloc %d %d' % (rng.choice([0, 1, 8, 8, 24, 24, 100, 4096]), rng.choice(GC_TYPES))); cnt.append(1); stats['alloc'] += 1
        elif r < 0.45 and live:
            h = rng.choice(live)
            if stale: lines.append('retainsafe %d' % h)
            else: lines.append('retain %d' % h)
            cnt[h - 1] += 1; stats['retain'] += 1
        elif r < 0.80 and live:
            h = rng.choice(live); lines.append('release %d' % h); cnt[h - 1] -= 1; stats['release'] += 1
            if cnt[h - 1] == 0: stats['release_to_zero'] += 1
        elif r < 0.86:
            lines.append('managed %d' % rng.randrange(0, len(cnt) + 1)); stats['managed'] += 1
        elif r < 0.89:
            lines.append('collect'); stats['collect'] += 1
        elif r < 0.92:
            lines.append(rng.choice(['retain 0', 'release 0', 'retainsafe 0'])); stats['null_ops'] += 1
        elif stale:
            dead = [i + 1 for i, c in enumerate(cnt) if c <= 0]
            if dead:
                h = rng.choice(dead); lines.append(rng.choice(['release %d', 'release %d', 'retainsafe %d']) % h); stats['stale_ops'] += 1
    stats['gc_histories'] += 1
    return lines


def gc_translate(lines, impl):
    """handles -> canonical address ids as reported by the probe ("ptr <id>")"""
    ids = []
    out = []
    for l, a in zip(lines, impl):
        f = l.split()
        if f[0] == 'reset':
            ids = []; out.append('gnew')
        elif f[0] == 'alloc':
            aid = int(a.split()[1]) if a.startswith('ptr ') else 0
            ids.append(aid); out.append('galloc %d %s %s' % (aid, f[1], f[2]))
        elif f[0] == 'collect':
            out.append('gcollect')
        else:
            h = int(f[1]); out.append('g%s %d' % (f[0], ids[h - 1] if 1 <= h <= len(ids) else 0))
    return out


def gc_correspondence(ck, ref):
    from collections import Counter
    stats = Counter()
    rng = ck.rng
    nh, maxlen = (400, 5000) if ck.thorough else (120, 200)
    hist = [list(w) for w in GC_WITNESSES]
    for i in range(nh):
        hist.append(gen_gc_history(rng, maxlen if i % 40 in (0, 1) else min(maxlen, 200), stale=(i % 2 == 1), stats=stats))
    lines = [l for h in hist for l in h]
    engines = [('gc_probe(asan)', ck.probe('gc_probe.c', 'asan'), ASAN_ENV),
               ('gc_probe(asan,no-quarantine)', ck.probe('gc_probe.c', 'asan'),
                dict(ASAN_ENV, ASAN_OPTIONS=ASAN_ENV['ASAN_OPTIONS'] + ':quarantine_size_mb=0:thread_local_quarantine_size_kb=0')),
               ('gc_probe(plain)', ck.probe('gc_probe.c', 'plain'), dict(os.environ))]
    reuse = {}
    for name, probe, env in engines:
        rc, o, e = vlib.sh([probe], input=('\n'.join(lines) + '\n').encode(), timeout=900, env=env)
        impl = o.splitlines()
        sl = san_lines(e)
        if rc != 0 or sl or len(impl) != len(lines):
            k = len(impl)
            ck.fail('c20:gc:crash:' + name, 'gc_probe died / sanitizer report (rc=%s) at line %d "%s": %s' % (rc, k, lines[k] if k < len(lines) else '?', '; '.join(sl[:2])),
                    dict(part='gc', engine=name, history=lines[max(0, k - 40):k + 1], stderr=e[-3000:]))
        mlines = gc_translate(lines[:len(impl)], impl)
        model = vlib.run_lines(ref, mlines, timeout=900)
        # address reuse actually observed on this engine?
        n_reuse = 0; seen = set()
        for l, a in zip(lines, impl):
            if l == 'reset': seen = set()
            if a.startswith('ptr '):
                i = int(a.split()[1]); n_reuse += i in seen; seen.add(i)
        reuse[name] = n_reuse
        pos = 0
        bad = 0
        for h in hist:
            hi = impl[pos:pos + len(h)]; hm = model[pos:pos + len(h)]
            ck.count((name, tuple(h)), len(h) >= 5 and any(' n=0 ' in x for x in hm[2:]), n=len(hi))
            for j, (a, m) in enumerate(zip(hi, hm)):
                if a != m:
                    bad += 1
                    ck.fail('c20:gc:' + hashlib.sha256((name + '\n'.join(h[:j + 1])).encode()).hexdigest()[:12],
                            'gc.c differs from the model on %s after "%s": impl=%s model=%s' % (name, h[j], a[:200], m[:200]),
                            dict(part='gc', engine=name, history=h[:j + 1], model_lines=mlines[pos:pos + j + 1], expected_model=m, observed_impl=a,
                                 correspondence='gc_probe vs nvref_c20'))
                    break
            pos += len(h)
            if bad > 5: break
        if any('GINV-BROKEN' in m for m in model):
            k = next(i for i, m in enumerate(model) if 'GINV-BROKEN' in m)
            ck.fail('c20:gc:inv-broken', 'extracted gc model: invariant check fails after "%s"' % mlines[k], dict(part='gc', line=mlines[k], model=model[k]))
        # the two witnesses of C20_gc_double_release_asserted_refuted, on the real code
        w0 = impl[:len(GC_WITNESSES[0])]
        stats['witness_double_release_silent:' + name] = (w0[3:5] if len(w0) >= 5 else w0)
        w1 = impl[len(GC_WITNESSES[0]):len(GC_WITNESSES[0]) + len(GC_WITNESSES[1])]
        stats['witness_stale_release_after_reuse:' + name] = (w1[3:6] if len(w1) >= 6 else w1)
    k = next((i for i, l in enumerate(lines) if l.startswith('release') and i > 20), 3)
    ck.sample(dict(op=lines[k], impl=impl[k] if k < len(impl) else None, model=model[k] if k < len(model) else None, engine=name))
    stats['gc_lines'] = len(lines)
    stats['address_reuse_events'] = reuse
    return {k: v for k, v in stats.items()}



# ------------------------------------------------------------------------------------------------ the emitted string builder
SB_PIECES = [0, 1, 2, 127, 128, 254, 255, 256, 257, 510, 511, 512, 513, 1023, 1024, 1025, 5000]


def sb_extra():
    inc = os.path.join(vlib.BUILD, 'gen', 'nl_fmt_sb.inc')
    h = hashlib.sha256(open(inc, 'rb').read()).hexdigest()[:16]
    return ['-DSB_INC="%s"' % inc, '-DSB_HASH=0x%s' % h]


def gen_sb_history(rng, stats):
    """appends to one builder: single long pieces and runs of short ones, lengths chosen so that len + n + 1 lands just below, on and
    just above the capacity the builder has at that moment (capacity tracked as the looping rule predicts: cap doubles until it suffices)"""
    init = rng.choice([256, 256, 256, 0, 1, 128, 257])
    lines = ['sbnew %d' % init]
    cap = init or 128; ln = 0
    for _ in range(rng.randrange(2, 14)):
        r = rng.random()
        if r < 0.35:
            n = rng.choice(SB_PIECES); stats['sb:piece:%d' % n] += 1
        elif r < 0.7:
            # land needed = len + n + 1 on cap-1 / cap / cap+1 / 2cap / 2cap+1 / 4cap+1
            target = rng.choice([cap - 1, cap, cap + 1, 2 * cap, 2 * cap + 1, 4 * cap + 1])
            n = max(0, target - ln - 1); stats['sb:needed_vs_cap:%s' % ('<=cap' if ln + n + 1 <= cap else '<=2cap' if ln + n + 1 <= 2 * cap else '>2cap')] += 1
        elif r < 0.85:
            for _ in range(rng.randrange(1, 40)):
                lines.append('chr'); ln += 1
                while ln + 1 > cap: cap *= 2
            stats['sb:char_runs'] += 1
            continue
        else:
            n = rng.randrange(0, 40); stats['sb:short_piece'] += 1
        if ln + n > 40000:
            break
        lines.append('cstr %d' % n); ln += n
        while ln + 1 > cap: cap *= 2
    stats['sb:histories'] += 1
    return lines


def sb_correspondence(ck, ref):
    from collections import Counter
    stats = Counter()
    rng = ck.rng
    probe = ck.probe('sb_probe.c', 'asan', extra=sb_extra())
    hist = [['sbnew 256', 'chr', 'cstr 600', 'chr'],                       # the seeded-change witness shape: '[' then one 600-byte piece
            ['sbnew 256', 'cstr 255', 'cstr 1', 'cstr 255', 'cstr 1', 'cstr 511'],
            ['sbnew 256'] + ['cstr 3'] * 400]
    for _ in range(1500 if ck.thorough else 200):
        hist.append(gen_sb_history(rng, stats))
    lines = [l for h in hist for l in h]
    model = vlib.run_lines(ref, lines, timeout=600)
    # histories the model itself calls undefined (only possible when the growth rule read from the source is not the looping one)
    pos = 0; defined = []; crashing = []
    for h in hist:
        hm = model[pos:pos + len(h)]
        (crashing if any(m in ('crash', 'loop') for m in hm) else defined).append((h, hm))
        pos += len(h)
    dl = [l for h, _ in defined for l in h]
    rc, o, e = vlib.sh([probe], input=('\n'.join(dl) + '\n').encode(), timeout=600, env=ASAN_ENV)
    impl = o.splitlines()
    if rc != 0 or san_lines(e) or len(impl) != len(dl):
        k = len(impl)
        ck.fail('c20:sb:crash:' + hashlib.sha256('\n'.join(dl[max(0, k - 20):k + 1]).encode()).hexdigest()[:12],
                'sb_probe died / sanitizer report on appends the model calls defined (rc=%s) at "%s": %s' % (rc, dl[k] if k < len(dl) else '?', '; '.join(san_lines(e)[:2])),
                dict(part='sb', history=dl[max(0, k - 20):k + 1], stderr=e[-2500:], engine='sb_probe(asan)'))
    pos = 0
    for h, hm in defined:
        hi = impl[pos:pos + len(h)]
        ck.count(('sb', tuple(h)), any('cap=' in x and ' cap=256 ' not in x and ' cap=128 ' not in x for x in hm), n=len(hi))
        for j, (a, m) in enumerate(zip(hi, hm)):
            if a != m:
                ck.fail('c20:sb:' + hashlib.sha256('\n'.join(h[:j + 1]).encode()).hexdigest()[:12],
                        'emitted string builder differs from the model after "%s": impl=%s model=%s' % (h[j], a, m),
                        dict(part='sb', history=h[:j + 1], expected_model=m, observed_impl=a, correspondence='sb_probe vs nvref_c20'))
                break
        pos += len(h)
    # the failing input when the model (following the source's growth rule) predicts an overflow: replay on the real helpers
    for h, hm in crashing[:6]:
        k = next(i for i, m in enumerate(hm) if m in ('crash', 'loop'))
        rc, o, e = vlib.sh([probe], input=('\n'.join(h[:k + 1]) + '\n').encode(), timeout=60, env=ASAN_ENV)
        sl = san_lines(e)
        ck.count(('sb-crash', tuple(h[:k + 1])), True)
        if rc != 0 and sl:
            ck.fail('c20:sb:overflow:' + '+'.join(x.replace(' ', '') for x in h[:k + 1])[:80],
                    'emitted string builder writes outside its block on the appends %r: %s' % (h[:k + 1], sl[0][:160]),
                    dict(part='sb', history=h[:k + 1], stderr=e[-2500:], engine='sb_probe(asan)', expected_model=hm[k]))
        else:
            ck.fail('c20:sb:model-crash-not-real:' + '+'.join(x.replace(' ', '') for x in h[:k + 1])[:80],
                    'model of the emitted string builder predicts %s on %r but the real helpers survive' % (hm[k], h[:k + 1]),
                    dict(part='sb', history=h[:k + 1], expected_model=hm[k], observed_impl=o.splitlines()[-1:], correspondence='sb_probe vs nvref_c20'))
    stats['sb:lines'] = len(lines); stats['sb:histories_model_calls_undefined'] = len(crashing)
    if impl:
        k = next((i for i, l in enumerate(dl) if l.startswith('cstr 5000')), 2)
        ck.sample(dict(op=dl[k], impl=impl[k] if k < len(impl) else None, model=[m for h, hm in defined for m in hm][k]))
    return dict(stats)



# ------------------------------------------------------------------------------------------------ the runtime list template
def list_extra():
    gen = os.path.join(vlib.BUILD, 'gen', 'list_Pt.c')
    h = hashlib.sha256(open(gen, 'rb').read()).hexdigest()[:16]
    return ['-DLIST_PT_C="%s"' % gen, '-I' + os.path.join(vlib.BUILD, 'gen'), '-DLIST_HASH=0x%s' % h]


def gen_list_history(rng, maxlen, init, growth, stats):
    """one history on the list template: insert at 0 / middle / end, remove, set, get, pop, push, clear with the length driven to
    capacity-1, capacity, capacity+1 of every step of the growth sequence (capacity tracked exactly from the measured INITIAL/GROWTH)"""
    eng = rng.choice(['int', 'int', 'str', 'gen'])
    c0 = rng.choice([None, None, None, 0, 1, 3, 7, 8, 9, 17])
    if c0 is None:
        lines = ['lnew ' + eng]; cap = init
    else:
        lines = ['lcap %s %d' % (eng, c0)]; cap = c0
    st = dict(n=0, cap=cap)

    def grow(m):
        if st['cap'] >= m: return
        c = st['cap'] or init
        while c < m: c *= growth
        st['cap'] = c

    def val():
        return rng.choice([0, 1, 0x7fffffffffffffff, 0xffffffffffffffff]) if rng.random() < 0.2 else rng.getrandbits(rng.choice([8, 32, 64]))

    def cls():
        c = st['cap']
        if c and st['n'] == c - 1: return 'cap-1'
        if st['n'] == c: return 'cap'
        if c > init and st['n'] == c // growth + 1: return 'cap+1'
        return 'other'

    def insert(where=None):
        n = st['n']; where = where or rng.choice(['front', 'middle', 'end'])
        i = 0 if where == 'front' or n == 0 else n if where == 'end' else rng.randrange(1, n) if n > 1 else 0
        stats['list:insert:%s:%s' % ('front' if i == 0 else 'end' if i == n else 'middle', cls())] += 1
        grow(n + 1); lines.append('ins %d %x' % (i, val())); st['n'] += 1

    def push():
        stats['list:push:%s' % cls()] += 1
        grow(st['n'] + 1); lines.append('push %x' % val()); st['n'] += 1

    L = rng.randrange(8, maxlen + 1)
    while len(lines) < L:
        r = rng.random(); n = st['n']
        if r < 0.28:
            want = rng.choice(['cap-1', 'cap', 'cap+1'])
            c = st['cap'] or init
            target = {'cap-1': c - 1, 'cap': c, 'cap+1': c + 1}[want]
            if target > 150: target = rng.choice([7, 8, 9])
            while st['n'] < target: (push if rng.random() < 0.5 else insert)()
            while st['n'] > target:
                lines.append(rng.choice(['pop', 'rm %d' % rng.randrange(st['n'])])); st['n'] -= 1
            insert(rng.choice(['front', 'middle', 'middle', 'end']))
            lines.append('get %d' % rng.randrange(st['n']))
        elif r < 0.40: insert()
        elif r < 0.50: push()
        elif r < 0.58 and n:
            lines.append('rm %d' % rng.choice([0, n - 1, rng.randrange(n)])); st['n'] -= 1; stats['list:remove'] += 1
        elif r < 0.64 and n:
            lines.append('pop'); st['n'] -= 1; stats['list:pop'] += 1
        elif r < 0.72 and n:
            lines.append('set %d %x' % (rng.randrange(n), val())); stats['list:set'] += 1
        elif r < 0.80 and n:
            lines.append('get %d' % rng.randrange(n)); stats['list:get'] += 1
        elif r < 0.84: lines.append(rng.choice(['len', 'cap', 'empty']))
        elif r < 0.86:
            lines.append('clear'); st['n'] = 0; stats['list:clear'] += 1
        elif r < 0.90:
            # the defined stop: index outside the list / pop of the empty list -> "Error: ..." exit(1)
            bad = rng.choice(['get %d' % n, 'get -1', 'set %d 1' % n, 'rm %d' % n, 'ins %d 1' % (n + 1), 'ins -1 1'] + (['pop'] if n == 0 else []))
            lines.append(bad); stats['list:exit_expected'] += 1
            break
    stats['list:histories'] += 1; stats['list:engine:' + eng] += 1
    return lines


def list_correspondence(ck, ref):
    from collections import Counter
    stats = Counter()
    rng = ck.rng
    inv = json.load(open(os.path.join(vlib.BUILD, 'gen', 'list_inventory.json')))
    init, growth = inv['initial_capacity'], inv['growth_factor']
    probe = ck.probe('list_probe.c', 'asan', extra=list_extra())
    # the shape of the third-round seeded change: insert into a FULL list at an index that is not the end (8, 16, 32 elements)
    hist = []
    for eng in ('int', 'str', 'gen'):
        for full in (8, 16, 32):
            hist.append(['lnew ' + eng] + ['push %x' % (i + 1) for i in range(full)] + ['ins 3 aa', 'get 3', 'get %d' % full, 'ins 0 bb', 'rm 4', 'len'])
    hist.append(['lnew int'] + ['ins %d %x' % (i, v) for i, v in zip([0, 1, 0, 2, 4, 1, 4, 7, 3, 7, 1, 6], [3, 8, 0, 5, 10, 2, 7, 12, 4, 9, 1, 6])] + ['cap'])
    nh, maxlen = (2500, 400) if ck.thorough else (400, 200)
    for _ in range(nh):
        hist.append(gen_list_history(rng, maxlen, init, growth, stats))
    lines = [l for h in hist for l in h]
    rc, o, e = vlib.sh([probe], input=('\n'.join(lines) + '\n').encode(), timeout=900, env=ASAN_ENV)
    impl = o.splitlines()
    model = vlib.run_lines(ref, lines, timeout=900)
    sl = san_lines(e)
    if rc != 0 or sl or len(impl) != len(lines):
        k = len(impl); pos, hh = 0, None
        for h in hist:
            if pos + len(h) > k: hh = h[:k - pos + 1]; break
            pos += len(h)
        ck.fail('c20:list:crash:' + hashlib.sha256('\n'.join(hh or []).encode()).hexdigest()[:12],
                'list_probe died / sanitizer report on a history the model calls defined (rc=%s) at "%s": %s' % (rc, lines[k] if k < len(lines) else '?', '; '.join(sl[:2])),
                dict(part='list', history=hh, stderr=e[-3000:], engine='list_probe(asan)', model_says=model[k] if k < len(model) else None))
    pos = 0; bad = 0
    for h in hist:
        hi = impl[pos:pos + len(h)]; hm = model[pos:pos + len(h)]
        ck.count(('list', tuple(h)), len(h) >= 5 and any(' cap=' in x and ' cap=%d ' % init not in x and ' cap=0 ' not in x for x in hm), n=len(hi))
        for j, (a, m) in enumerate(zip(hi, hm)):
            if a != m:
                bad += 1
                ck.fail('c20:list:' + hashlib.sha256('\n'.join(h[:j + 1]).encode()).hexdigest()[:12],
                        'runtime list differs from the model after "%s" (%s): impl=%s model=%s' % (h[j], h[0], a[:200], m[:200]),
                        dict(part='list', history=h[:j + 1], expected_model=m, observed_impl=a, correspondence='list_probe vs nvref_c20'))
                break
        pos += len(h)
        if bad > 8: break
    if any('ABS-MISMATCH' in m or 'RINV-BROKEN' in m or m.startswith('crash') for m in model):
        k = next(i for i, m in enumerate(model) if 'ABS-MISMATCH' in m or 'RINV-BROKEN' in m or m.startswith('crash'))
        ck.fail('c20:list:model-selfcheck', 'extracted list model: concrete and abstract step disagree / invariant / crash at "%s": %s' % (lines[k], model[k][:200]), dict(part='list', line=lines[k]))
    # every list_*.c must be either an instance of the probed template or probed itself
    notcovered = [d['file'] for d in inv['different'] if d['file'] != 'list_string.c']
    if notcovered or not inv['generated_script_is_template']:
        ck.fail('c20:list:not-the-template:' + ','.join(notcovered or ['generate_list.sh']),
                'runtime list file(s) whose text deviates from the template the other %d list files share (list_int.c is the probed and modelled instance): %s' % (
                    len(inv['template_instances']), notcovered or 'scripts/generate_list.sh output'), dict(part='list', files=notcovered))
    stats['list:lines'] = len(lines)
    k = next((i for i, l in enumerate(lines) if l.startswith('ins 3 aa')), 3)
    ck.sample(dict(op=lines[k], impl=impl[k] if k < len(impl) else None, model=model[k]))
    return dict(stats), inv


# ------------------------------------------------------------------------------------------------ emitted HashMap<K,V>
HM_ENGINES = {'si': ('string', 'int'), 'is': ('int', 'string'), 'ss': ('string', 'string'), 'ii': ('int', 'int')}


def hm_extra():
    inc = os.path.join(vlib.BUILD, 'gen', 'nl_hashmap.inc')
    h = hashlib.sha256(open(inc, 'rb').read()).hexdigest()[:16]
    return ['-DHM_INC="%s"' % inc, '-DHM_HASH=0x%s' % h]


def hm_key(k):
    return ('s:%s' % k) if isinstance(k, str) else ('i:%x' % (k & c20_native.M64))


def hm_chain_history(P, eng, k, slot, removes_idx, start):
    """k keys of ONE probe chain (same home slot in the initial table, keys chosen by computing the emitted hash), the keys at
    `removes_idx` removed, everything looked up, removed keys re-inserted (first-tombstone reuse), all but the last removed, growth past
    the load factor, lookups in the grown table, clear"""
    kt = HM_ENGINES[eng][0]
    keys = c20_native.hm_chain(P, kt, slot, k + 2, P['init'], start=start)
    chain, absent, other = keys[:k], keys[k], keys[k + 1]
    L = ['hnew ' + eng]
    L += ['put %s %x' % (hm_key(key), i + 1) for i, key in enumerate(chain)]
    for i in removes_idx:
        L += ['rm ' + hm_key(chain[i]), 'has ' + hm_key(chain[i])]
    look = [op + ' ' + hm_key(key) for key in chain + [absent] for op in ('has', 'get')]
    L += look + ['len']
    L += ['put %s %x' % (hm_key(chain[i]), 0x70 + i) for i in removes_idx[:1]] + ['put %s 99' % hm_key(absent), 'put %s 9a' % hm_key(chain[-1])] + look + ['keys']
    L += ['rm ' + hm_key(key) for key in chain[:-1]] + ['rm ' + hm_key(absent)] + look + ['len', 'rm ' + hm_key(other), 'put %s 5' % hm_key(other)]
    fill = c20_native.hm_chain(P, kt, (slot + 5) % 16, 14, P['init'], start=start + 7000)
    L += ['put %s %x' % (hm_key(key), 0x100 + i) for i, key in enumerate(fill)] + look + ['get ' + hm_key(fill[0]), 'get ' + hm_key(fill[-1]), 'len', 'keys']
    L += ['put %s %x' % (hm_key(key), 0x200 + i) for i, key in enumerate(chain)] + ['rm ' + hm_key(chain[1]), 'rm ' + hm_key(chain[0])] + look
    L += ['clear', 'len'] + look[:4] + ['put %s 1' % hm_key(chain[-1]), 'get ' + hm_key(chain[-1]), 'keys']
    return L


def gen_hm_history(rng, P, maxlen, stats):
    eng = rng.choice(list(HM_ENGINES))
    kt = HM_ENGINES[eng][0]
    # a small universe of keys concentrated on 1-3 home slots (of the 16-slot table), plus a few unrelated / extreme ones
    uni = []
    for _ in range(rng.randrange(1, 4)):
        uni += c20_native.hm_chain(P, kt, rng.randrange(16), rng.randrange(2, 8), P['init'], start=rng.randrange(0, 5000), prefix=rng.choice(['k', 'id', 'session-']))
    if kt == 'int':
        uni += [0, 0xffffffffffffffff, 0x8000000000000000, rng.getrandbits(64)]
    else:
        uni += ['', 'a', 'x' * rng.randrange(1, 300)]
    L = ['hnew ' + eng]
    val = lambda: rng.randrange(1, 1 << rng.choice([4, 16, 63]))
    for _ in range(rng.randrange(4, maxlen)):
        r = rng.random()
        key = rng.choice(uni)
        if r < 0.34: L.append('put %s %x' % (hm_key(key), val())); stats['hm:put'] += 1
        elif r < 0.56: L.append('rm ' + hm_key(key)); stats['hm:remove'] += 1
        elif r < 0.72: L.append('has ' + hm_key(key)); stats['hm:has'] += 1
        elif r < 0.88: L.append('get ' + hm_key(key)); stats['hm:get'] += 1
        elif r < 0.91: L.append('len')
        elif r < 0.94: L.append('keys')
        elif r < 0.955: L.append('clear'); stats['hm:clear'] += 1
        else:
            # a burst of fresh keys: growth (and the tombstones of the old table disappear)
            burst = c20_native.hm_chain(P, kt, rng.randrange(16), rng.randrange(3, 20), P['init'], start=rng.randrange(10000, 90000), prefix='b')
            L += ['put %s %x' % (hm_key(k2), val()) for k2 in burst]; uni += burst[:3]; stats['hm:burst'] += 1
    stats['hm:histories'] += 1; stats['hm:engine:' + eng] += 1
    return L


def hm_correspondence(ck, ref):
    from collections import Counter
    stats = Counter()
    rng = ck.rng
    P = c20_native.hm_params()
    raw = json.load(open(os.path.join(vlib.BUILD, 'gen', 'hashmap_params.json')))
    stats['hm:find_slot_shape'] = raw.get('shape')
    probe = ck.probe('hm_probe.c', 'asan', extra=hm_extra())
    hist = []
    # the shape of the fourth-round seeded change: 11 keys in 16 slots, 8 removed, 14 looked up
    for eng in HM_ENGINES:
        kk = (lambda i: 'session-%d' % i) if HM_ENGINES[eng][0] == 'string' else (lambda i: 1000 + 37 * i)
        hist.append(['hnew ' + eng] + ['put %s %x' % (hm_key(kk(i)), i + 1) for i in range(11)] + ['rm ' + hm_key(kk(i)) for i in range(8)] +
                    [op + ' ' + hm_key(kk(i)) for i in range(14) for op in ('has', 'get')] + ['len', 'keys'])
    n = 0
    for eng in HM_ENGINES:
        for k in (2, 3, 4, 5, 6, 8):
            pats = [[0], [1], [0, 1], [1, 0], list(range(k - 1)), list(range(k - 2, -1, -1))] + ([[1, 2], [0, 2]] if k >= 4 else [])
            for slot in (3, 14 if k > 2 else 15):            # the second chain wraps around the end of the table
                for pat in pats:
                    pat = [i for i in pat if i < k - 1] or [0]
                    n += 1
                    hist.append(hm_chain_history(P, eng, k, slot, pat, 50 * n)); stats['hm:chain_histories'] += 1
                    stats['hm:chain:tombstones_before_live=%d' % len(pat)] += 1
    nh, maxlen = (1200, 160) if ck.thorough else (160, 90)
    for _ in range(nh):
        hist.append(gen_hm_history(rng, P, maxlen, stats))
    bad = 0
    for eng in HM_ENGINES:                                      # one probe process per instantiation
        hs = [h for h in hist if h[0] == 'hnew ' + eng]
        lines = [l for h in hs for l in h]
        rc, o, e = vlib.sh([probe], input=('\n'.join(lines) + '\n').encode(), timeout=900, env=ASAN_ENV)
        impl = o.splitlines()
        model = vlib.run_lines(ref, lines, timeout=900)
        sl = san_lines(e)
        if rc != 0 or sl or len(impl) != len(lines):
            k = len(impl); pos, hh = 0, None
            for h in hs:
                if pos + len(h) > k: hh = h[:k - pos + 1]; break
                pos += len(h)
            ck.fail('c20:hm:crash:%s:%s' % (eng, hashlib.sha256('\n'.join(hh or []).encode()).hexdigest()[:12]),
                    'hm_probe (the emitted HashMap<%s,%s> helpers under ASan) died / sanitizer report at "%s" (rc=%s; the model says: %s): %s' % (
                        HM_ENGINES[eng][0], HM_ENGINES[eng][1], lines[k] if k < len(lines) else '?', rc, (model[k] if k < len(model) else '?')[:60], '; '.join(sl[:2])),
                    dict(part='hm', history=hh, stderr=e[-3000:], engine='hm_probe(asan)', model_says=model[k] if k < len(model) else None))
        pos = 0
        for h in hs:
            hi = impl[pos:pos + len(h)]; hm = model[pos:pos + len(h)]
            ck.count(('hm', tuple(h)), any(' st=' in x and 'T' in x.split(' st=')[1].split(' ')[0] for x in hm) and len(h) >= 6, n=len(hi))
            for j, (a, m) in enumerate(zip(hi, hm)):
                if a != m:
                    bad += 1
                    if m == 'crash':
                        ck.fail('c20:hm:model-compares-freed-key:%s:%s' % (eng, hashlib.sha256('\n'.join(h[:j + 1]).encode()).hexdigest()[:12]),
                                'the model built from the emitted find_slot text (tombstone branch shape %s) compares the key of a removed entry at "%s" (%s); the helpers answered %s' % (
                                    raw.get('shape'), h[j], h[0], a[:120]), dict(part='hm', history=h[:j + 1], expected_model=m, observed_impl=a))
                    else:
                        ck.fail('c20:hm:%s:%s' % (eng, hashlib.sha256('\n'.join(h[:j + 1]).encode()).hexdigest()[:12]),
                                'emitted HashMap differs from the model after "%s" (%s): impl=%s model=%s' % (h[j], h[0], a[:200], m[:200]),
                                dict(part='hm', history=h[:j + 1], expected_model=m, observed_impl=a, correspondence='hm_probe vs nvref_c20'))
                    break
            pos += len(h)
            if bad > 8: break
        if any('ABS-MISMATCH' in m for m in model):
            k = next(i for i, m in enumerate(model) if 'ABS-MISMATCH' in m)
            ck.fail('c20:hm:model-selfcheck', 'extracted HashMap model: table and association list disagree at "%s": %s' % (lines[k], model[k][:200]), dict(part='hm', line=lines[k]))
        stats['hm:lines:' + eng] = len(lines)
        stats['hm:max_capacity:' + eng] = max([int(x.split(' cap=')[1].split(' ')[0]) for x in model if ' cap=' in x] or [0])
        if eng == 'si':
            k = next((i for i, l in enumerate(lines) if l.startswith('has s:session-8')), 3)
            ck.sample(dict(op=lines[k], impl=impl[k] if k < len(impl) else None, model=model[k]))
    return dict(stats)


RUNTIME_INVENTORY = {
    'src/runtime/dyn_array.c': 'MODELLED (NV.Runtime.DynArray, refinement + invariant) + probe dyn_probe + native shapes arr_ops_*, self_ref_*, structs, nested_arrays',
    'src/runtime/gc.c': 'MODELLED without children (NV.Runtime.Gc) + probe gc_probe (3 engines); gc_mark / finalizers only through native runs (gc_tail, NANO_GC_THRESHOLD_MB=1; the gc_mark-over-inline-structs finding is fixed by 749aa39)',
    'src/runtime/gc_struct.c': 'NOT MODELLED; compiled into every native program but only reached through gc_mark/gc_destroy of GC_TYPE_STRUCT objects, which emitted code does not allocate (structs are C values); exercised only by the native runs',
    'src/runtime/list_int.c': 'MODELLED (NV.Runtime.ListRt, refinement to the plain list + invariant) + probe list_probe engine int + native shape lists_int',
    'src/runtime/list_string.c': 'same template with strdup/free of elements: probe list_probe engine str against the same model + native shape lists_string; 2 open findings on the ownership of strings handed out by list_string_get',
    'src/runtime/list_token.c, list_LexerToken.c, list_AST*.c, list_Compiler*.c (38 files)': 'TEXT-IDENTICAL to list_int.c up to element type / identifier prefix: checked on every run by tools/gen/gen_listrt.py (build/gen/list_inventory.json); a file that stops being the template fails the check (c20:list:not-the-template)',
    'scripts/generate_list.sh output (List<UserStruct> without a runtime file)': 'same template (checked); compiled into list_probe as engine gen with a 16-byte struct',
    'inline List<UserStruct> specialisation emitted by src/transpiler.c (nl_list_T_new/push/get/set/length, capacity 4, doubling)': 'generator-covered only: native shape lists_struct (push/get/set/length across 4/8/16/32); get has no bounds test -> open finding c20:native:asan:list_generic_get:index-out-of-range',
    'emitted string builder nl_fmt_sb_* (src/stdlib_runtime.c)': 'MODELLED (NV.Runtime.FmtSb, growth rule read from the emitted text) + probe sb_probe + native shape fmt_composite',
    'emitted helpers of src/stdlib_runtime.c (nl_array_slice, nl_str_*, int/float text, path_*, bytes)': 'nl_array_slice inside the DynArray model; the others generator-covered: native shapes buffers, str_loop, str_array_calls (see buffer_sites)',
    'emitted HashMap<K,V> specialisations (src/transpiler.c generate_hashmap_implementations: nl_hashmap_<K>_<V>_*)': 'MODELLED (NV.Runtime.HashMapRt: open addressing with tombstones; capacity, load factor, growth, hash constants and the shape of the tombstone branch read from the emitted text by tools/gen/gen_hashmap.py; refinement to the association list + invariant + no-access-to-a-freed-key) + probe hm_probe (the emitted text of the four instantiations under ASan) + native shapes hashmap, hashmap_chains and the fixed program edges_hashmap_chains (the 5 string-ownership findings are fixed by 855352b)',
    'src/runtime/hashmap_bootstrap.c': 'OUT OF SCOPE: not in the runtime list nanoc links into native programs (used by the self-hosted compiler bootstrap only)',
    'src/runtime/nl_string.c': 'linked into every native program but no emitted code calls nl_string_* (strings are char* from gc_alloc_string): not reached by accepted core programs; not modelled',
    'src/runtime/cli.c, regex.c, token_helpers.c, ffi_loader.c, sdl_helpers.c, schema_lists.c': 'OUT OF SCOPE: command-line / regex module / self-hosting / FFI helpers reached only through module imports or extern declarations, not by core-language programs',
}



def run(ck):
    b = ck.build('plain')
    ck.gen(['gen_rtparams', 'gen_fmtsb', 'gen_listrt', 'gen_hashmap'])
    FLAGS.update(measured_flags())
    c20_native.PUSH_OWN_STRUCT_SAFE = FLAGS['push_self_safe']
    ck.extra['measured_flags'] = dict(FLAGS)
    ck.prove()
    ref = ck.nvref('c20')
    probe = ck.probe('dyn_probe.c', 'asan', extra=probe_extra())
    st = dyn_correspondence(ck, probe, ref)
    crashes = dyn_crash_cases(ck, probe, ref)
    ck.extra['dyn'] = dict(input_distribution=st, crash_cases=crashes)
    n1 = ck.cov['evaluations']
    ck.extra['gc'] = gc_correspondence(ck, ref)
    ck.extra['string_builder'] = sb_correspondence(ck, ref)
    ck.extra['list'], linv = list_correspondence(ck, ref)
    ck.extra['hashmap'] = hm_correspondence(ck, ref)
    ck.extra['runtime_inventory'] = dict(RUNTIME_INVENTORY, list_files_checked=dict(template_instances=len(linv['template_instances']), different=[d['file'] for d in linv['different']],
                                                                                      generate_list_sh_is_template=linv['generated_script_is_template']))
    n2 = ck.cov['evaluations']
    rule_native = c20_native.native(ck, b)
    ck.extra['evaluations_by_part'] = dict(dyn=n1, gc=n2 - n1, native=ck.cov['evaluations'] - n2)
    ck.extra['exhaustive'] = False
    ck.cov['rule'] = ('dyn: generated histories over all 8 element kinds (typed push/pop/get/set, remove_at, clear, reserve, clone, emitted '
                      'nl_array_slice, struct push/get/set/pop incl. auto-promotion, wrong-type and wrong-size calls), indices on both sides of '
                      'every bound, lengths driven across the growth points 8/9/16/17/32/33; plus self-referential histories (value operand = element of the SAME '
                      'array: pushat/setat/pushpop for every typed family, pushse/setse = the emitted struct calls) placed at length == capacity-1, capacity, '
                      'capacity+1 of every growth step with the capacity tracked exactly; state (kind, elem_size, length, capacity, contents) '
                      'compared after every operation; non-trivial = history of >= 4 ops with a non-empty array; distinct = distinct history.  '
                      'gc: generated alloc/retain/release/is_managed/collect histories (well-behaved with raw retain; and with stale releases of freed '
                      'handles + guarded retain) on three engines (ASan, ASan without quarantine = address reuse, plain build); list order, reference '
                      'counts, set membership and statistics compared after every operation; non-trivial = some object released to zero.  '
                      'list: the runtime list template (list_int.c, list_string.c, generate_list.sh output) on histories of push / pop / insert front-middle-end / remove / set / get / clear '
                      'with the length at capacity-1 / capacity / capacity+1 of every growth step, contents and capacity compared after every operation.  '
                      'hm: the emitted HashMap<K,V> helpers of the four instantiations (text compiled into hm_probe): chain histories whose keys are chosen by computing the emitted hash '
                      '(2..8 keys with one home slot, incl. chains wrapping the end of the table; the 1st / 2nd / first two / all but the last removed; lookups of every key; re-insertion into the first tombstone; growth past the load factor; clear) '
                      'and generated histories over key universes concentrated on 1-3 home slots; size, tombstones, capacity, the state of every slot and a hash of the live (slot, key, value) triples compared after every operation; non-trivial = the table held a tombstone.  '
                      'sb: the emitted string builder nl_fmt_sb_* (helper text compiled into sb_probe) on append histories whose needed size lands on capacity-1 / capacity / '
                      'capacity+1 / 2*capacity(+1) / 4*capacity+1 and pieces 0..5000; len, cap, NUL, strlen and a hash of the text compared after every append.  '
                      'native: ' + (rule_native or ''))
    ck.trusted += ['translator tools/gen/dump_rtparams.c + gen_rtparams.py (constants measured by calling dyn_array.c; text of nl_array_slice taken from generate_math_utility_builtins)',
                   'extraction: ExtrOcamlBasic only; extract/nvio.ml, nvio_z.ml, c20_driver.ml',
                   'probes/dyn_probe.c (values passed as raw 64-bit patterns; string/array elements are opaque pointers, never dereferenced by dyn_array.c)',
                   'translator tools/gen/dump_listrt.c + gen_listrt.py (list constants measured by calling list_int.c; textual identity of the other list files by normalising identifiers); probes/list_probe.c #includes the three list sources with exit() redirected',
                   'translator tools/gen/dump_fmtsb.c + gen_fmtsb.py (growth rule and constants of nl_fmt_sb_ensure read from the emitted text by pattern; the remaining tokens compared with a template); probes/sb_probe.c compiles that text',
                   'translator tools/gen/gen_hashmap.py (runs nanoc -S of the compiler under test on a program instantiating the four maps; constants by pattern, the tombstone branch of find_slot by token template); probes/hm_probe.c compiles that text',
                   'probes/gc_probe.c (#includes gc.c to read the private gc_state; allocation addresses are reported by the probe and fed to the model)',
                   'tools/props/c20_native.py (program generator with a Python model of the expected stdout; cc -fsanitize=address,undefined,float-cast-overflow)']
    ck.assumptions += ['gc model: objects without children (gc_struct fields, the element walk of gc_mark and finalizers are not modelled; the native runs exercise them); fewer than 2^32 retains per object; the 256 MB auto-collection threshold is not reached in the probe',
                       'the ARC/cleanup code emitted by the transpiler is not modelled: its safety is exhibited only by the sanitizer runs of generated native programs',
                       'malloc/realloc succeed for requests up to 2^20 cells (growth is assumed to succeed); above that the model answers Oom and the history is not compared further',
                       'little-endian host, 64-bit pointers; bool is one byte holding 0/1',
                       'struct elements of 1..255 bytes (elem_size is a uint8_t: a struct of >= 256 bytes is refused by assert, size 0 is outside the model)',
                       'dyn_array_reserve / new_with_capacity with capacity*elem_size >= 2^63 is undefined (signed overflow, confirmed under UBSan) and outside the domain: the size is caller-controlled and no emitted code calls these']


def replay(ck, d):
    if d.get('key', '').startswith('c20:native:') or 'program' in d:
        ck.build('plain')
        return c20_native.replay_native(ck, d)
    ck.build('plain'); ck.gen(['gen_rtparams', 'gen_fmtsb', 'gen_listrt', 'gen_hashmap'])
    ref = ck.nvref('c20')
    if d.get('part') == 'list':
        probe = ck.probe('list_probe.c', 'asan', extra=list_extra())
        h = d.get('history') or []
        rc, o, e = vlib.sh([probe], input=('\n'.join(h) + '\n').encode(), timeout=60, env=ASAN_ENV)
        impl = o.splitlines(); model = vlib.run_lines(ref, h)
        for l, a, m in zip(h, impl + ['<died>'] * len(h), model):
            print('%-14s impl : %s\n%-14s model: %s' % (l, a[:150], '', m[:150]))
        print('rc=%s' % rc); print('\n'.join(san_lines(e)))
        same = rc == 0 and impl == model
        print('REPRODUCED' if not same else 'not reproduced')
        return 0 if same else 1
    if d.get('part') == 'hm':
        probe = ck.probe('hm_probe.c', 'asan', extra=hm_extra())
        h = d.get('history') or []
        rc, o, e = vlib.sh([probe], input=('\n'.join(h) + '\n').encode(), timeout=60, env=ASAN_ENV)
        impl = o.splitlines(); model = vlib.run_lines(ref, h)
        for l, a, m in zip(h, impl + ['<died>'] * len(h), model):
            print('%-22s impl : %s\n%-22s model: %s' % (l[:22], a[:170], '', m[:170]))
        print('rc=%s' % rc); print('\n'.join(san_lines(e)))
        same = rc == 0 and impl == model
        print('REPRODUCED' if not same else 'not reproduced')
        return 0 if same else 1
    if d.get('part') == 'sb':
        probe = ck.probe('sb_probe.c', 'asan', extra=sb_extra())
        h = d.get('history') or []
        rc, o, e = vlib.sh([probe], input=('\n'.join(h) + '\n').encode(), timeout=60, env=ASAN_ENV)
        impl = o.splitlines(); model = vlib.run_lines(ref, h)
        for l, a, m in zip(h, impl + ['<died>'] * len(h), model):
            print('%-12s impl : %s\n%-12s model: %s' % (l, a, '', m))
        print('rc=%s' % rc); print('\n'.join(san_lines(e)))
        same = rc == 0 and impl == model
        print('REPRODUCED' if not same else 'not reproduced')
        return 0 if same else 1
    if d.get('part') == 'gc':
        variant = 'plain' if 'plain' in d.get('engine', '') else 'asan'
        env = dict(os.environ) if variant == 'plain' else dict(ASAN_ENV)
        if 'no-quarantine' in d.get('engine', ''):
            env['ASAN_OPTIONS'] += ':quarantine_size_mb=0:thread_local_quarantine_size_kb=0'
        probe = ck.probe('gc_probe.c', variant)
        h = d.get('history') or []
        rc, o, e = vlib.sh([probe], input=('\n'.join(h) + '\n').encode(), timeout=60, env=env)
        impl = o.splitlines()
        model = vlib.run_lines(ref, gc_translate(h[:len(impl)], impl))
        for l, a, m in zip(h, impl, model):
            print('%-16s impl : %s\n%-16s model: %s' % (l, a[:160], '', m[:160]))
        print('rc=%s' % rc); print('\n'.join(san_lines(e)))
        same = rc == 0 and impl == model and len(impl) == len(h)
        print('REPRODUCED' if not same else 'not reproduced')
        return 0 if same else 1
    probe = ck.probe('dyn_probe.c', 'asan', extra=probe_extra())
    h = d.get('history') or [d.get('line')]
    rc, impl, err = run_probe(probe, h, timeout=60)
    model = vlib.run_lines(ref, h)
    for l, a, m in zip(h, impl + ['<died>'] * len(h), model):
        print('%-40s impl : %s\n%-40s model: %s' % (l[:40], a[:160], '', m[:160]))
    print('rc=%s' % rc); print('\n'.join(san_lines(err)))
    same = rc == 0 and impl == model
    print('REPRODUCED' if not same else 'not reproduced')
    return 0 if same else 1
