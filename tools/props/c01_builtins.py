"""C01 -- differential sweep of the PURE BUILTINS on both real backends over boundary operands.

Why: the generated CoreS stream of c01.py never calls a builtin with a boundary operand, so a change inside one runtime helper
(e.g. the native `int_to_string` buffer) went unseen.  This module closes that gap:

 * TABLE (mk_table) lists every pure builtin of /repo/src/builtins_registry.c that takes ints/bools/strings/arrays (plus the
   string operators `+ == !=`, `range`, `array_push`, the hashmap readers and the Result helpers as hand-written cases), with
   its documented domain (docs/STDLIB.md) and a small Python reference used ONLY to stay inside that domain when operands are
   nested and to tell the triager which backend deviates (it is never the verdict: the verdict is stdout bytes + exit status of
   `nano_virt --run` versus the nanoc-compiled executable).
 * SKIP lists the pure builtins that are deliberately not swept, each with its reason.  The registry is re-read at every run: a
   pure builtin that is in neither list is reported (`c01:builtin-table:<name>`, a tie failure): the table cannot silently rot.
 * every case is one call; operands come from boundary pools restricted to the builtin's domain (out-of-range indexes and traps
   are property C08's business) and are passed (a) through identity functions, so nothing can be constant-folded, (b) as
   literals (the transpiler / C compiler may fold), and (c) for one representative per builtin directly inside `(println ...)`
   (the print dispatch of the transpiler depends on the type the checker infers for the call).
 * ~200 (quick) / 1000 (thorough) type-directed random compositions of depth 2-3 (ck.rng), plus a few permanent ones.
 * accepted program = the front end's verdict (the tool goes on); a diagnostic that does not stop it does not count as refusal.
 * running: every case ALSO runs alone on the VM (10 ms).  Cases are batched (one function per case, a marker line per case,
   stdout line-buffered for programs of many cases) and run on both backends; a program that fails loses the cases that made it
   fail (named by gcc, or the one it died in) and is rerun; a case whose observation in company differs from the VM's alone is
   seen again in other company, and alone if the two companies disagree.  Each failure is attributed to ONE case, key
   `c01:builtin:<variant>:<operands>:<idfn|literal|direct>` (`c01:builtin:nest:<expression>` for compositions).  When every
   case of a (variant, mode) fails because one backend cannot build it, ONE failure `...:<variant>:*:<mode>` is reported.  A value
   that depends on the company (unrelated earlier calls of the same program) is a defect, too: minimised (ddmin), key
   `c01:builtin-interaction:<vm|native>:<culprit builtins>><victim builtin>`.
 * open findings of known_findings.d/C01_builtins.json may describe a ROOT CAUSE by the operand region it lives in (class Known:
   `covers` = variant + `when` over the operands + `expect` over the observation).  A failing case is reported under such a key
   only when it is exactly the recorded failure; compositions inside such a region are not generated (the table reports the
   defect; its witness compositions are permanent cases); cases inside such a region run in programs of their own.
"""
import os, re, json, time, shutil, collections, hashlib, itertools
import vlib, langlib

I64MAX = 2 ** 63 - 1
I64MIN = -2 ** 63


class OOD(Exception):
    """operands outside the builtin's documented domain"""


def wrap(v):
    return ((v + 2 ** 63) % 2 ** 64) - 2 ** 63


# ------------------------------------------------------------------------------------------------ pools
S300 = (b'abcdefghij' * 30)
A40 = [0, 1, -1, 7, 48, 57, 65, 90, 97, 122, 127, 128, 255, 256, 2 ** 31 - 1, 2 ** 31, -2 ** 31, 2 ** 32, 10 ** 17, -10 ** 17,
       10 ** 18, -10 ** 18, 10 ** 18 + 1, -(10 ** 18 + 1), I64MAX, I64MIN + 1, I64MIN, 2, 3, 4, 5, 6, 8, 9, 10, 11, 12, 13, 14, 15]
S40 = [b'', b'a', b'hello', b'Hello World', b'12', b'-17', b'007', b'a\nb', b'%s', b'x y'] * 4
ALIASES = [('string', S300, 'S300'), ('aint', A40, 'A40'), ('astr', S40, 'S40')]

INTS = [0, 1, -1, 7, 48, 57, 65, 90, 97, 122, 127, 128, 255, 256, 2 ** 31 - 1, 2 ** 31, -2 ** 31, 2 ** 32, 10 ** 17, -10 ** 17,
        10 ** 18, -10 ** 18, 10 ** 18 + 1, -(10 ** 18 + 1), I64MAX, I64MIN + 1, I64MIN,
        # edges of the character classes and of 32-bit truncation
        9, 10, 13, 32, 47, 58, 64, 91, 96, 123, -128, 2 ** 32 + 65, 2 ** 32 + 48]
INTS_SMALL = [0, 1, -1, 7, 255, 2 ** 31, -2 ** 31, 10 ** 18, -(10 ** 18 + 1), I64MAX, I64MIN + 1, I64MIN]
CHARS = [c for c in INTS if 0 <= c <= 255] + [33, 126, 200]
STRS = [b'', b'a', b'hello', b'Hello World', b'12', b'-17', b'007', b'9223372036854775807', b'-9223372036854775808',
        b'a\nb', b'tab\there', b'back\\slash', b'q"uote', S300, b'100%', b'%s', b'%d', b'%s%d%n', b'h\xc3\xa9', b' ', b'0', b'A', b'z',
        b'hello world hello', b'abc']
STRS_SMALL = [b'', b'a', b'hello', b'Hello World', b'-17', b'a\nb', b'q"uote', b'%s%d%n', S300]
NUMSTRS = [b'12', b'-17', b'007', b'0', b'9223372036854775807', b'-9223372036854775808']
# strings string_to_int is documented for: a decimal integer, or "cannot be parsed" -> 0
PARSESTRS = NUMSTRS + [b'', b'a', b'hello', b'abc', b' ', b'%d']
AINTS = [[], [1], [1, 2, 3], A40, [I64MIN, -1, 0, I64MAX], [5, 5, 5, 5]]
ASTRS = [[], [b'a'], [b'x', b'yy', b''], S40, [b'%s', b'a\nb', S300]]
BOOLS = [True, False]

# user functions handed to map / filter / reduce: name -> (nanolang source, python)
FNS = {
    'dbl': ('fn dbl(v: int) -> int {\n    return (* v 2)\n}\nshadow dbl { assert (== (dbl 2) 4) }\n', lambda v: wrap(v * 2)),
    'neg': ('fn neg(v: int) -> int {\n    return (- 0 v)\n}\nshadow neg { assert (== (neg 2) -2) }\n', lambda v: wrap(-v)),
    'inc': ('fn inc(v: int) -> int {\n    return (+ v 1)\n}\nshadow inc { assert (== (inc 2) 3) }\n', lambda v: wrap(v + 1)),
    'pos': ('fn pos(v: int) -> bool {\n    return (> v 1)\n}\nshadow pos { assert (pos 2) }\n', lambda v: v > 1),
    'even': ('fn even(v: int) -> bool {\n    return (== (% v 2) 0)\n}\nshadow even { assert (even 2) }\n', lambda v: v % 2 == 0),
    'add2': ('fn add2(a: int, b: int) -> int {\n    return (+ a b)\n}\nshadow add2 { assert (== (add2 1 2) 3) }\n', lambda a, b: wrap(a + b)),
    'max2': ('fn max2(a: int, b: int) -> int {\n    if (> a b) {\n        return a\n    }\n    return b\n}\nshadow max2 { assert (== (max2 1 2) 2) }\n',
             lambda a, b: a if a > b else b),
}
FN_TYPES = {'fn_ii': ['dbl', 'neg', 'inc'], 'fn_ib': ['pos', 'even'], 'fn_iii': ['add2', 'max2']}

ID = dict(int='idi', bool='idb', string='ids', aint='ida', astr='idas', float='idf')
TYNAME = dict(int='int', bool='bool', string='string', aint='array<int>', astr='array<string>', float='float')
FLOATS = [0.0, 0.5, -0.5, 1.0, -1.0, 3.7, -3.7, 2147483648.5, -123456789.75, 1000000000000000000.0]
PRELUDE = (
    'fn idi(v: int) -> int {\n    return v\n}\nshadow idi { assert (== (idi 1) 1) }\n'
    'fn idb(v: bool) -> bool {\n    return v\n}\nshadow idb { assert (idb true) }\n'
    'fn ids(v: string) -> string {\n    return v\n}\nshadow ids { assert (== (ids "a") "a") }\n'
    'fn ida(v: array<int>) -> array<int> {\n    return v\n}\nshadow ida { assert (== (array_length (ida [1])) 1) }\n'
    'fn idas(v: array<string>) -> array<string> {\n    return v\n}\nshadow idas { assert (== (array_length (idas ["a"])) 1) }\n'
    'fn idf(v: float) -> float {\n    return v\n}\nshadow idf { assert (== (idf 1.0) 1.0) }\n'
    + ''.join(src for src, _ in FNS.values()) +
    'fn pai(a: array<int>) -> int {\n    (println (array_length a))\n    for i in (range 0 (array_length a)) {\n        (println (at a i))\n    }\n    return 0\n}\n'
    'shadow pai { assert (== (pai [1]) 0) }\n'
    'fn pas(a: array<string>) -> int {\n    (println (array_length a))\n    for i in (range 0 (array_length a)) {\n        (println (at a i))\n    }\n    return 0\n}\n'
    'shadow pas { assert (== (pas ["a"]) 0) }\n')
PRELUDE_RES = (
    'union Result<T, E> {\n    Ok { value: T },\n    Err { error: E }\n}\n'
    'fn mkres(v: int) -> Result<int, string> {\n    if (> v 0) {\n        return Result.Ok { value: v }\n    }\n    return Result.Err { error: "neg" }\n}\n'
    'shadow mkres { assert true }\n'
    'fn resdbl(v: int) -> Result<int, string> {\n    return (mkres (- v 3))\n}\nshadow resdbl { assert true }\n')


# ------------------------------------------------------------------------------------------------ rendering
def lit_int(v):
    # the INT64_MIN literal has its own case (c01:builtin:literal:...); everywhere else it is spelled as an expression
    return '(- -9223372036854775807 1)' if v == I64MIN else str(v)


def lit_str(b):
    s = b.decode('utf-8')
    return '"' + s.replace('\\', '\\\\').replace('"', '\\"').replace('\n', '\\n').replace('\t', '\\t') + '"'


def lit(t, v):
    if t == 'int':
        return lit_int(v)
    if t == 'bool':
        return 'true' if v else 'false'
    if t == 'float':
        return '%.2f' % v
    if t == 'string':
        return lit_str(v)
    if t == 'aint':
        return '[' + ', '.join(lit_int(x) for x in v) + ']'
    if t == 'astr':
        return '[' + ', '.join(lit_str(x) for x in v) + ']'
    if t.startswith('fn_'):
        return v
    raise ValueError(t)


def keytext(t, v):
    for at, av, name in ALIASES:
        if at == t and av == v:
            return name
    if t == 'int':
        return str(v)
    return lit(t, v).replace(', ', ',')


def out_of(t, v):
    """bytes println writes for a value of type t (reference only)"""
    if t == 'int':
        return b'%d\n' % v
    if t == 'bool':
        return b'true\n' if v else b'false\n'
    if t == 'string':
        return v + b'\n'
    if t == 'aint':
        return b'%d\n' % len(v) + b''.join(b'%d\n' % x for x in v)
    if t == 'astr':
        return b'%d\n' % len(v) + b''.join(x + b'\n' for x in v)
    raise ValueError(t)


class Leaf:
    def __init__(self, t, v, mode):
        self.t, self.v, self.mode = t, v, mode
    def value(self):
        return FNS[self.v][1] if self.t.startswith('fn_') else self.v
    def src(self, setup):
        s = lit(self.t, self.v)
        return '(%s %s)' % (ID[self.t], s) if self.mode == 'idfn' and self.t in ID else s
    def key(self):
        k = keytext(self.t, self.v)
        return '(%s %s)' % (ID[self.t], k) if self.mode == 'idfn' and self.t in ID else k
    def names(self):
        return []


class Call:
    def __init__(self, b, args):
        self.b, self.args, self.t = b, args, b.ret
    def value(self):
        return self.b.py(*[a.value() for a in self.args])
    def src(self, setup):
        parts = []
        for i, a in enumerate(self.args):
            s = a.src(setup)
            if i in self.b.bind:
                # the type checker types (at <call> i) as unknown: bind the array operand to a typed local first
                v = 't%d' % len(setup)
                setup.append('let %s: %s = %s' % (v, TYNAME[a.t], s))
                s = v
            parts.append(s)
        return self.b.tmpl % ('(%s %s)' % (self.b.name, ' '.join(parts)))
    def key(self):
        return self.b.tmpl % ('(%s %s)' % (self.b.name, ' '.join(a.key() for a in self.args)))
    def names(self):
        return [self.b.label] + [n for a in self.args for n in a.names()]
    def calls(self):
        """every call of the tree with the reference values of its operands: (label, [values])"""
        out = [(self.b.label, [a.value() for a in self.args])]
        for a in self.args:
            if isinstance(a, Call):
                out += a.calls()
        return out
    def pairs(self):
        out = set()
        for a in self.args:
            if isinstance(a, Call):
                out.add((self.b.label, a.b.label))
                out |= a.pairs()
        return out


class Case:
    """one printed result.  body = statements of the case's function (they print); exp = reference output or None"""
    def __init__(self, key, label, mode, body, exp=None, needs=(), info=None, tops=()):
        self.key, self.label, self.mode, self.body, self.exp, self.needs, self.info = key, label, mode, body, exp, tuple(needs), info or {}
        self.tops = tuple(tops)       # top-level declarations the case needs (uniquely named)


def print_stmts(t, e, direct=False):
    if t in ('aint', 'astr'):
        p = 'pai' if t == 'aint' else 'pas'
        return ['(%s %s)' % (p, e)] if direct else ['let r: %s = %s' % (TYNAME[t], e), '(%s r)' % p]
    return ['(println %s)' % e] if direct else ['let r: %s = %s' % (TYNAME[t], e), '(println r)']


def expr_case(key, label, mode, tree, direct=False):
    setup = []
    if direct:
        # direct: operands through identity functions, the call itself is the argument of println, no typed locals at all
        e = tree.b.tmpl % ('(%s %s)' % (tree.b.name, ' '.join(a.src(setup) for a in tree.args)))
    else:
        e = tree.src(setup)
    exp = out_of(tree.t, tree.value())          # raises OOD when an operand is outside the domain
    return Case(key, label, mode, setup + print_stmts(tree.t, e, direct), exp, tree.b.needs if isinstance(tree, Call) else (),
                dict(expr=tree.key(), ops=[a.value() for a in tree.args] if all(isinstance(a, Leaf) for a in tree.args) else None,
                     rt=tree.t, names=tree.names()))


def program(cases):
    needs = {n for c in cases for n in c.needs}
    out = [PRELUDE]
    if 'res' in needs:
        out.append(PRELUDE_RES)
    out += [t + '\n' for c in cases for t in c.tops]
    for k, c in enumerate(cases):
        out.append('fn c%d() -> int {\n%s\n    return 0\n}\nshadow c%d { assert true }\n' % (k, '\n'.join('    ' + l for l in c.body), k))
    out.append('fn main() -> int {\n' + ''.join('    (println "#@%d@")\n    (c%d)\n' % (k, k) for k in range(len(cases))) + '    return 0\n}\nshadow main { assert true }\n')
    return ''.join(out)


MARK = re.compile(rb'^#@(\d+)@\n', re.M)


def segments(out, n):
    """stdout of a batch -> list of n segments, or None when the markers are not exactly 0..n-1 in order"""
    ms = list(MARK.finditer(out))
    if [int(m.group(1)) for m in ms] != list(range(n)) or (ms and ms[0].start() != 0) or (n and not ms):
        return None
    return [out[m.end():(ms[i + 1].start() if i + 1 < len(ms) else len(out))] for i, m in enumerate(ms)]


# ------------------------------------------------------------------------------------------------ the table
class B:
    def __init__(self, label, params, ret, py, sweep, dep=None, bind=(), needs=(), name=None, nest=True, tmpl='%s', only_direct=False):
        self.label = label
        self.name = name or label.split('(')[0]
        self.params, self.ret, self.py, self.sweep = params, ret, py, sweep
        self.dep = dep or {}          # param index -> fn(values of the other params, rng) -> in-domain value (or raises OOD)
        self.bind = set(bind)         # param indexes that must be a typed local (type checker cannot type the call otherwise)
        self.needs = tuple(needs)
        self.nest = nest
        self.tmpl = tmpl              # the call is observed through this wrapper (array_concat: the checker types its result as unknown)
        self.only_direct = only_direct   # the checker types the call as unknown: `let r: T = (f ..)` is refused, only (println (f ..)) is accepted


def strtoll(s):
    m = re.match(rb'[ \t\n\v\f\r]*([+-]?\d+)', s)
    if not m:
        return 0
    v = int(m.group(1))
    if not I64MIN <= v <= I64MAX:
        raise OOD
    return v


def _abs(v):
    if v == I64MIN:
        raise OOD
    return abs(v)


def _cast_int_s(s):
    if not re.fullmatch(rb'-?\d+', s):
        raise OOD
    return strtoll(s)


def _substr(s, start, n):
    if start < 0 or n < 0:
        raise OOD
    return b'' if start > len(s) else s[start:start + n]


def _char_at(s, i):
    if not 0 <= i < len(s):
        raise OOD
    return s[i]


def _from_char(c):
    if not 0 <= c <= 255:
        raise OOD
    return bytes([c]) if c else b''


def _at(a, i):
    if not 0 <= i < len(a):
        raise OOD
    return a[i]


def _anew(n, v):
    if not 0 <= n <= 64:
        raise OOD
    return [v] * n


def _slice(a, start, n):
    if not (0 <= start <= len(a) and 0 <= n <= len(a) - start):
        raise OOD
    return a[start:start + n]


def _reduce(a, init, f):
    for x in a:
        init = f(init, x)
    return init


def _cls(lo_hi):
    return lambda c: any(lo <= c <= hi for lo, hi in lo_hi)


def un(pool):
    return lambda P: [(x,) for x in pool(P)]


def pairs(small, full):
    return lambda P: list(itertools.product(full(P) if P.thorough else small(P), repeat=2))


def idx_of_str(vals, rng):
    if not vals[0]:
        raise OOD
    return rng.randrange(len(vals[0]))


def sweep_char_at(P):
    for s in P.strs:
        for i in sorted({0, 1, len(s) // 2, len(s) - 1} if not P.thorough else set(range(min(len(s), 12))) | {len(s) // 2, len(s) - 1}):
            if 0 <= i < len(s):
                yield (s, i)


def sweep_substr(P):
    for s in (P.strs if P.thorough else P.strs_small):
        n = len(s)
        for st in sorted({0, 1, n - 1, n, n + 1} & set(range(0, n + 2))):
            for ln in sorted({0, 1, 2, n, n + 1, 2 ** 31, I64MAX} if P.thorough else {0, 1, n, n + 1, I64MAX}):
                yield (s, st, ln)


def sweep_at(pool):
    def f(P):
        for a in pool(P):
            for i in sorted({0, 1, len(a) // 2, len(a) - 1} if not P.thorough else set(range(len(a)))):
                if 0 <= i < len(a):
                    yield (a, i)
    return f


def sweep_slice(pool):
    def f(P):
        for a in pool(P):
            n = len(a)
            for st in sorted({0, 1, n // 2, n} & set(range(0, n + 1))):
                for ln in sorted({0, 1, n - st - 1, n - st} & set(range(0, n - st + 1))):
                    yield (a, st, ln)
    return f


def mk_table():
    T = []
    ints, ismall, strs, ssmall = (lambda P: P.ints), (lambda P: P.ints_small), (lambda P: P.strs), (lambda P: P.strs_small)
    aints, astrs, bools = (lambda P: P.aints), (lambda P: P.astrs), (lambda P: BOOLS)
    # ---- math
    T.append(B('abs', ['int'], 'int', _abs, un(lambda P: [v for v in P.ints if v != I64MIN])))
    T.append(B('min', ['int', 'int'], 'int', min, pairs(ismall, lambda P: INTS)))
    T.append(B('max', ['int', 'int'], 'int', max, pairs(ismall, lambda P: INTS)))
    # ---- casts / conversions (float variants: SKIP)
    T.append(B('cast_int(int)', ['int'], 'int', lambda v: v, un(ints)))
    T.append(B('cast_int(bool)', ['bool'], 'int', lambda v: 1 if v else 0, un(bools)))
    T.append(B('cast_int(float)', ['float'], 'int', lambda v: int(v), un(lambda P: FLOATS), nest=False))
    T.append(B('cast_bool(float)', ['float'], 'bool', lambda v: v != 0.0, un(lambda P: FLOATS), nest=False))
    T.append(B('cast_int(string)', ['string'], 'int', _cast_int_s, un(lambda P: NUMSTRS), nest=False))
    T.append(B('cast_bool(int)', ['int'], 'bool', lambda v: v != 0, un(ints)))
    T.append(B('cast_bool(bool)', ['bool'], 'bool', lambda v: v, un(bools)))
    T.append(B('cast_bool(string)', ['string'], 'bool', lambda v: v != b'', un(lambda P: [b'', b'a', b'hello', b'0', b'false']), nest=False))
    for nm in ('cast_string', 'to_string'):
        T.append(B(nm + '(int)', ['int'], 'string', lambda v: b'%d' % v, un(ints)))
        T.append(B(nm + '(bool)', ['bool'], 'string', lambda v: b'true' if v else b'false', un(bools)))
        T.append(B(nm + '(string)', ['string'], 'string', lambda v: v, un(strs)))
    T.append(B('int_to_string', ['int'], 'string', lambda v: b'%d' % v, un(ints)))
    T.append(B('bool_to_string', ['bool'], 'string', lambda v: b'true' if v else b'false', un(bools), nest=False, only_direct=True))
    # ---- strings
    T.append(B('str_length', ['string'], 'int', len, un(strs)))
    T.append(B('str_concat', ['string', 'string'], 'string', lambda a, b: a + b, pairs(ssmall, strs)))
    T.append(B('str_substring', ['string', 'int', 'int'], 'string', _substr, sweep_substr,
               dep={1: lambda v, r: r.choice(sorted({0, 1, len(v[0]) // 2, len(v[0])} & set(range(len(v[0]) + 1)))),
                    2: lambda v, r: r.choice([0, 1, 2, len(v[0]), len(v[0]) + 1, I64MAX])}))
    T.append(B('str_contains', ['string', 'string'], 'bool', lambda a, b: b in a, pairs(ssmall, strs)))
    T.append(B('str_equals', ['string', 'string'], 'bool', lambda a, b: a == b, pairs(ssmall, strs)))
    T.append(B('+(string)', ['string', 'string'], 'string', lambda a, b: a + b, pairs(ssmall, strs), name='+'))
    T.append(B('==(string)', ['string', 'string'], 'bool', lambda a, b: a == b, pairs(ssmall, strs), name='=='))
    T.append(B('!=(string)', ['string', 'string'], 'bool', lambda a, b: a != b, pairs(ssmall, strs), name='!='))
    T.append(B('char_at', ['string', 'int'], 'int', _char_at, sweep_char_at, dep={1: idx_of_str}))
    T.append(B('string_from_char', ['int'], 'string', _from_char, un(lambda P: P.chars)))
    T.append(B('string_to_int', ['string'], 'int', strtoll, un(lambda P: PARSESTRS)))
    # ---- character classes (total on int: "true if the character is ...", "non-letters unchanged", "-1 if not a digit")
    dig, up, lo = (48, 57), (65, 90), (97, 122)
    T.append(B('is_digit', ['int'], 'bool', _cls([dig]), un(ints)))
    T.append(B('is_alpha', ['int'], 'bool', _cls([up, lo]), un(ints)))
    T.append(B('is_alnum', ['int'], 'bool', _cls([dig, up, lo]), un(ints)))
    T.append(B('is_whitespace', ['int'], 'bool', lambda c: c in (32, 9, 10, 13), un(ints)))
    T.append(B('is_upper', ['int'], 'bool', _cls([up]), un(ints)))
    T.append(B('is_space', ['int'], 'bool', lambda c: c == 32 or 9 <= c <= 13, un(ints), nest=False, only_direct=True))
    T.append(B('is_lower', ['int'], 'bool', _cls([lo]), un(ints)))
    T.append(B('digit_value', ['int'], 'int', lambda c: c - 48 if 48 <= c <= 57 else -1, un(ints)))
    T.append(B('char_to_lower', ['int'], 'int', lambda c: c + 32 if 65 <= c <= 90 else c, un(ints)))
    T.append(B('char_to_upper', ['int'], 'int', lambda c: c - 32 if 97 <= c <= 122 else c, un(ints)))
    # ---- arrays
    idx_a = {1: idx_of_str}
    for nm in ('at', 'array_get'):
        T.append(B(nm + '(array<int>)', ['aint', 'int'], 'int', _at, sweep_at(aints), dep=idx_a, bind=[0]))
        T.append(B(nm + '(array<string>)', ['astr', 'int'], 'string', _at, sweep_at(astrs), dep=idx_a, bind=[0]))
    T.append(B('array_length(array<int>)', ['aint'], 'int', len, un(aints)))
    T.append(B('array_length(array<string>)', ['astr'], 'int', len, un(astrs)))
    sizes = lambda P: [0, 1, 3, 40] if not P.thorough else [0, 1, 2, 3, 16, 17, 40, 64]
    T.append(B('array_new(int)', ['int', 'int'], 'aint', _anew, lambda P: [(n, v) for n in sizes(P) for v in (0, -1, I64MAX, I64MIN)],
               dep={0: lambda v, r: r.choice([0, 1, 3, 7])}))
    T.append(B('array_new(string)', ['int', 'string'], 'astr', _anew, lambda P: [(n, v) for n in sizes(P) for v in (b'', b's', b'%s', S300)],
               dep={0: lambda v, r: r.choice([0, 1, 3, 7])}))
    T.append(B('array_push(array<int>)', ['aint', 'int'], 'aint', lambda a, v: a + [v], lambda P: [(a, v) for a in P.aints for v in (0, I64MIN, I64MAX)]))
    T.append(B('array_push(array<string>)', ['astr', 'string'], 'astr', lambda a, v: a + [v], lambda P: [(a, v) for a in P.astrs for v in (b'', b'zz')]))
    dslice = {1: lambda v, r: r.randrange(len(v[0]) + 1), 2: None}
    T.append(B('array_slice(array<int>)', ['aint', 'int', 'int'], 'aint', _slice, sweep_slice(aints), dep=dslice))
    T.append(B('array_slice(array<string>)', ['astr', 'int', 'int'], 'astr', _slice, sweep_slice(astrs), dep=dslice))
    # (the type checker gives array_concat's result the type unknown: it can only be observed through array_length)
    T.append(B('array_concat(array<int>)', ['aint', 'aint'], 'int', lambda a, b: len(a + b), lambda P: list(itertools.product(P.aints, repeat=2)),
               tmpl='(array_length %s)', nest=False))
    T.append(B('array_concat(array<string>)', ['astr', 'astr'], 'int', lambda a, b: len(a + b), lambda P: list(itertools.product(P.astrs, repeat=2)),
               tmpl='(array_length %s)', nest=False))
    T.append(B('map', ['aint', 'fn_ii'], 'aint', lambda a, f: [f(x) for x in a], lambda P: [(a, f) for a in P.aints for f in FN_TYPES['fn_ii']]))
    T.append(B('filter', ['aint', 'fn_ib'], 'aint', lambda a, f: [x for x in a if f(x)], lambda P: [(a, f) for a in P.aints for f in FN_TYPES['fn_ib']]))
    T.append(B('reduce', ['aint', 'int', 'fn_iii'], 'int', _reduce,
               lambda P: [(a, i, f) for a in P.aints for i in (0, 1, I64MIN) for f in FN_TYPES['fn_iii']]))
    return T


# pure builtins of the registry that are NOT swept, with the reason (checked against the registry at every run)
SKIP = {
    # floats: the property compares floats but does not cover their text form; operands/results here are floats
    'sqrt': 'float', 'pow': 'float', 'floor': 'float', 'ceil': 'float', 'round': 'float', 'sin': 'float', 'cos': 'float', 'tan': 'float',
    'atan2': 'float', 'asin': 'float', 'acos': 'float', 'atan': 'float', 'log': 'float', 'log2': 'float', 'log10': 'float', 'exp': 'float',
    'fmod': 'float', 'cast_float': 'float result', 'float_to_string': 'float operand (text form of floats is outside C01)',
    'string_to_float': 'float result',
    # FFI / OS
    'path_join': 'FFI (std os module)', 'path_basename': 'FFI (std os module)', 'path_dirname': 'FFI (std os module)',
    'path_normalize': 'FFI (std os module)',
    # types outside the core language of C01 (opaque handles, bstring / array<u8>)
    'null_opaque': 'opaque handle: nothing observable to print',
    'bytes_from_string': 'bstring / array<u8> is outside the core language of C01',
    'string_from_bytes': 'bstring / array<u8> is outside the core language of C01',
    'bstr_utf8_length': 'bstring operand is outside the core language of C01 (native takes nl_string_t*, the checker also admits string)',
    'bstr_utf8_char_at': 'bstring operand is outside the core language of C01',
    'bstr_validate_utf8': 'bstring operand is outside the core language of C01',
}
# builtins covered by hand-written (custom) cases below
CUSTOM = ['range', 'map_get', 'map_has', 'map_keys', 'map_values', 'map_length',
          'hashmap_get', 'hashmap_has', 'hashmap_keys', 'hashmap_values', 'hashmap_length',
          'result_is_ok', 'result_is_err', 'result_unwrap', 'result_unwrap_err', 'result_unwrap_or', 'result_map', 'result_and_then']


def custom_cases(P, T):
    out = []
    def add(label, ops, mode, body, exp, needs=(), tops=()):
        out.append(Case('c01:builtin:%s:%s:%s' % (label, ops, mode), label, mode, body, exp, needs, dict(expr=label + ' ' + ops), tops))
    # the one literal the rest of the sweep spells as an expression
    add('literal', '-9223372036854775808', 'literal', ['let r: int = -9223372036854775808', '(println r)'], b'-9223372036854775808\n')
    # constants as the backends spell them: two inlined float constants divided; a float literal that needs 17 digits;
    # the INT64_MIN constant inlined by name
    ite = lambda c, a, b: ['if %s {' % c, '    (println "%s")' % a, '} else {', '    (println "%s")' % b, '}']
    add('literal', 'float-constants-divided', 'literal', ite('(< (/ gfa gfb) 0.4)', 'integer division', 'ok'), b'ok\n',
        tops=['let gfa: float = 1.0', 'let gfb: float = 2.0'])
    add('literal', 'float-17-digits', 'literal', ite('(== (* 0.1 3.0) 0.30000000000000004)', 'exact', 'not exact'), b'exact\n')
    add('literal', 'float-9-digits-constant', 'literal', ite('(== gfc 123456789.75)', 'same', 'differs') + ite('(> gfc 123456789.5)', 'above', 'not above'),
        b'same\nabove\n', tops=['let gfc: float = 123456789.75'])
    add('literal', 'int-constant-min', 'literal', ['let r: int = (+ gim 1)', '(println r)'], b'-9223372036854775807\n',
        tops=['let gim: int = (- -9223372036854775807 1)'])
    # str_length is an int: arithmetic and comparison on it
    add('str_length', '"a",minus-2-below-0', 'idfn', ite('(< (- (str_length (ids "a")) 2) 0)', 'negative', 'not negative'), b'negative\n')
    # compositions kept permanently (each was a finding once)
    TB = {b.label: b for b in T}
    L = Leaf
    for tr in [Call(TB['abs'], [Call(TB['str_length'], [L('string', b'hello', 'idfn')])]),
               Call(TB['min'], [Call(TB['str_length'], [L('string', b'hello', 'idfn')]), L('int', 3, 'idfn')]),
               Call(TB['max'], [L('int', 3, 'literal'), Call(TB['str_length'], [L('string', b'', 'literal')])]),
               Call(TB['array_push(array<string>)'], [Call(TB['array_slice(array<string>)'], [L('astr', [], 'idfn'), L('int', 0, 'literal'), L('int', 0, 'literal')]),
                                                      L('string', b'x', 'literal')]),
               Call(TB['is_alpha'], [Call(TB['char_to_upper'], [Call(TB['char_at'], [L('string', b'hello', 'idfn'), L('int', 1, 'idfn')])])]),
               Call(TB['int_to_string'], [Call(TB['min'], [L('int', -10 ** 18, 'idfn'), L('int', I64MIN, 'idfn')])]),
               Call(TB['str_length'], [Call(TB['int_to_string'], [Call(TB['min'], [L('int', -10 ** 18, 'idfn'), L('int', 7, 'idfn')])])])]:
        c = expr_case('c01:builtin:nest:' + tr.key(), 'nest', 'nest', tr)
        c.info['depth'] = depth_of(tr)
        out.append(c)
    # range: for loops over boundary starts (at most 3 iterations, or empty)
    for a, b in [(0, 3), (-2, 1), (3, 0), (I64MAX - 2, I64MAX), (I64MIN, I64MIN + 2), (2 ** 31 - 1, 2 ** 31 + 1), (5, 5)]:
        for mode in ('idfn', 'literal'):
            f = (lambda v: '(idi %s)' % lit_int(v)) if mode == 'idfn' else lit_int
            add('range', '%d,%d' % (a, b), mode, ['for i in (range %s %s) {' % (f(a), f(b)), '    (println i)', '}', '(println "end")'],
                b''.join(b'%d\n' % i for i in range(a, b)) + b'end\n')
    # hashmap (string -> int): pure readers on a map built by map_set
    entries = [(b'a', 1), (b'', 0), (b'hello', I64MAX), (b'Hello World', I64MIN + 1), (b'%s', -1), (b'a\nb', 7)]
    for mode in ('idfn', 'literal'):
        ks = (lambda s: '(ids %s)' % lit_str(s)) if mode == 'idfn' else lit_str
        iv = (lambda v: '(idi %s)' % lit_int(v)) if mode == 'idfn' else lit_int
        for n in (0, 1, len(entries)):
            setup = ['let hm: HashMap<string, int> = (map_new)'] + ['(map_set hm %s %s)' % (ks(k), iv(v)) for k, v in entries[:n]]
            d = dict(entries[:n])
            for fam in ('map', 'hashmap'):      # the registry lists both spellings of the readers
                # (the checker does not know the hashmap_* spellings and types them unknown: observed through println only)
                obs = (lambda t, e: ['(println %s)' % e]) if fam == 'hashmap' else (lambda t, e: ['let r: %s = %s' % (t, e), '(println r)'])
                add(fam + '_length', 'n=%d' % n, mode, setup + obs('int', '(%s_length hm)' % fam), b'%d\n' % len(d))
                add(fam + '_keys', 'n=%d' % n, mode, setup + ['let r: int = (array_length (%s_keys hm))' % fam, '(println r)'], b'%d\n' % len(d))
                add(fam + '_values', 'n=%d' % n, mode, setup + ['let r: int = (array_length (%s_values hm))' % fam, '(println r)'], b'%d\n' % len(d))
                for k in [e[0] for e in entries] + [b'zz']:
                    add(fam + '_has', 'n=%d,%s' % (n, keytext('string', k)), mode, setup + obs('bool', '(%s_has hm %s)' % (fam, ks(k))),
                        b'true\n' if k in d else b'false\n')
                    if k in d:
                        add(fam + '_get', 'n=%d,%s' % (n, keytext('string', k)), mode, setup + obs('int', '(%s_get hm %s)' % (fam, ks(k))), b'%d\n' % d[k])
    # Result<int, string> helpers (generic union declared in the program)
    for v in (5, I64MAX, -5, 0):
        ok = v > 0
        for mode in ('idfn', 'literal'):
            iv = '(idi %s)' % lit_int(v) if mode == 'idfn' else lit_int(v)
            setup = ['let q: Result<int, string> = (mkres %s)' % iv]
            tf = lambda x: b'true\n' if x else b'false\n'
            add('result_is_ok', str(v), mode, setup + ['let r: bool = (result_is_ok q)', '(println r)'], tf(ok), ['res'])
            add('result_is_err', str(v), mode, setup + ['let r: bool = (result_is_err q)', '(println r)'], tf(not ok), ['res'])
            if ok:
                add('result_unwrap', str(v), mode, setup + ['let r: int = (result_unwrap q)', '(println r)'], b'%d\n' % v, ['res'])
            else:
                add('result_unwrap_err', str(v), mode, setup + ['let r: string = (result_unwrap_err q)', '(println r)'], b'neg\n', ['res'])
            add('result_unwrap_or', str(v), mode, setup + ['let r: int = (result_unwrap_or q 9)', '(println r)'], b'%d\n' % (v if ok else 9), ['res'])
            add('result_map', str(v), mode, setup + ['let m: Result<int, string> = (result_map q dbl)', 'if (result_is_ok m) {', '    (println (result_unwrap m))', '} else {',
                                                     '    (println (result_unwrap_err m))', '}'], b'%d\n' % wrap(v * 2) if ok else b'neg\n', ['res'])
            add('result_and_then', str(v), mode, setup + ['let m: Result<int, string> = (result_and_then q resdbl)', 'let r: bool = (result_is_ok m)', '(println r)'],
                tf(ok and v - 3 > 0), ['res'])
    return out


class Pools:
    def __init__(self, thorough):
        self.thorough = thorough
        self.ints, self.ints_small, self.strs, self.strs_small, self.aints, self.astrs = INTS, INTS_SMALL, STRS, STRS_SMALL, AINTS, ASTRS
        self.chars = CHARS
        if thorough:
            # every byte value (and a few negatives) for the unary builtins; pairs / triples use the whole pools (see pairs())
            self.ints = INTS + [c for c in range(256) if c not in INTS] + [-2, -127, -129, -255, -256]
            self.chars = list(range(256))
    def describe(self):
        f = lambda t, l: [keytext(t, v) for v in l]
        return dict(ints=f('int', self.ints), ints_for_pairs=f('int', INTS if self.thorough else self.ints_small),
                    chars=f('int', self.chars), strings=f('string', self.strs), strings_for_pairs=f('string', self.strs if self.thorough else self.strs_small),
                    numeric_strings=f('string', NUMSTRS), parse_strings=f('string', PARSESTRS),
                    floats_for_casts=['%.2f' % x for x in FLOATS], int_arrays=f('aint', self.aints), string_arrays=f('astr', self.astrs), functions=sorted(FNS),
                    S300='"abcdefghij" x 30', A40='40 ints: the boundary ints, then 2..15', S40='10 strings x 4')


def table_cases(T, P):
    cases = []
    for b in T:
        seen = set()
        first = True
        for ops in b.sweep(P):
            kt = ','.join(keytext(t, v) for t, v in zip(b.params, ops))
            if kt in seen:
                continue
            seen.add(kt)
            for mode in (('direct',) if b.only_direct else ('idfn', 'literal') + (('direct',) if first else ())):
                lm = 'idfn' if mode == 'direct' else mode
                tree = Call(b, [Leaf(t, v, lm) for t, v in zip(b.params, ops)])
                try:
                    c = expr_case('c01:builtin:%s:%s:%s' % (b.label, kt, mode), b.label, mode, tree, direct=(mode == 'direct'))
                except OOD:
                    break          # the sweep generator produced an operand outside the domain: skip it (all modes)
                cases.append(c)
            else:
                first = False
    return cases


# ------------------------------------------------------------------------------------------------ compositions
def gen_tree(T, rng, t, depth, P):
    """random expression of type t, nesting depth `depth` (0 = leaf); every intermediate value stays inside the domains"""
    pools = dict(int=P.ints, bool=BOOLS, string=[s for s in P.strs if len(s) < 40], aint=[a for a in P.aints if len(a) < 10],
                 astr=[a for a in P.astrs if len(a) < 10])
    if t.startswith('fn_'):
        return Leaf(t, rng.choice(FN_TYPES[t]), 'literal')
    if depth == 0:
        return Leaf(t, rng.choice(pools[t]), rng.choice(['idfn', 'literal']))
    cands = [b for b in T if b.ret == t and b.nest]
    for _ in range(40):
        b = rng.choice(cands)
        args = [None] * len(b.params)
        try:
            for i, pt in enumerate(b.params):
                if i not in b.dep:
                    d = depth - 1 if rng.random() < 0.75 else 0
                    args[i] = gen_tree(T, rng, pt, d, P)
            vals = [a.value() if a is not None else None for a in args]
            for i in sorted(b.dep):
                if b.label.startswith('array_slice') and i == 2:
                    v = rng.randrange(len(vals[0]) - vals[1] + 1)
                else:
                    v = b.dep[i](vals, rng)
                vals[i] = v
                args[i] = Leaf(b.params[i], v, rng.choice(['idfn', 'literal']))
            tree = Call(b, args)
            v = tree.value()
            if isinstance(v, (bytes, list)) and len(v) > 2000:
                raise OOD
            return tree
        except OOD:
            continue
    raise OOD


def depth_of(tr):
    return 0 if isinstance(tr, Leaf) else 1 + max([depth_of(a) for a in tr.args] or [0])


def nest_cases(T, rng, n, P, K):
    cases, seen = [], set()
    tries = pruned = 0
    while len(cases) < n and tries < n * 30:
        tries += 1
        t = rng.choice(['int', 'int', 'bool', 'string', 'string', 'aint', 'astr'])
        try:
            tr = gen_tree(T, rng, t, rng.choice([2, 3]), P)
        except OOD:
            continue
        if depth_of(tr) < 2 or tr.key() in seen:
            continue
        seen.add(tr.key())
        if K.prune(tr):
            pruned += 1
            continue
        c = expr_case('c01:builtin:nest:' + tr.key(), 'nest', 'nest', tr)
        c.info['depth'] = depth_of(tr)
        cases.append(c)
    return cases, pruned


# ------------------------------------------------------------------------------------------------ running
ANSI = re.compile(r'\x1b\[[0-9;]*m')
# the front end's VERDICT decides what an accepted program is: a diagnostic after which the tool goes on (today: UNDEFINED FUNCTION for a
# builtin the checker does not know -- property C05's finding) does not make the program a refused one
DIAG = ('type check failed', 'Type checking failed', 'parser failed', 'Parsing failed')
CFUNC = re.compile(r"In function .nl_c(\d+).:")


STDBUF = shutil.which('stdbuf')


def run_vm(b, path, linebuf=False):
    if linebuf and STDBUF:
        # a program of many cases: line-buffered stdout, so that a crash in case k does not take the output of the cases before it
        # along (the bytes are the same; a case that crashes is always observed again alone, with the tool's own buffering)
        env = dict(os.environ, NANOLANG_VERIF_FUEL=str(50_000_000))
        rc, o, e = langlib.run_cmd([STDBUF, '-oL', b.bin('nano_virt'), path, '--run'], 60, env)
        es = e.decode('utf-8', 'replace')
        cls = 'timeout' if rc == -9 else 'signal%d' % -rc if rc < 0 else 'outoffuel' if 'instruction budget exhausted' in es else 'exit'
        r = dict(cls=cls, rc=rc, out=o, err=es[-1500:])
    else:
        r = langlib.run_vm(b, path, fuel=50_000_000, timeout=60)
    es = ANSI.sub('', r['err'])
    if r['cls'] == 'exit' and any(m in es for m in DIAG):
        r['cls'] = 'rejected'            # the front end printed a diagnostic (it may still go on: that is property C05's matter)
    elif r['cls'] == 'exit' and r['rc'] != 0 and ('codegen failed' in es or 'undefined function' in es):
        r['cls'] = 'internal'
    r['err'] = es[-700:]
    return r


def run_native(b, path, wd, linebuf=False):
    outbin = path + '.bin'
    env = dict(os.environ, TMPDIR=wd)
    rc, o, e = langlib.run_cmd([b.bin('nanoc'), path, '-o', outbin], 240, env, cwd=wd)
    es = ANSI.sub('', (o + e).decode('utf-8', 'replace'))
    if not (rc == 0 and os.path.exists(outbin)):
        cls = 'compile-failed'
        if 'C compilation failed' in es:
            cls = 'cc-failed'
        elif any(m in es for m in DIAG):
            cls = 'rejected'
        elif 'Shadow test' in es and 'FAILED' in es:
            cls = 'shadow-failed'
        elif rc == -9:
            cls = 'timeout'
        errs = [l for l in es.splitlines() if 'error' in l.lower()]
        return dict(cls=cls, rc=rc, out=b'', err='\n'.join(errs[:6])[-900:] or es[-600:], log=es[-400000:])
    rc, o, e = langlib.run_cmd(([STDBUF, '-oL'] if linebuf and STDBUF else []) + [outbin], 30, cwd=wd)
    try:
        os.unlink(outbin)
    except OSError:
        pass
    cls = 'exit' if rc >= 0 else ('timeout' if rc == -9 else 'signal%d' % -rc)
    return dict(cls=cls, rc=rc, out=o, err=e.decode('utf-8', 'replace')[-600:])


class Runner:
    def __init__(self, b, wd):
        self.b, self.wd, self.n = b, wd, 0
        self.vm_programs = self.nat_programs = 0
    def _path(self, src):
        self.n += 1
        p = os.path.join(self.wd, 'p%06d_%s.nano' % (self.n, hashlib.md5(src.encode()).hexdigest()[:8]))
        open(p, 'w').write(src)
        return p
    def vm(self, cases):
        self.vm_programs += 1
        p = self._path(program(cases))
        r = run_vm(self.b, p, linebuf=len(cases) > 1)
        os.unlink(p)
        return r
    def native(self, cases):
        self.nat_programs += 1
        p = self._path(program(cases))
        r = run_native(self.b, p, self.wd, linebuf=len(cases) > 1)
        os.unlink(p)
        return r


def single_obs(r):
    """observation of a one-case program: strip the marker"""
    o = dict(r)
    o.pop('log', None)
    if r['cls'] == 'exit':
        seg = segments(r['out'], 1)
        o['out'] = seg[0] if seg is not None else r['out']
    return o


def same(v, n):
    return v['cls'] == 'exit' and n['cls'] == 'exit' and v['rc'] == n['rc'] and v['out'] == n['out']


def chunks(l, n):
    return [l[i:i + n] for i in range(0, len(l), n)]


def deal(l, k):
    """l dealt into k lists like cards: neighbours (cases of the same builtin) end up in different programs"""
    return [l[i::k] for i in range(k)] if k > 0 else []


def ddmin(items, test):
    """smallest-ish sublist of items for which test(sublist) is still True (test(items) is True)"""
    n = 2
    while len(items) >= 2:
        parts = chunks(items, max(1, (len(items) + n - 1) // n))
        for i in range(len(parts)):
            if test(parts[i]):
                items, n = parts[i], 2
                break
        else:
            for i in range(len(parts)):
                rest = [x for j, p in enumerate(parts) if j != i for x in p]
                if rest and test(rest):
                    items, n = rest, max(n - 1, 2)
                    break
            else:
                if n >= len(items):
                    break
                n = min(len(items), n * 2)
    return items


def run_groups(run, groups):
    """run groups of cases on one backend (run = R.vm or R.native) -> (key -> observation of the case IN COMPANY: cls, rc,
    out = its segment, err, company = size of the program it was seen in), number of rounds, unexplained groups).
    A group whose C does not compile loses the cases gcc names (`In function 'nl_c<k>'`: the error is inside that case's own
    function, which is the observation `cc-failed` for the case) and is rerun; a group that dies at run time after some markers
    loses the case it seems to have died in (that one is observed alone); anything else is split 8-way.  A group that fails although
    every member runs in smaller company is returned as unexplained (an interaction: minimised by the caller)."""
    obs, alone, rounds, failed = {}, [], [], []
    todo = [g for g in groups if g]
    while todo:
        t_ = time.time()
        res = langlib.pmap(run, todo, workers=min(24, max(1, len(todo))))     # one wave: a program costs ~3 s whatever its size
        rounds.append(dict(programs=len(todo), cases=sum(len(g) for g in todo), s=round(time.time() - t_, 1),
                           classes=dict(collections.Counter(r['cls'] if r['cls'] != 'exit' else 'exit%d' % r['rc'] for r in res))))
        nxt = []
        for cs, r in zip(todo, res):
            seg = segments(r['out'], len(cs)) if r['cls'] == 'exit' else None
            if seg is not None and (r['rc'] == 0 or len(cs) == 1):
                for c, s in zip(cs, seg):
                    obs[c.key] = dict(cls='exit', rc=r['rc'] if len(cs) == 1 else 0, out=s, err='', company=len(cs))
                continue
            if len(cs) == 1:
                obs[cs[0].key] = dict(single_obs(r), company=1)
                continue
            if r['cls'] == 'cc-failed':
                errs, cur, stray = collections.defaultdict(list), None, False
                for l in r.get('log', '').splitlines():
                    m = re.search(r"In function .(\w+).:", l)
                    if m:
                        m2 = re.fullmatch(r'nl_c(\d+)', m.group(1))
                        cur = int(m2.group(1)) if m2 else None
                    elif re.search(r':\d+:\d+: error:', l):
                        if cur is None:
                            stray = True         # an error outside every case function: cannot be attributed by name
                        else:
                            errs[cur].append(re.sub(r'^\S*?:(\d+:\d+: error:)', r'\1', l))
                if errs and not stray and all(k < len(cs) for k in errs):
                    for k, ls in errs.items():
                        obs[cs[k].key] = dict(cls='cc-failed', rc=1, out=b'', err='\n'.join(ls[:4])[:600], company=len(cs))
                    nxt.append([c for k, c in enumerate(cs) if k not in errs])
                    continue
            elif r['cls'] != 'exit' or r['rc'] != 0:
                ms = MARK.findall(r['out'])
                if ms and [int(m) for m in ms] == list(range(len(ms))):
                    k = len(ms) - 1                # died inside case k (stdout is line-buffered): the cases before it are complete
                    part = segments(r['out'], len(ms))
                    for c, s in zip(cs[:k], part):
                        obs[c.key] = dict(cls='exit', rc=0, out=s, err='', company=len(cs))
                    alone.append(cs[k])
                    rest = cs[k + 1:]
                    nxt += deal(rest, (len(rest) + 24) // 25)   # several dying cases are found in one round, not one per round
                    continue
            failed.append(cs)
            step = max(1, (len(cs) + 7) // 8)
            nxt += chunks(cs, step)
        todo = [g for g in nxt if g]
    if alone:
        for c, r in zip(alone, langlib.pmap(lambda c: run([c]), alone)):
            obs[c.key] = dict(single_obs(r), company=1)
    unexplained = [cs for cs in failed if all(obs[c.key]['cls'] == 'exit' and obs[c.key]['rc'] == 0 for c in cs)]
    # keep only the innermost ones (a failing half explains the failing whole)
    unexplained = [cs for cs in unexplained if not any(o is not cs and set(x.key for x in o) < set(x.key for x in cs) for o in unexplained)]
    return obs, rounds, unexplained


class Known:
    """open findings of known_findings.d/C01_builtins.json that describe a root cause by the operand region it lives in:
         "covers": [{"variant": <regex on the case label>, "modes": [...], "when": <expr over a = operand values>,
                     "expect": <expr over sig, vm, nat, ref, a, rt, vm_err, nat_err, out(), dbl()>}]
         "interaction": {"side": "vm"|"native", "victim": <regex>, "culprits": <regex>}
         "prune_nest": <expr over names, pairs, expr>            (compositions of this shape are not generated)
       A failing case is reported under such an entry's key only if `when` AND `expect` hold, i.e. the failure is exactly the one
       recorded; everything else keeps its own key.  Compositions containing a call inside a `when` region are not generated (the
       defect is reported by the table; re-reporting it through every composition that happens to contain it adds nothing)."""
    NS = dict(abs=abs, len=len, any=any, all=all, min=min, max=max, float=float, int=int, I64MAX=I64MAX, I64MIN=I64MIN, re=re,
              out=out_of, isinstance=isinstance, bytes=bytes, list=list, sorted=sorted, set=set)

    def __init__(self, entries):
        self.entries = [e for e in entries if e.get('key', '').startswith('c01:builtin')]

    @staticmethod
    def dbl(v):
        x = float(v)
        return int(x) if -9223372036854775808.0 <= x < 9223372036854775808.0 else I64MIN

    def _ev(self, code, **ns):
        try:
            return bool(eval(code, dict(self.NS, dbl=self.dbl, __builtins__={}), ns))
        except Exception:
            return False

    def region(self, label, ops, mode=None):
        for e in self.entries:
            for cv in e.get('covers', []):
                if not re.fullmatch(cv['variant'], label) or not (mode is None or mode in cv.get('modes', [mode])):
                    continue
                if 'when' not in cv or (ops is not None and self._ev(cv['when'], a=ops)):
                    return e, cv
        return None

    def classify(self, c, sig, v, n):
        if c.label in ('nest', 'recorded'):
            return None
        hit = self.region(c.label, c.info.get('ops'), c.mode)
        if hit is None:
            return None
        e, cv = hit
        ok = self._ev(cv.get('expect', 'True'), a=c.info.get('ops'), sig=sig, vm=v['out'], nat=n['out'], ref=c.exp, rt=c.info.get('rt'),
                      vm_err=v['err'], nat_err=n['err'], vm_rc=v['rc'], nat_rc=n['rc'])
        return e['key'] if ok else None

    def prune(self, tree):
        for label, ops in tree.calls():
            hit = self.region(label, ops)
            if hit is not None and 'when' in hit[1]:
                return True
        names, pairs, expr = tree.names(), tree.pairs(), tree.key()
        return any(self._ev(e['prune_nest'], names=names, pairs=pairs, expr=expr) for e in self.entries if e.get('prune_nest'))

    def interaction(self, side, victim_names, culprit_names):
        for e in self.entries:
            it = e.get('interaction')
            if it and it['side'] == side and any(re.fullmatch(it['victim'], x) for x in victim_names) and \
                    (culprit_names is None or all(any(re.fullmatch(it['culprits'], x) for x in ns) for ns in culprit_names)):
                return e['key']
        return None


def sweep(ck, b):
    """entry point (called by c01.run): never lets the check die -- a failure of the harness itself is reported"""
    try:
        return _sweep(ck, b)
    except Exception as ex:
        import traceback
        ck.fail('c01:builtin-sweep:harness', 'the builtin sweep of tools/props/c01_builtins.py did not complete: %r' % (ex,),
                dict(access='harness', traceback=traceback.format_exc()[-3000:]), tie=True)
        ck.extra.setdefault('builtin_sweep', dict(completed=False, error=repr(ex)))
        return None


def _sweep(ck, b):
    t0 = time.time()
    P = Pools(ck.thorough)
    T = mk_table()
    K = Known(getattr(ck, 'known', []))
    info = dict(tier=ck.tier)
    # ---- 0. the table against the registry
    reg = registry(os.path.join(vlib.REPO, 'src', 'builtins_registry.c'))
    tabled = {x.name for x in T} | set(CUSTOM)
    for name, pure in sorted(reg.items()):
        if pure and name not in tabled and name not in SKIP:
            ck.fail('c01:builtin-table:' + name, 'pure builtin %s of src/builtins_registry.c is neither in the sweep table nor in the SKIP list of '
                    'tools/props/c01_builtins.py: add it (with its domain) or skip it with a reason' % name, dict(builtin=name, access='registry'), tie=True)
    info['registry'] = dict(entries=len(reg), pure=sum(reg.values()), swept=sorted(n for n in reg if n in tabled),
                            skipped={n: SKIP[n] for n in sorted(SKIP) if n in reg}, swept_not_in_registry=sorted(tabled - set(reg)),
                            table_or_skip_entries_gone_from_registry=sorted((set(SKIP) | {x.name for x in T if x.name.isidentifier()} | set(CUSTOM)) - set(reg)))
    cases = table_cases(T, P) + custom_cases(P, T)
    ntable = len(cases)
    nnest = 1000 if ck.thorough else 200
    nest, pruned = nest_cases(T, ck.rng, nnest, P, K)
    have = {c.key for c in cases}
    nest = [c for c in nest if c.key not in have]       # (a random composition may coincide with a permanent one)
    cases += nest
    have = {c.key for c in cases}
    # open findings recorded with their case (a composition of another seed, a case of the other tier): replayed as recorded
    for k in K.entries:
        inp = k.get('input') or {}
        if k['key'] not in have and inp.get('body'):
            cases.append(Case(k['key'], 'recorded', inp.get('mode', 'recorded'), inp['body'], None, inp.get('needs', ()),
                              dict(expr=inp.get('expr', ''), names=inp.get('names', [])), inp.get('tops', ())))
            have.add(k['key'])
    assert len(have) == len(cases), 'duplicate case keys'
    per = collections.Counter(c.label for c in cases)
    with langlib.Work('c01b') as wd:
        R = Runner(b, wd)
        # ---- 2. every case alone on the VM
        vs = dict(zip([c.key for c in cases], langlib.pmap(lambda c: single_obs(R.vm([c])), cases)))
        t1 = time.time()
        rejected = [c for c in cases if vs[c.key]['cls'] == 'rejected']
        runnable = [c for c in cases if vs[c.key]['cls'] == 'exit' and vs[c.key]['rc'] == 0]
        rs = {c.key for c in runnable} | {c.key for c in rejected}
        vmfail = [c for c in cases if c.key not in rs]
        # ---- 3. batches (deterministic composition: table order) on both backends
        # One native program costs ~3 s whatever its size, and a program that fails is rerun without the failing cases: few, big
        # programs for the cases nothing is recorded about (one wave on 16 cores); the cases inside the operand region of an OPEN
        # finding (they are expected to fail) are kept apart in small programs, so that the big ones run once.
        expected = [c for c in runnable if c.label not in ('nest', 'recorded') and K.region(c.label, c.info.get('ops'), c.mode) is not None]
        ek = {c.key for c in expected}
        clean = [c for c in runnable if c.key not in ek]
        BATCH = min(400, max(150, (len(clean) + 11) // 12))
        batches = chunks(clean, BATCH) + deal(expected, (len(expected) + 34) // 35)
        vb, _, vm_unexplained = run_groups(R.vm, batches)
        where = {c.key: cs for cs in batches for c in cs}
        # (cases of the batch, position): the VM prints something else in company than alone
        vm_inter = [(where[c.key], where[c.key].index(c)) for c in runnable if not same(vs[c.key], vb[c.key])]
        nb, rounds, nat_unexplained = run_groups(R.native, batches + chunks(vmfail, 120))
        t2 = time.time()
        # cases whose native observation (in company) is not the VM's observation alone: seen again in other company (only the
        # suspects, regrouped); the same observation in two different companies is the case's own; otherwise it is run alone
        ns = {}
        suspects = [c for c in runnable + vmfail if not same(vs[c.key], nb[c.key])]
        again, _, _ = run_groups(R.native, chunks([c for c in suspects if nb[c.key]['company'] > 1 and nb[c.key]['cls'] == 'exit'], 40))
        lonely = []
        for c in suspects:
            o = nb[c.key]
            if o['company'] == 1 or o['cls'] == 'cc-failed':
                ns[c.key] = o
            elif c.key in again and again[c.key]['cls'] == 'exit' and again[c.key]['out'] == o['out'] and again[c.key]['rc'] == o['rc']:
                ns[c.key] = o
            else:
                lonely.append(c)
        for c, r in zip(lonely, langlib.pmap(lambda c: single_obs(R.native([c])), lonely)):
            ns[c.key] = dict(r, company=1)
        nat_inter = [c for c in lonely if same(vs[c.key], ns[c.key])]
        t3 = time.time()
        # ---- 4. verdicts per case
        fails = []                    # (case, signature, what, replay)
        bothfail, drift, agree = [], [], 0
        for c in cases:
            v = vs[c.key]
            if v['cls'] == 'rejected':
                continue
            n = ns.get(c.key) or nb[c.key]
            if same(v, n):
                agree += 1
                if c.exp is not None and v['out'] != c.exp:
                    drift.append(dict(key=c.key, backends=v['out'][:80].decode('latin1'), reference=c.exp[:80].decode('latin1')))
                continue
            if n['cls'] == 'rejected':
                continue
            if v['cls'] != 'exit' and n['cls'] != 'exit':
                bothfail.append(dict(key=c.key, vm=v['cls'], native=n['cls']))
                continue
            sig = 'vm=%s native=%s' % (v['cls'] if v['cls'] != 'exit' else 'ran', n['cls'] if n['cls'] != 'exit' else 'ran')
            if v['cls'] == 'exit' and n['cls'] == 'exit':
                who = ''
                if c.exp is not None:
                    who = ' (the reference computed from docs/STDLIB.md agrees with %s)' % (
                        'the VM' if v['out'] == c.exp and v['rc'] == 0 else 'native' if n['out'] == c.exp and n['rc'] == 0 else 'neither')
                what = 'builtin case %s [%s]: exit vm=%s native=%s, stdout vm=%r native=%r%s' % (
                    c.info.get('expr', c.label), c.mode, v['rc'], n['rc'], v['out'][:100].decode('latin1'), n['out'][:100].decode('latin1'), who)
            else:
                what = 'builtin case %s [%s]: accepted by the front end, then %s: %s' % (
                    c.info.get('expr', c.label), c.mode, sig, (v['err'] if v['cls'] != 'exit' else n['err']).strip()[-300:])
            fails.append((c, sig, what, dict(source=program([c]), case=c.key, body=c.body, label=c.label, mode=c.mode, needs=list(c.needs), expr=c.info.get('expr', ''),
                                             tops=list(c.tops), names=c.info.get('names', []), reference=None if c.exp is None else c.exp[:300].decode('latin1'),
                                             vm=dict(cls=v['cls'], rc=v['rc'], out=v['out'][:600].decode('latin1'), err=v['err'][-300:]),
                                             native=dict(cls=n['cls'], rc=n['rc'], out=n['out'][:600].decode('latin1'), err=n['err'][-600:]))))
        # every case of a (variant, mode) fails because one backend cannot build it -> one failure; a failure that is exactly a
        # recorded root cause -> that finding's key; everything else -> the case's own key
        groups = collections.defaultdict(list)
        by_known = collections.Counter()
        for f in fails:
            c, sig, what, rp = f
            kk = K.classify(c, sig, vs[c.key], ns.get(c.key) or nb[c.key])
            if kk:
                by_known[kk] += 1
                ck.fail(kk, what, rp)
            else:
                groups[(c.label, c.mode)].append(f)
        total = collections.Counter((c.label, c.mode) for c in cases if vs[c.key]['cls'] != 'rejected')
        for (label, mode), fs in sorted(groups.items()):
            sigs = {f[1] for f in fs}
            if label != 'nest' and len(fs) >= 2 and len(fs) == total[(label, mode)] and len(sigs) == 1 and fs[0][1].count('ran') == 1 and 'signal' not in fs[0][1]:
                c, sig, what, rp = fs[0]
                ck.fail('c01:builtin:%s:*:%s' % (label, mode), 'every %s case of builtin %s (%d operand tuples): accepted by the front end, then %s; e.g. %s' % (
                    mode, label, len(fs), sig, what), dict(rp, all_cases=[f[0].key for f in fs]))
                continue
            for c, sig, what, rp in fs:
                ck.fail(c.key, what, rp)
        info['cases_reported_under_a_recorded_root_cause'] = dict(by_known)
        # ---- 5. interactions: the case agrees alone, but not in company
        def explain(side, victim, before):
            """minimal list of earlier cases that makes `victim` print something else than alone"""
            alone = vs[victim.key]['out'] if side == 'vm' else ns[victim.key]['out']
            run = R.vm if side == 'vm' else R.native
            def test(sub):
                r = run(sub + [victim])
                seg = segments(r['out'], len(sub) + 1) if r['cls'] == 'exit' else None
                return seg is None or seg[-1] != alone
            if not test(before):
                return None
            return ddmin(before, test)
        inter, done = [], {}
        budget = 40 if not ck.thorough else 120
        # a program that fails as a whole although every case runs in smaller company: the smallest failing sub-program
        for side, groups_ in (('vm', vm_unexplained), ('native', nat_unexplained)):
            run = R.vm if side == 'vm' else R.native
            for cs in groups_[:3]:
                def fails_(sub, run=run):
                    r = run(sub)
                    return not (r['cls'] == 'exit' and r['rc'] == 0 and segments(r['out'], len(sub)) is not None)
                if fails_(cs):
                    sub = ddmin(cs, fails_)
                    inter.append((side, sub[-1], sub[:-1]))
        for side, lst in (('vm', vm_inter), ('native', [(where[c.key], where[c.key].index(c)) for c in nat_inter if c.key in where])):
            for cs, i in lst:
                victim = cs[i]
                vnames = victim.info.get('names') or [victim.label]
                gk = (side, victim.label)
                hit = next((cu for cu in done.get(gk, []) if all(x in cs[:i] for x in cu) and explain(side, victim, cu) is not None), None)
                if hit is not None:
                    inter.append((side, victim, hit))
                    continue
                if budget <= 0:
                    inter.append((side, victim, None))
                    continue
                budget -= 1
                culprits = explain(side, victim, cs[:i])
                if culprits is not None:
                    done.setdefault(gk, []).append(culprits)
                inter.append((side, victim, culprits))
        seen_inter, bykey = collections.Counter(), {}
        for side, victim, culprits in inter:
            vnames = victim.info.get('names') or [victim.label]
            cn = None if culprits is None else [(c.info.get('names') or [c.label]) for c in culprits]      # one list of builtin names per culprit case
            key = K.interaction(side, vnames, cn) or 'c01:builtin-interaction:%s:%s>%s' % (side, '?' if culprits is None else '+'.join(c.label for c in culprits), victim.label)
            seen_inter[key] += 1
            if key not in bykey or (bykey[key][2] is None and culprits is not None):
                bykey[key] = (side, victim, culprits)
        for key, (side, victim, culprits) in sorted(bykey.items()):
            rp = dict(case=victim.key, side=side, company=[c.key for c in (culprits or [])], cases_with_this_key=seen_inter[key])
            if culprits:
                prog = culprits + [victim]
                rp['source'] = program(prog)
                v, n = R.vm(prog), R.native(prog)
                rp['vm'] = dict(cls=v['cls'], rc=v['rc'], out=v['out'][:600].decode('latin1'))
                rp['native'] = dict(cls=n['cls'], rc=n['rc'], out=n['out'][:600].decode('latin1'))
            ck.fail(key, 'builtin case %s [%s] prints %r when it is the only call of the program (both backends), but something else on the %s backend '
                    'after the call(s) %s in the same program' % (victim.info.get('expr', victim.label), victim.mode, (vs[victim.key]['out'])[:60].decode('latin1'), side,
                                                                  [c.info.get('expr', c.label) for c in (culprits or [])] or '(not minimised)'), rp)
        info['interactions'] = dict(seen_inter)
        t4 = time.time()
        info['programs'] = dict(vm=R.vm_programs, native=R.nat_programs, native_rounds=rounds, batch_size=BATCH, batches=len(batches))
    # ---- 6. accounting
    for c in cases:
        v = vs[c.key]
        ck.count(c.key, v['cls'] == 'exit' and len(v['out']) > 0)
    info['cases'] = dict(total=len(cases), table=ntable, compositions=len(nest), compositions_not_generated_because_inside_a_recorded_defect_region=pruned,
                         agree=agree, differ=len(fails), rejected_by_front_end=len(rejected), both_backends_fail=len(bothfail), vm_fails_alone=len(vmfail),
                         seen_alone_on_native=len(lonely), modes=dict(collections.Counter(c.mode for c in cases)))
    info['per_builtin'] = dict(sorted(per.items()))
    info['pools'] = P.describe()
    info['rejected_cases'] = [dict(key=c.key, err=vs[c.key]['err'][-200:]) for c in rejected[:30]]
    info['both_backends_fail'] = bothfail[:30]
    info['reference_differs_from_both_backends'] = dict(n=len(drift), first=drift[:20])
    nbc = collections.Counter()
    for c in nest:
        nbc.update(set(c.info.get('names', [])))
    info['composition_builtins'] = dict(sorted(nbc.items()))
    info['composition_depths'] = dict(collections.Counter(c.info.get('depth') for c in nest))
    info['wall_s'] = dict(total=round(time.time() - t0, 1), vm_singles=round(t1 - t0, 1), batches=round(t2 - t1, 1), native_suspects=round(t3 - t2, 1),
                          interactions=round(t4 - t3, 1))
    ck.extra['builtin_sweep'] = info
    if rejected:
        ck.note('builtin sweep: %d generated cases were refused by the front end (not compared), e.g. %s' % (len(rejected), rejected[0].key))
    if drift:
        ck.note('builtin sweep: on %d cases both backends agree with each other but not with the reference of c01_builtins.py, e.g. %s' % (len(drift), drift[0]))
    smp = next((c for c in cases if c.label == 'int_to_string' and vs[c.key]['cls'] == 'exit'), None)
    if smp is not None:
        ck.sample(dict(builtin_case=smp.key, vm_stdout=vs[smp.key]['out'].decode('latin1'), native_stdout=(ns.get(smp.key) or nb[smp.key])['out'].decode('latin1')))
    ck.trusted += ['tools/props/c01_builtins.py (case generator; the Python reference only keeps operands inside the documented domains)']
    return info


def registry(path):
    """name -> is pure, from the initialiser rows of builtin_registry[]"""
    out = {}
    for m in re.finditer(r'^\s*\{"(\w+)",\s*"(\w+)",\s*(\d+),\s*\{[^}]*\},\s*\w+,\s*\w+,\s*([^}]*)\},?\s*$', open(path).read(), re.M):
        out[m.group(1)] = 'BUILTIN_PURE' in m.group(4)
    if len(out) < 50:
        raise RuntimeError('cannot read %s (only %d rows matched)' % (path, len(out)))
    return out
