"""C04: the "construct x context" matrix -- independent of progen.

Every construct of CONSTRUCTS (the pure builtins of src/builtins_registry.c with int/bool/string/array<int> arguments, plus cond,
and/or over calls, nested calls, struct literal + field access, tuple literal + index, enum value, match on a union with a
binding, string +, and an ENUM-typed value as operand of every int operator / array index / range bound / cond test / call
argument) is put into every context of CONTEXTS (global initialiser, statement of a function body, argument of a user
call, operand of an operator, condition of if, condition of while, bound of a for-range, return expression, body of a loop,
let inside a block, shadow-block assertion) as a minimal typed program.  Every program the REAL type checker accepts must not
end in an internal failure class on either backend (tc_common.internal_failure + 'shadow-failed'), and the two backends must
not differ in success.  Cells are first run batched (all accepted constructs of one context in one program, one print each);
a batch that fails on anything falls back to one program per cell, so a failure is always attributed to its cell."""
import os, re, json, hashlib, collections
import vlib, langlib
import tc_common as T

# ---- top-level declarations constructs may need
PRE = {
    'dbl': 'fn dbl(v: int) -> int {\n    return (* v 2)\n}\nshadow dbl { assert (== (dbl 2) 4) }\n',
    'pos': 'fn pos(v: int) -> bool {\n    return (> v 1)\n}\nshadow pos { assert (pos 2) }\n',
    'add2': 'fn add2(a: int, b: int) -> int {\n    return (+ a b)\n}\nshadow add2 { assert (== (add2 1 2) 3) }\n',
    'Pt': 'struct Pt {\n    x: int,\n    y: int\n}\n',
    'Color': 'enum Color {\n    Red,\n    Green,\n    Blue\n}\n',
    'Opt': 'union Opt {\n    Some { value: int },\n    None { }\n}\n',
}

# name, type, expression, needed declarations, optional (decl-name, decl-type, decl-init) the expression refers to as @
CONSTRUCTS = [
    ('abs', 'int', '(abs -5)', [], None),
    ('min', 'int', '(min 3 9)', [], None),
    ('max', 'int', '(max 3 9)', [], None),
    ('str_length', 'int', '(str_length "hello")', [], None),
    ('str_concat', 'string', '(str_concat "ab" "cd")', [], None),
    ('str_substring', 'string', '(str_substring "hello" 1 3)', [], None),
    ('str_contains', 'bool', '(str_contains "hello" "ell")', [], None),
    ('str_equals', 'bool', '(str_equals "ab" "ab")', [], None),
    ('char_at', 'int', '(char_at "hello" 1)', [], None),
    ('int_to_string', 'string', '(int_to_string 42)', [], None),
    ('string_to_int', 'int', '(string_to_int "17")', [], None),
    ('string_from_char', 'string', '(string_from_char 65)', [], None),
    ('is_digit', 'bool', '(is_digit 53)', [], None),
    ('is_alpha', 'bool', '(is_alpha 104)', [], None),
    ('is_upper', 'bool', '(is_upper 72)', [], None),
    ('digit_value', 'int', '(digit_value 55)', [], None),
    ('char_to_upper', 'int', '(char_to_upper 97)', [], None),
    ('cast_int', 'int', '(cast_int 3.7)', [], None),
    ('cast_bool', 'bool', '(cast_bool 1)', [], None),
    ('cast_string', 'string', '(cast_string 12)', [], None),
    ('to_string', 'string', '(to_string 12)', [], None),
    ('array_length', 'int', '(array_length [1, 2, 3])', [], None),
    ('at', 'int', '(at [4, 5, 6] 1)', [], None),
    ('array_new', 'int', '(array_length (array_new 3 0))', [], None),
    ('array_push', 'int', '(array_length (array_push [1, 2] 3))', [], None),
    ('array_slice', 'int', '(array_length (array_slice [1, 2, 3, 4] 1 3))', [], None),
    ('array_concat', 'int', '(array_length (array_concat [1] [2, 3]))', [], None),
    ('array_var_at', 'int', '(at @ 2)', [], ('array<int>', '[7, 8, 9]')),
    ('map', 'int', '(array_length (map [1, 2, 3] dbl))', ['dbl'], None),
    ('filter', 'int', '(array_length (filter [1, 2, 3] pos))', ['pos'], None),
    ('reduce', 'int', '(reduce [1, 2, 3] 0 add2)', ['add2'], None),
    ('cond', 'int', '(cond ((> 2 1) 10) (else 20))', [], None),
    ('and_or_calls', 'bool', '(and (pos 2) (or (pos 0) (pos 5)))', ['pos'], None),
    ('not_call', 'bool', '(not (pos 0))', ['pos'], None),
    ('nested_calls', 'int', '(dbl (dbl (abs -3)))', ['dbl'], None),
    ('neg_call', 'int', '(- (abs 4))', [], None),
    ('string_plus', 'string', '(+ "a" "b")', [], None),
    ('struct_field', 'int', '@.x', ['Pt'], ('Pt', 'Pt { x: 3, y: 4 }')),
    ('tuple_index', 'int', '@.1', [], ('(int, int)', '(7, 8)')),
    ('enum_value', 'int', 'Color.Green', ['Color'], None),
    ('match_binding', 'int', 'match @ { Some(s) => s.value, None(n) => 0 }', ['Opt'], ('Opt', 'Opt.Some { value: 5 }')),
    # an ENUM-typed variable as operand of every int operator (enum values are ints for the type checker and natively)
    ('enum_var', 'int', '@', ['Color'], ('Color', 'Color.Blue')),
    ('enum_add', 'int', '(+ @ 1)', ['Color'], ('Color', 'Color.Blue')),
    ('enum_sub', 'int', '(- @ 1)', ['Color'], ('Color', 'Color.Blue')),
    ('enum_mul', 'int', '(* @ 3)', ['Color'], ('Color', 'Color.Blue')),
    ('enum_div', 'int', '(/ @ 2)', ['Color'], ('Color', 'Color.Blue')),
    ('enum_mod', 'int', '(% @ 2)', ['Color'], ('Color', 'Color.Blue')),
    ('enum_rmod', 'int', '(% 7 @)', ['Color'], ('Color', 'Color.Blue')),
    ('enum_neg', 'int', '(- @)', ['Color'], ('Color', 'Color.Blue')),
    ('enum_lt', 'bool', '(< @ 2)', ['Color'], ('Color', 'Color.Blue')),
    ('enum_le', 'bool', '(<= @ 2)', ['Color'], ('Color', 'Color.Blue')),
    ('enum_gt', 'bool', '(> @ 1)', ['Color'], ('Color', 'Color.Blue')),
    ('enum_ge', 'bool', '(>= @ 2)', ['Color'], ('Color', 'Color.Blue')),
    ('enum_eq_int', 'bool', '(== @ 2)', ['Color'], ('Color', 'Color.Blue')),
    ('enum_ne_int', 'bool', '(!= @ 1)', ['Color'], ('Color', 'Color.Blue')),
    ('enum_eq_enum', 'bool', '(== @ Color.Blue)', ['Color'], ('Color', 'Color.Blue')),
    ('enum_add_enum', 'int', '(+ @ @)', ['Color'], ('Color', 'Color.Green')),
    ('enum_index', 'int', '(at [4, 5, 6] @)', ['Color'], ('Color', 'Color.Blue')),
    ('enum_cond', 'int', '(cond ((== @ Color.Blue) 10) (else 20))', ['Color'], ('Color', 'Color.Blue')),
    ('enum_call_arg', 'int', '(dbl @)', ['Color', 'dbl'], ('Color', 'Color.Blue')),
    ('enum_min', 'int', '(min @ 1)', ['Color'], ('Color', 'Color.Blue')),
    ('enum_abs', 'int', '(abs @)', ['Color'], ('Color', 'Color.Blue')),
    ('enum_lit_mod', 'int', '(% Color.Blue 2)', ['Color'], None),
    ('enum_lit_mul', 'int', '(* Color.Blue 2)', ['Color'], None),
    ('enum_lit_lt', 'bool', '(< Color.Green 2)', ['Color'], None),
    ('enum_to_string', 'string', '(int_to_string @)', ['Color'], ('Color', 'Color.Blue')),
]
CONTEXTS = ['global', 'stmt', 'call-arg', 'operand', 'if-cond', 'while-cond', 'for-bound', 'return', 'loop-body', 'block-let', 'shadow']

ID_FNS = {
    'int': 'fn idi(v: int) -> int {\n    return v\n}\nshadow idi { assert (== (idi 1) 1) }\n',
    'bool': 'fn idb(v: bool) -> bool {\n    return v\n}\nshadow idb { assert (idb true) }\n',
    'string': 'fn ids(v: string) -> string {\n    return v\n}\nshadow ids { assert (== (ids "a") "a") }\n',
}
ID_NAME = dict(int='idi', bool='idb', string='ids')


def as_bool(t, e):
    return e if t == 'bool' else '(> %s -1000)' % e if t == 'int' else '(== %s "zz")' % e


def as_int(t, e):
    return e if t == 'int' else '(cond (%s 2) (else 1))' % e if t == 'bool' else '(str_length %s)' % e


def operand(t, e):
    return '(+ %s 1)' % e if t == 'int' else '(and %s true)' % e if t == 'bool' else '(== %s "zz")' % e


class Cell:
    """the pieces one (construct, context) contributes to a program"""
    def __init__(self, k, cons, ctx):
        name, t, expr, pre, decl = cons
        self.name, self.ctx, self.t = name, ctx, t
        self.pre = list(pre)
        self.tops = []        # extra top-level text (globals, functions)
        self.body = []        # statements of main
        self.shadow = []      # statements of main's shadow block
        v = 'q%d' % k         # declared variable of the construct, if any
        e = expr.replace('@', v)
        d = None
        if decl:
            d = 'let %s: %s = %s' % (v, decl[0], decl[1])
        ind = '    '
        local = [ind + d] if d else []
        if ctx == 'global':
            if d:
                self.tops.append(d)
            self.tops.append('let g%d: %s = %s' % (k, t, e))
            self.body.append(ind + '(println g%d)' % k)
        elif ctx == 'stmt':
            self.body += local + [ind + 'let s%d: %s = %s' % (k, t, e), ind + '(println s%d)' % k]
        elif ctx == 'call-arg':
            self.pre.append('id:' + t)
            self.body += local + [ind + '(println (%s %s))' % (ID_NAME[t], e)]
        elif ctx == 'operand':
            self.body += local + [ind + '(println %s)' % operand(t, e)]
        elif ctx == 'if-cond':
            self.body += local + [ind + 'if %s {' % as_bool(t, e), ind * 2 + '(println 1)', ind + '} else {', ind * 2 + '(println 0)', ind + '}']
        elif ctx == 'while-cond':
            self.body += local + [ind + 'let mut w%d: int = 0' % k, ind + 'while (and (< w%d 2) %s) {' % (k, as_bool(t, e)),
                                  ind * 2 + 'set w%d (+ w%d 1)' % (k, k), ind + '}', ind + '(println w%d)' % k]
        elif ctx == 'for-bound':
            self.body += local + [ind + 'for i%d in (range 0 (min 3 %s)) {' % (k, as_int(t, e)), ind * 2 + '(println i%d)' % k, ind + '}']
        elif ctx == 'return':
            self.tops.append('fn r%d() -> %s {\n%s    return %s\n}\nshadow r%d { assert true }' % (k, t, (ind + d + '\n') if d else '', e, k))
            self.body.append(ind + '(println (r%d))' % k)
        elif ctx == 'loop-body':
            self.body += local + [ind + 'for j%d in (range 0 2) {' % k, ind * 2 + 'let b%d: %s = %s' % (k, t, e), ind * 2 + '(println b%d)' % k, ind + '}']
        elif ctx == 'block-let':
            self.body += [ind + 'if true {'] + [ind + x for x in local] + [ind * 2 + 'let c%d: %s = %s' % (k, t, e), ind * 2 + '(println c%d)' % k, ind + '}']
        elif ctx == 'shadow':
            self.shadow += local + [ind + 'assert (== %s %s)' % (e, e)]
            self.body.append(ind + '(println %d)' % k)
        else:
            raise ValueError(ctx)


def program(cells):
    pres, seen = [], set()
    for c in cells:
        for p in c.pre:
            if p not in seen:
                seen.add(p)
                pres.append(ID_FNS[p[3:]] if p.startswith('id:') else PRE[p])
    tops = [x for c in cells for x in c.tops]
    body = [x for c in cells for x in c.body]
    sh = [x for c in cells for x in c.shadow] or ['    assert true']
    return ''.join(pres) + '\n'.join(tops) + ('\n' if tops else '') + 'fn main() -> int {\n' + '\n'.join(body) + '\n    return 0\n}\nshadow main {\n' + '\n'.join(sh) + '\n}\n'


def classify(obs):
    """-> dict tool -> failure class (internal failure), and whether VM and native differ in success"""
    fails = {}
    for t in ('run', 'nanoc'):
        f = T.internal_failure(t, obs[t])
        if f is None and t == 'nanoc' and ('Shadow test' in obs[t]['err'] and 'FAILED' in obs[t]['err'] or 'Shadow tests failed' in obs[t]['err']):
            f = 'shadow-failed'
        if f:
            fails[t] = f
    nat = obs['nanoc']
    nat_ok = nat['rc'] == 0 and nat.get('ran') is not None and nat['ran']['rc'] is not None and nat['ran']['rc'] >= 0
    vm_ok = obs['run']['rc'] is not None and obs['run']['rc'] >= 0 and 'run' not in fails and 'runtime error' not in obs['run']['err'] and 'failed' not in obs['run']['err']
    if vm_ok != nat_ok and not fails:
        fails['differ'] = 'vm-%s/native-%s' % ('ok' if vm_ok else 'fails', 'ok' if nat_ok else 'fails')
    same_out = vm_ok and nat_ok and obs['run']['out'] == nat['ran']['out']
    return fails, same_out


def run_matrix(ck, b, probe, wd, thorough):
    """fills ck.extra['matrix*'], returns list of (key, what, replay) failures"""
    cells = {}
    for ci, cons in enumerate(CONSTRUCTS):
        for ctx in CONTEXTS:
            cells[(cons[0], ctx)] = Cell(ci, cons, ctx)
    keys = sorted(cells)
    singles = {k: program([cells[k]]) for k in keys}
    verd = dict(zip(keys, T.probe_tc(probe, [singles[k] for k in keys])))
    table = {}
    accepted_by_ctx = collections.defaultdict(list)
    for k in keys:
        v, err = verd[k]
        if v == 'accept':
            accepted_by_ctx[k[1]].append(k)
        else:
            table[k] = 'refused:' + (v.split(':')[-1])
    failures = []
    outdiff = 0

    def run_prog(name, src):
        obs = T.run_three(b, wd, name, src, want=('run', 'nanoc', 'native-run'))
        return obs, classify(obs)

    todo_single = []
    known_entries = {k['key']: k for k in getattr(ck, 'known', [])}
    known = set(known_entries)
    if thorough:
        todo_single = [k for ks in accepted_by_ctx.values() for k in ks]
    else:
        # cells that are open findings are replayed on their own; the rest of a context goes into one program
        for ctx in list(accepted_by_ctx):
            mine = [k for k in accepted_by_ctx[ctx] if 'c04:matrix:%s:%s' % k in known]
            todo_single += mine
            accepted_by_ctx[ctx] = [k for k in accepted_by_ctx[ctx] if k not in mine]
        # batches: one program per context; type-check the batch too (a batch the checker refuses is split)
        CH = 14          # cells per program (the VM's per-function local limit is hit by bigger for-bound batches)
        batches = {}
        for ctx, ks in accepted_by_ctx.items():
            for j in range(0, len(ks), CH):
                batches[(ctx, j)] = ks[j:j + CH]
        bsrc = {bk: program([cells[k] for k in ks]) for bk, ks in batches.items()}
        bverd = dict(zip(bsrc, T.probe_tc(probe, list(bsrc.values()))))
        def oneb(bk):
            if bverd[bk][0] != 'accept':
                return bk, None, ({'batch': 'refused'}, False)
            obs, cl = run_prog('mxb_%s_%d' % (bk[0].replace('-', '_'), bk[1]), bsrc[bk])
            return bk, obs, cl
        nsplit = 0
        for bk, obs, (fails, same_out) in langlib.pmap(oneb, sorted(batches)):
            if fails:
                nsplit += 1
                todo_single += batches[bk]
            else:
                for k in batches[bk]:
                    table[k] = 'ok' if same_out else 'ok(batch output differs)'
                if not same_out:
                    outdiff += 1
        ck.extra['matrix_batches'] = dict(batches=len(batches), split_into_singles=nsplit)

    def ones(k):
        obs, cl = run_prog('mx_%s_%s' % (re.sub(r'\W', '_', k[0]), k[1].replace('-', '_')), singles[k])
        return k, obs, cl
    for k, obs, (fails, same_out) in langlib.pmap(ones, todo_single):
        if fails:
            table[k] = 'FAIL ' + json.dumps(fails, sort_keys=True)
            # a recorded cell that now ALSO fails on a backend it did not fail on before is a different failure: own key
            ent = known_entries.get('c04:matrix:%s:%s' % k)
            if ent is not None and ent.get('failing_tools'):
                for t in sorted(set(fails) - set(ent['failing_tools'])):
                    failures.append(('c04:matrix:%s:%s:%s' % (k[0], k[1], t),
                                     'construct %s in context %s: recorded as failing on %s only, now also on %s: %s' % (k[0], k[1], ent['failing_tools'], t, fails[t]),
                                     dict(construct=k[0], context=k[1], source=singles[k], type_check='accept', internal_failures=fails)))
            failures.append(('c04:matrix:%s:%s' % k,
                             'construct %s in context %s: accepted by the type checker, then %s' % (k[0], k[1], json.dumps(fails, sort_keys=True)),
                             dict(construct=k[0], context=k[1], source=singles[k], reference_checker='(outside the fragment of Types.v)', type_check='accept',
                                  internal_failures=fails,
                                  backends={t: dict(rc=o['rc'], stdout=o['out'][:200].decode('latin1'), stderr=T.ANSI.sub('', o['err'])[-600:]) for t, o in obs.items()})))
        else:
            table[k] = 'ok' if same_out else 'ok(output differs)'
            if not same_out:
                outdiff += 1
    # summary for the evidence
    per_ctx = {ctx: collections.Counter() for ctx in CONTEXTS}
    for k in keys:
        r = table.get(k, '?')
        per_ctx[k[1]]['ok' if r.startswith('ok') else 'fail' if r.startswith('FAIL') else 'refused'] += 1
    ck.extra['matrix_size'] = dict(constructs=len(CONSTRUCTS), contexts=len(CONTEXTS), cells=len(keys),
                                   accepted=sum(1 for k in keys if verd[k][0] == 'accept'), failing=len(failures), vm_native_output_differs=outdiff)
    ck.extra['matrix_per_context'] = {c: dict(v) for c, v in per_ctx.items()}
    ck.extra['matrix_cells_output_differs'] = sorted('%s:%s' % k for k in keys if table.get(k, '') == 'ok(output differs)')
    ck.extra['matrix_contexts_whose_batch_output_differs'] = sorted({k[1] for k in keys if table.get(k, '') == 'ok(batch output differs)'})
    ck.extra['matrix_cells_not_ok'] = {'%s:%s' % k: table[k] for k in keys if not table.get(k, '?').startswith('ok')}
    for k in keys:
        ck.count('matrix:%s:%s' % k, table.get(k, '').startswith(('ok', 'FAIL')))
    return failures
