"""C12 -- a damaged bytecode file is refused, not executed.
Proof: NV/Props/Properties_C12.v (CRC burst theorem, refusal of bursts/bit flips/truncations/bad magic+version, all-or-nothing,
section completeness of every loaded file, the extension theorem pair keyed by the generated flag) over CRC parameters regenerated from nvm_format.c.
Correspondence: probes/nvm_probe.c (ASan+UBSan+leak check, real nvm_deserialize / nvm_crc32) vs the extracted model on the
same files: compiler-produced and generated .nvm files, loading-path histories (tools/props/c12_paths.py), every single-bit flip, every truncation, bursts in both bit
numberings, random tails, CRC-steered tails, bad magic/version/section count, crafted valid-checksum files whose table sections are not whole entries; plus `nano_vm damaged.nvm` end to end.

Scope note (reported in the evidence, not a violation of the property as stated): the checksum covers the bytes AFTER the
32-byte header only.  Flips of header bits in flags / entry_point / section_count / string_pool_offset / string_pool_length
are accepted by the loader; the property speaks about damage "after its header"."""
import os, json, struct, zlib
import vlib, nvmlib
import c12_paths

K_EXT = 'c12:load:extension:crc-steered-tail'
K_PARTIAL = 'c12:load:lenient-section:strings-entry-overrun'

PARTIAL_HEX = ('4e564d01010000000000000000000000010000002c0000000d000000d6e51f31'
               '020000002c0000000d0000000100000061640000007a7a7a7a')


def collect_files(ck, b, ref):
    """(name, bytes, main_ret) of compiler-produced files + (name, bytes, None) of model-generated modules"""
    files = []
    d = nvmlib.scratch('c12')
    for name, src, ret in nvmlib.write_programs():
        out = os.path.join(d, name + '.nvm')
        ok, err = nvmlib.compile_nvm(b, src, out)
        if not ok:
            ck.note('compile failed for %s: %s' % (name, err[-200:]))
            continue
        files.append((name, open(out, 'rb').read(), ret))
    for src in nvmlib.example_programs(ck.rng, 40 if ck.thorough else 8):
        name = os.path.basename(src)[:-5]
        out = os.path.join(d, name + '.nvm')
        ok, err = nvmlib.compile_nvm(b, src, out)
        if ok:
            files.append((name, open(out, 'rb').read(), None))
    # modules built through the API description (serialised by the MODEL; the probe must accept and agree)
    descs = [nvmlib.gen_desc(ck.rng) for _ in range(60 if ck.thorough else 20)]
    outs = vlib.run_lines(ref, ['rt ' + dsc for dsc in descs])
    for i, o in enumerate(outs):
        hx = o.split(' # ')[1]
        files.append(('gen%d' % i, b'' if hx == '-' else bytes.fromhex(hx), None))
    return files


def burst_cases(rng, f, n, msb):
    """n mutated copies of f: a burst of length 2..32 bits inside the body; numbering LSB-first (msb=False) or MSB-first"""
    out = []
    nbits = 8 * (len(f) - 32)
    if nbits <= 0:
        return out
    for _ in range(n):
        L = rng.randrange(2, 33) if rng.random() < 0.8 else rng.choice([2, 31, 32, 32])
        if nbits < L:
            continue
        start = rng.randrange(0, nbits - L + 1)
        pat = [1] + [rng.getrandbits(1) for _ in range(L - 2)] + [1]
        g = bytearray(f)
        for k, bit in enumerate(pat):
            if bit:
                p = start + k
                g[32 + p // 8] ^= (0x80 >> (p % 8)) if msb else (1 << (p % 8))
        out.append((bytes(g), 'burst:%s:start=%d:len=%d' % ('msb' if msb else 'lsb', start, L)))
    return out


def crc_kernel_burst():
    """Model-guided search used when the CRC theory breaks: a non-zero window value V < 2^L (L <= 32) with Zs^L(V) = 0 for the
    polynomial of the CURRENT source (gen/NvmConsts.v).  XOR-ing V (LSB-first) into any L-bit window leaves the CRC unchanged.
    None when Zs^L is injective for every L <= 32 (what C12_Zs_injective_32 states)."""
    import re
    t = open(os.path.join(vlib.COQ, 'NV', 'gen', 'NvmConsts.v')).read()
    poly = int(re.search(r'Definition crc_poly : N := (\d+)\.', t).group(1))
    def zs(x):
        return ((x >> 1) ^ poly) if x & 1 else (x >> 1)
    for L in range(1, 33):
        rows = []                      # (image, combination) for basis vectors 2^i, i < L
        for i in range(L):
            x = 1 << i
            for _ in range(L):
                x = zs(x)
            rows.append([x, 1 << i])
        # Gaussian elimination over GF(2) looking for a combination with image 0
        piv = {}
        for img, comb in rows:
            while img:
                h = img.bit_length() - 1
                if h in piv:
                    img ^= piv[h][0]; comb ^= piv[h][1]
                else:
                    piv[h] = (img, comb); break
            if img == 0 and comb:
                return L, comb
    return None


def crafted_cases(rng, f, n):
    """n files with a VALID checksum whose table sections are no longer whole entries: a directory size or a string length
    field changed by a few bytes, checksum recomputed (zlib.crc32 = the repo's CRC-32 as long as C12_crc_vectors holds)."""
    out = []
    if len(f) < 44:
        return out
    nsec = struct.unpack('<I', f[16:20])[0]
    if nsec == 0 or nsec > 16 or 32 + 12 * nsec > len(f):
        return out
    for _ in range(n):
        g = bytearray(f)
        i = rng.randrange(nsec)
        ty, off, sz = struct.unpack('<III', f[32 + 12 * i:44 + 12 * i])
        k = rng.random()
        if k < 0.5:
            d = rng.choice([-5, -3, -1, 1, 2, 7])
            g[40 + 12 * i:44 + 12 * i] = struct.pack('<I', (sz + d) & 0xffffffff); what = 'secsize:%d:%+d' % (i, d)
        elif k < 0.8 and ty == 2 and sz >= 4:
            (l0,) = struct.unpack('<I', f[off:off + 4])
            d = rng.choice([-1, 1, 3, 100, 0x7fffffff, 0xffffffff - l0])
            g[off:off + 4] = struct.pack('<I', (l0 + d) & 0xffffffff); what = 'strlen0:%+d' % d
        else:
            d = rng.choice([1, 3, 4])
            g = bytearray(f[:off + sz] + bytes(d) + f[off + sz:]); what = 'insert:%d:%d' % (i, d)   # shifts later sections: offsets now wrong
        g[28:32] = struct.pack('<I', zlib.crc32(bytes(g[32:])) & 0xffffffff)
        out.append((bytes(g), 'crafted:' + what))
    return out


def nano_vm_refuses(b, path, d):
    rc, o, e = nvmlib.run_tool([b.bin('nano_vm'), path], cwd=d, timeout=20)
    return (rc == 1 and 'invalid .nvm format' in e and o == ''), rc, o, e


CAP = 12


def capped(ck, cat, key, what, replay):
    """at most CAP reported inputs per category (the rest is counted in the evidence)"""
    n = ck.extra.setdefault('failures_by_category', {})
    n[cat] = n.get(cat, 0) + 1
    if n[cat] <= CAP:
        ck.fail(key, what, replay)


def run(ck):
    b = ck.build('plain')
    ck.gen(['gen_nvmconsts', 'gen_runnerflags', 'gen_loadpaths'])
    ck.prove()
    nvmlib.coqchk(ck)
    ref = ck.nvref('c12')
    probe = ck.probe('nvm_probe.c', 'asan')
    rng = ck.rng
    d = nvmlib.scratch('c12')
    files = collect_files(ck, b, ref)
    dist = dict(files=len(files), compiled=sum(1 for f in files if not f[0].startswith('gen')), file_bytes=sum(len(f[1]) for f in files),
                flips=0, truncations=0, bursts_lsb=0, bursts_msb=0, random_tails=0, steered_tails=0, header_faults=0, crc_buffers=0,
                nano_vm_runs=0)

    # ---- the line batch: (line, kind, meta); corpus first
    batch = []
    cdir = os.path.join(vlib.VERIF, 'corpus', 'C12')
    for fn in sorted(os.listdir(cdir)) if os.path.isdir(cdir) else []:
        if fn.endswith('.hex'):
            batch.append(('load ' + open(os.path.join(cdir, fn)).read().strip(), 'corpus', fn))
    SMALL = 1200 if ck.thorough else 420
    for name, f, ret in files:
        hx = nvmlib.hexs(f)
        batch.append(('load ' + hx, 'orig', (name, f)))
        batch.append(('sweep ' + hx, 'sweep', (name, f)))
        batch.append(('truncs ' + hx, 'truncs', (name, f)))
        nb = 200 if ck.thorough else 25
        for g, what in burst_cases(rng, f, nb, False) + burst_cases(rng, f, nb, True):
            batch.append(('load ' + nvmlib.hexs(g), 'burst', (name, f, g, what)))
        for g, what in crafted_cases(rng, f, 60 if ck.thorough else 10):
            batch.append(('load ' + nvmlib.hexs(g), 'crafted', (name, f, g, what)))
        for _ in range(20 if ck.thorough else 4):
            t = bytes(rng.getrandbits(8) for _ in range(rng.choice([1, 1, 2, 4, 4, 7, 16])))
            batch.append(('load ' + nvmlib.hexs(f + t), 'tail', (name, f, f + t, 'tail:' + t.hex())))
        # header faults the property names: magic, version (every value of each byte is too many; all bit flips are in the sweep)
        if len(f) >= 32:
            for off in (0, 1, 2, 3, 4, 5, 6, 7):
                g = bytearray(f); g[off] = rng.choice([x for x in range(256) if x != f[off]])
                batch.append(('load ' + nvmlib.hexs(bytes(g)), 'hdr', (name, f, bytes(g), 'hdrbyte:%d=%02x' % (off, g[off]))))
            g = bytearray(f); g[16:20] = struct.pack('<I', rng.choice([17, 255, 0x10000, 0xffffffff]))
            batch.append(('load ' + nvmlib.hexs(bytes(g)), 'hdr', (name, f, bytes(g), 'nsec=%d' % struct.unpack('<I', g[16:20])[0])))
    for _ in range(3000 if ck.thorough else 300):
        n = rng.choice([0, 1, 2, 3, 4, 5, 8, 31, 32, 33, 100, 255, 256, 257, 1000])
        batch.append(('crc ' + nvmlib.hexs(bytes(rng.getrandbits(8) for _ in range(n))), 'crc', None))
    batch.append(('load ' + PARTIAL_HEX, 'partial', None))

    lines = [x[0] for x in batch]
    impl, prc, perr = nvmlib.probe_lines(probe, lines)
    if prc != 0:
        k = len(impl)
        ck.fail('c12:crash:' + nvmlib.fhash(lines[k].encode() if k < len(lines) else b'?'),
                'nvm_probe crashed / sanitizer or leak report (rc=%s)' % prc,
                dict(input=lines[k][:4000] if k < len(lines) else None, stderr=perr[-3000:], engine='nvm_probe(asan)'))
    # the model answers every line except whole-file sweeps of big files (quadratic): those are checked against the property directly
    mlines, midx = [], []
    for i, (l, kind, meta) in enumerate(batch):
        if kind in ('sweep', 'truncs') and len(meta[1]) > SMALL:
            continue
        mlines.append(l); midx.append(i)
    model = dict(zip(midx, vlib.run_lines(ref, mlines, timeout=1500)))

    # ---- steered tails come from the model, then go to the probe and to nano_vm
    steer_in = [(name, f) for name, f, ret in files if len(f) >= 32]
    tails = vlib.run_lines(ref, ['steer ' + nvmlib.hexs(f) for _, f in steer_in])
    ext_lines = ['load ' + nvmlib.hexs(f + bytes.fromhex(t)) for (_, f), t in zip(steer_in, tails)]
    ext_impl, prc2, perr2 = nvmlib.probe_lines(probe, ext_lines)
    ext_model = vlib.run_lines(ref, ext_lines)

    # ---- compare
    accepted_header_bits = 0
    nbad = 0
    for i, (l, kind, meta) in enumerate(batch[:len(impl)]):
        a = impl[i]
        m = model.get(i)
        if m is not None and a != m:
            nbad += 1
            if nbad <= 10:
                ck.fail('c12:corr:%s:%s' % (kind, nvmlib.fhash(l.encode())),
                        'nvm_probe and model differ on a %s line' % kind,
                        dict(correspondence='nvm_probe vs nvref_c12', input=l[:6000], observed_impl=a[:3000], expected_model=m[:3000]))
        if kind == 'orig':
            ck.count(('orig', meta[0]), True)
            if a == 'NULL':
                ck.fail('c12:orig-refused:' + meta[0], 'an undamaged file is refused', dict(input=l[:6000], file=meta[0]))
        elif kind == 'sweep':
            name, f = meta
            acc = [] if a == 'A -' else [int(x) for x in a[2:].split(',')]
            body = [p for p in acc if p >= 256]
            accepted_header_bits += len(acc) - len(body)
            hdr_protected = [p for p in acc if p < 64 or 224 <= p < 256]     # magic, version, checksum bits must be caught
            nflip = 8 * len(f)
            dist['flips'] += nflip
            fh = nvmlib.fhash(f)
            for p in range(256, nflip):
                ck.count((fh, 'flip', p), True)
            ck.count(None, False, n=min(256, nflip))
            for p in body + hdr_protected:
                g = bytearray(f); g[p // 8] ^= 1 << (p % 8)
                capped(ck, 'flip-accepted', 'c12:flip-accepted:%s:bit=%d' % (name, p), 'single-bit flip at bit %d (byte %d) is accepted' % (p, p // 8),
                        dict(engine='nvm_probe(asan)', input='load ' + bytes(g).hex(), file=name, bit=p))
        elif kind == 'truncs':
            name, f = meta
            acc = [] if a == 'T -' else [int(x) for x in a[2:].split(',')]
            dist['truncations'] += len(f)
            fh = nvmlib.fhash(f)
            for k in range(len(f)):
                ck.count((fh, 'trunc', k), True)
            for k in acc:
                capped(ck, 'trunc-accepted', 'c12:trunc-accepted:%s:len=%d' % (name, k), 'file truncated to %d of %d bytes is accepted' % (k, len(f)),
                        dict(engine='nvm_probe(asan)', input='load ' + nvmlib.hexs(f[:k]), file=name))
        elif kind in ('burst', 'tail', 'hdr'):
            name, f, g, what = meta
            dist[{'burst': 'bursts_msb' if ':msb:' in what else 'bursts_lsb', 'tail': 'random_tails', 'hdr': 'header_faults'}[kind]] += 1
            ck.count((nvmlib.fhash(g), what), g[32:] != f[32:] or kind == 'hdr')
            if a != 'NULL':
                capped(ck, kind + '-accepted', 'c12:%s-accepted:%s:%s' % (kind, name, what), 'damaged file (%s) is accepted' % what,
                        dict(engine='nvm_probe(asan)', input=l[:6000], file=name, fault=what))
        elif kind == 'corpus':
            ck.count(('corpus', meta), True)      # every corpus file is a damaged or malformed file: it must be refused
            if a != 'NULL':
                ck.fail('c12:corpus-accepted:' + meta, 'corpus file %s (damaged/malformed) is accepted' % meta,
                        dict(engine='nvm_probe(asan)', input=l[:6000], observed=a[:500]))
        elif kind == 'crafted':
            name, f, g, what = meta
            dist['crafted_valid_crc'] = dist.get('crafted_valid_crc', 0) + 1
            dist['crafted_accepted'] = dist.get('crafted_accepted', 0) + (a != 'NULL')
            ck.count((nvmlib.fhash(g), what), True)   # agreement with the model is checked above (accept/refuse + fields)
        elif kind == 'crc':
            dist['crc_buffers'] += 1
            ck.count(l, len(l) > 6)
        elif kind == 'partial':
            ck.count('partial', True)
            if a != 'NULL':
                ck.fail(K_PARTIAL, 'a string section whose last entry overruns the section is loaded with the entry dropped',
                        dict(engine='nvm_probe(asan)', input=l, observed=a))
    if len(impl) != len(lines):
        ck.fail('c12:linecount', 'probe answered %d of %d lines' % (len(impl), len(lines)), dict(correspondence='nvm_probe vs nvref_c12'))

    # ---- model-guided search for an undetected burst (finds the input when the CRC theorems break)
    kb = crc_kernel_burst()
    ck.extra['crc_kernel_burst'] = 'none: Zs^L injective on L-bit windows for every L <= 32' if kb is None else 'L=%d V=%#x' % kb
    if kb is not None:
        L, V = kb
        klines, kmeta = [], []
        for name, f, ret in files:
            if 8 * (len(f) - 32) >= L:
                g = bytearray(f)
                for k in range(L):
                    if (V >> k) & 1:
                        g[32 + k // 8] ^= 1 << (k % 8)
                klines.append('load ' + bytes(g).hex()); kmeta.append((name, bytes(g)))
        ka, _, _ = nvmlib.probe_lines(probe, klines)
        for (name, g), a in zip(kmeta, ka):
            ck.count((nvmlib.fhash(g), 'kernel-burst'), True)
            if a != 'NULL':
                capped(ck, 'kernel-burst', 'c12:burst-accepted:%s:kernel:L=%d:V=%x' % (name, L, V),
                        'a %d-bit burst (pattern %#x at body bit 0) leaves the checksum unchanged and the file is accepted' % (L, V),
                        dict(engine='nvm_probe(asan)', input='load ' + g.hex()[:6000], file=name, burst_len=L, pattern=hex(V)))

    # ---- extension with a CRC-steered tail
    ext_hits = []
    for (name, f), t, a, m in zip(steer_in, tails, ext_impl, ext_model):
        dist['steered_tails'] += 1
        ck.count((nvmlib.fhash(f), 'steer', t), True)
        if a != m:
            capped(ck, 'corr-steer', 'c12:corr:steer:' + name, 'nvm_probe and model differ on file + steered tail',
                    dict(correspondence='nvm_probe vs nvref_c12', file=name, tail=t, observed_impl=a[:2000], expected_model=m[:2000]))
        if a != 'NULL':
            ext_hits.append((name, f, t))
    if ext_hits:
        name, f, t = ext_hits[0]
        p = os.path.join(d, 'ext_' + name + '.nvm')
        open(p, 'wb').write(f + bytes.fromhex(t))
        refused, rc, o, e = nano_vm_refuses(b, p, d)
        dist['nano_vm_runs'] += 1
        ck.fail(K_EXT, 'appended tail accepted: %d of %d files load unchanged with 4 extra bytes' % (len(ext_hits), len(steer_in)),
                dict(engine='nvm_probe(asan) + nano_vm', file=name, input_hex=(f + bytes.fromhex(t)).hex(), tail=t,
                     nano_vm_exit=rc, nano_vm_stdout=o[:300], nano_vm_stderr=e[:300], refused_by_nano_vm=refused))
        ck.extra['extension_accepted_files'] = len(ext_hits)

    # ---- end to end: nano_vm on a sample of damaged files (must print the load error, run nothing)
    e2e = []
    for name, f, ret in [x for x in files if not x[0].startswith('gen')][:6 if not ck.thorough else 20]:
        for _ in range(6 if not ck.thorough else 15):
            kind = rng.choice(['flip', 'trunc', 'burst', 'tail'])
            if kind == 'flip':
                p = rng.randrange(256, 8 * len(f)); g = bytearray(f); g[p // 8] ^= 1 << (p % 8); g = bytes(g); what = 'flip:%d' % p
            elif kind == 'trunc':
                k = rng.randrange(1, len(f)); g = f[:k]; what = 'trunc:%d' % k
            elif kind == 'burst':
                g, what = burst_cases(rng, f, 1, rng.random() < 0.5)[0]
            else:
                g = f + bytes(rng.getrandbits(8) for _ in range(4)); what = 'tail4'
            e2e.append((name, g, what))
    for j, (name, g, what) in enumerate(e2e):
        p = os.path.join(d, 'dmg_%d.nvm' % j)
        open(p, 'wb').write(g)
        refused, rc, o, e = nano_vm_refuses(b, p, d)
        dist['nano_vm_runs'] += 1
        ck.count((nvmlib.fhash(g), 'nano_vm', what), True)
        if not refused:
            capped(ck, 'nano_vm', 'c12:nano_vm:%s:%s' % (name, what), 'nano_vm did not refuse a damaged file (%s)' % what,
                    dict(engine='nano_vm', input_hex=g.hex(), file=name, fault=what, exit=rc, stdout=o[:500], stderr=e[:500]))

    # ---- every loading path, histories through one process (nano_vmd, nano_vm --daemon, nano_cop, wrapper executable)
    pf = [(n, f, os.path.join(nvmlib.scratch('src'), n + '.nano')) for n, f, _ in files if n in ('strings', 'ret42fn', 'loop')]
    dist['loading_paths'] = c12_paths.run(ck, b, pf, lambda cat, key, what, rep: capped(ck, cat, key, what, rep))

    # ---- open known findings not already re-established above are replayed here (keys must match exactly)
    seen = {f['key'] for f in ck.failures}
    for k in ck.known:
        if k['key'] in seen:
            continue
        hx = (k.get('input') or {}).get('load_hex')
        if hx:
            a, _, _ = nvmlib.probe_lines(probe, ['load ' + hx])
            if a and a[0] != 'NULL':
                ck.fail(k['key'], k.get('what', ''), dict(engine='nvm_probe(asan)', input='load ' + hx, observed=a[0][:500]))

    ck.cov['rule'] = ('files = compiler output of 10 written programs + sampled repo examples + model-serialised generated modules; per file: '
                      'EVERY single-bit flip and EVERY truncation length through the real loader (model compared on files <= %d bytes), '
                      'sampled bursts 2..32 bits in LSB-first and MSB-first numbering, random tails, CRC-steered tail, magic/version/'
                      'section-count faults; non-trivial = damaged file differs from the original after the header (or in magic/version/count); '
                      'distinct = (file hash, fault)' % SMALL)
    fl = nvmlib.gen_flags()
    ck.extra['generated_flags'] = fl
    ck.extra['live_theorems'] = ('C12_load_rejects_extension' if fl.get('reject_trailing') else 'C12_load_rejects_extension_refuted(_general)') + ' (the other direction is vacuous on this tree)'
    ck.extra['exhaustive'] = False
    ck.extra['exhaustive_note'] = 'single-bit flips and truncations: exhaustive per file; bursts/tails: sampled'
    ck.extra['input_distribution'] = dist
    ck.extra['header_bits_accepted_when_flipped'] = accepted_header_bits
    ck.extra['note_header_not_covered'] = ('flags, entry_point, section_count, string_pool_offset/length lie before the checksummed range: '
                                           '%d single-bit header flips were accepted by the real loader in this run (outside the property as stated)' % accepted_header_bits)
    sm = [i for i, x in enumerate(batch) if x[1] == 'burst'][:1] + [i for i, x in enumerate(batch) if x[1] == 'orig'][:1]
    for i in sm:
        if i < len(impl):
            ck.sample(dict(q=batch[i][0][:160] + '...', impl=impl[i][:160], model=(model.get(i) or '')[:160]))
    if ext_hits:
        ck.sample(dict(file=ext_hits[0][0], steered_tail=ext_hits[0][2], impl='accepted'))
    ck.trusted += ['translator tools/gen/dump_nvmconsts.c (#includes the current nvm_format.c) + gen_nvmconsts.py (clang JSON AST shape match for crc32_init/nvm_crc32)',
                   'extraction: ExtrOcamlBasic only; extract/nvio.ml + c12_driver.ml',
                   'probes/nvm_probe.c; the model Nvm/Format.v as a transcription of nvm_deserialize (tied by the correspondence above)',
                   'nano_vm prints "invalid .nvm format" iff nvm_deserialize returned NULL (src/nanovm/main.c run_standalone, read in the end-to-end runs)']
    ck.assumptions += ['fault model of the theorems: the first 32 bytes (header) are intact; damage is confined to the bytes the checksum covers',
                       'bursts are numbered in the CRC bit order (LSB first within a byte); MSB-first bursts that straddle 5 bytes are only swept',
                       'daemon (vmd_server.c) and co-process (cop_main.c) call the same nvm_deserialize; only nano_vm is run end to end here']


def replay(ck, d):
    b = ck.build('plain'); ck.gen(['gen_nvmconsts', 'gen_runnerflags', 'gen_loadpaths'])
    ref = ck.nvref('c12'); probe = ck.probe('nvm_probe.c', 'asan')
    if d.get('kind_of_replay') == 'history':
        bad = c12_paths.replay_history(ck, b, d)
        print('REPRODUCED' if bad else 'not reproduced')
        return 1 if bad else 0
    l = d.get('input')
    if not l and d.get('input_hex'):
        l = 'load ' + d['input_hex']
    a, rc, e = nvmlib.probe_lines(probe, [l])
    m = vlib.run_lines(ref, [l])
    print('input:', l[:300]); print('impl :', (a[0] if a else None), '(rc=%s)' % rc); print('model:', m[0] if m else None)
    if d.get('input_hex'):
        sd = nvmlib.scratch('c12'); p = os.path.join(sd, 'replay.nvm'); open(p, 'wb').write(bytes.fromhex(d['input_hex']))
        refused, rc2, o, e2 = nano_vm_refuses(b, p, sd)
        print('nano_vm: exit=%s stdout=%r stderr=%r' % (rc2, o[:200], e2[:200]))
    bad = rc != 0 or not a or a[0] != 'NULL' or (m and a[0] != m[0])
    print('REPRODUCED' if bad else 'not reproduced')
    return 1 if bad else 0
