"""C01 -- native (C-transpiled) and NanoVM backends are observationally equivalent.
Proof: NV/Props/Properties_C01.v (corollaries of the C02 development: value printing and exit status coincide, backends agree
on the fragment where the simulation theorems hold).
Oracle (independent of every model): direct differential of the two REAL backends -- stdout bytes and exit status -- on
(1) the witness programs of recorded findings, (2) the generated CoreS stream in prefix / infix / mixed spelling,
(3) the repository's own example and test programs (CoreX: structs, enums, unions, tuples, arrays, strings, imports)."""
import os, sys, glob, random, collections, json, hashlib
import c01_intfmt
import vlib, progen, langlib, lang_findings
import c02
import c01_builtins

CORPUS_GLOBS = ['examples/language/*.nano', 'tests/*.nano', 'examples/verified/*.nano', 'tests/integration/*.nano']
# programs whose output legitimately depends on the environment (argv, cwd, files, time): not "deterministic programs of the core language"
NONDET_MARKERS = ('argc', 'getenv', 'time', 'random', 'walkdir', 'fs_', 'path_', 'pybridge', 'extern fn')


def differ(vm, nat):
    if vm['cls'] != 'exit' or nat['cls'] != 'exit':
        return None
    if vm['rc'] == nat['rc'] and vm['out'] == nat['out']:
        return False
    return True


def first_diff(a, b):
    la, lb = a.split(b'\n'), b.split(b'\n')
    i = next((i for i, (x, y) in enumerate(zip(la, lb)) if x != y), min(len(la), len(lb)))
    return i, (la[i][:120].decode('latin1') if i < len(la) else None), (lb[i][:120].decode('latin1') if i < len(lb) else None)


def run(ck):
    b = ck.build('plain')
    ck.gen(['gen_isa', 'gen_intfmt'])
    ck.prove()
    c01_intfmt.tie(ck, b)
    for k in ('classes', 'features', 'styles'):
        ck.extra[k] = collections.Counter()
    # ---- 1+2: witnesses and generated stream, both real backends, three spellings
    cfg = c02.stream_cfg(ck)
    n = 240 if ck.thorough else 60
    WIT = dict(lang_findings.WITNESSES, **lang_findings.ENGINE_WITNESSES)
    progs = [(k, p, 'prefix') for k, p in sorted(WIT.items())]
    for i in range(n):
        g = progen.Gen(random.Random(ck.seed * 7919 + i), cfg)
        p = g.gen_program()
        progs.append(('s%d-%d' % (ck.seed, i), p, ('prefix', 'infix', 'mixed')[i % 3]))
        for f in g.feat:
            ck.extra['features'][f] += 1
    with langlib.Work('c01') as wd:
        def one(t):
            pid, p, style = t
            path = os.path.join(wd, 'p%s.nano' % hashlib.md5(pid.encode()).hexdigest()[:10])
            src = progen.to_nano(p, style, random.Random(hash(pid) & 0xffff))
            open(path, 'w').write(src)
            vm = langlib.run_vm(b, path, fuel=20_000_000, timeout=60)
            nat = langlib.run_native(b, path, wd)
            return pid, style, src, vm, nat
        results = langlib.pmap(one, progs)
    # hypotheses of C01_backends_agree evaluated on the stream: se_program (extracted) must hold for every generated program
    # while the argument-order finding is open (the generator is configured not to produce two effectful arguments)
    nv = ck.nvref('lang')
    gen_only = [(pid, p) for pid, p, _ in progs if pid not in WIT]
    se = vlib.run_lines(nv, ['se 0 ' + progen.to_sexp(p) for _, p in gen_only], timeout=600)
    ck.extra['theorem_hypotheses'] = dict(se_program_true=sum(x.strip() == '1' for x in se), se_program_false=sum(x.strip() == '0' for x in se),
                                          generator_multi_effect_args=cfg.multi_effect_args)
    # (se_program is stronger than the generator's promise: it also counts pure calls and / % as possibly effectful;
    #  programs outside it are covered by the correspondence only -- the split is reported, not enforced)
    for pid, style, src, vm, nat in results:
        d = differ(vm, nat)
        ck.extra['classes']['%s/%s' % (vm['cls'], nat['cls'])] += 1
        ck.extra['styles'][style] += 1
        ck.count(src, d is not None and len(vm['out']) > 0)
        iswit = pid in WIT
        key = pid if iswit else 'c01:gen:' + pid
        if d is None:
            # one backend did not produce a run: a front-end rejection is outside C01; anything else is a C04 matter, except
            # when only ONE backend fails on an accepted program (then the two backends observably disagree)
            one_failed = (vm['cls'] == 'exit') != (nat['cls'] == 'exit')
            if vm['cls'] == 'exit' and vm['rc'] == 1 and 'out of bounds' in vm['err'] and nat['cls'] == 'signal6':
                # both backends stopped at an out-of-range array access (VM: runtime error, exit 1; native: failed assertion, abort):
                # a partial operation, outside C01 ("performs no undefined partial operation"); C02/C08 judge it
                ck.extra['classes']['both-trap-out-of-bounds'] += 1
                continue
            if one_failed and 'rejected' not in (vm['cls'], nat['cls']):
                ck.fail(key, 'one backend runs the program, the other fails: vm=%s native=%s' % (vm['cls'], nat['cls']),
                        dict(source=src, vm=dict(cls=vm['cls'], rc=vm['rc'], err=vm['err'][-500:]), native=dict(cls=nat['cls'], rc=nat['rc'], err=nat['err'][-800:])))
            continue
        if d:
            i, lv, ln = first_diff(vm['out'], nat['out'])
            ck.fail(key, 'backends disagree: exit vm=%s native=%s; first differing stdout line %d: vm=%r native=%r' % (vm['rc'], nat['rc'], i, lv, ln),
                    dict(source=src, style=style, vm=dict(rc=vm['rc'], out=vm['out'].decode('latin1')[:4000]), native=dict(rc=nat['rc'], out=nat['out'].decode('latin1')[:4000])))
    # ---- 3: repository corpus (CoreX by correspondence only)
    files = []
    for g in CORPUS_GLOBS:
        files += sorted(glob.glob(os.path.join(vlib.REPO, g)))
    if not ck.thorough:
        files = [f for i, f in enumerate(files) if True]
    corp = collections.Counter()
    with langlib.Work('c01c') as wd:
        def onef(path):
            vm = langlib.run_vm(b, path, fuel=50_000_000, timeout=40)
            if vm['cls'] != 'exit':
                return path, vm, None
            nat = langlib.run_native(b, path, wd, timeout=40)
            return path, vm, nat
        cres = langlib.pmap(onef, files)
    for path, vm, nat in cres:
        rel = os.path.relpath(path, vlib.REPO)
        if nat is None or nat['cls'] != 'exit':
            corp['not-both-running'] += 1
            continue
        src = open(path, errors='replace').read()
        if vm['rc'] == nat['rc'] and vm['out'] == nat['out']:
            corp['agree'] += 1
            ck.count('corpus:' + rel, len(vm['out']) > 0)
            continue
        if any(m in src for m in NONDET_MARKERS) or _only_float_format(vm['out'], nat['out']):
            corp['outside-property(env/ffi/float-print)'] += 1
            continue
        corp['DISAGREE'] += 1
        i, lv, ln = first_diff(vm['out'], nat['out'])
        ck.count('corpus:' + rel, True)
        ck.fail('c01:corpus:' + rel, 'backends disagree on %s: exit vm=%s native=%s; first differing line %d: vm=%r native=%r' % (rel, vm['rc'], nat['rc'], i, lv, ln),
                dict(file=rel, vm=dict(rc=vm['rc'], line=lv, err=vm['err'][-300:]), native=dict(rc=nat['rc'], line=ln)))
    ck.extra['corpus'] = dict(corp)
    # ---- 4: every pure builtin on both backends over boundary operands, and compositions of them (tools/props/c01_builtins.py)
    c01_builtins.sweep(ck, b)
    ck.extra['corpus_files'] = len(files)
    for k in ('classes', 'features', 'styles'):
        ck.extra[k] = dict(ck.extra[k])
    ck.sample(dict(program=results[-1][2][:1200], vm_exit=results[-1][3]['rc'], native_exit=results[-1][4]['rc']))
    ck.cov['rule'] = ('both real backends on: finding witnesses; progen programs (CoreS, three spellings); repo example/test programs that run on both '
                      'backends (CoreX).  non-trivial = both backends ran and printed at least one byte; distinct = distinct source text')
    ck.trusted += ['tools/progen.py, tools/langlib.py (runners; exit status and stdout bytes compared exactly)',
                   'corpus programs that use the environment, FFI modules or print floats are outside the property and skipped (markers listed in c01.py)']
    ck.assumptions += ['runs stay inside resource limits: VM budget 2e7 instructions, 60 s']


def _only_float_format(a, b):
    """True when the outputs differ only in how floats are printed (4.0 vs 4, 0.1 vs 0.100000): the property compares floats,
    it does not cover their text form."""
    import re
    la, lb = a.split(b'\n'), b.split(b'\n')
    if len(la) != len(lb):
        return False
    num = re.compile(rb'-?\d+(?:\.\d+)?(?:[eE][-+]?\d+)?')
    sawfloat = False
    for x, y in zip(la, lb):
        if x == y:
            continue
        if num.sub(b'#', x) != num.sub(b'#', y):
            return False                      # the text around the numbers differs
        nx, ny = num.findall(x), num.findall(y)
        if len(nx) != len(ny):
            return False
        for p, q in zip(nx, ny):
            if p == q:
                continue
            if b'.' not in p and b'.' not in q and b'e' not in p.lower() and b'e' not in q.lower():
                return False                  # two different integers: a real difference
            fp, fq = float(p), float(q)
            if abs(fp - fq) > 1e-4 * max(1.0, abs(fp), abs(fq)):
                return False
        sawfloat = True
    return sawfloat


def replay(ck, d):
    b = ck.build('plain')
    with langlib.Work('replay') as wd:
        if 'file' in d:
            path = os.path.join(vlib.REPO, d['file'])
        else:
            path = os.path.join(wd, 'r.nano'); open(path, 'w').write(d['source'])
        vm = langlib.run_vm(b, path, fuel=20_000_000, timeout=60); nat = langlib.run_native(b, path, wd)
    print('vm    :', vm['cls'], vm['rc'], vm['out'][:300]); print('native:', nat['cls'], nat['rc'], nat['out'][:300])
    same = differ(vm, nat) is False
    print('REPRODUCED' if not same else 'not reproduced')
    return 0 if same else 1
