"""C03 -- compile-time shadow-test evaluation agrees with the compiled program.
Proof: NV/Props/Properties_C03.v
  interp_correct            names_apart sp -> every shadow block on which the reference semantics is defined: the evaluator model
                            (Back/InterpSem, the tree walker AS IT IS: one symbol stack = dynamic scoping, blocks pop since fix 9481a65, ...) prints the same
                            text, records no failed assertion when the reference passes and one when the reference fails
  interp_correct_refuted    without names_apart it is false (SPECIFICATION 8.1 program; parameter named like a constant), by vm_compute
  pass_at_compile_time_passes_at_run_time   with Back/Agree.nat_ltor_is_ref
Oracles on the implementation (no model involved):
  (N) text printed between "Testing f... " and PASSED/FAILED + number of failed assertions of real `nanoc --verbose`
      == what the native binary built by nanoc prints / how many conditions are false when main executes the same statements
  (R) the same against Lang/Ref.run_ref
Tie (model vs implementation): Back/InterpSem + Driver/ShadowGate extracted (nvref_c03) vs real nanoc on every case, including
the clash stream, where the evaluator deviates from the language and the model must predict HOW.
Streams: witnesses of the recorded findings; progen programs with generated shadow blocks (values from the reference);
synthetic name-clash programs (shadowlib.clash_program); layouts: several shadow blocks per function, blocks before / far from
their function, blocks for functions imported from a module (shadowlib.layout); and the stream "builtins in shadow tests"
(c03_builtins.py): every pure builtin of c01_builtins.py's table on boundary operands (its pools + ints around 2^53 / 2^62), one
case per function, printed by the shadow block at compile time and by main in the compiled program, compared byte for byte."""
import os, sys, random, collections, json
import vlib, progen, langlib
import shadowlib as S
import shadow_witnesses as W
import c03_builtins as BB

MODEL_BOUNDARY = {'c03:void-call-value', 'c03:string-self-assign-crash'}     # the model does not claim to predict the evaluator here (see InterpSem.v header)


def evaluate(ck, c, stream, want_native=True):
    """All comparisons for one case.  Returns dict(native=[...], ref=[...], tie=[...], theorem=[...], status)."""
    res = dict(native=[], ref=[], tie=[], theorem=[], status='ok')
    if S.front_rejected(c):
        res['status'] = 'rejected'
        return res
    if c.r_rc < 0 and c.r_rc != -9:
        # nanoc itself was killed (stack overflow of the evaluator, ...): nothing is compiled
        res['status'] = 'crash'
        if c.ref_a['cls'] == 'exit':
            res['ref'] = ['nanoc is killed by signal %d at compile time (stderr tail %r); the reference semantics runs the same statements to completion'
                          % (-c.r_rc, c.r_stderr[-160:])]
        if c.m_interp['cls'] == 'done':
            res['tie'] = ['real nanoc killed by signal %d, model outcome done' % -c.r_rc]
        return res
    if c.r_rc == -9:
        # nanoc did not terminate: the evaluator loops (the model must say so: out of fuel)
        res['status'] = 'hang'
        if c.m_interp['cls'] != 'nofuel':
            res['tie'] = ['real nanoc does not terminate (timeout), model outcome %s' % c.m_interp['cls']]
        if c.ref_a['cls'] == 'exit':
            res['ref'] = ['nanoc does not terminate at compile time; the reference semantics runs the same statements to completion']
        return res
    if c.m_interp['cls'] == 'nofuel':
        res['tie'] = ['model runs out of fuel, real nanoc terminates (rc=%s)' % c.r_rc]
    if not c.r_verbose.get('reached'):
        res['status'] = 'no-shadow-phase'
        res['tie'] = ['nanoc did not reach the shadow phase: rc=%s stderr=%s' % (c.r_rc, c.r_stderr[-300:])]
        return res
    if want_native:
        ns = S.native_segments(c)
        if ns is None and S.ref_fault_test(c) is not None and c.r_native and c.r_native['cls'] == 'exit' and c.r_native['rc'] == 1:
            pass            # the binary stops at the same assertion (assert aborts with exit 1)
        elif ns is None and c.ref_a['cls'] == 'fault-oob' and c.r_native and c.r_native['cls'] == 'signal6':
            pass            # the binary stops at the same out-of-range access (the runtime's index assertion aborts)
        elif ns is None:
            res['native_unavailable'] = c.r_native['cls'] if c.r_native else 'not-run'
        else:
            res['native'] = S.cmp_compile_vs_run(c, ns, 'native')
    rs = S.ref_segments(c)
    if rs is not None:
        res['ref'] = S.cmp_compile_vs_run(c, rs, 'reference')
    elif S.ref_fault_test(c) is not None:
        # a false assertion inside a called function: the reference stops there; at compile time that test must be FAILED
        k = S.ref_fault_test(c)
        ex = [t for t in S.real_tests(c) if t[2] != 'SKIPPED']
        if k < len(ex) and ex[k][2] != 'FAILED':
            res['ref'] = ['reference: test %s executes a false assertion inside a called function; at compile time it is %s' % (ex[k][0], ex[k][2])]
        res['native_expected_abort'] = True
    elif c.ref_a['cls'] == 'fault-oob':
        # the reference stops at an out-of-range (at a i) during some test: compile-time evaluation must stop there too
        # (nanoc: "Runtime Error: Array index ... out of bounds", exit 1, no executable)
        if c.r_rc == 0 or c.r_binary:
            res['ref'] = ['reference: a shadow test indexes an array out of range; nanoc exits %s, executable=%s' % (c.r_rc, c.r_binary)]
    else:
        res['ref_unavailable'] = c.ref_a['cls']
    res['tie'] = S.cmp_model(c)
    # the evaluator reports a division by zero on stderr and goes on with void: if the reference run is clean, an operand was
    # evaluated that the language does not evaluate
    import re as _re
    m = _re.search(r'^Error: (Division|Modulo) by zero', c.r_stderr, _re.M)
    if m and c.ref_a['cls'] == 'exit':
        res['ref'].append('the evaluator reports "%s" at compile time; the reference semantics never divides by zero in this program' % m.group(0))
    # the theorem's instance on this case, evaluated on the extracted definitions: names_apart and the reference is
    # defined on a test  =>  model text == reference text, model passes iff reference passes
    if c.m_apart and c.m_reft is not None and c.m_interp['cls'] == 'done':
        # block by block, in source order (a function may have several blocks)
        for (n, cls, out), (mn_, mp, mnf, mtr, mout) in zip(c.m_reft, c.m_interp['tests']):
            if mn_ != n or cls not in ('ok', 'assert'):
                continue
            if cls == 'ok' and (mout != out or not mp):
                res['theorem'].append('interp_correct instance fails on test %s: reference passes printing %r, model %s printing %r' % (progen.fname(n), out[:120], 'passes' if mp else 'fails', mout[:120]))
            if cls == 'assert' and (mp or not mout.startswith(out)):
                res['theorem'].append('interp_correct instance fails on test %s: reference fails an assertion after %r, model %s printing %r' % (progen.fname(n), out[:120], 'passes' if mp else 'fails', mout[:120]))
    return res


def record(ck, c, res, stream):
    """turn the comparison results of one case into ck.fail calls; returns True when the implementation diverged"""
    key0 = c.id if stream == 'witness' else 'c03:%s' % c.id
    diverged = bool(res['native'] or res['ref'])
    nontrivial = any(t[1] for t in S.real_tests(c)) or any(t[2] == 'FAILED' for t in S.real_tests(c)) or res['status'] in ('hang', 'crash')
    ck.count(c.s_src, nontrivial and res['status'] in ('ok', 'hang', 'crash'))
    ck.extra['status'][res['status']] += 1
    if res['status'] == 'rejected':
        return False
    if stream == 'witness':
        if diverged:
            ck.fail(key0, 'compile-time evaluation differs from the compiled program / the language: ' + '; '.join((res['native'] + res['ref'])[:2]),
                    S.replay_dict(c, discrepancies=res['native'] + res['ref']))
        if res['tie'] and c.id not in MODEL_BOUNDARY:
            ck.fail(key0 + ':tie', 'correspondence broken: evaluator model != real nanoc on a witness: ' + '; '.join(res['tie'][:2]),
                    S.replay_dict(c, correspondence='Back.InterpSem/Driver.ShadowGate vs nanoc --verbose', discrepancies=res['tie']), tie=True)
        return diverged
    if stream == 'clash':
        # the evaluator is known to deviate here (open findings c03:dynamic-scope, c03:string-escapes, ...): a divergence is
        # attributed to them only when (1) the program is outside names_apart and (2) the model, which implements exactly
        # those mechanisms, predicts the real compile-time behaviour byte for byte
        if res['tie']:
            ck.fail(key0 + ':tie', 'correspondence broken: evaluator model != real nanoc: ' + '; '.join(res['tie'][:2]),
                    S.replay_dict(c, correspondence='Back.InterpSem/Driver.ShadowGate vs nanoc --verbose', discrepancies=res['tie']), tie=True)
        elif diverged and c.m_apart:
            ck.fail(key0, 'names_apart program on which compile-time evaluation differs: ' + '; '.join((res['native'] + res['ref'])[:2]),
                    S.replay_dict(c, discrepancies=res['native'] + res['ref']))
        elif diverged:
            ck.extra['clash']['diverges-as-the-model-predicts'] += 1
            for f in c.feat:
                ck.extra['clash_features_diverging'][f] += 1
        else:
            ck.extra['clash']['agrees'] += 1
        return diverged
    if res['native']:
        ck.fail(key0 + ':native', 'compile-time evaluation differs from the native binary: ' + '; '.join(res['native'][:2]),
                S.replay_dict(c, discrepancies=res['native']))
    if res['ref']:
        ck.fail(key0 + ':ref', 'compile-time evaluation differs from the reference semantics: ' + '; '.join(res['ref'][:2]),
                S.replay_dict(c, discrepancies=res['ref']))
    if res['tie']:
        ck.fail(key0 + ':tie', 'correspondence broken: evaluator model != real nanoc (property %s on this input): %s' % (
            'violated' if diverged else 'holds', '; '.join(res['tie'][:2])),
            S.replay_dict(c, correspondence='Back.InterpSem/Driver.ShadowGate vs nanoc --verbose', discrepancies=res['tie']), tie=not diverged)
    if res['theorem']:
        ck.fail(key0 + ':theorem-instance', res['theorem'][0], S.replay_dict(c, discrepancies=res['theorem']), tie=not diverged)
    if 'native_unavailable' in res:
        ck.extra['native_unavailable'][res['native_unavailable']] += 1
        if res['native_unavailable'] not in ('rejected',):
            ck.fail(key0 + ':native-build', 'the native build of the same statements failed (%s): no run-time side to compare' % res['native_unavailable'],
                    S.replay_dict(c))
    return diverged


def witness_cases():
    cs = [S.hand_case(k, p, sh) for k, (p, sh) in sorted(W.WITNESSES.items())]
    for c in cs:
        if c.id.endswith('-hang'):
            c.timeout = 8
    return cs


def run(ck):
    b = ck.build('plain')
    for k in ('dropped', 'status', 'clash', 'clash_features_diverging', 'native_unavailable', 'modes', 'features', 'apart'):
        ck.extra[k] = collections.Counter()
    ck.prove()
    nvl = ck.nvref('lang'); nv3 = ck.nvref('c03')
    openk = S.all_open_keys()
    # 1. witnesses (replayed first)
    wit = witness_cases()
    S.run_models(nv3, nvl, wit)
    S.run_real(b, wit, 'c03w')
    for c in wit:
        record(ck, c, evaluate(ck, c, 'witness'), 'witness')
    # corpus shared with C06: assertions whose truth depends on the loop iteration (counts and verdicts must match run time)
    corp = [W.corpus_case(S, k) for k in sorted(W.CORPUS)]
    S.run_models(nv3, nvl, corp)
    S.run_real(b, corp, 'c03c')
    for c in corp:
        record(ck, c, evaluate(ck, c, 'gen'), 'gen')
    # deterministic family "control-flag leaks" (independent of the seed): loop kind x how an iteration ends x position x enclosing
    # construct, statements after the loop in the same block; always in the stream
    fam = S.flag_family()
    S.run_models(nv3, nvl, fam)
    S.run_real(b, fam, 'c03f')
    ck.extra['control_flag_family'] = dict(programs=len(fam), constructs=sum(len(c.flag_labels) for c in fam),
                                           loops=S.FLAG_LOOPS, ends=S.FLAG_ENDS, positions=S.FLAG_POS, enclosing=S.FLAG_ENCL)
    for c in fam:
        r = evaluate(ck, c, 'gen')
        record(ck, c, r, 'gen')
        if r['status'] != 'ok' or not c.m_apart:
            ck.fail('c03:%s:family-not-run' % c.id, 'control-flag family program: status %s, names_apart %s' % (r['status'], c.m_apart), S.replay_dict(c), tie=True)
    # deterministic family "operand evaluation": and / or (right operand only when needed: printing, guarded recursion, operands that
    # would stop the program), binary operands / call arguments / array elements / cond tests in order
    ofam = S.order_family(openk)
    S.run_models(nv3, nvl, ofam)
    S.run_real(b, [c for c in ofam if not c.native_exempt], 'c03o')
    S.run_real(b, [c for c in ofam if c.native_exempt], 'c03p', want_native=False)
    ck.extra['operand_evaluation_family'] = dict(programs=len(ofam), constructs=sum(len(c.order_labels) for c in ofam),
                                                 native_exempt=[c.id for c in ofam if c.native_exempt],
                                                 labels=sorted(l for c in ofam for l in c.order_labels.values())[:200])
    for c in ofam:
        r = evaluate(ck, c, 'gen', want_native=not c.native_exempt)
        record(ck, c, r, 'gen')
        if r['status'] not in ('ok',) and not (r['native'] or r['ref']):
            ck.fail('c03:%s:family-not-run' % c.id, 'operand-evaluation family program: status %s' % r['status'], S.replay_dict(c), tie=True)
    # 2. main stream: nothing that triggers an open finding; the theorem's hypothesis holds
    cfg = S.stream_cfg(openk)
    n = 400 if ck.thorough else 36
    modes = ['none', 'none', 'none', 'many', 'none', 'first', 'none', 'loop']
    cases = S.build_cases(ck, nvl, [ck.seed * 100003 + i for i in range(n)], cfg, modes, 's%d' % ck.seed, iter_prob=(0.6, 0.2), multi_prob=0.35, import_prob=0.2)
    S.count_iter(ck, cases)
    S.count_layout(ck, cases)
    S.run_models(nv3, nvl, cases)
    S.run_real(b, cases, 'c03m')
    # block-local shadowing may pick a top-level constant's name: such a program is outside names_apart (dynamic scoping is an
    # OPEN finding) and is judged like the clash stream: the model must predict whatever the evaluator does
    for c in cases:
        stream = 'gen' if c.m_apart else 'clash'
        r = evaluate(ck, c, stream)
        record(ck, c, r, stream)
        ck.extra['modes'][c.mode] += 1
        ck.extra['apart'][str(c.m_apart)] += 1
        for f in c.feat:
            ck.extra['features'][f] += 1
    ck.extra['assertions_executed_main_stream'] = sum(len(t[3]) for c in cases if c.m_interp['cls'] == 'done' for t in c.m_interp['tests'])
    # 3. clash stream: the model must predict the deviation
    m = 240 if ck.thorough else 28
    clash = S.build_cases(ck, nvl, [ck.seed * 7919 + i for i in range(m)], None, ['none'], 'k%d' % ck.seed, genf=S.clash_program)
    cfg2 = S.stream_cfg(openk, clash=True)
    clash += S.build_cases(ck, nvl, [ck.seed * 104729 + i for i in range(m // 2)], cfg2, ['none'], 'e%d' % ck.seed)
    for c in clash:
        c.timeout = 12
    S.run_models(nv3, nvl, clash)
    S.run_real(b, clash, 'c03k', want_native=False)
    for c in clash:
        record(ck, c, evaluate(ck, c, 'clash', want_native=False), 'clash')
        ck.extra['apart']['clash-' + str(c.m_apart)] += 1
    # 4. builtins in shadow tests (table and pools of c01_builtins.py + ints around 2^53 / 2^62): compile time vs the compiled program
    for k in ('builtins_unobservable', 'builtin_differences'):
        ck.extra[k] = collections.Counter()
    BB.run_stream(ck, b, openk)
    # 5. histories on stateful containers (HashMap with colliding keys, dynamic arrays, List<int>): compile time vs the same binary
    BB.run_histories(ck, b)
    for k in ('builtins_unobservable', 'builtin_differences'):
        ck.extra[k] = dict(ck.extra[k])
    if cases:
        c = cases[0]
        ck.sample(dict(source=c.s_src[:1500], compile_time=[(t[0], t[1].decode('latin1')[:200], t[2]) for t in S.real_tests(c)],
                       native_stdout=(c.r_native or {}).get('out', b'').decode('latin1')[:400]))
    ck.cov['rule'] = ('one case = a program + its shadow blocks, compiled by the real nanoc (--verbose) and, with main executing the same '
                      'statements, run as native binary and on the reference semantics; non-trivial = a shadow block prints or fails; '
                      'distinct = distinct source text.  Streams: finding witnesses, progen stream (open-finding triggers excluded), clash stream '
                      '(evaluator deviates; model must predict it).')
    for k in ('dropped', 'status', 'clash', 'clash_features_diverging', 'native_unavailable', 'modes', 'features', 'apart', 'iteration_dependent', 'block_layout'):
        ck.extra[k] = dict(ck.extra.get(k, {}))
    ck.extra['generator_config'] = {k: v for k, v in cfg.__dict__.items()}
    ck.trusted += ['Lang/Ref.v as a faithful transcription of docs/SPECIFICATION.md sections 4-8 (reviewed by hand)',
                   'extraction ExtrOcamlBasic only; extract/nvio.ml, nvio_z.ml, c03_driver.ml (S-expression reader)',
                   'tools/progen.py, tools/props/shadowlib.py (generators, renderers, parsers of nanoc --verbose output), tools/langlib.py',
                   'the C compiler/libc under the native binary are modelled (Back/NatSem), not verified',
                   'InterpSem models the value of a call that ends without `return e` as void (evaluator: value of the last statement); witness c03:void-call-value']
    ck.assumptions += ['shadow blocks terminate within %d evaluation steps; no division by zero / INT64_MIN / -1 in the streams' % S.FUEL,
                       'interp_correct is stated for programs satisfying names_apart (Back/NamesApart.v) on which the reference semantics is defined']


def replay(ck, d):
    if 'builtin_case' in d:
        return BB.replay_case(ck, ck.build('plain'), d)
    b = ck.build('plain'); nvl = ck.nvref('lang'); nv3 = ck.nvref('c03')
    c = S.Case()
    c.id, c.mode, c.seed, c.tag, c.feat, c.picked = d.get('case', 'replay'), d.get('mode', '?'), 0, 'replay', {}, []
    c.s_src, c.a_src, c.sprog, c.a_sexp, c.order_names = d['source'], d['a_source'], d['sprog'], d['a_sexp'], d['order']
    c.mod_src = d.get('module_source')
    S.run_models(nv3, nvl, [c])
    S.run_real(b, [c], 'c03r')
    r = evaluate(ck, c, 'gen')
    print(c.s_src)
    print('nanoc rc=%s binary=%s' % (c.r_rc, c.r_binary)); print(c.r_stdout.decode('latin1')[-1500:])
    for k in ('native', 'ref', 'tie', 'theorem'):
        for l in r[k]:
            print('%s: %s' % (k, l))
    bad = any(r[k] for k in ('native', 'ref', 'tie', 'theorem'))
    print('REPRODUCED' if bad else 'not reproduced')
    return 1 if bad else 0
