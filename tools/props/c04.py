"""C04 -- accepted programs never get stuck on any backend.
Proof (NV/Props/Properties_C04.v): wt_sound (programs accepted by the reference checker Lang/Types.wt never reach a stuck
state of the reference semantics, all fuels, calls and recursion included), its native corollary, and
codegen_names_resolve_partial (the bytecode compiler model resolves every name of an accepted program).
Tie / oracle on the implementation.  The property quantifies over what src/typechecker.c accepts, so the check is
  (1) two-sided agreement  type_check (real, probes/tc_probe.c)  <=>  wt (extracted)  on generated well-typed programs AND on
      their catalogue mutants (Lang/Mutate.mut, ill-typed by theorem);
  (2) every program the real checker accepts -- well-typed ones, and a sample of each class of ill-typed ones it lets
      through -- is pushed through BOTH real backends (nano_virt --run; nanoc + running the binary) and must not end in an
      internal failure class: "C compilation failed", "Transpilation failed", "codegen failed", "bytecode verification failed",
      a run-time error other than the documented faults (assert, index, call depth, budget), a fatal signal.
A disagreement of (1) is reported under the name of the unchecked place that causes it (tc_common.root_cause), with the failure
classes (2) observed for it; those are the open findings of known_findings.d/C04.json.  Anything else is a violation."""
import os, sys, random, collections, json, hashlib
import vlib, progen, langlib, lang_findings
import tc_common as T
import c02, c05, c04_matrix, c04_ident, c04_tails, c04_typegraph, scope_witnesses


def hand_witnesses():
    """programs the real checker accepts although a static rule is broken (or rejects although none is), one per cause"""
    W = dict(c05.witness_sources())
    F1 = 'fn f1(v2: int) -> int {\n    return v2\n}\nshadow f1 { assert true }\n'
    def main(body, pre=F1):
        return pre + 'fn main() -> int {\n' + body + '\n    return 0\n}\nshadow main { assert true }\n'
    W['block-scope-not-popped'] = main('    if true {\n        let v5: int = 4\n        (println v5)\n    }\n    (println v5)')
    W['function-scope-not-popped'] = main('    (println v6)', F1 + 'fn f3() -> int {\n    let v6: int = 3\n    return v6\n}\nshadow f3 { assert true }\n')
    W['print-arg-unchecked'] = main('    (println v99)')                      # unknown name: accepted, both code generators fail
    W['result-unwrap-or-default-type'] = main('    let r: Result<int, string> = Result.Ok { value: 4 }\n    let v: int = (result_unwrap_or r true)\n    (println v)',
                                              'union Result<T, E> {\n    Ok { value: T },\n    Err { error: E }\n}\n')
    W['string-order-comparison'] = main('    let v5: bool = (< "a" "b")\n    (println v5)')
    SH = 'shadow %s { assert true }\n'
    W['duplicate-parameter-names'] = main('    (println (f3 1 2))', 'fn f3(v4: int, v4: int) -> int {\n    return v4\n}\n' + SH % 'f3')
    W['main-with-parameters'] = 'fn main(v1: int) -> int {\n    return 0\n}\n' + SH % 'main'
    W['global-initialiser-call'] = 'fn f3() -> int {\n    return 7\n}\n' + SH % 'f3' + 'let v10: int = (f3)\n' + main('    (println v10)', '')
    W['void-operands'] = main('    (println (== (f3) (f3)))', 'fn f3() -> void {\n    (println 1)\n}\n' + SH % 'f3')
    W['void-variable'] = main('    let v5: void = (f3)', 'fn f3() -> void {\n    (println 1)\n}\n' + SH % 'f3')
    return W


def reject_witnesses():
    """well-typed by the reference rules, refused by the real checker"""
    F1 = 'fn f1(v2: int) -> int {\n    return v2\n}\nshadow f1 { assert true }\n'
    return {
        # spec 8.2: an inner scope may shadow an outer variable -- also at another type
        'reject:shadow-other-type': (F1 + 'fn main() -> int {\n    let v5: int = 4\n    if true {\n        let v5: bool = true\n        (println v5)\n    }\n'
                                     '    let v6: int = (+ v5 1)\n    (println v6)\n    return 0\n}\nshadow main { assert true }\n'),
        # spec 5.6: "I allow any expression to be used as a statement"
        'reject:pure-expression-statement': (F1 + 'fn main() -> int {\n    5\n    return 0\n}\nshadow main { assert true }\n'),
    }


def handwritten_programs():
    """well-typed programs for the rules the generator does not reach: string variables and ==/!= on strings, void functions with
    an early bare return, for bounds that are expressions, while inside for with break/continue, bool globals used in functions,
    three-level shadowing, return from inside a loop, if/else chains that return on every path, parameter order"""
    N = lang_findings.N; V = lang_findings.V; P = lang_findings.P; seq = lang_findings.seq; fn = lang_findings.fn; prog = lang_findings.prog
    S = lambda x: ('str', x)
    return [
        prog([fn(1, [(2, 'str'), (3, 'str')], 'bool', seq(P(V(2)), ('ret', ('bin', 'eq', V(2), V(3))))),
              fn(0, [], 'int', seq(('let', False, 4, 'str', S(b'ab')), ('let', True, 5, 'str', S(b'cd')), ('set', 5, V(4)), P(('call', 1, [V(4), V(5)])),
                                   P(('bin', 'ne', V(4), S(b'x'))), ('ret', N(0))))]),
        prog([fn(1, [(2, 'int')], 'void', seq(('if', ('bin', 'lt', V(2), N(0)), ('ret', None), ('skip',)), P(V(2)))),
              fn(0, [], 'int', seq(('expr', ('call', 1, [N(3)])), ('expr', ('call', 1, [N(-3)])), ('ret', N(0))))]),
        prog([fn(0, [], 'int', seq(('let', True, 1, 'int', N(0)), ('let', False, 9, 'int', N(4)),
              ('for', 2, N(0), ('bin', 'add', V(9), N(1)), seq(('if', ('bin', 'eq', V(2), N(1)), ('continue',), ('skip',)),
                  ('let', True, 3, 'int', N(0)), ('while', ('bin', 'lt', V(3), V(2)), seq(('set', 3, ('bin', 'add', V(3), N(1))),
                      ('if', ('bin', 'gt', V(3), N(2)), ('break',), ('skip',)), ('set', 1, ('bin', 'add', V(1), V(3))))))),
              P(V(1)), ('ret', ('bin', 'mod', V(1), N(7)))))]),
        prog([fn(1, [(2, 'bool')], 'bool', ('ret', ('bin', 'and', V(2), ('un', 'not', V(10))))),
              fn(0, [], 'int', seq(P(('call', 1, [V(11)])), P(('cond', V(11), V(12), N(0))), ('ret', N(0))))],
             [(10, 'bool', ('bool', False)), (11, 'bool', ('bin', 'or', V(10), ('bool', True))), (12, 'int', ('bin', 'mul', N(6), N(7)))]),
        prog([fn(0, [], 'int', seq(('let', False, 1, 'int', N(1)), ('if', ('bool', True), seq(('let', False, 1, 'int', N(2)),
              ('if', ('bool', True), seq(('let', False, 1, 'int', N(3)), P(V(1))), ('skip',)), P(V(1))), ('skip',)), P(V(1)), ('ret', N(0))))]),
        prog([fn(1, [(2, 'int')], 'int', seq(('for', 3, N(0), N(10), ('if', ('bin', 'eq', V(3), V(2)), ('ret', ('bin', 'mul', V(3), N(2))), ('skip',))), ('ret', N(-1)))),
              fn(0, [], 'int', seq(P(('call', 1, [N(4)])), P(('call', 1, [N(40)])), ('ret', N(0))))]),
        prog([fn(1, [(2, 'int')], 'int', ('if', ('bin', 'gt', V(2), N(0)), ('ret', N(1)), ('if', ('bin', 'lt', V(2), N(0)), ('ret', N(-1)), ('ret', N(0))))),
              fn(0, [], 'int', seq(P(('call', 1, [N(5)])), P(('call', 1, [N(-5)])), P(('call', 1, [N(0)])), ('ret', N(0))))]),
        prog([fn(1, [(2, 'int'), (3, 'int')], 'int', ('ret', ('bin', 'sub', V(2), V(3)))), fn(0, [], 'int', seq(P(('call', 1, [N(10), N(3)])), ('ret', N(0))))]),
    ]


def backends(b, wd, name, src):
    obs = T.run_three(b, wd, name, src, want=('run', 'nanoc', 'native-run'))
    fails = {}
    for t in ('run', 'nanoc'):
        f = T.internal_failure(t, obs[t])
        if f:
            fails[t] = f
    return obs, fails


def brief(obs):
    out = {}
    for t, o in obs.items():
        out[t] = dict(rc=o['rc'], stdout=o['out'][:200].decode('latin1'), stderr=T.ANSI.sub('', o['err'])[-700:])
        if o.get('ran'):
            out[t]['binary'] = dict(rc=o['ran']['rc'], stdout=o['ran']['out'][:200].decode('latin1'))
    return out


def run(ck):
    b = ck.build('plain')
    ck.gen(['gen_isa', 'gen_intfmt', 'gen_driverphases', 'gen_diagsites'])
    ck.prove()
    nv = ck.nvref('c04')
    nvl = ck.nvref('lang')
    probe = ck.probe('tc_probe.c')
    for k in ('agreement', 'failure_classes', 'accepted_ill_typed_by_cause', 'features', 'backend_runs'):
        ck.extra[k] = collections.Counter()
    known_keys = {k['key'] for k in ck.known}
    with langlib.Work('c04') as wd:
        # ---- 1. witnesses
        hw = hand_witnesses()
        rw = reject_witnesses()
        lw = {k: T.to_nano(p) for k, p in lang_findings.WITNESSES.items()}
        sw = scope_witnesses.ok()          # well-formed name re-use across functions / blocks: accepted, and both backends print the same
        allw = [('c04:' + k, s, 'ill') for k, s in sorted(hw.items())] + [('c04:' + k, s, 'ok') for k, s in sorted(rw.items())] + \
               [('c04:ok:' + k, s, 'ok') for k, s in sorted(sw.items())] + \
               [(k, s, 'ok') for k, s in sorted(lw.items())]
        verd = T.probe_tc(probe, [s for _, s, _ in allw])
        def onew(t):
            (key, src, ref), (v, err) = t
            if v != 'accept':
                return key, src, ref, v, err, None, {}
            obs, fails = backends(b, wd, 'w' + hashlib.md5(key.encode()).hexdigest()[:8], src)
            if key.startswith('c04:ok:scope:'):
                fails = c04_tails.classify(obs)        # also: the two backends must print the same
            return key, src, ref, v, err, obs, fails
        for key, src, ref, v, err, obs, fails in langlib.pmap(onew, list(zip(allw, verd))):
            ck.count('witness:' + key, True)
            rep = dict(source=src, reference_checker='accepts' if ref == 'ok' else 'rejects', type_check=v, diagnostics=T.diag_titles(err),
                       backends=brief(obs) if obs else None, internal_failures=fails)
            if ref == 'ill' and v == 'accept':
                ck.fail(key, 'the real type checker accepts an ill-typed program; backends: %s' % (json.dumps(fails) if fails else 'no internal failure (acceptance mismatch only)'), rep)
            elif ref == 'ok' and v != 'accept':
                ck.fail(key, 'the real type checker refuses a program that breaks no static rule (%s)' % v, rep)
            elif ref == 'ok' and fails:
                ck.fail(key, 'accepted well-typed program ends in an internal failure: ' + json.dumps(fails), rep)
        # ---- 1b. construct x context matrix (independent of progen): every accepted cell through both backends
        for key, what, rep in c04_matrix.run_matrix(ck, b, probe, wd, ck.thorough):
            ck.fail(key, what, rep)
        # ---- 1c. identifier spelling axis: every binding position x spellings hostile to the emitted C
        for key, what, rep in c04_ident.run_ident(ck, b, probe, wd, ck.thorough):
            ck.fail(key, what, rep)
        # ---- 1d. function tails: non-void/void functions and main ending in every control construct whose paths all return
        for key, what, rep in c04_tails.run_tails(ck, b, probe, wd, ck.thorough):
            ck.fail(key, what, rep)
        # ---- 1e. type declaration graphs: composite types in every declaration order
        for key, what, rep in c04_typegraph.run_typegraph(ck, b, probe, wd, ck.thorough):
            ck.fail(key, what, rep)
        # ---- 2. generated well-typed programs: acceptance on both sides, then both real backends
        cfg = c02.stream_cfg(ck)
        nprog = 120 if ck.thorough else 32
        progs = handwritten_programs()
        nprog += len(progs)
        for i in range(nprog - len(progs)):
            cfg_i = cfg if i % 3 else progen.Cfg(**dict(cfg.__dict__, reuse_names_across_fns=True))     # a third of the programs re-use names across functions
            g = progen.Gen(random.Random(ck.seed * 7927 + i), cfg_i)
            progs.append(g.gen_program())
            for f in g.feat:
                ck.extra['features'][f] += 1
        sx = [progen.to_sexp(p) for p in progs]
        srcs = [progen.to_nano(p, ('prefix', 'infix', 'mixed')[i % 3], random.Random(i)) for i, p in enumerate(progs)]
        wts = T.model_wt(nv, sx)
        vmc = vlib.run_lines(nv, ['vmc ' + s for s in sx], timeout=600)
        ref = langlib.model_many(nvl, 'ref', sx)
        verd = T.probe_tc(probe, srcs)
        def onep(i):
            if verd[i][0] != 'accept':
                return i, None, {}
            obs, fails = backends(b, wd, 'p%d' % i, srcs[i])
            return i, obs, fails
        for i, obs, fails in langlib.pmap(onep, range(nprog)):
            pid = 's%d-%d' % (ck.seed, i)
            v = verd[i][0]
            ck.extra['agreement']['wt=%s/type_check=%s' % ('ok' if wts[i] else 'ill', v)] += 1
            rep = dict(program_sexp=sx[i], source=srcs[i], type_check=v, diagnostics=T.diag_titles(verd[i][1]), backends=brief(obs) if obs else None)
            ck.count(sx[i], obs is not None)
            if not wts[i]:
                ck.fail('c04:gen:%s:not-wt' % pid, 'generator produced a program the reference checker rejects (generator or Types.v defect)', rep)
                continue
            if ref[i]['cls'] in ('stuck', 'error'):
                ck.fail('c04:gen:%s:ref-stuck' % pid, 'reference semantics stuck on a program wt accepts (contradicts wt_sound: extraction or model defect)', rep)
            if vmc[i] != 'ok':
                ck.fail('c04:gen:%s:model-codegen' % pid, 'VmCompile model fails on a program wt accepts (contradicts codegen_names_resolve or an encoding bound)', rep)
            if v != 'accept':
                ck.fail('c04:gen:%s:refused' % pid, 'the real type checker refuses a generated well-typed program (%s)' % v, rep)
                continue
            for t in ('run', 'nanoc'):
                ck.extra['backend_runs'][t] += 1
            for t, f in fails.items():
                ck.extra['failure_classes']['well-typed:%s:%s' % (t, f)] += 1
                ck.fail('c04:gen:%s:%s' % (pid, t), 'accepted well-typed program ends in an internal failure on %s: %s' % (t, f), dict(rep, tool=t, failure=f))
        ck.sample(dict(program=srcs[0][:1000], type_check=verd[0][0]))
        # ---- 3. their mutants: ill-typed by theorem; what does the real checker say, and what happens to those it accepts?
        nmut_prog = nprog if ck.thorough else 16
        per_cause = 20 if ck.thorough else 4
        muts = T.model_mutants(nv, sx[:nmut_prog])        # the handwritten programs come first: their mutants are always included
        items = []
        for i, ms in enumerate(muts):
            for q in ms:
                q['prog'] = i
                q['src'] = T.to_nano(T.prog_ast(q['sexp']))
                q['cause'] = T.root_cause(q['rule'], progs[i]['fns'][q['fn']], q['path'], q['arg'])
                items.append(q)
        verd2 = T.probe_tc(probe, [q['src'] for q in items])
        by_cause = collections.defaultdict(list)
        for q, (v, err) in zip(items, verd2):
            q['tc'] = v; q['tc_err'] = err
            ck.extra['agreement']['wt=%s/type_check=%s' % ('ok' if q['wt'] else 'ill', v)] += 1
            if q['wt']:
                ck.fail('c04:model:mutant-well-typed:%s' % q['rule'], 'a mutant is accepted by the reference checker (contradicts mut_ill_typed)', dict(mutant_sexp=q['sexp']))
            if v == 'accept':
                by_cause[q['cause']].append(q)
                ck.extra['accepted_ill_typed_by_cause'][str(q['cause'])] += 1
                ck.count(q['sexp'], False)
            elif v == 'reject:types':
                ck.count(q['sexp'], True)
            else:
                ck.count(q['sexp'], True)
                ck.fail('c04:front:%s:%s' % (v, q['rule']), 'front end did not reach a type-check verdict on a mutant: %s' % v, dict(source=q['src'], mutant_sexp=q['sexp']))
        torun = []
        for cause, qs in sorted(by_cause.items(), key=lambda kv: str(kv[0])):
            ck.rng.shuffle(qs)
            if cause is not None and ('c04:' + cause) in known_keys:
                torun += qs[:per_cause]
            else:
                torun += qs if ck.thorough else qs[:60]
        def onem(t):
            j, q = t
            obs, fails = backends(b, wd, 'm%d' % j, q['src'])
            return q, obs, fails
        agg = collections.defaultdict(lambda: dict(n=0, fails=collections.Counter(), example=None))
        for q, obs, fails in langlib.pmap(onem, list(enumerate(torun))):
            a = agg[q['cause']]
            a['n'] += 1
            for t in ('run', 'nanoc'):
                ck.extra['backend_runs'][t] += 1
            for t, f in fails.items():
                a['fails']['%s:%s' % (t, f)] += 1
                ck.extra['failure_classes']['ill-typed-accepted:%s:%s' % (t, f)] += 1
            if a['example'] is None or (fails and not a['example'][2]):
                a['example'] = (q, obs, fails)
        for cause, a in agg.items():
            q, obs, fails = a['example']
            key = 'c04:' + cause if cause is not None else 'c04:unexplained:%s' % q['rule']
            ck.fail(key, 'the real type checker accepts ill-typed programs (%d of this class run): %s' % (
                        a['n'], json.dumps(dict(a['fails'])) if a['fails'] else 'no internal failure (acceptance mismatch only)'),
                    dict(cause=cause, rule=q['rule'], fn=q['fn'], path=q['path'], arg=q['arg'], source=q['src'], mutant_sexp=q['sexp'], original_sexp=sx[q['prog']],
                         reference_checker='rejects', type_check=q['tc'], diagnostics=T.diag_titles(q['tc_err']), backends=brief(obs),
                         internal_failures=fails, failure_classes_of_the_sample=dict(a['fails'])))
    for k in ('agreement', 'failure_classes', 'accepted_ill_typed_by_cause', 'features', 'backend_runs'):
        ck.extra[k] = dict(ck.extra[k])
    ck.extra['programs'] = nprog
    ck.extra['mutants'] = len(items)
    ck.cov['rule'] = ('witness programs of every recorded finding; the construct x context matrix (c04_matrix.py: builtins, enum operands, structs/tuples/match in 11 contexts) the type-declaration-graph axis (c04_typegraph.py: 16 dependency shapes of 2-5 composite types in every declaration order), the function-tail axis (c04_tails.py: 13 tails whose paths all return x int/bool/string/struct/array/void results and main itself) and the identifier-spelling axis (c04_ident.py: 10 binding positions x 101 spellings hostile to the emitted C), every accepted cell on both real backends; type-directed random well-typed programs (progen, prefix/infix/mixed spelling) checked by the '
                      'extracted reference checker, the real front end and BOTH real backends (nano_virt --run; nanoc + the binary); all catalogue mutants of a '
                      'subset of them (ill-typed by theorem) checked by the real front end, and a sample per class of accepted ones run on both backends.  '
                      'non-trivial = a program that went through both real backends, or a mutant on which both checkers agree (rejected); distinct = distinct program')
    ck.trusted += ['Lang/Types.v as a faithful transcription of the static rules of docs/SPECIFICATION.md sections 3-6, 8; Lang/Ref.v of sections 4-8',
                   'extraction ExtrOcamlBasic only; extract/nvio.ml, nvio_z.ml, c04_driver.ml, lang_driver.ml',
                   'tools/progen.py, tools/langlib.py, tools/props/tc_common.py (tool runner, failure classes, attribution of accepted mutants)',
                   'probes/tc_probe.c (calls tokenize, parse_program, type_check as the drivers do)',
                   'the engine models Back/VmCompile, Back/NatSem are tied to the real engines by the C02 check, not here']
    ck.assumptions += ['runs stay inside resource limits: VM budget %d instructions, 30 s; budget exhaustion is not an internal failure' % T.VM_FUEL,
                       'division by zero and INT64_MIN / -1 are not generated (documented faults)']


def replay(ck, d):
    b = ck.build('plain')
    probe = ck.probe('tc_probe.c')
    src = d.get('source')
    print(src)
    v, err = T.probe_tc(probe, [src])[0]
    print('type_check:', v, T.diag_titles(err))
    with langlib.Work('replay') as wd:
        obs, fails = backends(b, wd, 'r', src)
    if 'tail' in d or str(d.get('key', '')).startswith('c04:ok:scope:'):
        fails = c04_tails.classify(obs)
    elif 'construct' in d or 'spelling' in d:
        fails = c04_matrix.classify(obs)[0]
    for t, o in brief(obs).items():
        print(t, o)
    ref = d.get('reference_checker')
    bad = bool(fails) or (ref == 'rejects' and v == 'accept') or (ref == 'accepts' and v != 'accept')
    print('REPRODUCED' if bad else 'not reproduced', fails)
    return 1 if bad else 0
