"""C12, "loading paths and histories": a damaged file must be refused by EVERY loading path at EVERY position of the
history of the loading process -- standalone nano_vm, one nano_vmd instance serving many sessions (raw protocol sessions
and the `nano_vm --daemon` client), a nano_cop that is sent INIT several times, the wrapper executable with its embedded
image.  Deterministic: fixed files, fixed damage classes (positions drawn from ck.rng), fixed histories.
The Coq side is C12_verdict_is_deserialize / C12_damaged_refused_after_any_history over the generated facts
NV.gen.LoadPaths (tools/gen/gen_loadpaths.py)."""
import os, struct, subprocess, shutil
import vlib, nvmlib
from vmd_common import (Daemon, raw_session, frame, parse_frames, canon_reply, via_daemon,
                        T_LOAD_EXEC, T_ERROR, T_EXIT, T_OUTPUT)

COP_INIT, COP_SHUTDOWN, COP_READY = 0x01, 0x03, 0x12


def sections(f):
    n = struct.unpack_from('<I', f, 16)[0]
    return [struct.unpack_from('<III', f, 32 + 12 * i) for i in range(n)] if n <= 16 and 32 + 12 * n <= len(f) else []


def damages(rng, f):
    """same-length damage after the header, one per class: a bit flip inside each section, a burst in the directory,
    four changed bytes in the code, the last byte; plus two length-changing ones (truncation, appended byte)"""
    out = []
    def flip(g, bit):
        g[bit // 8] ^= 1 << (bit % 8)
    names = {1: 'code', 2: 'strings', 3: 'functions', 8: 'imports', 9: 'debug'}
    for ty, off, sz in sections(f):
        if sz > 0 and off + sz <= len(f):
            g = bytearray(f); p = 8 * off + rng.randrange(8 * sz); flip(g, p)
            out.append((bytes(g), 'flip:%s:bit=%d' % (names.get(ty, 'sec%d' % ty), p)))
    nsec = len(sections(f))
    if nsec:
        g = bytearray(f); start = 8 * 32 + rng.randrange(8 * 12 * nsec - 20)
        for k in range(17):
            if k in (0, 16) or rng.getrandbits(1):
                flip(g, start + k)
        out.append((bytes(g), 'burst17:directory:bit=%d' % start))
    code = [(off, sz) for ty, off, sz in sections(f) if ty == 1 and sz >= 4]
    if code:
        off, sz = code[0]; q = off + rng.randrange(sz - 3)
        g = bytearray(f)
        for k in range(4):
            g[q + k] = (g[q + k] + 1 + rng.randrange(255)) & 0xff
        out.append((bytes(g), 'bytes4:code:at=%d' % q))
    g = bytearray(f); g[-1] ^= 0x80
    out.append((bytes(g), 'flip:lastbyte'))
    out.append((f[:-1], 'trunc:-1'))
    out.append((f + b'\x00', 'ext:+1'))
    return out


def vmd_exec(sock, blob, timeout=30.0):
    rr = raw_session(sock, frame(T_LOAD_EXEC, blob), timeout=timeout)
    c = canon_reply(rr['recv'])
    errs = [p for t, p in c['others'] if t == T_ERROR]
    exits = [struct.unpack('<i', p)[0] for t, p in c['others'] if t == T_EXIT and len(p) == 4]
    return dict(out=c['out'], errors=errs, exits=exits, timeout=rr.get('timeout'), reset=rr.get('reset'))


def refused_by_daemon(r):
    return r['out'] == b'' and len(r['errors']) > 0 and not any(e == 0 for e in r['exits']) and not r['timeout']


def run(ck, b, files, fail):
    """files: [(name, bytes, src_path)] of compiler-produced programs (>= 2).  fail(cat, key, what, replay)."""
    rng = ck.rng
    d = nvmlib.scratch('c12_paths')
    stats = dict(daemon_sessions=0, daemon_damaged=0, daemon_client_runs=0, cop_inits=0, wrapper_runs=0, histories=0)
    progs = []
    for name, f, src in files[:3]:
        p = os.path.join(d, name + '.nvm'); open(p, 'wb').write(f)
        rc, o, e = nvmlib.run_tool([b.bin('nano_vm'), p], cwd=d, timeout=30)
        progs.append(dict(name=name, f=f, path=p, src=src, out=o.encode(), rc=rc, dmg=damages(rng, f)))
    if len(progs) < 2:
        ck.note('loading-path histories skipped: fewer than two compiled programs')
        return stats
    A, B = progs[0], progs[1]
    C = progs[2] if len(progs) > 2 else progs[0]

    def I(p):
        return ('intact', p, p['f'], 'intact')

    def D(p, k):
        g, what = p['dmg'][k % len(p['dmg'])]
        return ('damaged', p, g, what)

    nA = len(A['dmg'])
    histories = {
        'intact-then-damaged': [I(A), D(A, 0)],
        'damaged-intact-damaged': [D(A, 1), I(A), D(A, 1)],
        'intact-then-every-damage': [I(A)] + [D(A, k) for k in range(nA)],
        'A-B-damagedA': [I(A), I(B), D(A, 2)],
        'long-mixed': [D(A, 0), I(A), D(A, 0), I(A), D(A, 3), I(B), D(B, 0), D(A, 1), I(C), D(C, 1), D(B, 2), I(B), D(B, 2), I(A), D(A, 4)],
    }

    # ---- one nano_vmd instance per history (raw sessions), then all histories again through ONE more instance
    def play(dm, hname, h, offset=0):
        for i, (kind, p, blob, what) in enumerate(h):
            r = vmd_exec(dm.sock, blob)
            stats['daemon_sessions'] += 1
            ck.count(('hist', hname, offset + i, p['name'], what), True)
            pre = [(k, q['name'], w) for k, q, _, w in h[:i]]
            rep = dict(kind_of_replay='history', path='nano_vmd(raw session)', history=hname, position=offset + i,
                       history_hex=[x[2].hex() for x in h[:i + 1]], earlier=pre, file=p['name'], fault=what,
                       daemon_stdout=r['out'][:300].decode('latin1'), daemon_errors=[e[:120].decode('latin1') for e in r['errors']], exits=r['exits'])
            if kind == 'damaged':
                stats['daemon_damaged'] += 1
                if not refused_by_daemon(r):
                    fail('history-vmd', 'c12:history:vmd:%s:%s:%s:pos=%d' % (hname, p['name'], what, offset + i),
                         'nano_vmd ran a damaged file (%s of %s) at position %d of history %s (earlier requests: %s)' % (what, p['name'], offset + i, hname, pre),
                         rep)
            else:
                if r['out'] != p['out'] or not r['exits'] or (r['exits'][0] & 0xff) != (p['rc'] & 0xff):
                    fail('history-vmd-intact', 'c12:history:vmd-intact:%s:%s:pos=%d' % (hname, p['name'], offset + i),
                         'nano_vmd answered an intact file differently from standalone nano_vm at position %d of history %s' % (offset + i, hname), rep)

    for hname, h in histories.items():
        stats['histories'] += 1
        try:
            with Daemon(b) as dm:
                play(dm, hname, h)
        except RuntimeError as e:
            fail('history-daemon', 'c12:history:daemon-start', 'nano_vmd could not be started: %s' % str(e)[:200], dict(path='nano_vmd'))
            return stats
    with Daemon(b) as dm:
        off = 0
        for hname, h in histories.items():
            play(dm, 'all-in-one/' + hname, h, off); off += len(h)
        # ---- the `nano_vm --daemon` client against the same, by now well-used, instance
        for p in (A, B):
            for g, what in [(p['f'], 'intact')] + p['dmg'] + [(p['f'], 'intact')]:
                fp = os.path.join(d, 'client.nvm'); open(fp, 'wb').write(g)
                rc, o, e = via_daemon(b, dm, fp, timeout=30)
                stats['daemon_client_runs'] += 1
                ck.count(('client', p['name'], what), True)
                if what == 'intact':
                    if o != p['out'] or rc != (p['rc'] & 0xff):
                        fail('history-client-intact', 'c12:history:client-intact:%s' % p['name'],
                             '`nano_vm --daemon` differs from standalone on an intact file', dict(path='nano_vm --daemon', file=p['name'], rc=rc, stdout=o[:300].decode('latin1')))
                elif not (rc != 0 and o == b''):
                    fail('history-client', 'c12:history:client:%s:%s' % (p['name'], what),
                         '`nano_vm --daemon` ran a damaged file (%s of %s) after the intact one' % (what, p['name']),
                         dict(kind_of_replay='history', path='nano_vm --daemon', file=p['name'], fault=what, history_hex=[p['f'].hex(), g.hex()],
                              rc=rc, stdout=o[:300].decode('latin1'), stderr=e[:300].decode('latin1')))

    # ---- nano_cop: INIT frames to one process; it must stop at the first damaged image (READY count = number of intact ones before it)
    cop = b.bin('nano_cop')
    if os.path.exists(cop):
        seqs = [[I(A), D(A, 0)], [I(A), I(A), D(A, 1), I(A)], [I(A), I(B), D(A, 2)], [D(A, 3), I(A)], [I(B)] + [D(B, 0)]]
        for h in seqs:
            data = b''.join(frame(COP_INIT, x[2]) for x in h) + frame(COP_SHUTDOWN)
            try:
                r = subprocess.run([cop], input=data, capture_output=True, timeout=30, cwd=d)
                fs, rest = parse_frames(r.stdout)
            except subprocess.TimeoutExpired:
                fs = None
            stats['cop_inits'] += len(h)
            want = next((i for i, x in enumerate(h) if x[0] == 'damaged'), len(h))
            ck.count(('cop', tuple((x[0], x[1]['name'], x[3]) for x in h)), True)
            got = None if fs is None else sum(1 for f_ in fs if f_[0] == COP_READY)
            if got != want:
                fail('history-cop', 'c12:history:cop:%s' % '+'.join('%s/%s' % (x[1]['name'], x[3]) for x in h),
                     'nano_cop answered %s READY to an INIT sequence whose first damaged image is number %d' % (got, want),
                     dict(kind_of_replay='history', path='nano_cop', history_hex=[x[2].hex() for x in h], ready=got, expected_ready=want))

    # ---- wrapper executable: the embedded array patched in a copy of the binary
    env = dict(os.environ, NANO_VIRT_LIB=nvmlib.wrapper_objdir(b))
    w = os.path.join(d, 'wrap_' + A['name'])
    if os.path.exists(w):
        os.unlink(w)
    rc, o, e = vlib.sh([b.bin('nano_virt'), A['src'], '-o', w], timeout=120, cwd=b.root, env=env)
    if rc == 0 and os.path.exists(w):
        img = open(w, 'rb').read()
        at = img.find(A['f'])
        if at < 0 or img.find(A['f'], at + 1) >= 0:
            ck.note('wrapper path skipped: embedded image not found exactly once in the executable')
        else:
            for g, what in [(A['f'], 'intact')] + [x for x in A['dmg'] if len(x[0]) == len(A['f'])]:
                wp = os.path.join(d, 'wrap_patched'); open(wp, 'wb').write(img[:at] + g + img[at + len(g):]); os.chmod(wp, 0o755)
                rc2, o2, e2 = nvmlib.run_tool([wp], cwd=d, timeout=30)
                stats['wrapper_runs'] += 1
                ck.count(('wrapper', A['name'], what), True)
                if what == 'intact':
                    if o2.encode() != A['out']:
                        fail('history-wrapper-intact', 'c12:history:wrapper-intact', 'patched-in intact image does not run like the original', dict(path='wrapper', rc=rc2, stdout=o2[:300]))
                elif not (rc2 == 1 and o2 == '' and 'failed to deserialize' in e2):
                    fail('history-wrapper', 'c12:history:wrapper:%s:%s' % (A['name'], what),
                         'wrapper executable ran a damaged embedded image (%s)' % what,
                         dict(path='wrapper executable', file=A['name'], fault=what, rc=rc2, stdout=o2[:300], stderr=e2[:300]))
    else:
        ck.note('wrapper path skipped: wrapper build failed: %s' % (o + e)[-200:])
    return stats


def replay_history(ck, b, dct):
    """re-run a recorded history on a fresh nano_vmd / nano_cop; returns True when a damaged (= last) request is still accepted"""
    hx = [bytes.fromhex(x) for x in dct.get('history_hex', [])]
    if not hx:
        return False
    if 'cop' in dct.get('path', ''):
        data = b''.join(frame(COP_INIT, x) for x in hx) + frame(COP_SHUTDOWN)
        r = subprocess.run([b.bin('nano_cop')], input=data, capture_output=True, timeout=30)
        fs, _ = parse_frames(r.stdout)
        got = sum(1 for f_ in fs if f_[0] == COP_READY)
        print('nano_cop READY count:', got, 'expected:', dct.get('expected_ready'))
        return got != dct.get('expected_ready')
    with Daemon(b) as dm:
        last = None
        for i, x in enumerate(hx):
            last = vmd_exec(dm.sock, x)
            print('request %d (%d bytes): out=%r errors=%r exits=%r' % (i, len(x), last['out'][:60], [e[:40] for e in last['errors']], last['exits']))
    return not refused_by_daemon(last)
