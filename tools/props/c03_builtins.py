"""C03 stream "builtins in shadow tests": every pure builtin of the table of tools/props/c01_builtins.py (read, not edited), applied
to boundary operands (the table's pools + ints around 2^53 and 2^62, where a detour through double loses bits), is printed
 (a) at COMPILE TIME by the tree-walking evaluator -- the case's function is called from its shadow block -- and
 (b) at RUN TIME by the executable nanoc builds from the very same file -- main calls the same function.
One function per case; operands through identity functions, as literals, and directly inside println.  The verdict is the bytes:
text between "Testing cK... " and PASSED of `nanoc --verbose` versus the segment of the binary's stdout between the case's marker
and the next.  A difference is attributed to ONE case: key c03:builtin:<builtin>:<operands>:<idfn|literal|direct>; recorded root
causes (known_findings.d/C03.json, field `covers`) name a builtin + operand region + what is observed and absorb exactly the cases
inside that region that show that observation."""
import os, re, json, hashlib, collections
import vlib, langlib
import c01_builtins as CB

EXTRA_INTS = [2 ** 53 - 1, 2 ** 53, 2 ** 53 + 1, 2 ** 53 + 3, -(2 ** 53 + 1), 2 ** 62 + 1, CB.I64MAX - 1]


def all_cases(thorough):
    T = CB.mk_table()
    P = CB.Pools(thorough)
    P.ints = list(P.ints) + [v for v in EXTRA_INTS if v not in P.ints]
    P.ints_small = list(P.ints_small) + [v for v in EXTRA_INTS if v not in P.ints_small]
    return T, P, CB.table_cases(T, P)


def program(cases):
    needs = {n for c in cases for n in c.needs}
    out = [CB.PRELUDE]
    if 'res' in needs:
        out.append(CB.PRELUDE_RES)
    out += [t + '\n' for c in cases for t in c.tops]
    for k, c in enumerate(cases):
        out.append('fn c%d() -> int {\n%s\n    return 0\n}\nshadow c%d {\n    (c%d)\n    assert true\n}\n' % (k, '\n'.join('    ' + l for l in c.body), k, k))
    out.append('fn main() -> int {\n' + ''.join('    (println "#@%d@")\n    (c%d)\n' % (k, k) for k in range(len(cases))) + '    return 0\n}\nshadow main { assert true }\n')
    return ''.join(out)


HEAD = re.compile(rb'Testing (\w+)\.\.\. ')


def compile_time_segments(stdout, n):
    """text printed while the shadow block of c0 .. c(n-1) ran; None for a case whose block was not reported PASSED"""
    res = [None] * n
    ms = list(HEAD.finditer(stdout))
    for i, m in enumerate(ms):
        nm = m.group(1)
        if not re.fullmatch(rb'c\d+', nm):
            continue
        k = int(nm[1:])
        end = ms[i + 1].start() if i + 1 < len(ms) else len(stdout)
        seg = stdout[m.end():end]
        j = seg.rfind(b'PASSED\n')
        if j >= 0 and k < n:
            res[k] = seg[:j]
    return res


class Runner:
    def __init__(self, b, wd):
        self.b, self.wd, self.n = b, wd, 0
        self.programs = 0

    def run(self, cases):
        """-> (compile-time segments, native segments, info) ; None segments when the side is unavailable for the whole batch"""
        src = program(cases)
        h = hashlib.md5(src.encode()).hexdigest()[:12]
        d = os.path.join(self.wd, h); os.makedirs(d, exist_ok=True)
        sp = os.path.join(d, 's.nano'); open(sp, 'w').write(src)
        outp = os.path.join(d, 's.out')
        env = dict(os.environ, TMPDIR=d)
        rc, o, e = langlib.run_cmd([self.b.bin('nanoc'), sp, '-o', outp, '--verbose'], 300, env, cwd=d)
        self.programs += 1
        info = dict(rc=rc, stderr=e.decode('utf-8', 'replace')[-1500:], binary=os.path.exists(outp))
        ct = compile_time_segments(o, len(cases)) if b'Running shadow tests' in o else None
        nt = None
        if rc == 0 and os.path.exists(outp):
            rc2, o2, e2 = langlib.run_cmd([outp], 60, cwd=d)
            info['run_rc'] = rc2
            nt = CB.segments(o2, len(cases))
            if nt is None:
                info['native_stdout_tail'] = o2[-300:].decode('latin1')
        return ct, nt, info


def needs_escape(c):
    """a string operand whose source spelling needs a backslash escape (finding c03:string-escapes: the evaluator keeps the escape)"""
    def has(v):
        if isinstance(v, (bytes, bytearray)):
            return any(ch in v for ch in (b'\\', b'"', b'\n', b'\t'))
        if isinstance(v, (list, tuple)):
            return any(has(x) for x in v)
        return False
    return has(c.info.get('ops') or [])


def sweep(runner, cases, batch=400, pmap=None):
    """runs every case; returns list of (case, compile-time text | None, native text | None, info).  A program that does not give
    both sides for all its cases is split: by builtin first, then (when the first case of a builtin alone fails, too) the whole
    builtin is reported unavailable once; otherwise by halves."""
    def ok(ct, nt):
        return ct is not None and nt is not None and all(x is not None for x in ct)

    def solve(group):
        ct, nt, info = runner.run(group)
        if ok(ct, nt):
            return [(c, a, b_, info) for c, a, b_ in zip(group, ct, nt)]
        if len(group) == 1:
            return [(group[0], ct[0] if ct else None, nt[0] if nt else None, info)]
        labels = []
        for c in group:
            if c.label not in labels:
                labels.append(c.label)
        if len(labels) > 1:
            h = len(labels) // 2
            left = [c for c in group if c.label in labels[:h]]
            right = [c for c in group if c.label in labels[h:]]
            return solve(left) + solve(right)
        first = solve(group[:1])
        (c0, a0, n0, i0) = first[0]
        if a0 is None or n0 is None:
            # the builtin cannot be observed on one side at all (first case alone): one record for all its cases
            return first + [(c, False if a0 is None else b'', False if n0 is None else b'', dict(i0, whole_builtin=True)) for c in group[1:]]
        rest = group[1:]
        h = len(rest) // 2
        return first + (solve(rest[:h]) if rest[:h] else []) + (solve(rest[h:]) if rest[h:] else [])

    groups = [cases[i:i + batch] for i in range(0, len(cases), batch)]
    out = []
    for r in (pmap or map)(solve, groups):
        out += r
    return out


# ------------------------------------------------------------------------------------------ recorded root causes
def _i32(v):
    return ((v + 2 ** 31) % 2 ** 32) - 2 ** 31


def _ops(c):
    return c.info.get('ops') or []


def roots(T):
    """(key of an open finding, predicate(case, compile-time text, run-time text)): the predicate names the builtin, the operand
    region AND the observation, so that any other difference of the same builtin is still reported under its own key"""
    byl = {b.label: b for b in T}

    def trunc32(c, ct):
        o = _ops(c)
        if len(o) != 1 or not isinstance(o[0], int) or -2 ** 31 <= o[0] < 2 ** 31:
            return False
        try:
            return ct == CB.out_of(byl[c.label].ret, byl[c.label].py(_i32(o[0])))
        except Exception:
            return False
    return [
        ('c03:builtin:array_get:undefined-in-the-evaluator',
         lambda c, ct, nt: c.label.startswith('array_get(') and ct == b'void\n'),
        ('c03:builtin:array_push:evaluator-refuses-a-non-dynamic-array',
         lambda c, ct, nt: c.label.startswith('array_push(') and ct == b'void\n' and len(_ops(c)) == 2 and len(_ops(c)[0]) > 0),
        ('c03:builtin:unknown-to-the-checker:evaluator-void-native-unknown',
         lambda c, ct, nt: c.label in ('bool_to_string', 'is_space') and ct == b'void\n' and nt == b'<unknown>\n'),
        ('c03:builtin:char_to_lower-upper:evaluator-truncates-the-operand-to-32-bits',
         lambda c, ct, nt: c.label in ('char_to_lower', 'char_to_upper') and trunc32(c, ct)),
        ('c03:builtin:character-classes:evaluator-truncates-the-operand-to-32-bits',
         lambda c, ct, nt: c.label in ('is_digit', 'is_alpha', 'is_alnum', 'is_upper', 'is_lower', 'is_whitespace', 'digit_value') and trunc32(c, ct)),
        ('c03:builtin:str_substring:start-at-or-past-the-end-is-void-in-the-evaluator',
         lambda c, ct, nt: c.label == 'str_substring' and ct == b'void\n' and nt == b'\n' and len(_ops(c)) == 3 and
         (_ops(c)[1] > len(_ops(c)[0]) or (_ops(c)[1] == len(_ops(c)[0]) and _ops(c)[2] > 0))),
        ('c03:builtin:str_substring:start-plus-length-overflows-in-the-evaluator',
         lambda c, ct, nt: c.label == 'str_substring' and ct == b'\n' and len(_ops(c)) == 3 and 0 < _ops(c)[1] < len(_ops(c)[0]) and
         _ops(c)[1] + _ops(c)[2] > CB.I64MAX and nt == _ops(c)[0][_ops(c)[1]:] + b'\n'),
    ]


def has_float(c, T_by_label):
    b = T_by_label.get(c.label)
    return bool(b) and ('float' in b.params or b.ret == 'float')


def run_stream(ck, b, known_keys):
    """the whole stream; records failures on ck; returns measured counts"""
    T, P, cases = all_cases(ck.thorough)
    byl = {x.label: x for x in T}
    cnt = collections.Counter()
    keep = []
    for c in cases:
        if needs_escape(c):
            cnt['excluded: string operand needs an escape (open finding c03:string-escapes)'] += 1
        elif has_float(c, byl):
            cnt['excluded: float operand or result (text form of floats; native float literals: c01:builtin:float-literal:*)'] += 1
        else:
            keep.append(c)
    R = roots(T)
    with langlib.Work('c03b') as wd:
        r = Runner(b, wd)
        res = sweep(r, keep, 400, lambda f, l: langlib.pmap(f, l, 16))
        cnt['programs compiled'] = r.programs
    per = collections.Counter()
    for c, ct, nt, info in res:
        key = c.key.replace('c01:builtin:', 'c03:builtin:', 1)
        if ct is False or nt is False:
            cnt['unobservable: whole builtin has no %s side' % ('compile-time' if ct is False else 'run-time')] += 1
            continue
        if ct is None or nt is None:
            side = 'compile-time' if ct is None else 'run-time'
            cnt['unobservable: no %s side' % side] += 1
            ck.extra['builtins_unobservable'][c.label + ': ' + side] += 1
            if ct is None and nt is not None:
                # the evaluator did not get through the shadow block (nanoc ended / refused) although the binary runs the call
                ck.fail(key + ':compile-time-side-missing', 'shadow block calling %s: nanoc rc=%s, the binary prints %r' % (c.info.get('expr'), info.get('rc'), nt[:80]),
                        dict(builtin_case=c.key, source=program([c]), stderr=info.get('stderr', '')[-600:]))
            continue
        ck.count(key, True)
        per[c.label] += 1
        if ct == nt:
            cnt['agree'] += 1
            continue
        cnt['differ'] += 1
        rk = next((k for k, pred in R if pred(c, ct, nt)), None)
        ck.extra['builtin_differences'][rk or c.label] += 1
        ck.fail(rk or key, 'builtin in a shadow test: %s prints %r at compile time, %r in the compiled program' % (c.info.get('expr'), ct[:120], nt[:120]),
                dict(builtin_case=c.key, expr=c.info.get('expr'), mode=c.mode, source=program([c]), compile_time=ct.decode('latin1')[:400],
                     run_time=nt.decode('latin1')[:400], reference=(c.exp or b'').decode('latin1')[:400]))
    ck.extra['builtin_stream'] = dict(cnt)
    ck.extra['builtin_cases_per_builtin'] = dict(per)
    ck.extra['builtin_extra_ints'] = [str(v) for v in EXTRA_INTS]
    return cnt


def replay_case(ck, b, d):
    with langlib.Work('c03br') as wd:
        sp = os.path.join(wd, 's.nano'); open(sp, 'w').write(d['source'])
        outp = os.path.join(wd, 's.out')
        rc, o, e = langlib.run_cmd([b.bin('nanoc'), sp, '-o', outp, '--verbose'], 300, dict(os.environ, TMPDIR=wd), cwd=wd)
        ct = compile_time_segments(o, 1)[0] if b'Running shadow tests' in o else None
        nt = None
        if rc == 0 and os.path.exists(outp):
            rc2, o2, e2 = langlib.run_cmd([outp], 60, cwd=wd)
            seg = CB.segments(o2, 1)
            nt = seg[0] if seg else None
    print(d['source']); print('compile time:', ct); print('run time    :', nt)
    bad = ct is None or nt is None or ct != nt
    print('REPRODUCED' if bad else 'not reproduced')
    return 1 if bad else 0
