"""C03 stream "builtins in shadow tests": every pure builtin of the table of tools/props/c01_builtins.py (read, not edited), applied
to boundary operands (the table's pools + ints around 2^53 and 2^62, where a detour through double loses bits), is printed
 (a) at COMPILE TIME by the tree-walking evaluator -- the case's function is called from its shadow block -- and
 (b) at RUN TIME by the executable nanoc builds from the very same file -- main calls the same function.
One function per case; operands through identity functions, as literals, and directly inside println.  The verdict is the bytes:
text between "Testing cK... " and PASSED of `nanoc --verbose` versus the segment of the binary's stdout between the case's marker
and the next.  A difference is attributed to ONE case: key c03:builtin:<builtin>:<operands>:<idfn|literal|direct>; recorded root
causes (known_findings.d/C03.json, field `covers`) name a builtin + operand region + what is observed and absorb exactly the cases
inside that region that show that observation."""
import os, re, json, hashlib, collections
import vlib, langlib
import c01_builtins as CB

EXTRA_INTS = [2 ** 53 - 1, 2 ** 53, 2 ** 53 + 1, 2 ** 53 + 3, -(2 ** 53 + 1), 2 ** 62 + 1, CB.I64MAX - 1]


def all_cases(thorough):
    T = CB.mk_table()
    P = CB.Pools(thorough)
    P.ints = list(P.ints) + [v for v in EXTRA_INTS if v not in P.ints]
    P.ints_small = list(P.ints_small) + [v for v in EXTRA_INTS if v not in P.ints_small]
    return T, P, CB.table_cases(T, P)


def program(cases):
    needs = {n for c in cases for n in c.needs}
    out = [CB.PRELUDE]
    if 'res' in needs:
        out.append(CB.PRELUDE_RES)
    out += [t + '\n' for c in cases for t in c.tops]
    for k, c in enumerate(cases):
        out.append('fn c%d() -> int {\n%s\n    return 0\n}\nshadow c%d {\n    (c%d)\n    assert true\n}\n' % (k, '\n'.join('    ' + l for l in c.body), k, k))
    out.append('fn main() -> int {\n' + ''.join('    (println "#@%d@")\n    (c%d)\n' % (k, k) for k in range(len(cases))) + '    return 0\n}\nshadow main { assert true }\n')
    return ''.join(out)


HEAD = re.compile(rb'Testing (\w+)\.\.\. ')


def compile_time_segments(stdout, n):
    """text printed while the shadow block of c0 .. c(n-1) ran; None for a case whose block was not reported PASSED"""
    res = [None] * n
    ms = list(HEAD.finditer(stdout))
    for i, m in enumerate(ms):
        nm = m.group(1)
        if not re.fullmatch(rb'c\d+', nm):
            continue
        k = int(nm[1:])
        end = ms[i + 1].start() if i + 1 < len(ms) else len(stdout)
        seg = stdout[m.end():end]
        j = seg.rfind(b'PASSED\n')
        if j >= 0 and k < n:
            res[k] = seg[:j]
    return res


class Runner:
    def __init__(self, b, wd, render=None):
        self.b, self.wd, self.n = b, wd, 0
        self.programs = 0
        self.render = render

    def run(self, cases):
        """-> (compile-time segments, native segments, info) ; None segments when the side is unavailable for the whole batch"""
        src = (self.render or program)(cases)
        h = hashlib.md5(src.encode()).hexdigest()[:12]
        d = os.path.join(self.wd, h); os.makedirs(d, exist_ok=True)
        sp = os.path.join(d, 's.nano'); open(sp, 'w').write(src)
        outp = os.path.join(d, 's.out')
        env = dict(os.environ, TMPDIR=d)
        rc, o, e = langlib.run_cmd([self.b.bin('nanoc'), sp, '-o', outp, '--verbose'], 300, env, cwd=d)
        self.programs += 1
        info = dict(rc=rc, stderr=e.decode('utf-8', 'replace')[-1500:], binary=os.path.exists(outp))
        ct = compile_time_segments(o, len(cases)) if b'Running shadow tests' in o else None
        nt = None
        if rc == 0 and os.path.exists(outp):
            rc2, o2, e2 = langlib.run_cmd([outp], 60, cwd=d)
            info['run_rc'] = rc2
            nt = CB.segments(o2, len(cases))
            if nt is None:
                info['native_stdout_tail'] = o2[-300:].decode('latin1')
        return ct, nt, info


def needs_escape(c):
    """a string operand whose source spelling needs a backslash escape (finding c03:string-escapes: the evaluator keeps the escape)"""
    def has(v):
        if isinstance(v, (bytes, bytearray)):
            return any(ch in v for ch in (b'\\', b'"', b'\n', b'\t'))
        if isinstance(v, (list, tuple)):
            return any(has(x) for x in v)
        return False
    return has(c.info.get('ops') or [])


def sweep(runner, cases, batch=400, pmap=None):
    """runs every case; returns list of (case, compile-time text | None, native text | None, info).  A program that does not give
    both sides for all its cases is split: by builtin first, then (when the first case of a builtin alone fails, too) the whole
    builtin is reported unavailable once; otherwise by halves."""
    def ok(ct, nt):
        return ct is not None and nt is not None and all(x is not None for x in ct)

    def solve(group):
        ct, nt, info = runner.run(group)
        if ok(ct, nt):
            return [(c, a, b_, info) for c, a, b_ in zip(group, ct, nt)]
        if len(group) == 1:
            return [(group[0], ct[0] if ct else None, nt[0] if nt else None, info)]
        labels = []
        for c in group:
            if c.label not in labels:
                labels.append(c.label)
        if len(labels) > 1:
            h = len(labels) // 2
            left = [c for c in group if c.label in labels[:h]]
            right = [c for c in group if c.label in labels[h:]]
            return solve(left) + solve(right)
        first = solve(group[:1])
        (c0, a0, n0, i0) = first[0]
        if a0 is None or n0 is None:
            # the builtin cannot be observed on one side at all (first case alone): one record for all its cases
            return first + [(c, False if a0 is None else b'', False if n0 is None else b'', dict(i0, whole_builtin=True)) for c in group[1:]]
        rest = group[1:]
        h = len(rest) // 2
        return first + (solve(rest[:h]) if rest[:h] else []) + (solve(rest[h:]) if rest[h:] else [])

    groups = [cases[i:i + batch] for i in range(0, len(cases), batch)]
    out = []
    for r in (pmap or map)(solve, groups):
        out += r
    return out


# ------------------------------------------------------------------------------------------ recorded root causes
def _i32(v):
    return ((v + 2 ** 31) % 2 ** 32) - 2 ** 31


def _ops(c):
    return c.info.get('ops') or []


def roots(T):
    """(key of an open finding, predicate(case, compile-time text, run-time text)): the predicate names the builtin, the operand
    region AND the observation, so that any other difference of the same builtin is still reported under its own key"""
    byl = {b.label: b for b in T}

    def trunc32(c, ct):
        o = _ops(c)
        if len(o) != 1 or not isinstance(o[0], int) or -2 ** 31 <= o[0] < 2 ** 31:
            return False
        try:
            return ct == CB.out_of(byl[c.label].ret, byl[c.label].py(_i32(o[0])))
        except Exception:
            return False
    return [
        ('c03:builtin:array_get:undefined-in-the-evaluator',
         lambda c, ct, nt: c.label.startswith('array_get(') and ct == b'void\n'),
        ('c03:builtin:array_push:evaluator-refuses-a-non-dynamic-array',
         lambda c, ct, nt: c.label.startswith('array_push(') and ct == b'void\n' and len(_ops(c)) == 2 and len(_ops(c)[0]) > 0),
        ('c03:builtin:unknown-to-the-checker:evaluator-void-native-unknown',
         lambda c, ct, nt: c.label in ('bool_to_string', 'is_space') and ct == b'void\n' and nt == b'<unknown>\n'),
        ('c03:builtin:char_to_lower-upper:evaluator-truncates-the-operand-to-32-bits',
         lambda c, ct, nt: c.label in ('char_to_lower', 'char_to_upper') and trunc32(c, ct)),
        ('c03:builtin:character-classes:evaluator-truncates-the-operand-to-32-bits',
         lambda c, ct, nt: c.label in ('is_digit', 'is_alpha', 'is_alnum', 'is_upper', 'is_lower', 'is_whitespace', 'digit_value') and trunc32(c, ct)),
        ('c03:builtin:str_substring:start-at-or-past-the-end-is-void-in-the-evaluator',
         lambda c, ct, nt: c.label == 'str_substring' and ct == b'void\n' and nt == b'\n' and len(_ops(c)) == 3 and
         (_ops(c)[1] > len(_ops(c)[0]) or (_ops(c)[1] == len(_ops(c)[0]) and _ops(c)[2] > 0))),
        ('c03:builtin:str_substring:start-plus-length-overflows-in-the-evaluator',
         lambda c, ct, nt: c.label == 'str_substring' and ct == b'\n' and len(_ops(c)) == 3 and 0 < _ops(c)[1] < len(_ops(c)[0]) and
         _ops(c)[1] + _ops(c)[2] > CB.I64MAX and nt == _ops(c)[0][_ops(c)[1]:] + b'\n'),
    ]


def has_float(c, T_by_label):
    b = T_by_label.get(c.label)
    return bool(b) and ('float' in b.params or b.ret == 'float')


def run_stream(ck, b, known_keys):
    """the whole stream; records failures on ck; returns measured counts"""
    T, P, cases = all_cases(ck.thorough)
    byl = {x.label: x for x in T}
    cnt = collections.Counter()
    keep = []
    for c in cases:
        if needs_escape(c):
            cnt['excluded: string operand needs an escape (open finding c03:string-escapes)'] += 1
        elif has_float(c, byl):
            cnt['excluded: float operand or result (text form of floats; native float literals: c01:builtin:float-literal:*)'] += 1
        else:
            keep.append(c)
    R = roots(T)
    with langlib.Work('c03b') as wd:
        r = Runner(b, wd)
        res = sweep(r, keep, 400, lambda f, l: langlib.pmap(f, l, 16))
        cnt['programs compiled'] = r.programs
    per = collections.Counter()
    for c, ct, nt, info in res:
        key = c.key.replace('c01:builtin:', 'c03:builtin:', 1)
        if ct is False or nt is False:
            cnt['unobservable: whole builtin has no %s side' % ('compile-time' if ct is False else 'run-time')] += 1
            continue
        if ct is None or nt is None:
            side = 'compile-time' if ct is None else 'run-time'
            cnt['unobservable: no %s side' % side] += 1
            ck.extra['builtins_unobservable'][c.label + ': ' + side] += 1
            if ct is None and nt is not None:
                # the evaluator did not get through the shadow block (nanoc ended / refused) although the binary runs the call
                ck.fail(key + ':compile-time-side-missing', 'shadow block calling %s: nanoc rc=%s, the binary prints %r' % (c.info.get('expr'), info.get('rc'), nt[:80]),
                        dict(builtin_case=c.key, source=program([c]), stderr=info.get('stderr', '')[-600:]))
            continue
        ck.count(key, True)
        per[c.label] += 1
        if ct == nt:
            cnt['agree'] += 1
            continue
        cnt['differ'] += 1
        rk = next((k for k, pred in R if pred(c, ct, nt)), None)
        ck.extra['builtin_differences'][rk or c.label] += 1
        ck.fail(rk or key, 'builtin in a shadow test: %s prints %r at compile time, %r in the compiled program' % (c.info.get('expr'), ct[:120], nt[:120]),
                dict(builtin_case=c.key, expr=c.info.get('expr'), mode=c.mode, source=program([c]), compile_time=ct.decode('latin1')[:400],
                     run_time=nt.decode('latin1')[:400], reference=(c.exp or b'').decode('latin1')[:400]))
    ck.extra['builtin_stream'] = dict(cnt)
    ck.extra['builtin_cases_per_builtin'] = dict(per)
    ck.extra['builtin_extra_ints'] = [str(v) for v in EXTRA_INTS]
    return cnt


def replay_case(ck, b, d):
    with langlib.Work('c03br') as wd:
        sp = os.path.join(wd, 's.nano'); open(sp, 'w').write(d['source'])
        outp = os.path.join(wd, 's.out')
        rc, o, e = langlib.run_cmd([b.bin('nanoc'), sp, '-o', outp, '--verbose'], 300, dict(os.environ, TMPDIR=wd), cwd=wd)
        ct = compile_time_segments(o, 1)[0] if b'Running shadow tests' in o else None
        nt = None
        if rc == 0 and os.path.exists(outp):
            rc2, o2, e2 = langlib.run_cmd([outp], 60, cwd=wd)
            seg = CB.segments(o2, 1)
            nt = seg[0] if seg else None
    print(d['source']); print('compile time:', ct); print('run time    :', nt)
    bad = ct is None or nt is None or ct != nt
    print('REPRODUCED' if bad else 'not reproduced')
    return 1 if bad else 0


# ------------------------------------------------------------------------------------------ histories on stateful containers
# A history is a short sequence of operations on ONE container, written as the body of a function; the function is called from its
# shadow block (compile time: the evaluator's own container, src/eval/eval_hashmap.c, src/eval.c) and from main of the same program
# (run time: the container the transpiler emits / the C runtime).  Every observation is one printed line; the two texts are compared
# line by line and the first differing line is reported with the operation that printed it.
M64 = 2 ** 64 - 1


def hm_hash_int(x):
    """nl_hm_hash_int (evaluator) = nl_hashmap_hash_int (emitted code, src/transpiler.c): the 64-bit murmur finaliser"""
    z = x & M64
    z ^= z >> 33
    z = (z * 0xff51afd7ed558ccd) & M64
    z ^= z >> 33
    z = (z * 0xc4ceb9fe1a85ec53) & M64
    z ^= z >> 33
    return z


def hm_hash_str(b):
    """nl_hm_hash_string: FNV-1a"""
    h = 1469598103934665603
    for ch in b:
        h ^= ch
        h = (h * 1099511628211) & M64
    return h


HM_CAPACITY = 16          # nl_hm_alloc: capacity < 16 -> 16; the emitted map starts at 16 as well


def colliding(kind, slot_pick):
    """(chain of 4 keys that land on one slot of the initial 16-slot table, two keys on other slots).  slot_pick: 'first' = the
    lowest slot that has a chain, 'wrap' = slot 15 (the probe sequence wraps around the end of the table)"""
    if kind == 'int':
        cand = list(range(0, 400))
        slot = lambda k: hm_hash_int(k) & (HM_CAPACITY - 1)
    else:
        cand = [b'k%d' % i for i in range(0, 400)]
        slot = lambda k: hm_hash_str(k) & (HM_CAPACITY - 1)
    by = collections.defaultdict(list)
    for k in cand:
        by[slot(k)].append(k)
    s = HM_CAPACITY - 1 if slot_pick == 'wrap' else min(x for x in by if len(by[x]) >= 4)
    chain = by[s][:4]
    others = [k for k in cand if slot(k) not in (s, (s + 1) % 16, (s + 2) % 16, (s + 3) % 16, (s + 4) % 16)][:2]
    return chain, others


class Hist:
    """duck-typed like c01_builtins.Case for program() / sweep()"""
    def __init__(self, key, label, lines):
        self.key, self.label, self.mode = key, label, 'history'
        self.needs, self.tops, self.exp = (), (), None
        self.body = [src for (src, _) in lines]
        # operation that produced the k-th printed line
        self.ops = [what for (src, what) in lines if what is not None]
        self.info = dict(expr=key, ops=None)


class MapH:
    def __init__(self, kt, vt):
        self.kt, self.vt, self.lines, self.n = kt, vt, [], 0
        ty = dict(int='int', str='string')
        self.lines.append(('let m: HashMap<%s, %s> = (map_new)' % (ty[kt], ty[vt]), None))
    def k(self, key):
        return str(key) if self.kt == 'int' else CB.lit_str(key)
    def v(self, val):
        return str(val) if self.vt == 'int' else CB.lit_str(b'v%d' % val)
    def put(self, key, val):
        self.lines.append(('(map_put m %s %s)' % (self.k(key), self.v(val)), None))
    def get(self, key):
        self.lines.append(('(println (map_get m %s))' % self.k(key), 'map_get %s' % self.k(key)))
    def has(self, key):
        self.lines.append(('(println (map_has m %s))' % self.k(key), 'map_has %s' % self.k(key)))
    def remove(self, key):
        self.lines.append(('(map_remove m %s)' % self.k(key), None))
    def size(self):
        self.lines.append(('(println (map_size m))', 'map_size'))
    def clear(self):
        self.lines.append(('(map_clear m)', None))
    def keys(self):
        self.n += 1
        if self.kt == 'int':
            self.lines.append(('let ks%d: array<int> = (map_keys m)' % self.n, None))
            self.lines.append(('(println (sumi ks%d))' % self.n, 'sum of map_keys'))
        else:
            self.lines.append(('let ks%d: array<string> = (map_keys m)' % self.n, None))
            self.lines.append(('(println (array_length ks%d))' % self.n, 'length of map_keys'))
    def values(self):
        self.n += 1
        if self.vt == 'int':
            self.lines.append(('let vs%d: array<int> = (map_values m)' % self.n, None))
            self.lines.append(('(println (sumi vs%d))' % self.n, 'sum of map_values'))
        else:
            self.lines.append(('let vs%d: array<string> = (map_values m)' % self.n, None))
            self.lines.append(('(println (array_length vs%d))' % self.n, 'length of map_values'))
    def probe_all(self, keys):
        for key in keys:
            self.has(key); self.get(key)
        self.size()


SUMI = ('fn sumi(a: array<int>) -> int {\n    let mut s: int = 0\n    for i in (range 0 (array_length a)) {\n        set s (+ s (at a i))\n    }\n    return s\n}\n'
        'shadow sumi { assert (== (sumi [1, 2]) 3) }\n')
MAP_TYPES = [('int', 'int'), ('str', 'int'), ('int', 'str')]


def deterministic_histories():
    out = []
    for kt, vt in MAP_TYPES:
        tname = 'HashMap<%s,%s>' % (kt, vt)
        for pick in ('first', 'wrap'):
            chain, others = colliding(kt, pick)
            for vi, vname in ((0, 'first'), (1, 'middle'), (3, 'last')):
                h = MapH(kt, vt)
                for j, key in enumerate(chain + others):
                    h.put(key, 10 + j)
                h.probe_all(chain + others)
                victim = chain[vi]
                h.remove(victim)
                rest = [x for x in chain + others if x != victim]
                h.has(victim); h.get(victim)
                h.probe_all(rest)                       # keys further along the probe chain must still be found
                for j, key in enumerate(rest):
                    h.put(key, 100 + j)                 # re-insertion of a present key: no duplicate
                h.probe_all(rest)
                h.keys(); h.values()
                h.put(victim, 77)                       # the tombstone is reused
                h.probe_all(chain + others)
                for key in chain:
                    h.remove(key)
                h.probe_all(chain + others)
                h.keys(); h.values()
                out.append(Hist('c03:history:%s:chain-%s:remove-%s' % (tname, pick, vname), 'history:' + tname, h.lines))
        # growth across the load-factor boundary, with removals before and after, then clear and reuse
        chain, others = colliding(kt, 'first')
        allk = chain + others + ([k for k in range(1000, 1040)] if kt == 'int' else [b'g%d' % i for i in range(40)])
        h = MapH(kt, vt)
        for j, key in enumerate(allk[:10]):
            h.put(key, j)
        h.remove(chain[0]); h.remove(chain[2])
        for j, key in enumerate(allk[10:]):
            h.put(key, 50 + j)
            if j % 8 == 0:
                h.size(); h.has(chain[1]); h.get(chain[3])
        h.probe_all(chain + others)
        h.keys(); h.values()
        for key in allk[::3]:
            h.remove(key)
        h.probe_all(allk[:12])
        h.keys(); h.values()
        h.clear(); h.size(); h.has(chain[1])
        for j, key in enumerate(chain):
            h.put(key, 900 + j)
        h.probe_all(chain)
        out.append(Hist('c03:history:%s:growth-and-clear' % tname, 'history:' + tname, h.lines))
        # tombstone churn: the same colliding keys inserted and removed over and over
        h = MapH(kt, vt)
        for rnd in range(12):
            for j, key in enumerate(chain):
                h.put(key, rnd * 10 + j)
            h.remove(chain[rnd % 4]); h.remove(chain[(rnd + 2) % 4])
            h.probe_all(chain)
        h.keys(); h.values()
        out.append(Hist('c03:history:%s:tombstone-churn' % tname, 'history:' + tname, h.lines))
    out += array_histories() + list_histories()
    return out


def array_histories():
    out = []
    L = []
    L.append(('let mut a: array<int> = []', None))
    for v in (5, -6, 7, 8, 9007199254740993):
        L.append(('set a (array_push a %d)' % v, None))
        L.append(('(println a)', 'array after array_push %d' % v))
    L.append(('let p1: int = (array_pop a)', None)); L.append(('(println p1)', 'array_pop')); L.append(('(println a)', 'array after array_pop'))
    L.append(('set a (array_remove_at a 1)', None)); L.append(('(println a)', 'array after array_remove_at 1'))
    L.append(('set a (array_remove_at a 0)', None)); L.append(('(println a)', 'array after array_remove_at 0'))
    L.append(('set a (array_push a 11)', None)); L.append(('(println (array_length a))', 'array_length')); L.append(('(println (at a 2))', 'at 2'))
    for _ in range(3):
        L.append(('let q%d: int = (array_pop a)' % _, None)); L.append(('(println q%d)' % _, 'array_pop'))
    L.append(('(println (array_length a))', 'array_length of the emptied array')); L.append(('(println a)', 'emptied array'))
    out.append(Hist('c03:history:array<int>:push-pop-remove_at', 'history:array<int>', L))
    L = [('let mut b: array<int> = [1, 2, 3]', None), ('(array_set b 1 20)', None), ('(println b)', 'literal array after array_set 1 20'),
         ('(array_set b 0 -1)', None), ('(array_set b 2 9223372036854775807)', None), ('(println b)', 'literal array after two more array_set'),
         ('(println (at b 2))', 'at 2')]
    out.append(Hist('c03:history:array<int>:array_set-on-a-literal', 'history:array<int>', L))
    return out


def list_histories():
    L = [('let l: List<int> = (list_int_new)', None)]
    for v in (5, 6, 7, -8):
        L.append(('(list_int_push l %d)' % v, None))
        L.append(('(println (list_int_length l))', 'list_int_length after push %d' % v))
    L += [('(println (list_int_get l 1))', 'list_int_get 1'), ('(list_int_set l 1 60)', None), ('(println (list_int_get l 1))', 'list_int_get 1 after set'),
          ('(println (list_int_pop l))', 'list_int_pop'), ('(list_int_insert l 0 9)', None), ('(println (list_int_get l 0))', 'list_int_get 0 after insert'),
          ('(println (list_int_get l 1))', 'list_int_get 1 after insert'), ('(list_int_remove l 1)', None), ('(println (list_int_length l))', 'list_int_length after remove'),
          ('(println (list_int_get l 1))', 'list_int_get 1 after remove'), ('(println (list_int_is_empty l))', 'list_int_is_empty'),
          ('(list_int_clear l)', None), ('(println (list_int_length l))', 'list_int_length after clear'), ('(println (list_int_is_empty l))', 'list_int_is_empty after clear'),
          ('(list_int_push l 1)', None), ('(println (list_int_get l 0))', 'list_int_get 0 after clear + push')]
    return [Hist('c03:history:List<int>:push-set-pop-insert-remove-clear', 'history:List<int>', L)]


def random_histories(rng, n):
    """random put / get / has / remove / size sequences over a small key universe that contains a colliding chain"""
    out = []
    for i in range(n):
        kt, vt = MAP_TYPES[i % 3]
        chain, others = colliding(kt, rng.choice(['first', 'wrap']))
        uni = chain + others + ([rng.randrange(-50, 500) for _ in range(4)] if kt == 'int' else [b'r%d' % rng.randrange(100) for _ in range(4)])
        h = MapH(kt, vt)
        for step in range(rng.randrange(25, 45)):
            key = rng.choice(uni)
            op = rng.choice(['put', 'put', 'put', 'remove', 'remove', 'get', 'has', 'size'])
            if op == 'put':
                h.put(key, rng.randrange(1000))
            elif op == 'remove':
                h.remove(key)
            elif op == 'get':
                h.get(key)
            elif op == 'has':
                h.has(key)
            else:
                h.size()
        h.probe_all(uni)
        h.keys(); h.values()
        out.append(Hist('c03:history:HashMap<%s,%s>:random-%d' % (kt, vt, i), 'history:HashMap<%s,%s>' % (kt, vt), h.lines))
    return out


# open finding replayed as a witness (its trigger is kept out of the histories above)
def witness_histories():
    L = [('let mut a: array<int> = []', None), ('set a (array_push a 1)', None), ('set a (array_push a 2)', None), ('set a (array_push a 3)', None),
         ('(array_set a 1 20)', None), ('(println a)', 'dynamic array after array_set 1 20')]
    return [Hist('c03:history:array_set:no-effect-on-a-dynamic-array-in-the-evaluator', 'history:array<int>', L)]


def history_program(cases):
    return program(cases).replace('fn c0() -> int {', SUMI + 'fn c0() -> int {', 1)


def first_difference(h, ct, nt):
    a, b_ = ct.split(b'\n'), nt.split(b'\n')
    for i in range(max(len(a), len(b_))):
        x = a[i] if i < len(a) else None
        y = b_[i] if i < len(b_) else None
        if x != y:
            return i, (h.ops[i] if i < len(h.ops) else '?'), x, y
    return None


def run_histories(ck, b):
    hs = deterministic_histories() + random_histories(ck.rng, 36 if ck.thorough else 12) + witness_histories()
    cnt = collections.Counter()
    with langlib.Work('c03h') as wd:
        r = Runner(b, wd, render=history_program)          # rendered with the helper sumi in front
        res = sweep(r, hs, 16, lambda f, l: langlib.pmap(f, l, 16))
        cnt['programs compiled'] = r.programs
    for h, ct, nt, info in res:
        ck.count(h.key, True)
        cnt['histories'] += 1
        cnt['observations'] += len(h.ops)
        cnt[h.label] += 1
        if ct is None or nt is None or ct is False or nt is False:
            side = 'compile-time' if (ct is None or ct is False) else 'run-time'
            ck.fail(h.key + ':no-%s-side' % side, 'history %s: no %s side (nanoc rc=%s, stderr tail %r)' % (h.key, side, info.get('rc'), info.get('stderr', '')[-200:]),
                    dict(builtin_case=h.key, source=history_program([h]), stderr=info.get('stderr', '')[-600:]))
            continue
        if ct == nt:
            cnt['agree'] += 1
            continue
        cnt['differ'] += 1
        i, op, x, y = first_difference(h, ct, nt)
        ck.fail(h.key, 'history on a container: observation %d (%s) prints %r at compile time, %r in the compiled program' % (i, op, x, y),
                dict(builtin_case=h.key, history=h.body, first_difference=dict(line=i, operation=op, compile_time=repr(x), run_time=repr(y)),
                     source=history_program([h]), compile_time=ct.decode('latin1')[:1500], run_time=nt.decode('latin1')[:1500]))
    ck.extra['container_histories'] = dict(cnt)
    ck.extra['container_history_chains'] = {('%s %s' % (kt, pick)): [repr(x) for x in colliding(kt, pick)[0]] for kt in ('int', 'str') for pick in ('first', 'wrap')}
    return cnt
