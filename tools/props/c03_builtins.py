"""C03 stream "builtins in shadow tests": every pure builtin of the table of tools/props/c01_builtins.py (read, not edited), applied
to boundary operands (the table's pools + ints around 2^53 and 2^62, where a detour through double loses bits), is printed
 (a) at COMPILE TIME by the tree-walking evaluator -- the case's function is called from its shadow block -- and
 (b) at RUN TIME by the executable nanoc builds from the very same file -- main calls the same function.
One function per case; operands through identity functions, as literals, and directly inside println.  The verdict is the bytes:
text between "Testing cK... " and PASSED of `nanoc --verbose` versus the segment of the binary's stdout between the case's marker
and the next.  A difference is attributed to ONE case: key c03:builtin:<builtin>:<operands>:<idfn|literal|direct>; recorded root
causes (known_findings.d/C03.json, field `covers`) name a builtin + operand region + what is observed and absorb exactly the cases
inside that region that show that observation."""
import os, re, json, hashlib, collections
import vlib, langlib
import c01_builtins as CB

EXTRA_INTS = [2 ** 53 - 1, 2 ** 53, 2 ** 53 + 1, 2 ** 53 + 3, -(2 ** 53 + 1), 2 ** 62 + 1, CB.I64MAX - 1]


def all_cases(thorough):
    T = CB.mk_table()
    P = CB.Pools(thorough)
    P.ints = list(P.ints) + [v for v in EXTRA_INTS if v not in P.ints]
    P.ints_small = list(P.ints_small) + [v for v in EXTRA_INTS if v not in P.ints_small]
    return T, P, CB.table_cases(T, P)


def program(cases):
    needs = {n for c in cases for n in c.needs}
    out = [CB.PRELUDE]
    if 'res' in needs:
        out.append(CB.PRELUDE_RES)
    out += [t + '\n' for c in cases for t in c.tops]
    for k, c in enumerate(cases):
        out.append('fn c%d() -> int {\n%s\n    return 0\n}\nshadow c%d {\n    (c%d)\n    assert true\n}\n' % (k, '\n'.join('    ' + l for l in c.body), k, k))
    out.append('fn main() -> int {\n' + ''.join('    (println "#@%d@")\n    (c%d)\n' % (k, k) for k in range(len(cases))) + '    return 0\n}\nshadow main { assert true }\n')
    return ''.join(out)


HEAD = re.compile(rb'Testing (\w+)\.\.\. ')


def compile_time_segments(stdout, n):
    """text printed while the shadow block of c0 .. c(n-1) ran; None for a case whose block was not reported PASSED"""
    res = [None] * n
    ms = list(HEAD.finditer(stdout))
    for i, m in enumerate(ms):
        nm = m.group(1)
        if not re.fullmatch(rb'c\d+', nm):
            continue
        k = int(nm[1:])
        end = ms[i + 1].start() if i + 1 < len(ms) else len(stdout)
        seg = stdout[m.end():end]
        j = seg.rfind(b'PASSED\n')
        if j >= 0 and k < n:
            res[k] = seg[:j]
    return res


class Runner:
    def __init__(self, b, wd):
        self.b, self.wd, self.n = b, wd, 0
        self.programs = 0

    def run(self, cases):
        """-> (compile-time segments, native segments, info) ; None segments when the side is unavailable for the whole batch"""
        src = program(cases)
        h = hashlib.md5(src.encode()).hexdigest()[:12]
        d = os.path.join(self.wd, h); os.makedirs(d, exist_ok=True)
        sp = os.path.join(d, 's.nano'); open(sp, 'w').write(src)
        outp = os.path.join(d, 's.out')
        env = dict(os.environ, TMPDIR=d)
        rc, o, e = langlib.run_cmd([self.b.bin('nanoc'), sp, '-o', outp, '--verbose'], 300, env, cwd=d)
        self.programs += 1
        info = dict(rc=rc, stderr=e.decode('utf-8', 'replace')[-1500:], binary=os.path.exists(outp))
        ct = compile_time_segments(o, len(cases)) if b'Running shadow tests' in o else None
        nt = None
        if rc == 0 and os.path.exists(outp):
            rc2, o2, e2 = langlib.run_cmd([outp], 60, cwd=d)
            info['run_rc'] = rc2
            nt = CB.segments(o2, len(cases))
            if nt is None:
                info['native_stdout_tail'] = o2[-300:].decode('latin1')
        return ct, nt, info


def sweep(runner, cases, batch=120, pmap=None):
    """runs every case; returns list of (case, compile-time text | None, native text | None, info)"""
    out = []

    def solve(group):
        ct, nt, info = runner.run(group)
        if ct is not None and nt is not None and all(x is not None for x in ct):
            return [(c, a, b_, info) for c, a, b_ in zip(group, ct, nt)]
        if len(group) == 1:
            return [(group[0], ct[0] if ct else None, nt[0] if nt else None, info)]
        h = len(group) // 2
        return solve(group[:h]) + solve(group[h:])

    groups = [cases[i:i + batch] for i in range(0, len(cases), batch)]
    for r in (pmap or map)(solve, groups):
        out += r
    return out
