"""Two further input streams of the C09 check (front end total):

  numeric positions   small well-typed templates with a slot in every syntactic position where the front end converts a numeral
                      (or uses it as an index / size / count), filled from a pool of boundary spellings; every input goes through
                      front_probe (ASan+UBSan) and front_probe (plain) and a sample through the real nano_virt.
  module graphs       small multi-file programs (self import, cycles, diamond, missing file, directory, broken module, long paths,
                      `..`, aliases, chains, selective imports ...) written to a scratch directory and run through the real tools
                      nano_virt --emit-nvm and nanoc (plain and ASan builds) under a timeout and a bounded stack.
                      Generated import graphs are also run through the extracted model NV.Front.ImportGraph (nvref_c09 `imports`):
                      model verdict ok / cycle / missing vs the verdict class of the real tool.
"""
import os, re, hashlib, shutil, tempfile, time
from concurrent.futures import ThreadPoolExecutor
import vlib, frontlib as fl

# ------------------------------------------------------------------------------------------------ numeric positions
# boundary spellings; `neg` = spelt with a leading '-' (the lexer folds it into the NUMBER token when a digit follows directly)
POOL = ['0', '1', '2', '-1', '-2', '2147483646', '2147483647', '2147483648', '4294967295', '4294967296', '4294967297', '2294967296',
        '-2147483648', '-2147483649', '-2000000000', '-4294967295', '-4294967296', '9223372036854775807', '9223372036854775808',
        '-9223372036854775808', '-9223372036854775809', '18446744073709551615', '18446744073709551616', '-18446744073709551615',
        '99999999999999999999999999', '-99999999999999999999999999', '1e999', '1E5', '0x7fffffff', '0xffffffffffffffff', '0b101', '1_000',
        '007', '00000000000000000000000000000000000001', '-0', '-00', '+1', '0.0', '1.5', '-1.5', '1.', '.5',
        '179769313486231570000000000000000000000000000000000000000000000000000000000000000000000000000000000000000000000000000000000000000000'
        '000000000000000000000000000000000000000000000000000000000000000000000000000000000000000000000000000000000000000000000000000000000000'
        '00000000000000000000000000000000000000000000000000000.0', '0.' + '0' * 400 + '1', '1' * 5000]

# site -> where the conversion happens in the sources (found by reading parser.c / lexer.c / typechecker.c / module.c)
NUMERIC_SITES = {
    'parser.c parse_operand: tuple_index.index = (int)atoll(NUMBER)  [operand of an operator / unary]':
        ['tidx-var-infix', 'tidx-lit-infix', 'tidx-unary'],
    'parser.c parse_expression postfix loop: index = (int)atoll(NUMBER)  [tuple.N after a whole expression]':
        ['tidx-var', 'tidx-var-sp', 'tidx-lit', 'tidx-nested', 'tidx-nested2', 'tidx-call', 'tidx-field', 'tidx-chain', 'tidx-let', 'tidx-arg',
         'tidx-paren', 'tidx-struct-tuple', 'tidx-mixed'],
    'typechecker.c check_expression_impl AST_TUPLE_INDEX: element_types[index] (tuple literal) / type_info->tuple_types[index] (variable)':
        ['tidx-lit', 'tidx-var', 'tidx-lit-infix', 'tidx-var-infix', 'tidx-nested', 'tidx-let', 'tidx-mixed'],
    'parser.c parse_primary TOKEN_NUMBER: as.number = atoll(text)  [value only; never an index in the front end]':
        ['int-return', 'int-let', 'int-arg', 'int-prefix', 'int-infix', 'int-cond', 'int-array-lit', 'int-array-new', 'int-array-new-val',
         'int-at', 'int-range-lo', 'int-range-hi', 'int-match-arm', 'int-struct-field', 'int-tuple-elem', 'int-assert', 'int-shadow',
         'int-while', 'int-u8', 'int-global', 'int-set', 'int-unary'],
    'parser.c parse_primary TOKEN_FLOAT: as.float_val = atof(text)':
        ['float-let', 'float-return', 'float-arg'],
    'parser.c parse_enum_def: variant_values[count] = atoi(NUMBER); next_auto_value = value + 1':
        ['enum-first', 'enum-last', 'enum-mid', 'enum-two', 'enum-match'],
    'lexer.c tokenize: digits / -digits / digits.digits scanned by isdigit (no conversion, unbounded length)':
        ['int-return', 'float-let', 'lex-adjacent', 'lex-dot-chain'],
    'lexer.c tokenize: character literal -> NUMBER token with snprintf("%d", char_value)':
        ['char-lit', 'char-esc'],
    'lexer.c tokenize: string literal escapes are copied verbatim (no numeric escape forms are decoded in the front end)':
        ['str-esc'],
    'module.c process_imports: exported constant create_int(value_node->as.number) / create_float':
        ['(module graphs stream: scenario const-module)'],
    'type-level numbers: the grammar has none (array<T> carries no size; no template reaches a conversion)': [],
}

HDR_T = 'fn main() -> int {\n    let t: (int, int) = (42, 99)\n'
TEMPLATES = {
    # ---- tuple index
    'tidx-var': HDR_T + '    return t.@N@\n}\n',
    'tidx-var-sp': HDR_T + '    return t. @N@\n}\n',
    'tidx-lit': 'fn main() -> int {\n    return (42, 99).@N@\n}\n',
    'tidx-var-infix': HDR_T + '    return 1 + t.@N@\n}\n',
    'tidx-lit-infix': 'fn main() -> int {\n    return 1 + (42, 99).@N@\n}\n',
    'tidx-unary': HDR_T + '    return - t.@N@\n}\n',
    'tidx-nested': 'fn main() -> int {\n    let t: ((int, int), int) = ((1, 2), 3)\n    let u: (int, int) = t.@N@\n    return 0\n}\n',
    'tidx-nested2': 'fn main() -> int {\n    return ((1, 2), 3).0 .@N@\n}\n',
    'tidx-chain': HDR_T + '    return t.@N@.@N@\n}\n',
    'tidx-call': 'fn mk() -> (int, int) { return (1, 2) }\nfn main() -> int {\n    return (mk).@N@\n}\n',
    'tidx-field': 'struct P { x: int }\nfn main() -> int {\n    let p: P = P { x: 1 }\n    return p.@N@\n}\n',
    'tidx-let': HDR_T + '    let v: int = t.@N@\n    return v\n}\n',
    'tidx-arg': 'fn id(a: int) -> int { return a }\n' + HDR_T + '    return (id t.@N@)\n}\n',
    'tidx-paren': HDR_T + '    return (t).@N@\n}\n',
    'tidx-struct-tuple': 'struct S { p: (int, int) }\nfn main() -> int {\n    let s: S = S { p: (1, 2) }\n    return s.p.@N@\n}\n',
    'tidx-mixed': 'fn main() -> int {\n    let t: (int, string, bool) = (1, "a", true)\n    let s: string = t.@N@\n    return 0\n}\n',
    # ---- integer literals
    'int-return': 'fn main() -> int {\n    return @N@\n}\n',
    'int-let': 'fn main() -> int {\n    let x: int = @N@\n    return x\n}\n',
    'int-arg': 'fn id(a: int) -> int { return a }\nfn main() -> int {\n    return (id @N@)\n}\n',
    'int-prefix': 'fn main() -> int {\n    return (+ @N@ 1)\n}\n',
    'int-infix': 'fn main() -> int {\n    return 1 + @N@\n}\n',
    'int-unary': 'fn main() -> int {\n    return - @N@\n}\n',
    'int-cond': 'fn main() -> int {\n    let a: int = 1\n    return (cond ((> a @N@) 1) (else 0))\n}\n',
    'int-array-lit': 'fn main() -> int {\n    let a: array<int> = [@N@, 1, @N@]\n    return (array_length a)\n}\n',
    'int-array-new': 'fn main() -> int {\n    let a: array<int> = (array_new @N@ 0)\n    return 0\n}\n',
    'int-array-new-val': 'fn main() -> int {\n    let a: array<int> = (array_new 2 @N@)\n    return 0\n}\n',
    'int-at': 'fn main() -> int {\n    let a: array<int> = [1, 2]\n    return (at a @N@)\n}\n',
    'int-range-lo': 'fn main() -> int {\n    let mut s: int = 0\n    for i in (range @N@ 3) {\n        set s (+ s i)\n    }\n    return s\n}\n',
    'int-range-hi': 'fn main() -> int {\n    let mut s: int = 0\n    for i in (range 0 @N@) {\n        set s (+ s 1)\n    }\n    return s\n}\n',
    'int-match-arm': 'union R { Ok { v: int }, Bad { e: int } }\nfn main() -> int {\n    let r: R = R.Ok { v: @N@ }\n    match r {\n        Ok(o) => { return @N@ }\n'
                     '        Bad(b) => { return 1 }\n    }\n}\n',
    'int-struct-field': 'struct P { x: int, y: int }\nfn main() -> int {\n    let p: P = P { x: @N@, y: 2 }\n    return p.x\n}\n',
    'int-tuple-elem': 'fn main() -> int {\n    let t: (int, int) = (@N@, 2)\n    return t.0\n}\n',
    'int-assert': 'fn main() -> int {\n    assert (== @N@ @N@)\n    return 0\n}\n',
    'int-shadow': 'fn f(a: int) -> int { return a }\nshadow f {\n    assert (== (f @N@) @N@)\n}\nfn main() -> int { return 0 }\n',
    'int-while': 'fn main() -> int {\n    let mut i: int = 0\n    while (< i @N@) {\n        set i (+ i 1)\n        break\n    }\n    return i\n}\n',
    'int-u8': 'fn main() -> int {\n    let b: u8 = @N@\n    return 0\n}\n',
    'int-global': 'let G: int = @N@\nfn main() -> int {\n    return G\n}\n',
    'int-set': 'fn main() -> int {\n    let mut x: int = 0\n    set x @N@\n    return x\n}\n',
    # ---- floats
    'float-let': 'fn main() -> int {\n    let x: float = @N@\n    return 0\n}\n',
    'float-return': 'fn f() -> float {\n    return @N@\n}\nfn main() -> int { return 0 }\n',
    'float-arg': 'fn h(a: float) -> float { return a }\nfn main() -> int {\n    let y: float = (h @N@)\n    return 0\n}\n',
    # ---- enum explicit values
    'enum-first': 'enum E { A = @N@, B, C }\nfn main() -> int {\n    return 0\n}\n',
    'enum-last': 'enum E { A, B, C = @N@ }\nfn main() -> int {\n    return 0\n}\n',
    'enum-mid': 'enum E { A, B = @N@, C, D }\nfn main() -> int {\n    let e: E = E.C\n    return 0\n}\n',
    'enum-two': 'enum E { A = @N@, B = @N@ }\nfn main() -> int {\n    return 0\n}\n',
    'enum-match': 'enum E { A = @N@, B }\nfn main() -> int {\n    let e: E = E.B\n    if (== e E.A) { return 1 } else { return 0 }\n}\n',
    # ---- lexer shapes
    'lex-adjacent': 'fn main() -> int {\n    let x: int = 5\n    return x@N@\n}\n',
    'lex-dot-chain': 'fn main() -> int {\n    let t: ((int, int), int) = ((1, 2), 3)\n    return t.0.@N@\n}\n',
    'char-lit': "fn main() -> int {\n    let c: int = '@C@'\n    return c\n}\n",
    'char-esc': "fn main() -> int {\n    let c: int = '\\@C@'\n    return c\n}\n",
    'str-esc': 'fn main() -> int {\n    let s: string = "a\\@E@b"\n    return (str_length s)\n}\n',
}
CHAR_POOL = ['a', '0', '9', '\\', "'", '"', '\x7f', '\x80', '\xff', '\x01', ' ', '\t']
ESC_POOL = ['n', 't', '0', 'x41', 'x', 'xZZ', 'xfffffffff', 'u0041', 'u{1F600}', 'u{FFFFFFFFFF}', 'U0010FFFF', '101', '777', '9', '400', '\\', 'q',
            'x00', 'u0000', 'N{DIGIT ONE}', 'e', 'a']


def numeric_cases(ck):
    """-> list of (tag, source bytes); tag = numeric:<template>:<spelling>"""
    out = []
    for name, tpl in TEMPLATES.items():
        if '@C@' in tpl:
            for c in CHAR_POOL:
                out.append(('numeric:%s:%s' % (name, c.encode('latin1').hex()), tpl.replace('@C@', c).encode('latin1')))
        elif '@E@' in tpl:
            for e in ESC_POOL:
                out.append(('numeric:%s:%s' % (name, e), tpl.replace('@E@', e).encode('latin1')))
        else:
            for n in POOL:
                label = n if len(n) < 40 else 'len%d:%s' % (len(n), hashlib.sha256(n.encode()).hexdigest()[:6])
                out.append(('numeric:%s:%s' % (name, label), tpl.replace('@N@', n).encode('latin1')))
    return out


def numeric_sites_report():
    miss = sorted(t for ts in NUMERIC_SITES.values() for t in ts if not t.startswith('(') and t not in TEMPLATES)
    if miss:
        raise RuntimeError('numeric site table names unknown templates: %s' % miss)
    used = set(t for ts in NUMERIC_SITES.values() for t in ts)
    return dict(sites=NUMERIC_SITES, templates=len(TEMPLATES), pool=len(POOL), templates_without_site=sorted(set(TEMPLATES) - used))


# ------------------------------------------------------------------------------------------------ module graphs
STACK_KB = 8192
MAIN = 'main.nano'


def fn_body(k, calls=()):
    """a well-typed module body: one function per module (distinct names), optionally calling functions of imported modules"""
    s = 'pub fn f_%s() -> int {\n    return %s\n}\n' % (k, ' '.join(['(+'] * len(calls) + ['%d' % (len(k) + 1)] + ['(f_%s))' % c for c in calls]))
    return s


def mod(imports, k, main=False, extra='', calls=()):
    s = ''.join(i + '\n' for i in imports) + fn_body(k, calls) + extra
    if main:
        s += 'fn main() -> int {\n    return 0\n}\n'
    return s.encode()


class Scenario:
    def __init__(self, name, files, expect=None, main=MAIN, dirs=(), graph=None, note=''):
        self.name, self.files, self.expect, self.main, self.dirs, self.graph, self.note = name, files, expect, main, dirs, graph, note


def imp(p):
    return 'import "%s"' % p


def scenarios(ck):
    S = []
    add = lambda *a, **k: S.append(Scenario(*a, **k))
    # expect: 'ok' | 'diag' | None (either is fine); the property itself only demands ok-or-diagnostic
    add('self', {MAIN: mod([imp(MAIN)], 'main', True)}, 'diag', graph={'main': ['main']})
    add('cycle2', {MAIN: mod([imp('b.nano')], 'main', True), 'b.nano': mod([imp(MAIN)], 'b')}, 'diag', graph={'main': ['b'], 'b': ['main']})
    add('cycle2-below-main', {MAIN: mod([imp('a.nano')], 'main', True), 'a.nano': mod([imp('b.nano')], 'a'), 'b.nano': mod([imp('a.nano')], 'b')},
        'diag', graph={'main': ['a'], 'a': ['b'], 'b': ['a']})
    add('self-below-main', {MAIN: mod([imp('a.nano')], 'main', True), 'a.nano': mod([imp('a.nano')], 'a')}, 'diag', graph={'main': ['a'], 'a': ['a']})
    add('cycle3', {MAIN: mod([imp('b.nano')], 'main', True), 'b.nano': mod([imp('c.nano')], 'b'), 'c.nano': mod([imp(MAIN)], 'c')},
        'diag', graph={'main': ['b'], 'b': ['c'], 'c': ['main']})
    add('cycle3-below-main', {MAIN: mod([imp('a.nano')], 'main', True), 'a.nano': mod([imp('b.nano')], 'a'), 'b.nano': mod([imp('c.nano')], 'b'),
                              'c.nano': mod([imp('a.nano')], 'c')}, 'diag', graph={'main': ['a'], 'a': ['b'], 'b': ['c'], 'c': ['a']})
    add('cycle2-aliased', {MAIN: mod(['import "b.nano" as B'], 'main', True), 'b.nano': mod(['import "main.nano" as M'], 'b')}, 'diag')
    add('cycle2-selective', {MAIN: mod(['from "b.nano" import f_b'], 'main', True), 'b.nano': mod(['from "main.nano" import f_main'], 'b')}, 'diag')
    add('cycle2-dotslash', {MAIN: mod([imp('./b.nano')], 'main', True), 'b.nano': mod([imp('./main.nano')], 'b')}, 'diag')
    add('cycle2-subdir-dotdot', {MAIN: mod([imp('sub/a.nano')], 'main', True), 'sub/a.nano': mod([imp('../sub/b.nano')], 'a'),
                                 'sub/b.nano': mod([imp('../sub/a.nano')], 'b')}, 'diag',
        note='the path strings grow on every round (sub/../sub/../sub/a.nano ...): a marker keyed by the path string cannot see this cycle')
    add('diamond', {MAIN: mod([imp('l.nano'), imp('r.nano')], 'main', True, calls=['l', 'r']), 'l.nano': mod([imp('base.nano')], 'l', calls=['base']),
                    'r.nano': mod([imp('base.nano')], 'r', calls=['base']), 'base.nano': mod([], 'base')}, 'ok',
        graph={'main': ['l', 'r'], 'l': ['base'], 'r': ['base'], 'base': []})
    add('missing', {MAIN: mod([imp('nope.nano')], 'main', True)}, 'diag', graph={'main': ['nope']})
    add('missing-below', {MAIN: mod([imp('a.nano')], 'main', True), 'a.nano': mod([imp('nope.nano')], 'a')}, 'diag', graph={'main': ['a'], 'a': ['nope']})
    add('import-directory', {MAIN: mod([imp('d')], 'main', True)}, 'diag', dirs=['d'])
    add('import-directory-slash', {MAIN: mod([imp('d/')], 'main', True)}, 'diag', dirs=['d'])
    add('import-directory-dotnano', {MAIN: mod([imp('d.nano')], 'main', True)}, 'diag', dirs=['d.nano'])
    add('import-dot', {MAIN: mod([imp('.')], 'main', True)}, 'diag')
    add('import-dotdot', {MAIN: mod([imp('..')], 'main', True)}, 'diag')
    add('import-empty-string', {MAIN: mod([imp('')], 'main', True)}, 'diag')
    add('import-slash', {MAIN: mod([imp('/')], 'main', True)}, 'diag')
    add('import-dev-null', {MAIN: mod([imp('/dev/null')], 'main', True)}, None)
    add('syntax-error-module', {MAIN: mod([imp('bad.nano')], 'main', True), 'bad.nano': b'fn f_bad( -> int { return }\n'}, 'diag')
    add('lex-error-module', {MAIN: mod([imp('bad.nano')], 'main', True), 'bad.nano': b"fn f_bad() -> int { return 'ab }\n"}, 'diag')
    add('type-error-module', {MAIN: mod([imp('bad.nano')], 'main', True), 'bad.nano': b'fn f_bad() -> int {\n    return "s"\n}\n'}, 'diag')
    add('empty-module', {MAIN: mod([imp('e.nano')], 'main', True), 'e.nano': b''}, None)
    add('comment-only-module', {MAIN: mod([imp('e.nano')], 'main', True), 'e.nano': b'# nothing\n/* at all */\n'}, None)
    add('binary-junk-module', {MAIN: mod([imp('j.nano')], 'main', True), 'j.nano': bytes(range(1, 256)) * 3}, 'diag')
    add('nul-bytes-module', {MAIN: mod([imp('z.nano')], 'main', True), 'z.nano': b'fn f_z() -> int {\x00 return 1 }\n'}, None)
    add('module-with-main', {MAIN: mod([imp('m.nano')], 'main', True), 'm.nano': mod([], 'm', True)}, None)
    add('module-decl', {MAIN: mod([imp('m.nano')], 'main', True), 'm.nano': b'module mymod\n' + mod([], 'm')}, None)
    add('duplicate-function-across-modules', {MAIN: mod([imp('a.nano'), imp('b.nano')], 'main', True), 'a.nano': mod([], 'x'), 'b.nano': mod([], 'x')}, None)
    add('same-module-twice', {MAIN: mod([imp('m.nano'), imp('m.nano')], 'main', True), 'm.nano': mod([], 'm')}, 'ok', graph={'main': ['m', 'm'], 'm': []})
    add('same-module-two-aliases', {MAIN: mod(['import "m.nano" as A', 'import "m.nano" as B'], 'main', True,
                                            extra='fn g() -> int {\n    return (+ (A.f_m) (B.f_m))\n}\n'), 'm.nano': mod([], 'm')}, None)
    add('same-module-two-spellings', {MAIN: mod([imp('m.nano'), imp('./m.nano')], 'main', True), 'm.nano': mod([], 'm')}, None)
    add('alias-same-as-function', {MAIN: mod(['import "m.nano" as f_m'], 'main', True), 'm.nano': mod([], 'm')}, None)
    add('selective-nonexistent', {MAIN: mod(['from "m.nano" import nosuch'], 'main', True), 'm.nano': mod([], 'm')}, None)
    add('selective-nonexistent-alias', {MAIN: mod(['from "m.nano" import nosuch as other'], 'main', True), 'm.nano': mod([], 'm')}, 'diag')
    add('selective-alias-conflict', {MAIN: mod(['from "m.nano" import f_m as f_main'], 'main', True), 'm.nano': mod([], 'm')}, None)
    add('selective-alias-twice', {MAIN: mod(['from "m.nano" import f_m as g', 'from "m.nano" import f_m as g'], 'main', True), 'm.nano': mod([], 'm')}, None)
    add('selective-many', {MAIN: mod(['from "m.nano" import ' + ', '.join('s%d' % i for i in range(300))], 'main', True), 'm.nano': mod([], 'm')}, None)
    add('const-module', {MAIN: mod([imp('k.nano')], 'main', True, extra='fn g() -> int {\n    return K\n}\n'),
                         'k.nano': b'let K: int = 99999999999999999999999999\nlet F: float = 1.5\nlet B: bool = true\nlet S: string = "s"\n'
                                   b'let T: (int, int) = (1, 2)\nlet mut M: int = -9223372036854775808\n'}, None)
    add('long-name-200', {MAIN: mod([imp('a' * 200 + '.nano')], 'main', True), 'a' * 200 + '.nano': mod([], 'a')}, 'ok')
    add('long-name-missing-300', {MAIN: mod([imp('b' * 300 + '.nano')], 'main', True)}, 'diag')
    add('long-path-missing-5000', {MAIN: mod([imp('/'.join(['d' * 50] * 100) + '.nano')], 'main', True)}, 'diag')
    add('long-path-missing-100000', {MAIN: mod([imp('p' * 100000)], 'main', True)}, 'diag')
    add('long-prefixed-path', {MAIN: mod([imp('modules/' + 'q' * 3000 + '.nano')], 'main', True)}, 'diag')
    add('long-std-path', {MAIN: mod([imp('std/' + '/'.join(['r' * 200] * 12) + '.nano')], 'main', True)}, 'diag')
    add('dotdot-ok', {MAIN: mod([imp('sub/a.nano')], 'main', True), 'sub/a.nano': mod([imp('../top.nano')], 'a'), 'top.nano': mod([], 'top')}, None)
    add('dotdot-escape', {MAIN: mod([imp('../' * 40 + 'etc/hostname')], 'main', True)}, None)
    add('import-tar-zst-missing', {MAIN: mod([imp('pkg.nano.tar.zst')], 'main', True)}, 'diag')
    add('import-tar-zst-junk', {MAIN: mod([imp('./pkg.nano.tar.zst')], 'main', True), 'pkg.nano.tar.zst': b'not an archive'}, 'diag')
    add('quote-in-path', {MAIN: mod([imp("a'b.nano")], 'main', True), "a'b.nano": mod([], 'q')}, None)
    add('percent-in-path', {MAIN: mod([imp('%s%n%d.nano')], 'main', True)}, 'diag')
    add('import-after-code', {MAIN: mod([], 'main', True) + b'import "m.nano"\n', 'm.nano': mod([], 'm')}, None)
    add('import-inside-function', {MAIN: b'fn main() -> int {\n    import "m.nano"\n    return 0\n}\n', 'm.nano': mod([], 'm')}, None)
    add('import-no-string', {MAIN: b'import m\nfn main() -> int { return 0 }\n'}, 'diag')
    add('from-no-import', {MAIN: b'from "m.nano"\nfn main() -> int { return 0 }\n', 'm.nano': mod([], 'm')}, 'diag')
    add('from-import-nothing', {MAIN: b'from "m.nano" import\nfn main() -> int { return 0 }\n', 'm.nano': mod([], 'm')}, None)
    add('import-as-nothing', {MAIN: b'import "m.nano" as\nfn main() -> int { return 0 }\n', 'm.nano': mod([], 'm')}, None)
    add('many-imports-300', dict([(MAIN, mod([imp('m%d.nano' % i) for i in range(300)], 'main', True))] +
                                 [('m%d.nano' % i, mod([], 'm%d' % i)) for i in range(300)]), 'ok')
    for depth in (50, 500, 3000):
        files = {MAIN: mod([imp('c0.nano')], 'main', True)}
        g = {'main': ['c0']}
        for i in range(depth):
            last = i == depth - 1
            files['c%d.nano' % i] = mod([] if last else [imp('c%d.nano' % (i + 1))], 'c%d' % i)
            g['c%d' % i] = [] if last else ['c%d' % (i + 1)]
        # (the extracted model works on unary numbers: cubic in the chain length, so only chains up to 500 are given to it)
        add('chain-%d' % depth, files, 'ok' if depth <= 500 else None, graph=g if depth <= 500 else None)
        files = dict(files)
        files['c%d.nano' % (depth - 1)] = mod([imp('c0.nano')], 'c%d' % (depth - 1))
        g = dict(g); g['c%d' % (depth - 1)] = ['c0']
        add('chain-%d-closed' % depth, files, 'diag', graph=g if depth <= 500 else None)
    return S


def random_graphs(ck, n):
    """import graphs over main, m1..mk (k <= 6); an edge to a name without a file = missing module.  -> scenarios with .graph"""
    rng = ck.rng
    out = []
    for i in range(n):
        k = rng.randrange(1, 7)
        names = ['main'] + ['m%d' % j for j in range(1, k + 1)]
        r = rng.random()
        g = {}
        for idx, a in enumerate(names):
            if r < 0.45:                        # acyclic: edges only to later names
                cand = names[idx + 1:]
            elif r < 0.9:                       # anything, cycles likely
                cand = names
            else:                               # acyclic + a missing name
                cand = names[idx + 1:] + ['zz']
            deg = rng.choice([0, 1, 1, 2, 2, 3])
            g[a] = [rng.choice(cand) for _ in range(deg)] if cand else []
        if r >= 0.9 and not any('zz' in v for v in g.values()):
            g[rng.choice(names)].append('zz')
        files = {}
        for a in names:
            files[a + '.nano'] = mod([imp(b + '.nano') for b in g[a]], a, a == 'main')
        out.append(Scenario('rand%d' % i, files, None, graph=g))
    return out


def model_line(g):
    """graph dict (keys may be any hashable names; 'main' is the program) -> request line of nvref_c09: imports <n> <main> <k>=<d1>,<d2>.. ..."""
    names = sorted(set(g) | set(x for v in g.values() for x in v), key=lambda s: (s != 'main', len(s), s))
    num = {a: i for i, a in enumerate(names)}
    parts = []
    for a in names:
        if a in g:
            parts.append('%d=%s' % (num[a], ','.join(str(num[b]) for b in g[a]) or '-'))
    return 'imports %d %s' % (num['main'], ' '.join(parts)), names


def write_scenario(sc, root):
    os.makedirs(root, exist_ok=True)
    for d in sc.dirs:
        os.makedirs(os.path.join(root, d), exist_ok=True)
    for rel, data in sc.files.items():
        p = os.path.join(root, rel)
        os.makedirs(os.path.dirname(p), exist_ok=True)
        with open(p, 'wb') as f:
            f.write(data)


TOOL_CMDS = {
    'nano_virt': lambda b, main: [b.bin('nano_virt'), main, '--emit-nvm', '-o', 'out.nvm'],
    'nanoc': lambda b, main: [b.bin('nanoc'), main, '-o', 'out.bin'],
}
SAN_ENV = dict(ASAN_OPTIONS='detect_leaks=0:exitcode=77:allocator_may_return_null=1:detect_stack_use_after_return=0',
               UBSAN_OPTIONS='print_stacktrace=1:exitcode=77')


def classify(rc, err):
    """-> (class, detail): ok | diag | silent | crash | timeout"""
    if rc == -9:
        return 'timeout', ''
    m = re.search(r'ERROR: AddressSanitizer: ([A-Za-z-]+)', err)
    if m:
        return 'crash', 'asan:' + m.group(1)
    if 'runtime error:' in err:
        return 'crash', 'ubsan'
    if 'AddressSanitizer' in err and rc != 0 and 'allocator_may_return_null' not in err:
        return 'crash', 'asan:other'
    if rc < 0:
        return 'crash', 'signal %d' % -rc
    if rc >= 126:
        return 'crash', 'exit %d' % rc
    if rc == 0:
        m = re.search(r'^(Error|error)( at line \d+|:).*$', err, re.M)
        if m:
            return 'error-exit0', m.group(0)[:120]
        return 'ok', ''
    return ('diag' if err.strip() else 'silent'), 'exit %d' % rc


def diag_kind(err):
    if re.search(r'[Cc]ircular', err):
        return 'cycle'
    if re.search(r'nested too deeply', err):
        return 'depth'
    if re.search(r'not found|Could not open|Failed to resolve', err):
        return 'missing'
    return 'other'


def run_tool(b, tool, root, main, timeout):
    """the real tool in directory `root` under a bounded stack; cc is replaced by `true` for nanoc (the C compiler is not the front end)"""
    env = dict(os.environ, NANO_CC='true', TMPDIR=root, **(SAN_ENV if b.variant == 'asan' else {}))
    cmd = ['prlimit', '--stack=%d:%d' % (STACK_KB * 1024, STACK_KB * 1024)] + TOOL_CMDS[tool](b, main)
    for attempt in range(6):
        rc, o, e = vlib.sh(cmd, timeout=timeout, cwd=root, env=env)
        # the binary is being re-linked by a concurrent build of another check (ETXTBSY / EACCES): not an answer of the tool
        if rc in (126, 127) and 'prlimit: failed to execute' in e:
            time.sleep(1.5)
            continue
        break
    return rc, e


def first_repo_frame(err):
    tail = err[err.find('ERROR: '):] if 'ERROR: ' in err else (err[err.find('runtime error:'):] if 'runtime error:' in err else err)
    m = re.search(r'#\d+ 0x[0-9a-f]+ in (\w+) \S*/src/([\w/]+\.c):(\d+)', tail)
    return (m.group(1), m.group(2), int(m.group(3))) if m else None


def loader_recursion(err):
    """is the report a stack overflow through the import loader's recursion (load_module_internal <-> process_imports)?"""
    return 'stack-overflow' in err and len(re.findall(r' in load_module_internal ', err)) >= 3 and len(re.findall(r' in process_imports ', err)) >= 3


# ------------------------------------------------------------------------------------------------ module graphs: the run
CYCLE_KEY = 'c09:modules:cycle2:%s'                     # unbounded recursion of the import loader on ANY circular import (one root cause)
DIR_KEY = 'c09:modules:import-directory:%s'             # import of a path that fopen() opens but that is not a regular file
IGNORED_KEY = 'c09:modules:failed-import-ignored:%s'    # a module that failed to load is treated as "already loaded": Error lines, exit status 0
LOADER_FAILURE = re.compile(r"^Error: (Failed to (parse|tokenize|process imports for) module|Type checking failed for module|Could not open module file)", re.M)


def family(sc):
    n = sc.name
    if n == 'self' or n.startswith('self-') or n.startswith('cycle') or (n.startswith('chain-') and n.endswith('-closed')):
        return 'cycle'
    if n.startswith('import-directory') or n in ('import-dot', 'import-dotdot', 'import-slash'):
        return 'directory'
    return None


def graph_text(g):
    return ';'.join('%s=%s' % (a, ','.join(g[a])) for a in sorted(g, key=lambda s: (s != 'main', len(s), s)))


def model_verdicts(ref, scs):
    """-> {scenario name: (guarded, unguarded)} with each verdict ('ok',) | ('cycle', name) | ('missing', name) | ('fuel',)"""
    lines, meta = [], []
    for sc in scs:
        if sc.graph:
            line, names = model_line(sc.graph)
            lines.append(line); meta.append((sc, names))
    out = {}
    if not lines:
        return out
    ans = vlib.run_lines(ref, lines, timeout=300)
    for (sc, names), a in zip(meta, ans):
        vs = []
        for part in a.split(' | '):
            f = part.split()
            if not f:
                vs.append(('bad', a))
            elif f[0] in ('cycle', 'missing'):
                vs.append((f[0], names[int(f[1])]))
            else:
                vs.append((f[0],))
        out[sc.name] = tuple(vs) if len(vs) == 2 else (('bad', a), ('bad', a))
    return out


def real_verdict(cls, err):
    """verdict class of the real tool in the model's vocabulary"""
    if cls == 'ok':
        return ('ok',)
    if cls in ('diag', 'error-exit0'):
        k = diag_kind(err)
        if k == 'cycle':
            m = re.search(r"Circular import[^\n]*?'([^']*)'", err)
            return ('cycle', os.path.basename(m.group(1))[:-len('.nano')] if m and m.group(1).endswith('.nano') else '?')
        if k == 'missing':
            m = re.search(r"Module file '([^']*)' not found", err)
            return ('missing', os.path.basename(m.group(1))[:-len('.nano')] if m and m.group(1).endswith('.nano') else '?')
        return ('diag-depth',) if k == 'depth' else ('diag-other',)
    if cls == 'crash':
        return ('fuel',)               # runaway recursion / any crash: compared with the model's "never returns"
    return (cls,)


def run_module_graphs(ck, ref):
    builds = dict(plain=ck.build('plain'), asan=ck.build('asan'))
    named = scenarios(ck)
    rnd = random_graphs(ck, 200 if ck.thorough else 40)
    model = model_verdicts(ref, named + rnd)
    tmp = tempfile.mkdtemp(prefix='c09mod', dir=vlib.BUILD)
    jobs = []
    for sc in named:
        for tool in ('nano_virt', 'nanoc'):
            for v in ('plain', 'asan'):
                jobs.append((sc, tool, v))
    for sc in rnd:
        jobs += [(sc, 'nano_virt', 'plain'), (sc, 'nano_virt', 'asan'), (sc, 'nanoc', 'plain')] + ([(sc, 'nanoc', 'asan')] if ck.thorough else [])

    def one(job, timeout=90):
        sc, tool, v = job
        d = os.path.join(tmp, sc.name, tool + '-' + v)
        try:
            write_scenario(sc, d)
        except OSError as e:                       # a scenario the file system refuses (name too long ...) is not an input
            return job, None, 'harness: %s' % e
        rc, e = run_tool(builds[v], tool, d, sc.main, timeout)
        shutil.rmtree(d, ignore_errors=True)
        return job, rc, e
    outc, fam_seen, mism, expect_mism, results = {}, {}, [], [], {}
    try:
        with ThreadPoolExecutor(14) as ex:
            res = list(ex.map(one, jobs))
        # a timeout on a loaded machine: once more, alone
        res = [one(job, 240) if rc == -9 else (job, rc, e) for job, rc, e in res]
        # which loader does each tool have?  (behaviour on the self import, plain build)
        variant = {}
        for (sc, tool, v), rc, e in res:
            if sc.name == 'self' and v == 'plain' and rc is not None:
                variant[tool] = 'guarded' if classify(rc, e)[0] == 'diag' and diag_kind(e) == 'cycle' else 'unguarded'
        for (sc, tool, v), rc, e in res:
            if rc is None or (rc in (126, 127) and 'prlimit: failed to execute' in e):
                ck.note('module graph scenario %s: run not started (%s)' % (sc.name, e.strip()[:120]))
                continue
            cls, detail = classify(rc, e)
            ck.count(('modules', sc.name, graph_text(sc.graph) if sc.name.startswith('rand') else '', tool, v), nontrivial=True)
            outc['%s/%s' % (tool, cls)] = outc.get('%s/%s' % (tool, cls), 0) + 1
            results.setdefault(sc.name, {})['%s-%s' % (tool, v)] = cls + (':' + diag_kind(e) if cls in ('diag', 'error-exit0') else '')
            fam = family(sc)
            mv = model.get(sc.name)
            if fam is None and mv and mv[0][0] == 'cycle':
                fam = 'cycle'
            ident = sc.name if not sc.name.startswith('rand') else 'graph[%s]' % graph_text(sc.graph)
            rep = dict(scenario=sc.name, graph=sc.graph and graph_text(sc.graph), tool=tool, build=v, main=sc.main, observed='%s %s' % (cls, detail),
                       files={k: (x.decode('latin1') if len(x) < 3000 else None) for k, x in list(sc.files.items())[:12]}, dirs=list(sc.dirs),
                       command=' '.join(os.path.basename(x) if i == 0 else x for i, x in enumerate(TOOL_CMDS[tool](builds[v], sc.main))),
                       stderr=e[-1200:], engine='%s (%s build), prlimit --stack=%dk, NANO_CC=true' % (tool, v, STACK_KB))
            # ---- the property: acceptance or a diagnostic with a failure status
            if cls in ('crash', 'timeout'):
                fr = first_repo_frame(e)
                if fr and not re.match(r'(lexer|parser|typechecker|module|env|module_metadata|main)\.c$|nanovirt/main\.c$', fr[1]):
                    ck.note('%s (%s) fails outside the front end (%s in %s) on module scenario %s: not a C09 matter' % (tool, v, fr[0], fr[1], sc.name))
                    outc['outside-front-end'] = outc.get('outside-front-end', 0) + 1
                    continue
                is_overflow = loader_recursion(e) if v == 'asan' else (cls == 'crash' and detail in ('signal 11', 'exit 139'))
                if fam == 'cycle' and is_overflow:
                    key = CYCLE_KEY % tool
                elif fam == 'directory' and cls == 'crash' and (v == 'plain' or (fr and fr[0] == 'load_module_internal')):
                    key = DIR_KEY % tool
                else:
                    key = 'c09:modules:%s:%s:%s' % (ident, tool, cls)
                fam_seen.setdefault(key, []).append('%s/%s' % (sc.name, v))
                ck.fail(key, '%s (%s build) on the module graph "%s": %s %s%s' % (tool, v, ident, cls, detail,
                                                                               ' in %s %s:%d' % fr if fr else ''), rep)
            elif cls == 'silent':
                ck.fail('c09:modules:%s:%s:silent' % (ident, tool), '%s exits %s without any diagnostic on the module graph "%s"' % (tool, detail, ident), rep)
            elif cls == 'error-exit0':
                key = IGNORED_KEY % tool if LOADER_FAILURE.search(e) else 'c09:modules:%s:%s:error-exit0' % (ident, tool)
                fam_seen.setdefault(key, []).append('%s/%s' % (sc.name, v))
                ck.fail(key, '%s (%s build) prints "%s" but exits with status 0 on the module graph "%s"' % (tool, v, detail, ident), rep)
            # ---- expectation of the scenario table (a wrong expectation is a defect of the table, reported as a note)
            if sc.expect and cls in ('ok', 'diag') and cls != sc.expect:
                expect_mism.append('%s/%s-%s: expected %s, got %s' % (sc.name, tool, v, sc.expect, cls))
            # ---- the model
            if mv and cls in ('ok', 'diag', 'error-exit0') or (mv and fam == 'cycle'):
                want = mv[0] if variant.get(tool) == 'guarded' else mv[1]
                got = real_verdict(cls, e)
                if got == ('diag-depth',) or (got == ('diag-other',) and want == ('ok',) and tool == 'nano_virt' and 'codegen failed' in e):
                    # resource limits that the model does not have: the import depth limit, nano_virt's table of 512 functions
                    outc['model-not-applicable(resource limit)'] = outc.get('model-not-applicable(resource limit)', 0) + 1
                    continue
                same = want[0] == got[0] and (want[0] not in ('cycle', 'missing') or got[1] in ('?', want[1]))
                if not same:
                    mism.append(dict(scenario=sc.name, graph=graph_text(sc.graph), tool=tool, build=v, loader=variant.get(tool), model=list(want), real=list(got)))
                    ck.fail('c09:importmodel:%s:%s' % (ident, tool),
                            'import-loader model (%s) and %s (%s build) differ on the graph %s: model %s, tool %s' %
                            (variant.get(tool), tool, v, graph_text(sc.graph), ' '.join(want), ' '.join(got)),
                            dict(rep, correspondence='nvref_c09 imports vs %s' % tool, model=list(want), real=list(got)), tie=cls in ('ok', 'diag'))
    finally:
        shutil.rmtree(tmp, ignore_errors=True)
    for m in expect_mism[:10]:
        ck.note('module scenario table: ' + m)
    ck.extra['module_graphs'] = dict(named_scenarios=len(named), random_graphs=len(rnd), runs=len(jobs), outcomes=outc, loader_variant=variant,
                                     model_compared=sum(1 for (sc, t, v), rc, e in res if sc.name in model and rc is not None), model_mismatches=mism[:20],
                                     model_verdicts_guarded={k: sum(1 for x in model.values() if x[0][0] == k) for k in ('ok', 'cycle', 'missing')},
                                     aliased_failures={k: v[:40] for k, v in fam_seen.items()}, expectation_mismatches=expect_mism[:20],
                                     named_results=results if len(results) < 400 else None)
    return results


def replay_modules(ck, d):
    """replay file of the module graph stream: files + tool + build"""
    b = ck.build(d.get('build', 'plain'))
    tmp = tempfile.mkdtemp(prefix='c09rep', dir=vlib.BUILD)
    try:
        names = dict((sc.name, sc) for sc in scenarios(ck))
        sc = names.get(d.get('scenario'))
        if sc is None:
            sc = Scenario('replay', {k: (v or '').encode('latin1') for k, v in d['files'].items()}, None, main=d.get('main', MAIN), dirs=d.get('dirs', ()))
        write_scenario(sc, tmp)
        rc, e = run_tool(b, d['tool'], tmp, sc.main, 240)
        cls, detail = classify(rc, e)
        print('%s (%s): %s %s' % (d['tool'], b.variant, cls, detail))
        print(e[-1500:])
        bad = cls not in ('ok', 'diag')
        print('REPRODUCED' if bad else 'not reproduced')
        return 1 if bad else 0
    finally:
        shutil.rmtree(tmp, ignore_errors=True)


# ------------------------------------------------------------------------------------------------ numeric positions on the real tool
def numeric_real_tool(ck, ncases, probe_verdicts):
    """plain nano_virt --emit-nvm on every numeric-position input: exit status 0 or 1 (with a diagnostic), no signal"""
    b = ck.build('plain')
    tmp = tempfile.mkdtemp(prefix='c09num', dir=vlib.BUILD)
    outc = {}
    try:
        def one(k):
            d = os.path.join(tmp, str(k)); os.makedirs(d)
            open(os.path.join(d, 's.nano'), 'wb').write(ncases[k][1])
            rc, e = run_tool(b, 'nano_virt', d, 's.nano', 20)
            shutil.rmtree(d, ignore_errors=True)
            return k, rc, e
        with ThreadPoolExecutor(14) as ex:
            res = list(ex.map(one, range(len(ncases))))
        for k, rc, e in res:
            tag, src = ncases[k]
            if rc == -9:
                k, rc, e = one(k)
            if rc in (126, 127) and 'prlimit: failed to execute' in e:
                ck.note('numeric positions: nano_virt could not be started for %s (%s)' % (tag, e.strip()[:100]))
                continue
            cls, detail = classify(rc, e)
            ck.count(('numeric-tool', src), True)
            outc[cls] = outc.get(cls, 0) + 1
            if cls in ('ok', 'diag', 'error-exit0'):
                continue
            pv = probe_verdicts.get(tag, '')
            if cls in ('crash', 'timeout') and pv == 'accept':
                # the front end (probe, same build) accepted this input: the failure is in code generation, not a C09 matter
                ck.note('nano_virt (plain) fails after the front end accepted %s (%s %s): not a C09 matter' % (tag, cls, detail))
                outc['after-front-end'] = outc.get('after-front-end', 0) + 1
                continue
            ck.fail('c09:%s:nano_virt:%s' % (tag, cls), 'nano_virt (plain) --emit-nvm: %s %s on %s' % (cls, detail, tag),
                    dict(source_hex=src.hex() if len(src) < 20000 else None, origin=tag, observed='%s %s' % (cls, detail), stderr=e[-800:],
                         engine='nano_virt(plain) --emit-nvm'))
    finally:
        shutil.rmtree(tmp, ignore_errors=True)
    return outc
