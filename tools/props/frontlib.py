"""Helpers shared by the C07 and C09 checks: token rendering, parallel front_probe runs, stack attribution."""
import os, sys, re, subprocess, json
from concurrent.futures import ThreadPoolExecutor
import vlib
sys.path.insert(0, os.path.join(vlib.HERE, 'gen'))
import gen_tokens

# concrete spelling of the fixed-text tokens (checked on every run: the real lexer must give back the same kinds)
SPELL = {
    'LPAREN': '(', 'RPAREN': ')', 'LBRACE': '{', 'RBRACE': '}', 'LBRACKET': '[', 'RBRACKET': ']', 'COMMA': ',', 'COLON': ':',
    'DOUBLE_COLON': '::', 'ARROW': '->', 'ASSIGN': '=', 'DOT': '.', 'PLUS': '+', 'MINUS': '-', 'STAR': '*', 'SLASH': '/',
    'PERCENT': '%', 'EQ': '==', 'NE': '!=', 'LT': '<', 'LE': '<=', 'GT': '>', 'GE': '>=', 'AND': 'and', 'OR': 'or', 'NOT': 'not',
    'TRUE': 'true', 'FALSE': 'false', 'MODULE': 'module', 'PUB': 'pub', 'FROM': 'from', 'USE': 'use', 'EXTERN': 'extern', 'FN': 'fn',
    'LET': 'let', 'MUT': 'mut', 'SET': 'set', 'IF': 'if', 'ELSE': 'else', 'COND': 'cond', 'WHILE': 'while', 'FOR': 'for', 'IN': 'in',
    'RETURN': 'return', 'BREAK': 'break', 'CONTINUE': 'continue', 'ASSERT': 'assert', 'SHADOW': 'shadow', 'REQUIRES': 'requires',
    'ENSURES': 'ensures', 'ARRAY': 'array', 'STRUCT': 'struct', 'ENUM': 'enum', 'UNION': 'union', 'MATCH': 'match', 'IMPORT': 'import',
    'AS': 'as', 'OPAQUE': 'opaque', 'TYPE_INT': 'int', 'TYPE_U8': 'u8', 'TYPE_FLOAT': 'float', 'TYPE_BOOL': 'bool',
    'TYPE_STRING': 'string', 'TYPE_BSTRING': 'bstring', 'TYPE_VOID': 'void', 'UNSAFE': 'unsafe', 'RESOURCE': 'resource',
}
_codes = None


def codes():
    """name (without TOKEN_) -> enum value, from the current header"""
    global _codes
    if _codes is None:
        _codes = {n[len('TOKEN_'):]: v for n, v in gen_tokens.token_enum()}
    return _codes


def names():
    return {v: n for n, v in codes().items()}


def hx(s):
    b = s if isinstance(s, bytes) else s.encode()
    return b.hex() or '-'


def unhx(h):
    return b'' if h in ('-', '=') else bytes.fromhex(h)


def render(toks):
    """toks: list of 'code:valhex' -> source text, one blank between tokens"""
    nm = names()
    out = []
    for t in toks:
        c, v = t.split(':')
        n = nm[int(c)]
        if n in ('NUMBER', 'IDENTIFIER', 'FLOAT'):
            out.append(unhx(v).decode('latin1'))
        elif n == 'STRING':
            out.append('"' + unhx(v).decode('latin1') + '"')
        else:
            out.append(SPELL[n])
    return ' '.join(out)


def strip_kw_values(toks):
    """keyword-like tokens (true, not, and, let ...) carry their spelling as value in the real lexer; the parser never reads it"""
    c = codes()
    keep = {c['NUMBER'], c['IDENTIFIER'], c['STRING'], c['FLOAT']}
    return [t if int(t.split(':')[0]) in keep else t.split(':')[0] + ':-' for t in toks]


def lex_tokens(ans):
    """'ok n t:l:c:v ...' -> ['t:v', ...] (positions dropped); None when the lexer returned NULL"""
    f = ans.split()
    if not f or f[0] != 'ok':
        return None
    out = []
    for t in f[2:]:
        if t.startswith('diag='):
            continue
        a = t.split(':')
        out.append('%s:%s' % (a[0], a[3] if a[3] != '=' else '-'))
    return out


PROBE_ENV = dict(os.environ, ASAN_OPTIONS='detect_leaks=0:exitcode=77:allocator_may_return_null=1:detect_stack_use_after_return=0',
                 UBSAN_OPTIONS='print_stacktrace=1:exitcode=77')


def run_probe(probe, reqs, jobs=12, timeout=900):
    """reqs: list of (cmd, ms, source bytes/str).  Returns the answer lines in order (None where the probe itself died)."""
    if not reqs:
        return []
    lines = ['%s %d %s' % (c, ms, hx(s)) for c, ms, s in reqs]
    n = len(lines)
    jobs = max(1, min(jobs, (n + 199) // 200))
    chunks = [list(range(i, n, jobs)) for i in range(jobs)]

    def one(idx):
        inp = ('\n'.join(lines[i] for i in idx) + '\n').encode()
        rc, o, e = vlib.sh([probe], timeout=timeout, input=inp, env=PROBE_ENV)
        ans = o.splitlines()
        return idx, ans, rc, e

    res = [None] * n
    with ThreadPoolExecutor(jobs) as ex:
        for idx, ans, rc, e in ex.map(one, chunks):
            for k, i in enumerate(idx):
                if k < len(ans):
                    res[i] = ans[k]
    return res


def split_answer(a):
    """-> (verdict text without the trailing diag=/err= fields, diag flag, stderr text)"""
    if a is None:
        return 'probe-died', False, ''
    err = ''
    if ' err=' in a:
        a, e = a.rsplit(' err=', 1)
        try:
            err = unhx(e).decode('utf8', 'replace')
        except ValueError:
            err = e
    diag = False
    m = re.search(r' diag=([01])$', a)
    if m:
        diag = m.group(1) == '1'
        a = a[:m.start()]
    return a, diag, err


def resolve_stack(probe, verdict, err=''):
    """function names (innermost first) with source lines for a 'hang <sig> <off>...' / 'crash sig=<n> <off>...' verdict,
    or from the frames of a sanitizer report in err."""
    frames = []
    f = verdict.split()
    offs = []
    if f and f[0] == 'hang':
        offs = f[2:]
    elif len(f) > 1 and f[0] == 'crash' and f[1].startswith('sig='):
        offs = f[2:]
    offs = [o for o in offs if re.fullmatch(r'[0-9a-f]+', o)]
    if offs:
        rc, o, e = vlib.sh(['addr2line', '-f', '-e', probe] + ['0x' + x for x in offs], timeout=60)
        ls = o.splitlines()
        for i in range(0, len(ls) - 1, 2):
            m = re.match(r'(.*):(\d+)', ls[i + 1])
            frames.append((ls[i], os.path.basename(m.group(1)) if m else '?', int(m.group(2)) if m else 0))
    else:
        for m in re.finditer(r'#\d+ 0x[0-9a-f]+ in (\S+) (\S+?):(\d+)', err):
            frames.append((m.group(1), os.path.basename(m.group(2)), int(m.group(3))))
    return frames


def confirm_hangs(probe, reqs, answers, suspicious, factor=6, jobs=4, skip=()):
    """a wall-clock limit can fire on a busy machine before the code under test got going: re-run the requests whose `hang`
    answer is suspicious (caller's predicate on (request, answer)) with a limit `factor` times longer; real hangs persist"""
    idx = [i for i, (r, a) in enumerate(zip(reqs, answers)) if i not in skip and a is not None and a.startswith('hang') and suspicious(r, a)]
    if not idx:
        return answers, 0
    again = run_probe(probe, [(reqs[i][0], reqs[i][1] * factor, reqs[i][2]) for i in idx], jobs=jobs)
    out = list(answers)
    changed = 0
    for i, a in zip(idx, again):
        if a is not None and not a.startswith('hang'):
            out[i] = a; changed += 1
    return out, changed
