"""C16 -- a failing FFI co-process is contained by the VM.
Proof: NV/Props/Properties_C16.v over NV/Proto/CopClient.v (client state machine + explicit OS rules) and NV/gen/Signals.v
(SIGPIPE disposition of each main, regenerated from the clang AST by tools/gen/gen_signals.py).
Correspondence / implementation-side oracle: the real `nano_vm --isolate-ffi` runs against tools/fake_cop.py installed as
nano_cop; the full matrix step x k x fault is enumerated; each observed outcome class (exit status / signal, stderr class,
program stdout preserved, surviving co-process by pid) must be one the extracted model allows for that cell (scheduling
races between the peer's exit and the VM's next system call give the model a set of scripts per cell).
Property verdict on the implementation, independent of the model: no fatal signal, exit status 0 or 1, stdout of the
completed calls present, no surviving co-process."""
import os, json, struct, re
from concurrent.futures import ThreadPoolExecutor
import vlib
import c16_harness as H

AMAX_PLAIN = 0x7ffffff        # allocator limit handed to the model's decoder; no cell of the matrix gets as far as an allocation that large


def hdr(ver, ty, ln):
    return struct.pack('<BBHI', ver, ty, 0, ln)


READY = hdr(1, 0x12, 0)


def reply(j):
    return hdr(1, 0x10, 9) + b'\x01' + struct.pack('<q', j)


BAD = {
    'oversized': lambda ty: hdr(1, ty, 0x7fffffff),
    'wrong_type': lambda ty: hdr(1, 0x7f, 0),
    'garbage': lambda ty: bytes((37 * i + 11) % 251 for i in range(16)),
    'bad_version': lambda ty: hdr(2, ty, 0),
    'str_wrap': lambda ty: hdr(1, 0x10, 5) + b'\x05\xff\xff\xff\xff',
    'arr_huge': lambda ty: hdr(1, 0x10, 7) + b'\x07\x01\xff\xff\xff\xff\x00',
    'deep_nest': lambda ty: hdr(1, 0x10, 6 * 200000 + 1) + b'\x07\x01\x01\x00\x00\x00' * 200000 + b'\x00',
    'err_long': lambda ty: hdr(1, 0x11, 1000) + b'E' * 1000,
    # protocol-legal error replies larger than the client's 8 KiB request buffer / than any pipe buffer
    'err_20k': lambda ty: hdr(1, 0x11, 20000) + b'E' * 20000,
    'err_300k': lambda ty: hdr(1, 0x11, 300000) + b'E' * 300000,
}
EXITS = {'exit0': 'x0', 'exit1': 'x1', 'kill9': 'k'}


def d(b):
    return 'd' + b.hex()


def healthy(ncalls):
    s = {'ready': [d(READY)], 'wait1': ['x0']}
    for j in range(1, ncalls + 1):
        s['hdr%d' % j] = [d(reply(j))]
    return s


def show_script(s):
    return ';'.join('%s=%s' % (k, ','.join(v)) for k, v in s.items() if v) or '-'


def exit_variants(base, anchor, xa, pre=()):
    """the peer exits around the VM step [anchor]: atomically, or with its stdout closing first and the rest of the
    exit (stdin closed, waitpid-visible) only after the VM's next write"""
    v1 = dict(base); v1[anchor] = list(pre) + [xa]
    v2 = dict(base); v2[anchor] = list(pre) + ['co']; v2['wait1'] = [xa]
    return [v1, v2]


def content_message(cell):
    """the well-framed message a content cell sends: FFI_ERROR text / string FFI_RESULT / READY with a payload"""
    c = H.CONTENTS[cell['content']]
    if cell['fault'] == 'errtext':
        return hdr(1, 0x11, len(c)) + c
    if cell['fault'] == 'strres':
        return hdr(1, 0x10, 5 + len(c)) + b'\x05' + struct.pack('<I', len(c)) + c
    return hdr(1, 0x12, len(c)) + c


def cell_variants(cell, ncalls):
    """scripts of incarnation 1 that the fake's behaviour for this cell can amount to, as seen from the VM's system calls"""
    step, k, f = cell['step'], cell['k'], cell['fault']
    base = healthy(ncalls)
    out = []
    req1 = step == 'req' and k == 1
    if req1:
        step = 'after_ready'
    half = lambda j: reply(j)[:8 + 4]
    rest = lambda j: reply(j)[8 + 4:]
    if f in EXITS or f == 'hang_exit':
        xa = EXITS.get(f, 'x0')
        if step == 'before_ready':
            b = dict(base); b['ready'] = []
            out += exit_variants(b, 'ready', xa)
        elif step == 'after_ready':
            if f != 'hang_exit':
                v = dict(base); v['req1'] = [xa]; out.append(v)
            b = dict(base); b['hdr1'] = []
            out += exit_variants(b, 'hdr1', xa)
        elif step == 'req':
            if f != 'hang_exit':
                v = dict(base); v['alive%d' % k] = [xa]; out.append(v)
            else:
                b = dict(base); b['hdr%d' % k] = []
                out += exit_variants(b, 'hdr%d' % k, xa)
                # the hang lasts 0.4 s, the program computes ~0.2 s between calls: on a loaded machine the peer may be gone
                # before call k starts
                v = dict(base); v['alive%d' % k] = [xa]; out.append(v)
        elif step == 'reply':
            b = dict(base); b['hdr%d' % k] = []
            out += exit_variants(b, 'hdr%d' % k, xa)
        elif step == 'midreply':
            b = dict(base); b['hdr%d' % k] = []
            out += exit_variants(b, 'hdr%d' % k, xa, pre=[d(half(k))])
            b2 = dict(base); b2['hdr%d' % k] = [d(half(k))]
            out += exit_variants(b2, 'pay%d' % k, xa)
        return out
    if f in ('close_stdin', 'close_stdout', 'close_both', 'truncated'):
        acts = {'close_stdin': ['ci'], 'close_stdout': ['co'], 'close_both': ['ci', 'co'],
                'truncated': [d(hdr(1, 0x10 if step != 'before_ready' else 0x12, 9) + b'\x01\x02\x03'), 'co']}[f]
        b = dict(base); b.pop('wait1')           # the fake sleeps: it does not react to SHUTDOWN, SIGTERM ends it
        if req1:
            # READY is already out when the descriptors are closed: the VM's first request may or may not be written before that
            b['hdr1'] = []
            for j in range(2, ncalls + 1):
                b['hdr%d' % j] = []
            v1 = dict(b); v1['req1'] = acts
            v2 = dict(b); v2['hdr1'] = acts
            return [v1, v2]
        if step == 'before_ready':
            b['ready'] = acts
        elif step == 'after_ready':
            if f in ('close_stdin', 'close_both'):
                b['ready'] = ['ci', d(READY)] + (['co'] if f == 'close_both' else [])
            else:
                b['ready'] = [d(READY)] + acts
            b['hdr1'] = []
        elif step == 'req':
            b['alive%d' % k] = acts
            for j in range(k, ncalls + 1):
                b['hdr%d' % j] = []
        elif step == 'reply':
            b['hdr%d' % k] = acts
        elif step == 'midreply':
            b['hdr%d' % k] = [d(half(k))] + acts
        for j in range(k + 1 if step in ('reply', 'midreply') else 1, ncalls + 1):
            if step in ('reply', 'midreply'):
                b['hdr%d' % j] = []
        return [b]
    # message faults: one bad message, then the proxy goes on
    bad = content_message(cell) if f in H.CONTENT_FAULTS else BAD[f](0x12 if step == 'before_ready' else 0x10)
    b = dict(base)
    if step == 'before_ready':
        b['ready'] = [d(bad)]
    elif step == 'after_ready':
        b['ready'] = [d(READY), d(bad)]
    elif step == 'req':
        b['hdr%d' % k] = [d(bad), d(reply(k))]
    elif step == 'reply':
        b['hdr%d' % k] = [d(bad)]
    elif step == 'midreply':
        b['hdr%d' % k] = [d(half(k)), d(bad), d(rest(k))]
    return [b]


def model_outcomes(ref, cell, ncalls, sigign, hang_resolve=True):
    """-> list of (class tuple, model line, script) ; class = (status, err, printed, orphans)"""
    vs = cell_variants(cell, ncalls)
    hl = show_script(healthy(ncalls))
    res = []
    todo = list(vs)
    seen = set()
    while todo:
        s = todo.pop(0)
        line = 'run %d %x %d %s' % (1 if sigign else 0, AMAX_PLAIN, ncalls, '|'.join([show_script(s)] + [hl] * (ncalls + 1)))
        if line in seen:
            continue
        seen.add(line)
        o = H.run_model(ref, [line])[0].split()
        st = o[0]
        if st.startswith('hang:') and hang_resolve:
            # the fake is not silent forever: its hang ends with an exit; the VM is blocked at this label until then
            lab = st.split(':')[1]
            for xv in exit_variants(s, lab, 'x0', pre=s.get(lab, [])):
                todo.append(xv)
            continue
        cls = model_class(o, ncalls)
        if cell['fault'] not in ('close_stdin', 'close_stdout', 'close_both', 'truncated'):
            # every other fake either has exited or is a proxy that exits on EOF/SHUTDOWN: nothing stays behind
            cls = cls[:3] + (0,)
        res.append((cls, ' '.join(o), s))
    return res


def model_class(o, ncalls):
    st, err, done, orph = o[0], o[1], int(o[2]), int(o[3])
    if st.startswith('exit'):
        printed = 1 + done + (1 if st == 'exit0' else 0)
        return (st, err, printed, orph)
    if st.startswith('sig13'):
        return ('sig13', err, 0, orph)
    if st == 'sig11':
        return ('sig11', err, 0, orph)
    return ('timeout', err, 0, orph)


def property_ok(cls, ncalls):
    """the property itself, on the implementation's outcome: error reported and exit 1, or recovered and exit 0; no fatal
    signal; own output intact; nothing left behind"""
    st, err, printed, orph = cls
    if st not in ('exit0', 'exit1'):
        return False
    if st == 'exit0' and printed != ncalls + 2:
        return False
    if st == 'exit1' and (err == '-' or printed < 1):
        return False
    return orph == 0


def finding_key(cell, cls, model_lines):
    st = cls[0]
    if st == 'sig13':
        sites = sorted({m.split()[0].split(':')[1].rstrip('0123456789') for m in model_lines if m.startswith('sig13')})
        return 'c16:sigpipe:write-' + ('+'.join(sites) if sites else 'unknown')
    if st == 'sig11':
        return 'c16:sigsegv:reply-decoder:' + cell['fault']
    return 'c16:cell:%s:%s:%s:%s' % (cell['step'], cell['k'], cell['fault'], st)


def run_matrix(ck, b, ref, K, sig_ignored):
    ncalls = K + 1
    env0 = H.setup(b, ncalls)
    cs = H.cells(K) + [c for c in H.content_cells(K) if c['fault'] == 'ready_payload']
    with ThreadPoolExecutor(8) as ex:
        obs = list(ex.map(lambda c: H.run_cell(env0, c, hang_s=1.5), cs))
    with ThreadPoolExecutor(12) as ex:
        models = list(ex.map(lambda c: model_outcomes(ref, c, ncalls, sig_ignored), cs))
    mism, viol = 0, 0
    dist = {}
    outcomes = {}
    for c, o, ms in zip(cs, obs, models):
        cls = H.classify(o, ncalls)
        allowed = [m[0] for m in ms]
        name = H.cell_name(c)
        ck.count(('cell', name), nontrivial=True)
        dist[c['fault']] = dist.get(c['fault'], 0) + 1
        outcomes[cls[0]] = outcomes.get(cls[0], 0) + 1
        replay = dict(case='cell', cell=c, ncalls=ncalls, observed=dict(cls=list(cls), rc=o['rc'], stdout=o['stdout'][-300:], stderr=o['stderr'][-400:],
                                                                        fake_log=o['log'][-400:], incarnations=o['incarnations']),
                      model=[m[1] for m in ms], model_scripts=[show_script(m[2]) for m in ms], engine='nano_vm --isolate-ffi vs fake_cop')
        if cls not in allowed:
            mism += 1
            ck.fail('c16:model:%s' % name, 'real VM outcome %s is not among the outcomes the model allows %s' % (cls, sorted(set(allowed))),
                    dict(replay, correspondence='fake_cop matrix vs nvref_c16'))
        if cls[0] in ('exit0', 'exit1') and not H.intact(o, c['k'] if c['step'] not in ('before_ready', 'after_ready') else 1):
            viol += 1
            ck.fail('c16:stdout:%s' % name, 'program output before the faulted call is not intact: %r' % o['stdout'][:200], replay)
        if not property_ok(cls, ncalls):
            viol += 1
            ck.fail(finding_key(c, cls, [m[1] for m in ms if m[0] == cls] or [m[1] for m in ms]),
                    'co-process fault %s: VM outcome %s violates containment' % (name, cls), replay)
        if len(ck.cov['samples']) < 3 and c['fault'] in ('close_stdin', 'exit1', 'wrong_type') and c['step'] == 'reply':
            ck.sample(dict(cell=name, observed=list(cls), model_allows=sorted(set(map(str, allowed)))))
    ck.extra['matrix'] = dict(K=K, cells=len(cs), steps=H.STEPS, faults=H.FAULTS, per_fault=dist, observed_status=outcomes,
                              model_mismatches=mism, property_violations=viol)
    run_content(ck, env0, ref, K, sig_ignored)
    return env0


K_EMPTY = 'c16:errtext:empty-text-uninitialised-buffer'


def cstr(b):
    return b.split(b'\0', 1)[0]


def run_content(ck, env0, ref, K, sig_ignored):
    """CONTENT classes: every message whose text/bytes the peer chooses (FFI_ERROR text, string results) carries printf
    directives, NUL bytes, non-UTF8, escapes, nothing, newlines, protocol keywords, boundary lengths.  The text is data:
    stderr must be byte for byte what the model's stderr_report gives for that reply, stdout the program's lines with the
    string result echoed as a C string; exit status as the model says; nothing left behind."""
    ncalls = K + 1
    cs = [c for c in H.content_cells(K) if c['fault'] != 'ready_payload']
    with ThreadPoolExecutor(8) as ex:
        obs = list(ex.map(lambda c: H.run_cell(env0, c, hang_s=1.5), cs))
    with ThreadPoolExecutor(12) as ex:
        models = list(ex.map(lambda c: model_outcomes(ref, c, ncalls, sig_ignored), cs))
    bad = 0
    per = {}
    for c, o, ms in zip(cs, obs, models):
        name = H.cell_name(c)
        content = H.CONTENTS[c['content']]
        ck.count(('content', name), nontrivial=True)
        per[c['content']] = per.get(c['content'], 0) + 1
        m = ms[0][1].split()                       # message cells have one script
        mstatus, merr, mdone, mreport = m[0], m[1], int(m[2]), m[6]
        lines = [b'p0']
        for i in range(1, mdone + 1):
            lines.append(cstr(content) if (c['fault'] == 'strres' and i == c['k']) else str(i).encode())
        if mstatus == 'exit0':
            lines.append(b'end')
        want_out = b''.join(l + b'\n' for l in lines)
        want_err = bytes.fromhex(mreport) if mreport != '-' else (b'' if mstatus == 'exit0' else None)
        status = 'sig%d' % -o['rc'] if o['rc'] < 0 else 'exit%d' % o['rc']
        replay = dict(case='content', cell=c, ncalls=ncalls, content_hex=content.hex(),
                      observed=dict(status=status, stdout_hex=o['stdout_b'][-400:].hex(), stderr_hex=o['stderr_b'][-600:].hex(),
                                    stderr=o['stderr'][-300:], orphans=o['orphans']),
                      model=' '.join(m[:6]), model_stdout_hex=want_out.hex(), model_stderr_hex=None if want_err is None else want_err.hex(),
                      engine='nano_vm --isolate-ffi vs fake_cop', correspondence='peer-chosen text is data: model stderr_report vs real stderr')
        ok = status == mstatus and o['stdout_b'] == want_out and (want_err is None or o['stderr_b'] == want_err) and o['orphans'] == 0
        if ok:
            continue
        bad += 1
        pre = b'Runtime error: Not implemented\n  FFI call failed: '
        if (c['fault'] == 'errtext' and content == b'' and status == 'exit1' and o['stdout_b'] == want_out and o['orphans'] == 0
                and o['stderr_b'].startswith(pre) and o['stderr_b'].endswith(b'\n')):
            ck.fail(K_EMPTY, 'FFI_ERROR with an empty text: the report shows %r after the prefix (uninitialised ext_err buffer)' % o['stderr_b'][len(pre):-1][:40], replay)
        else:
            ck.fail('c16:content:' + name, 'peer-chosen text %s (%r...) is not treated as data: status %s (model %s), stdout %s, stderr %s'
                    % (c['content'], content[:24], status, mstatus, 'ok' if o['stdout_b'] == want_out else 'differs',
                       'ok' if (want_err is None or o['stderr_b'] == want_err) else 'differs'), replay)
    ck.extra['content'] = dict(cells=len(cs), classes=sorted(H.CONTENTS), per_class=per, mismatches=bad)


def sigpipe_disposition_dynamic(b, env0):
    """tie of the translator: SigIgn mask of the real nano_vm while it is blocked on a silent co-process (bit 12 = SIGPIPE)"""
    import subprocess, time, shutil
    dd = os.path.join(H.root(), 'run', 'sigmask')
    shutil.rmtree(dd, ignore_errors=True); os.makedirs(dd)
    json.dump(dict(step='reply', k=1, fault='hang_exit'), open(os.path.join(dd, 'script.json'), 'w'))
    env = dict(os.environ, PATH=env0['bind'] + ':' + os.environ.get('PATH', ''), FAKE_COP_DIR=dd, FAKE_COP_REAL=env0['real'])
    p = subprocess.Popen([env0['vm'], '--isolate-ffi', env0['nvm']], stdout=subprocess.DEVNULL, stderr=subprocess.DEVNULL,
                         stdin=subprocess.DEVNULL, env=env, cwd=dd)
    ign = None
    try:
        for _ in range(60):
            time.sleep(0.02)
            try:
                st = open('/proc/%d/status' % p.pid).read()
            except OSError:
                break
            m = re.search(r'SigIgn:\s*([0-9a-f]+)', st)
            if m and os.path.exists(os.path.join(dd, 'pids')):
                ign = bool(int(m.group(1), 16) & (1 << 12))
                if os.path.exists(os.path.join(dd, 'log')):
                    break
    finally:
        try:
            p.wait(timeout=10)
        except subprocess.TimeoutExpired:
            p.kill(); p.wait()
        pf = os.path.join(dd, 'pids')
        if os.path.exists(pf):
            for pid in open(pf).read().split():
                if H._alive(int(pid)):
                    try:
                        os.kill(int(pid), 9)
                    except OSError:
                        pass
    return ign


def read_signals():
    t = open(os.path.join(vlib.COQ, 'NV', 'gen', 'Signals.v')).read()
    return {m.group(1): m.group(2) == 'true' for m in re.finditer(r'Definition (\w+) : bool := (true|false)\.', t)}


def run(ck):
    b = ck.build('plain')
    try:
        ck.gen(['gen_cop', 'gen_signals'])
    except Exception as e:
        # the sources no longer have the shape the translator reads (e.g. a limit the model describes is gone): the theorems
        # are not re-established; keep going with the last generated constants to look for a concrete failing input
        ck.proof['broken'].append('translator: %s' % str(e)[:300])
        ck.note('translator failed: %s' % str(e)[:200])
    sig = read_signals()
    proved = ck.prove()
    if ck.thorough and proved:
        rc, o, e = vlib.sh(['coqchk', '-silent', '-o', '-Q', 'NV', 'NV', 'NV.Props.Properties_C16'], cwd=vlib.COQ, timeout=1500)
        ck.extra['coqchk'] = 'ok' if rc == 0 else 'FAILED rc=%s %s' % (rc, (o + e)[-400:])
        if rc != 0:
            ck.proof['broken'].append('coqchk NV.Props.Properties_C16')
    ref = ck.nvref('c16')
    K = 4 if ck.thorough else 2
    env0 = run_matrix(ck, b, ref, K, sig['nano_vm_ignores_sigpipe'])
    dyn = sigpipe_disposition_dynamic(b, env0)
    ck.extra['sigpipe'] = dict(translator=sig, nano_vm_SigIgn_has_SIGPIPE_at_runtime=dyn)
    if dyn is not None and dyn != sig['nano_vm_ignores_sigpipe']:
        ck.fail('c16:signals-translator', 'gen/Signals.v says nano_vm_ignores_sigpipe=%s but the running nano_vm has SigIgn bit=%s' % (sig['nano_vm_ignores_sigpipe'], dyn),
                dict(case='signals', correspondence='gen_signals.py vs /proc/<pid>/status'))
    ck.cov['rule'] = ('every cell of {before READY, after READY, before reading request k, instead of reply k, in the middle of reply k} x k<=K x '
                      '{exit0, exit1, SIGKILL, close stdin, close stdout, close both, hang-then-exit, truncated, oversized length, wrong type, '
                      'garbage, wrong version, undecodable value (string length 0xffffffff), undecodable value (array count 0xffffffff), undecodable value '
                      '(200000 nested arrays), over-long error text}; '
                      'one real nano_vm --isolate-ffi run per cell; all cells non-trivial (a fault is injected in each)')
    ck.extra['exhaustive'] = True
    ck.trusted += ['OS rules of NV/Proto/CopClient.v (pipe write/read/EOF/EPIPE/SIGPIPE, waitpid, SIGTERM) as a description of POSIX',
                   'translator tools/gen/gen_signals.py (clang AST: calls of signal/sigaction/sigprocmask in the translation units of each binary), '
                   'cross-checked against /proc/<pid>/status SigIgn of the running nano_vm',
                   'tools/fake_cop.py + tools/props/c16_harness.py (fault injection, pid bookkeeping, outcome classification) and the mapping '
                   'cell -> model scripts in tools/props/c16.py (cell_variants)',
                   'extraction: ExtrOcamlBasic only; extract/c16_driver.ml']
    ck.assumptions += ['the co-process does not block or ignore SIGTERM (vm_ffi_cop_stop waits for it without a timeout after SIGTERM)',
                       'messages fit the pipe buffer (writes to an open pipe do not block); fork/pipe do not fail',
                       'a peer that stays silent forever with its pipe ends open blocks the VM forever (outcome Hang; excluded from the property\'s fault list)',
                       'stdout of the VM is a file or pipe (fully buffered): output is lost exactly when the VM is killed by a signal']


def replay(ck, d):
    b = ck.build('plain'); ck.gen(['gen_cop', 'gen_signals'])
    ref = ck.nvref('c16')
    sig = read_signals()
    if d.get('case') == 'signals':
        env0 = H.setup(b, 3)
        dyn = sigpipe_disposition_dynamic(b, env0)
        print('translator:', sig, 'runtime SigIgn has SIGPIPE:', dyn)
        same = dyn == sig['nano_vm_ignores_sigpipe']
        print('not reproduced' if same else 'REPRODUCED'); return 0 if same else 1
    c = d['cell']; ncalls = d.get('ncalls', 3)
    env0 = H.setup(b, ncalls)
    o = H.run_cell(env0, c, hang_s=1.5)
    cls = H.classify(o, ncalls)
    if d.get('case') == 'content':
        ck2 = vlib.Check('C16')
        env0 = H.setup(b, ncalls)
        o = H.run_cell(env0, c, hang_s=1.5)
        ms = model_outcomes(ref, c, ncalls, sig['nano_vm_ignores_sigpipe'])
        m = ms[0][1].split()
        status = 'sig%d' % -o['rc'] if o['rc'] < 0 else 'exit%d' % o['rc']
        print('cell    :', c); print('observed:', status, repr(o['stdout_b'][-120:]), repr(o['stderr_b'][-200:]))
        print('model   :', m[0], m[1], 'stderr', repr(bytes.fromhex(m[6])) if m[6] != '-' else '-')
        same = status == m[0] and (m[6] == '-' or o['stderr_b'] == bytes.fromhex(m[6]))
        print('REPRODUCED' if not same else 'not reproduced'); return 0 if same else 1
    if d.get('unmodelled'):
        print('cell    :', c); print('observed:', cls, 'rc=%s' % o['rc'])
        ok = property_ok(cls, ncalls)
        print('REPRODUCED' if not ok else 'not reproduced'); return 0 if ok else 1
    ms = model_outcomes(ref, c, ncalls, sig['nano_vm_ignores_sigpipe'])
    print('cell    :', c)
    print('observed:', cls, 'rc=%s' % o['rc']); print('stderr  :', o['stderr'][-300:].strip())
    print('model   :', sorted(set(m[0] for m in ms)))
    ok = cls in [m[0] for m in ms] and property_ok(cls, ncalls)
    print('REPRODUCED' if not ok else 'not reproduced')
    return 0 if ok else 1
