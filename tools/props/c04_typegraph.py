"""C04: the "type declaration graph" axis -- independent of progen.

Programs with 2-5 composite types (struct, union, enum as a field, array<struct> field, nesting) in EVERY declaration order
(all permutations up to 4 declarations, a fixed spread of 24 for 5) over dependency shapes: chain, diamond, the same field type
repeated 2 and 3 times, a struct used by a union variant and a union used by a struct field, a type used only as array element /
only as function parameter / only as return type (there the using function is permuted with the declarations).  Each program
constructs a value of the outermost type and prints what it reads back.  Every program the REAL type checker accepts must build
and run on both backends without an internal failure class and print the same (c04_tails.classify).
Quick tier: several orders share one program (every instance gets its own suffix on all names); a failing program is split into
single instances.  Keys: c04:typegraph:<shape>:<order>  (order = indices of the declarations as written, e.g. 2-0-1)."""
import itertools, json, collections, re
import vlib, langlib
import tc_common as T
import c04_tails

# a shape: list of declarations (text with @ as the instance suffix) + body of the run function (prints)
SHAPES = collections.OrderedDict([
    ('chain3', (['struct A@ {\n    b: B@,\n    w: int\n}\n', 'struct B@ {\n    c: C@,\n    k: int\n}\n', 'struct C@ {\n    x: int\n}\n'],
                ['let c: C@ = C@ { x: 3 }', 'let b: B@ = B@ { c: c, k: 4 }', 'let a: A@ = A@ { b: b, w: 5 }', '(println (+ a.b.c.x (+ a.b.k a.w)))'])),
    ('chain4', (['struct A@ {\n    b: B@\n}\n', 'struct B@ {\n    c: C@\n}\n', 'struct C@ {\n    d: D@\n}\n', 'struct D@ {\n    x: int\n}\n'],
                ['let d: D@ = D@ { x: 7 }', 'let c: C@ = C@ { d: d }', 'let b: B@ = B@ { c: c }', 'let a: A@ = A@ { b: b }', '(println a.b.c.d.x)'])),
    ('chain5', (['struct A@ {\n    b: B@\n}\n', 'struct B@ {\n    c: C@\n}\n', 'struct C@ {\n    d: D@\n}\n', 'struct D@ {\n    e: E@\n}\n', 'struct E@ {\n    x: int\n}\n'],
                ['let e: E@ = E@ { x: 9 }', 'let d: D@ = D@ { e: e }', 'let c: C@ = C@ { d: d }', 'let b: B@ = B@ { c: c }', 'let a: A@ = A@ { b: b }', '(println a.b.c.d.e.x)'])),
    ('diamond', (['struct Top@ {\n    l: L@,\n    r: R@\n}\n', 'struct L@ {\n    p: P@\n}\n', 'struct R@ {\n    p: P@\n}\n', 'struct P@ {\n    x: int\n}\n'],
                 ['let p: P@ = P@ { x: 2 }', 'let q: P@ = P@ { x: 5 }', 'let l: L@ = L@ { p: p }', 'let r: R@ = R@ { p: q }', 'let t: Top@ = Top@ { l: l, r: r }',
                  '(println (+ t.l.p.x t.r.p.x))'])),
    ('repeated2', (['struct Outer@ {\n    edge: Line@,\n    weight: int\n}\n', 'struct Line@ {\n    a: Point@,\n    b: Point@\n}\n', 'struct Point@ {\n    x: int,\n    y: int\n}\n'],
                   ['let p: Point@ = Point@ { x: 1, y: 2 }', 'let q: Point@ = Point@ { x: 4, y: 6 }', 'let l: Line@ = Line@ { a: p, b: q }',
                    'let o: Outer@ = Outer@ { edge: l, weight: 2 }', '(println (* o.weight (- o.edge.b.x o.edge.a.x)))'])),
    ('repeated3', (['struct Holder@ {\n    t: Tri@\n}\n', 'struct Tri@ {\n    a: Pt@,\n    b: Pt@,\n    c: Pt@\n}\n', 'struct Pt@ {\n    x: int\n}\n'],
                   ['let p: Pt@ = Pt@ { x: 1 }', 'let q: Pt@ = Pt@ { x: 2 }', 'let r: Pt@ = Pt@ { x: 4 }', 'let t: Tri@ = Tri@ { a: p, b: q, c: r }',
                    'let h: Holder@ = Holder@ { t: t }', '(println (+ h.t.a.x (+ h.t.b.x h.t.c.x)))'])),
    ('union_uses_struct', (['union Shape@ {\n    Circle@ { c: Pt@, r: int },\n    Dot@ { p: Pt@ }\n}\n', 'struct Pt@ {\n    x: int\n}\n'],
                           ['let p: Pt@ = Pt@ { x: 3 }', 'let s: Shape@ = Shape@.Circle@ { c: p, r: 4 }',
                            'match s {', '    Circle@(k) => {', '        (println (+ k.c.x k.r))', '    }', '    Dot@(d) => {', '        (println d.p.x)', '    }', '}'])),
    ('struct_has_union', (['struct Holder@ {\n    o: Opt@,\n    n: int\n}\n', 'union Opt@ {\n    Some@ { value: int },\n    None@ { }\n}\n'],
                          ['let o: Opt@ = Opt@.Some@ { value: 6 }', 'let h: Holder@ = Holder@ { o: o, n: 1 }', '(println h.n)',
                           'let o2: Opt@ = h.o', 'match o2 {', '    Some@(s) => {', '        (println s.value)', '    }', '    None@(z) => {', '        (println 0)', '    }', '}'])),
    ('union_struct_union', (['struct Wrap@ {\n    s: Shape@\n}\n', 'union Shape@ {\n    Dot@ { p: Pt@ },\n    Nil@ { }\n}\n', 'struct Pt@ {\n    x: int\n}\n'],
                            ['let p: Pt@ = Pt@ { x: 8 }', 'let s: Shape@ = Shape@.Dot@ { p: p }', 'let w: Wrap@ = Wrap@ { s: s }', 'let s2: Shape@ = w.s',
                             'match s2 {', '    Dot@(d) => {', '        (println d.p.x)', '    }', '    Nil@(z) => {', '        (println 0)', '    }', '}'])),
    ('enum_field', (['struct Pixel@ {\n    c: Color@,\n    x: int\n}\n', 'enum Color@ {\n    Red@,\n    Green@,\n    Blue@\n}\n'],
                    ['let px: Pixel@ = Pixel@ { c: Color@.Blue@, x: 3 }', '(println px.x)', '(println (== px.c Color@.Blue@))'])),
    ('array_field', (['struct Poly@ {\n    pts: array<Pt@>,\n    n: int\n}\n', 'struct Pt@ {\n    x: int\n}\n'],
                     ['let p: Pt@ = Pt@ { x: 3 }', 'let q: Pt@ = Pt@ { x: 4 }', 'let poly: Poly@ = Poly@ { pts: [p, q], n: 2 }', '(println poly.n)',
                      'let ps: array<Pt@> = poly.pts', 'let e: Pt@ = (at ps 1)', '(println e.x)'])),
    ('array_field_push', (['struct Poly@ {\n    pts: array<Pt@>,\n    n: int\n}\n', 'struct Pt@ {\n    x: int\n}\n'],
                          ['let p: Pt@ = Pt@ { x: 3 }', 'let q: Pt@ = Pt@ { x: 4 }', 'let mut pts: array<Pt@> = []', 'set pts (array_push pts p)', 'set pts (array_push pts q)',
                           'let poly: Poly@ = Poly@ { pts: pts, n: 2 }', '(println poly.n)', 'let ps: array<Pt@> = poly.pts', 'let e: Pt@ = (at ps 1)', '(println e.x)'])),
    ('only_array_element_push', (['struct In@ {\n    x: int\n}\n', 'struct Out@ {\n    i: In@\n}\n',
                                  'fn sum@() -> int {\n    let a: Out@ = Out@ { i: In@ { x: 2 } }\n    let b: Out@ = Out@ { i: In@ { x: 5 } }\n    let mut xs: array<Out@> = []\n'
                                  '    set xs (array_push xs a)\n    set xs (array_push xs b)\n    let e: Out@ = (at xs 1)\n    return (+ e.i.x (array_length xs))\n}\nshadow sum@ { assert true }\n'],
                                 ['(println (sum@))'])),
    ('only_array_element', (['struct In@ {\n    x: int\n}\n', 'struct Out@ {\n    i: In@\n}\n',
                             'fn sum@() -> int {\n    let a: Out@ = Out@ { i: In@ { x: 2 } }\n    let b: Out@ = Out@ { i: In@ { x: 5 } }\n    let xs: array<Out@> = [a, b]\n'
                             '    let e: Out@ = (at xs 1)\n    return (+ e.i.x (array_length xs))\n}\nshadow sum@ { assert true }\n'],
                            ['(println (sum@))'])),
    ('only_parameter', (['struct In@ {\n    x: int\n}\n', 'struct Out@ {\n    i: In@,\n    j: In@\n}\n',
                         'fn take@(o: Out@) -> int {\n    return (+ o.i.x o.j.x)\n}\nshadow take@ { assert true }\n'],
                        ['(println (take@ Out@ { i: In@ { x: 2 }, j: In@ { x: 9 } }))'])),
    ('only_return', (['struct In@ {\n    x: int\n}\n', 'struct Out@ {\n    i: In@,\n    j: In@\n}\n',
                      'fn make@() -> Out@ {\n    return Out@ { i: In@ { x: 2 }, j: In@ { x: 3 } }\n}\nshadow make@ { assert true }\n'],
                     ['let o: Out@ = (make@)', '(println (+ o.i.x o.j.x))'])),
])


def orders(n):
    ps = list(itertools.permutations(range(n)))
    if len(ps) <= 24:
        return ps
    step = len(ps) // 24
    return ps[::step][:24]


def instance(shape, order, suffix):
    """(top-level text, name of the run function) of one instance"""
    decls, body = SHAPES[shape]
    s = '_%s' % suffix
    text = ''.join(decls[i].replace('@', s) for i in order)
    fn = 'run%s' % s
    text += 'fn %s() -> int {\n%s\n    return 0\n}\nshadow %s { assert true }\n' % (fn, '\n'.join('    ' + l.replace('@', s) for l in body), fn)
    return text, fn


def program(cells):
    """cells: list of (shape, order); instance k gets suffix k"""
    tops, calls = [], []
    for k, (shape, order) in enumerate(cells):
        t, fn = instance(shape, order, 't%d' % k)
        tops.append(t)
        calls.append('    (%s)' % fn)
    return ''.join(tops) + 'fn main() -> int {\n' + '\n'.join(calls) + '\n    return 0\n}\nshadow main { assert true }\n'


def run_typegraph(ck, b, probe, wd, thorough):
    known = {k['key'] for k in getattr(ck, 'known', [])}
    cells = [(shape, o) for shape in SHAPES for o in orders(len(SHAPES[shape][0]))]
    key = lambda c: 'c04:typegraph:%s:%s' % (c[0], '-'.join(map(str, c[1])))
    singles = {c: program([c]) for c in cells}
    verd = dict(zip(cells, T.probe_tc(probe, [singles[c] for c in cells])))
    table, failures = {}, []
    for c in cells:
        if verd[c][0] != 'accept':
            table[c] = 'refused:' + verd[c][0].split(':')[-1]
            if not verd[c][0].startswith('reject'):
                failures.append((key(c) + ':front-end-' + verd[c][0].replace(':', '-'), 'front end ends with %s' % verd[c][0],
                                 dict(shape=c[0], order=list(c[1]), source=singles[c], type_check=verd[c][0], typegraph=True)))
    acc = [c for c in cells if verd[c][0] == 'accept']
    # acceptance must not depend on the ORDER of the declarations: a shape accepted in one order and refused in another
    for shape in SHAPES:
        cs = [c for c in cells if c[0] == shape]
        if any(verd[c][0] == 'accept' for c in cs):
            for c in cs:
                if verd[c][0].startswith('reject'):
                    failures.append((key(c) + ':refused', 'type declarations of shape %s are accepted in another order but REFUSED in order %s: %s' % (
                                         shape, '-'.join(map(str, c[1])), '; '.join(T.diag_titles(verd[c][1])[:3])),
                                     dict(shape=shape, order=list(c[1]), source=singles[c], type_check=verd[c][0], diagnostics=T.diag_titles(verd[c][1]),
                                          reference_checker='accepts')))

    def run_prog(name, src):
        obs = T.run_three(b, wd, name, src, want=('run', 'nanoc', 'native-run'))
        return obs, c04_tails.classify(obs)

    todo = []
    if thorough:
        todo = list(acc)
    else:
        rec = [c for c in acc if key(c) in known]
        todo += rec
        rest = [c for c in acc if c not in rec]
        CH = 8
        batches = {j: rest[j:j + CH] for j in range(0, len(rest), CH)}
        bsrc = {j: program(cs) for j, cs in batches.items()}
        bverd = dict(zip(bsrc, T.probe_tc(probe, list(bsrc.values()))))
        def oneb(j):
            if bverd[j][0] != 'accept':
                return j, {'batch': 'refused'}
            return j, run_prog('tgb_%d' % j, bsrc[j])[1]
        nsplit = 0
        for j, fails in langlib.pmap(oneb, sorted(bsrc)):
            if fails:
                nsplit += 1
                todo += batches[j]
            else:
                for c in batches[j]:
                    table[c] = 'ok'
        ck.extra['typegraph_batches'] = dict(batches=len(bsrc), split_into_singles=nsplit)

    def one(c):
        obs, fails = run_prog('tg_%s_%s' % (c[0], ''.join(map(str, c[1]))), singles[c])
        return c, obs, fails
    for c, obs, fails in langlib.pmap(one, todo):
        if not fails:
            table[c] = 'ok'
            continue
        table[c] = 'FAIL ' + json.dumps(fails, sort_keys=True)
        nat = obs['nanoc']
        failures.append((key(c), 'type declarations of shape %s written in order %s: accepted by the type checker, then %s' % (
                             c[0], '-'.join(map(str, c[1])), json.dumps(fails, sort_keys=True)),
                         dict(shape=c[0], order=list(c[1]), tail='typegraph', source=singles[c], type_check='accept', internal_failures=fails,
                              backends={t: dict(rc=o['rc'], stdout=o['out'][:200].decode('latin1'), stderr=T.ANSI.sub('', o['err'])[-700:]) for t, o in obs.items()},
                              native_binary=dict(rc=(nat.get('ran') or {}).get('rc'), stdout=((nat.get('ran') or {}).get('out') or b'')[:200].decode('latin1')))))
    per = collections.defaultdict(collections.Counter)
    for c in cells:
        r = table.get(c, '?')
        per[c[0]]['ok' if r == 'ok' else 'fail' if r.startswith('FAIL') else 'refused'] += 1
    ck.extra['typegraph_size'] = dict(shapes=len(SHAPES), programs=len(cells), accepted=len(acc), failing=sum(1 for c in cells if table.get(c, '').startswith('FAIL')))
    ck.extra['typegraph_per_shape'] = {k: dict(v) for k, v in per.items()}
    ck.extra['typegraph_not_ok'] = {key(c)[len('c04:typegraph:'):]: table[c] for c in cells if table.get(c) != 'ok'}
    for c in cells:
        ck.count(key(c), table.get(c, '').startswith(('ok', 'FAIL')))
    return failures
