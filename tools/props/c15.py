"""C15 -- isolating external calls in the co-process does not change program behaviour.
Proof: NV/Props/Properties_C15.v (codec round trip, request/reply fitting, call transparency; constants regenerated from
cop_protocol.h / vm_ffi.c / cop_main.c by tools/gen/gen_cop.py).
Correspondence:
  (a) real cop_serialize_value / cop_deserialize_value (probes/cop_probe.c, ASan+UBSan and plain builds) vs the extracted
      model (nvref_c15) on boundary values, capacities, truncations, mutated and random byte strings;
  (b) end to end: programs calling extern functions run with `nano_vm x.nvm` and `nano_vm --isolate-ffi x.nvm`
      (freshly built nano_cop first on PATH): stdout, stderr and exit status must be equal; where the model predicts that the
      request / reply does not fit its fixed buffer the difference is the known finding."""
import os, sys, json, shutil, struct, glob
sys.setrecursionlimit(20000)      # values nested a few hundred levels deep are built, printed and encoded recursively
import vlib

ASAN_MAX_MB = 64                      # ASan allocator refuses larger requests and returns NULL
ASAN_AMAX = ASAN_MAX_MB * (1 << 20) // 16   # = largest element count calloc(count, 16) grants under those options
K_REQ = 'c15:vm_ffi_call_cop:request-exceeds-REQ_BUF_SIZE'          # fixed by 425e74f: reported again if a fixed buffer comes back
K_REPLY = 'c15:handle_ffi_req:result-exceeds-COP_REPLY_BIG_BUF'     # fixed by 5703ef2
K_REQ_MAX = 'c15:protocol-limit:request-exceeds-COP_MAX_PAYLOAD'    # what remains: the 16 MiB bound of one message
K_REPLY_MAX = 'c15:protocol-limit:result-exceeds-COP_MAX_PAYLOAD'
K_STDOUT = 'c15:e2e:extern-writes-stdout'


def run_model(ref, lines, timeout=1500):
    """vlib.run_lines with a 4 GiB stack: the extracted list functions are not tail recursive and the thorough tier feeds
    multi-megabyte strings"""
    import subprocess, resource

    def big_stack():
        try:
            resource.setrlimit(resource.RLIMIT_STACK, (resource.RLIM_INFINITY, resource.RLIM_INFINITY))
        except (ValueError, OSError):
            soft, hard = resource.getrlimit(resource.RLIMIT_STACK)
            resource.setrlimit(resource.RLIMIT_STACK, (hard, hard))
    try:
        r = subprocess.run([ref], input=('\n'.join(lines) + '\n').encode(), capture_output=True, timeout=timeout, preexec_fn=big_stack,
                           env=dict(os.environ, OCAMLRUNPARAM='s=64M'))   # large minor heap: each minor collection scans the deep stack
    except subprocess.TimeoutExpired:
        raise RuntimeError('%s timed out' % ref)
    if r.returncode != 0:
        raise RuntimeError('%s exited %s: %s' % (ref, r.returncode, r.stderr.decode('utf-8', 'replace')[-2000:]))
    return r.stdout.decode('utf-8', 'replace').splitlines()


# ------------------------------------------------------------------------------------------------ values
def show(v):
    k = v[0]
    if k == 'v': return 'v'
    if k in 'ifot': return '%s%x' % (k, v[1])
    if k == 'b': return 'b%d' % v[1]
    if k == 's':
        if len(v[1]) > 200000 and v[1] == b'x' * len(v[1]):
            return 'S%d' % len(v[1])
        return 's' + (v[1].hex() or '-')
    if k == 'R': return 'R%dx%d' % (v[1], v[2])
    if k == 'I': return 'I%d' % v[1]
    if k == 'a': return 'a%x[%s]' % (v[1], ','.join(show(e) for e in v[2]))
    raise ValueError(v)


def py_ser(v, tags):
    """input generator only (never used as the oracle): the byte layout, to derive capacities / truncations / mutations"""
    k = v[0]
    if k == 'v': return bytes([tags['TAG_VOID']])
    if k == 'i': return bytes([tags['TAG_INT']]) + struct.pack('<Q', v[1])
    if k == 'f': return bytes([tags['TAG_FLOAT']]) + struct.pack('<Q', v[1])
    if k == 'o': return bytes([tags['TAG_OPAQUE']]) + struct.pack('<Q', v[1])
    if k == 'b': return bytes([tags['TAG_BOOL'], v[1]])
    if k == 't': return bytes([v[1]])
    if k == 's': return bytes([tags['TAG_STRING']]) + struct.pack('<I', len(v[1])) + v[1]
    if k == 'a': return bytes([tags['TAG_ARRAY'], v[1]]) + struct.pack('<I', len(v[2])) + b''.join(py_ser(e, tags) for e in v[2])


def read_consts():
    import re
    t = open(os.path.join(vlib.COQ, 'NV', 'gen', 'CopConst.v')).read()
    d = {m.group(1): int(m.group(2)) for m in re.finditer(r'Definition (\w+) : N := (\d+)\.', t)}
    for m in re.finditer(r'Definition (\w+) : list N := \[([^\]]*)\]\.', t):
        d[m.group(1)] = [int(x) for x in m.group(2).split(';') if x.strip()]
    return d


I64 = [0, 1, 2, 0x7f, 0x80, 0xff, 0x100, 0xffff, 0x7fffffff, 0x80000000, 0xffffffff, 0x100000000, 0x7fffffffffffffff,
       0x8000000000000000, 0xffffffffffffffff, 0xfffffffffffffffe, 0x0123456789abcdef]
F64 = [0, 0x8000000000000000, 0x3ff0000000000000, 0x7ff0000000000000, 0xfff0000000000000, 0x7ff8000000000000,
       0x7ff8000000000001, 0xfff8dead0000beef, 0x7ff0000000000001, 0x0000000000000001, 0x7fefffffffffffff, 0x400921fb54442d18]


def rand_value(rng, depth=0, budget=40):
    r = rng.random()
    if depth < 4 and r < 0.25:
        n = rng.choice([0, 0, 1, 2, 3, 5, 9])
        return ('a', rng.choice([0, 1, 3, 4, 5, 7, 14, 255, rng.randrange(256)]), [rand_value(rng, depth + 1) for _ in range(n)])
    k = rng.choice('iifbsssov')
    if k == 'i': return ('i', rng.choice(I64 + [rng.getrandbits(64)]))
    if k == 'f': return ('f', rng.choice(F64 + [rng.getrandbits(64)]))
    if k == 'o': return ('o', rng.getrandbits(64))
    if k == 'b': return ('b', rng.randrange(2))
    if k == 's':
        n = rng.choice([0, 1, 2, 3, 7, 8, 15, 16, 31, 100, rng.randrange(300)])
        return ('s', bytes(rng.choice([0, 0xff, 0x80, 10, 34, 92, rng.randrange(256)]) if rng.random() < 0.3 else rng.randrange(32, 127)
                           for _ in range(n)))
    return ('v',)


def boundary_values(ck, C):
    rng = ck.rng
    vs = [('v',)] + [('i', x) for x in I64] + [('f', x) for x in F64] + [('o', x) for x in I64[:8] + [0x7fffdeadbeef]] + \
         [('b', 0), ('b', 1)]
    req, stk, big = C['REQ_BUF_SIZE'], C['COP_REPLY_STACK_BUF'], C['COP_REPLY_BIG_BUF']
    lens = [0, 1, 2, 255, 256, stk - 6, stk - 5, stk - 4, 8180, 8181, 8182, 8191, 8192, 8193, 32768, 65535, 65536]
    if req <= 65536:
        lens += [req - 12, req - 11, req - 10, req - 1, req, req + 1]
    if ck.thorough and big <= 2 * 1024 * 1024:
        lens += [big - 6, big - 5, big - 4, 3 * big]
    for n in lens:
        vs.append(('s', b'x' * n))
    for n in [1, 5, 256, 8181, 65536]:
        vs.append(('s', bytes(rng.randrange(256) for _ in range(n))))
        vs.append(('s', bytes((0x80 + (i * 7) % 128) for i in range(n))))
    vs.append(('s', b'\0'))
    vs.append(('s', b'a\0b\0\0'))
    vs.append(('s', bytes(range(256))))
    # arrays: empty with every interesting element type, homogeneous, nested, mixed, of strings, deep
    for et in [0, 1, 3, 4, 5, 7, 14, 15, 255]:
        vs.append(('a', et, []))
    vs.append(('a', 1, [('i', x) for x in I64]))
    vs.append(('a', 3, [('f', x) for x in F64]))
    vs.append(('a', 4, [('b', 1), ('b', 0)]))
    vs.append(('a', 5, [('s', b''), ('s', b'a'), ('s', b'\xff' * 300)]))
    vs.append(('a', 7, [('a', 1, []), ('a', 1, [('i', 1)]), ('a', 7, [('a', 5, [('s', b'')])])]))
    vs.append(('a', 1, [('v',), ('i', 5), ('s', b'mixed'), ('o', 9)]))
    deep = ('a', 1, [])
    for d in range(40 if ck.thorough else 12):
        deep = ('a', 7, [deep, ('i', d)])
    vs.append(deep)
    for d in (C['COP_MAX_NESTING'] - 2, C['COP_MAX_NESTING'] - 1, C['COP_MAX_NESTING'], C['COP_MAX_NESTING'] + 1, 3 * C['COP_MAX_NESTING']):
        nv = ('a', 1, [])
        for _ in range(d):
            nv = ('a', 1, [nv])
        vs.append(nv)                                    # d + 1 array levels: the decoder accepts COP_MAX_NESTING
    vs.append(('a', 1, [('i', i) for i in range(1000)]))
    vs.append(('a', 5, [('s', b'y' * 700) for _ in range(12)]))          # 12 * 705 + 6 > 8192
    for t in [2, 6, 8, 9, 10, 11, 12, 13, 15, 200]:
        vs.append(('t', t))
    vs.append(('a', 2, [('t', 2), ('t', 9)]))
    for _ in range(3000 if ck.thorough else 400):
        vs.append(rand_value(rng))
    return vs


def mutate(rng, enc):
    b = bytearray(enc)
    r = rng.random()
    if r < 0.35 and len(b) >= 5:
        # overwrite a 4-byte field with a boundary length / count
        pos = rng.randrange(1, max(2, len(b) - 3))
        val = rng.choice([0xffffffff, 0xfffffffb, 0xfffffffa, 0xfffffffc, 0x7fffffff, 0x80000000, 0x10000000, ASAN_AMAX, ASAN_AMAX + 1,
                          0x00ffffff, len(b), len(b) - pos, max(0, len(b) - pos - 4), max(0, len(b) - pos - 3), 0, 1])
        b[pos:pos + 4] = struct.pack('<I', val)[:max(0, min(4, len(b) - pos))]
    elif r < 0.7 and b:
        for _ in range(rng.choice([1, 1, 2, 4])):
            b[rng.randrange(len(b))] = rng.choice([0, 1, 3, 4, 5, 7, 14, 0xff, rng.randrange(256)])
    elif r < 0.85 and b:
        del b[rng.randrange(len(b)):]
        b += bytes(rng.randrange(256) for _ in range(rng.randrange(4)))
    else:
        b = bytearray(rng.randrange(256) for _ in range(rng.randrange(1, 24)))
    return bytes(b)


def hostile_fixed(C, thorough=False):
    S, A, V, I = C['TAG_STRING'], C['TAG_ARRAY'], C['TAG_VOID'], C['TAG_INT']
    out = []
    for l in [0xffffffff, 0xfffffffe, 0xfffffffd, 0xfffffffc, 0xfffffffb, 0xfffffffa, 0x80000000, 0x7fffffff]:
        for tail in [b'', b'ab', b'x' * 40]:
            out.append(bytes([S]) + struct.pack('<I', l) + tail)
    for c in [0xffffffff, 0x80000000, ASAN_AMAX + 1, ASAN_AMAX, ASAN_AMAX - 1, 0x7fffffff]:
        for tail in [b'', bytes([V]), bytes([V, V]), bytes([I, 1]), bytes([S, 1, 0, 0, 0, 65]), bytes([S, 0xff, 0xff, 0xff, 0xff])]:
            out.append(bytes([A, 1]) + struct.pack('<I', c) + tail)
    out.append(bytes([A, 1]) + struct.pack('<I', 2) + bytes([A, 1]) + struct.pack('<I', 0xffffffff) + bytes([V]))
    for depth in (255, 256, 257, 1000) + ((100000,) if thorough else ()):
        out.append((bytes([A, 1]) + struct.pack('<I', 1)) * depth + bytes([V]))
    return out


# ------------------------------------------------------------------------------------------------ codec correspondence
def codec_lines(ck, C):
    rng = ck.rng
    safe, hostile = [], []
    vals = boundary_values(ck, C)
    dist = {}
    for v in vals:
        enc = py_ser(v, C)
        d = show(v)
        dist[v[0]] = dist.get(v[0], 0) + 1
        n = len(enc)
        safe.append('rt ' + d)
        for cap in sorted({0, 1, n - 1, n, n + 1, C['COP_REPLY_STACK_BUF'], 8186, min(C['REQ_BUF_SIZE'], 1 << 20) - 6} | ({n - 5, n - 9, n // 2} if v[0] == 'a' else set())):
            if cap >= 0:
                safe.append('ser %d %s' % (cap, d))
        if n <= 70000:
            safe.append('des ' + enc.hex())
            safe.append('des ' + (enc + bytes(rng.randrange(256) for _ in range(rng.randrange(1, 5)))).hex())
            ks = range(n) if n <= 48 else sorted({0, 1, 2, 5, 6, n - 1, n // 2, rng.randrange(n), rng.randrange(n)})
            for k in ks:
                safe.append('des ' + (enc[:k].hex() or '-'))
        if n <= 4096:
            for _ in range(6 if ck.thorough else 2):
                hostile.append('desx ' + (mutate(rng, enc).hex() or '-'))
    for h in hostile_fixed(C, ck.thorough):
        hostile.append('desx ' + h.hex())
    for _ in range(4000 if ck.thorough else 500):
        hostile.append('desx ' + (bytes(rng.choice([0, 1, 3, 4, 5, 7, 14, rng.randrange(256)]) if rng.random() < 0.5 else rng.randrange(256)
                                        for _ in range(rng.randrange(0, 30))).hex() or '-'))
    return safe, hostile, dist


def model_line(l, amax=None):
    """the model-side question for a probe line; desx/des under a bounded allocator become desa <amax>"""
    f = l.split(' ', 1)
    if f[0] in ('des', 'desx') and amax is not None:
        return 'desa %x %s' % (amax, f[1])
    return l


def norm_impl(a):
    return 'oob' if a.startswith('crash') else a


def run_codec(ck, ref, probe_asan, probe_plain, C):
    corpus = []
    cp = os.path.join(vlib.VERIF, 'corpus', 'C15', 'codec.txt')
    if os.path.exists(cp):
        corpus = [l.strip() for l in open(cp) if l.strip() and not l.startswith('#')]
    safe, hostile, dist = codec_lines(ck, C)
    csafe = [l for l in corpus if not l.startswith('desx')]
    chost = [l for l in corpus if l.startswith('desx')]
    safe = csafe + safe
    hostile = chost + hostile
    lines = safe + hostile
    env = dict(os.environ, ASAN_OPTIONS='detect_leaks=0:abort_on_error=0:allocator_may_return_null=1:max_allocation_size_mb=%d' % ASAN_MAX_MB,
               UBSAN_OPTIONS='halt_on_error=1:print_stacktrace=0')
    data = ('\n'.join(lines) + '\n').encode()
    rc, o, e = vlib.sh([probe_asan], input=data, timeout=1500, env=env)
    impl = o.splitlines()
    if rc != 0 or len(impl) != len(lines):
        k = min(len(impl), len(lines) - 1)
        ck.fail('c15:crash:' + lines[k][:200], 'cop_probe(asan) died on a non-hostile input (rc=%s): sanitizer report or crash in the real codec' % rc,
                dict(case='codec', input=lines[k], stderr=e[-3000:], engine='cop_probe(asan)'))
    model_asan = run_model(ref, [model_line(l, ASAN_AMAX) for l in lines], timeout=1500)
    bad = 0
    for l, a, m in zip(lines, impl, model_asan):
        ck.count(('asan', l), nontrivial=not (l.startswith('des') and len(l) <= 8))
        if norm_impl(a) != m:
            bad += 1
            if bad <= 20:
                ck.fail('c15:codec:' + l[:300], 'cop codec (ASan build, allocator limit %d MiB) differs from the model: impl=%s model=%s' % (ASAN_MAX_MB, a[:200], m[:200]),
                        dict(case='codec', engine='cop_probe(asan)', input=l, amax=ASAN_AMAX, expected_model=m[:2000], observed_impl=a[:2000],
                             correspondence='cop_probe vs nvref_c15'))
    # plain build: same questions; the system allocator's limit is not known, so where the model's answer depends on it
    # (huge array counts) either answer is accepted
    rc, o, e = vlib.sh([probe_plain], input=data, timeout=1500)
    impl2 = o.splitlines()
    if rc != 0 or len(impl2) != len(lines):
        k = min(len(impl2), len(lines) - 1)
        ck.fail('c15:crash-plain:' + lines[k][:200], 'cop_probe(plain) died on a non-hostile input (rc=%s)' % rc,
                dict(case='codec', input=lines[k], stderr=e[-2000:], engine='cop_probe(plain)'))
    model_inf = run_model(ref, lines, timeout=1500)
    alloc_dep = 0
    oob = 0
    for l, a, m1, m2 in zip(lines, impl2, model_inf, model_asan):
        ck.count(('plain', l), nontrivial=False)
        ok = norm_impl(a) == m1 or (m1 != m2 and norm_impl(a) == m2)
        alloc_dep += m1 != m2
        oob += m1 == 'oob'
        if not ok:
            bad += 1
            if bad <= 20:
                ck.fail('c15:codec-plain:' + l[:300], 'cop codec (plain build) differs from the model: impl=%s model=%s' % (a[:200], m1[:200]),
                        dict(case='codec', engine='cop_probe(plain)', input=l, expected_model=m1[:2000], observed_impl=a[:2000],
                             correspondence='cop_probe vs nvref_c15'))
    # property-level check on the implementation's own answers: rt v gives back v for every transferable v
    # (whether v is transferable -- well-formed, nesting <= COP_MAX_NESTING -- is the model's predicate transferableb)
    rts = [(l, a) for l, a in zip(lines, impl) if l.startswith('rt ')]
    trs = run_model(ref, ['tr ' + l[3:] for l, _ in rts], timeout=600)
    ntr = 0
    for (l, a), tr in zip(rts, trs):
        want = l[3:]
        got = a.split(' ', 2)
        back = len(got) == 3 and got[0] == 'ok' and got[2] == want
        ntr += tr == '1'
        if tr == '1' and not back:
            ck.fail('c15:roundtrip:' + l[:300], 'deserialize(serialize(v)) != v on the implementation: %s' % a[:300],
                    dict(case='codec', input=l, observed_impl=a[:2000], engine='cop_probe(asan)'))
    k = next((i for i, l in enumerate(lines) if l.startswith('rt a7[')), 0)
    ck.sample(dict(q=lines[k][:200], impl=impl[k][:200] if k < len(impl) else None, model=model_asan[k][:200]))
    k = next((i for i, l in enumerate(lines) if l.startswith('desx') and model_asan[i] == 'oob'), 0)
    ck.sample(dict(q=lines[k][:200], impl=impl[k][:200] if k < len(impl) else None, model=model_asan[k][:200]))
    ck.extra['codec_lines'] = dict(safe=len(safe), hostile=len(hostile), corpus=len(corpus), value_kinds=dist, roundtrip_transferable=ntr,
                                   model_oob=oob, allocator_dependent=alloc_dep,
                                   model_ok=sum(m.startswith('ok') for m in model_asan), model_err=sum(m == 'err' for m in model_asan))
    return bad


# ------------------------------------------------------------------------------------------------ end to end
MAKE = '''fn make(n: int) -> string {
    let mut s: string = ""
    let mut p: string = "x"
    let mut k: int = n
    while (> k 0) {
        if (== (% k 2) 1) { set s (+ s p) } else { set k k }
        set p (+ p p)
        set k (/ k 2)
    }
    return s
}
'''


def prog_strlen(n):
    return ('strlen_%d' % n,
            'extern fn strlen(s: string) -> int\n' + MAKE +
            'fn main() -> int {\n    (println "before")\n    (println (strlen (make %d)))\n    (println "after")\n    return 0\n}\n' % n,
            [[('s', b'x' * n)]], None)


def prog_strcmp(a, b):
    return ('strcmp_%d_%d' % (a, b),
            'extern fn strcmp(a: string, b: string) -> int\n' + MAKE +
            'fn main() -> int {\n    (println "before")\n    (println (strcmp (make %d) (make %d)))\n    (println "after")\n    return 0\n}\n' % (a, b),
            [[('s', b'x' * a), ('s', b'x' * b)]], None)


def prog_bigreply(n):
    src = '''extern fn dyn_array_new(t: int) -> opaque
extern fn dyn_array_push_int(a: opaque, v: int) -> opaque
extern fn dyn_array_clone(a: opaque) -> array<int>
extern fn dyn_array_length(a: opaque) -> int
fn main() -> int {
    (println "before")
    let h: opaque = (dyn_array_new 1)
    let mut i: int = 0
    while (< i %d) {
        let h2: opaque = (dyn_array_push_int h i)
        set i (+ i 1)
    }
    (println (dyn_array_length h))
    let r: array<int> = (dyn_array_clone h)
    (println (array_length r))
    (println (at r %d))
    (println "after")
    return 0
}
''' % (n, n - 1)
    return ('bigreply_%d' % n, src, [], ('I', n))


PROG_STDOUT = ('extern_writes_stdout', '''extern fn puts(s: string) -> int
extern fn putchar(c: int) -> int
extern fn abs(x: int) -> int
fn main() -> int {
    (println "before")
    let r: int = (puts "from puts")
    let q: int = (putchar 65)
    (println (abs -3))
    (println "after")
    return 0
}
''', [], None)

INT_FNS = ['abs', 'labs', 'llabs']
CHAR_FNS = ['toupper', 'tolower', 'isalpha', 'isdigit', 'isspace', 'isupper', 'islower', 'isalnum', 'ispunct']   # defined on -1..255 only
FLT1 = ['sqrt', 'fabs', 'floor', 'ceil', 'sin', 'cos', 'exp', 'log', 'tanh', 'cbrt', 'trunc']
FLT2 = ['pow', 'fmod', 'atan2', 'hypot', 'fmax', 'fmin', 'copysign']
INTS = ['0', '1', '-1', '65', '97', '48', '32', '127', '255', '-5', '2147483647', '-2147483648', '9223372036854775807', '-9223372036854775807', '1000000007']
FLTS = ['0.0', '1.0', '-1.0', '2.5', '-2.5', '123456789.25', '-1000000.5', '0.000001', '3.141592653589793', 'nan', 'inf', 'ninf', 'nzero']
CHARS = ['0', '1', '-1', '9', '10', '32', '48', '57', '65', '90', '97', '122', '127', '128', '200', '255']
STRS = ['', 'a', 'hello', 'Hello, World', '-123', '  42abc', '9223372036854775807', 'tab\\there', 'x y z', 'abcabc', 'héllo ✓', 'NANO_C15_VAR', 'NANO_C15_UNSET']


def rand_program(rng, idx):
    """a program over the char/str/math extern helpers + runtime array helpers; returns (name, source, arg value lists, None)"""
    decl, body, reqs = [], [], []
    used = set()

    def use(name, d):
        if name not in used:
            used.add(name); decl.append(d)
    body.append('    let nan: float = (sqrt -1.0)')
    body.append('    let inf: float = (pow 10.0 400.0)')
    body.append('    let ninf: float = (- 0.0 inf)')
    body.append('    let nzero: float = (copysign 0.0 -1.0)')
    use('sqrt', 'extern fn sqrt(x: float) -> float'); use('pow', 'extern fn pow(x: float, y: float) -> float')
    use('copysign', 'extern fn copysign(x: float, y: float) -> float')
    arrkind = rng.choice(['int', 'string', 'bool', 'nested'])
    n = rng.randrange(8, 20)
    for j in range(n):
        r = rng.random()
        if r < 0.1:
            f = rng.choice(INT_FNS); use(f, 'extern fn %s(x: int) -> int' % f)
            body.append('    (println (%s %s))' % (f, rng.choice(INTS)))
        elif r < 0.25:
            f = rng.choice(CHAR_FNS); use(f, 'extern fn %s(x: int) -> int' % f)
            body.append('    (println (%s %s))' % (f, rng.choice(CHARS)))
        elif r < 0.4:
            f = rng.choice(FLT1); use(f, 'extern fn %s(x: float) -> float' % f)
            body.append('    (println (%s %s))' % (f, rng.choice(FLTS)))
        elif r < 0.5:
            f = rng.choice(FLT2); use(f, 'extern fn %s(x: float, y: float) -> float' % f)
            body.append('    (println (%s %s %s))' % (f, rng.choice(FLTS), rng.choice(FLTS)))
        elif r < 0.62:
            use('strlen', 'extern fn strlen(s: string) -> int')
            if rng.random() < 0.5:
                body.append('    (println (strlen "%s"))' % rng.choice(STRS))
            else:
                body.append('    (println (strlen (make %d)))' % rng.choice([0, 1, 2, 100, 255, 256, 1000, 4096, 8000, 8181]))
        elif r < 0.7:
            f = rng.choice(['atoi', 'atol']); use(f, 'extern fn %s(s: string) -> int' % f)
            body.append('    (println (%s "%s"))' % (f, rng.choice(STRS)))
        elif r < 0.78:
            use('strcmp', 'extern fn strcmp(a: string, b: string) -> int')
            body.append('    (println (== (strcmp "%s" "%s") 0))' % (rng.choice(STRS), rng.choice(STRS)))
        elif r < 0.84:
            use('strstr', 'extern fn strstr(h: string, n: string) -> string')
            body.append('    (println (strstr "%s" "%s"))' % (rng.choice(STRS[2:]), rng.choice(['l', 'abc', 'World', 'zz', 'b'])))
        elif r < 0.9:
            use('getenv', 'extern fn getenv(name: string) -> string')
            body.append('    (println (getenv "%s"))' % rng.choice(['NANO_C15_VAR', 'NANO_C15_EMPTY', 'NANO_C15_HIGH']))
        else:
            if arrkind == 'int':
                use('dyn_array_length', 'extern fn dyn_array_length(a: array<int>) -> int')
                use('dyn_array_get_int', 'extern fn dyn_array_get_int(a: array<int>, i: int) -> int')
                use('dyn_array_clone', 'extern fn dyn_array_clone(a: array<int>) -> array<int>')
                els = [rng.choice(INTS) for _ in range(rng.choice([0, 1, 3, 9]))]
                body.append('    let a%d: array<int> = [%s]' % (j, ', '.join(els)))
                body.append('    (println (dyn_array_length a%d))' % j)
                if els:
                    body.append('    (println (dyn_array_get_int a%d %d))' % (j, rng.randrange(len(els))))
                body.append('    let c%d: array<int> = (dyn_array_clone a%d)' % (j, j))
                body.append('    (println (array_length c%d))' % j)
                body.append('    (println c%d)' % j)
            elif arrkind == 'string':
                use('dyn_array_length', 'extern fn dyn_array_length(a: array<string>) -> int')
                use('dyn_array_get_string', 'extern fn dyn_array_get_string(a: array<string>, i: int) -> string')
                els = ['"%s"' % rng.choice(STRS) for _ in range(rng.choice([0, 1, 3, 6]))]
                body.append('    let a%d: array<string> = [%s]' % (j, ', '.join(els)))
                body.append('    (println (dyn_array_length a%d))' % j)
                if els:
                    body.append('    (println (dyn_array_get_string a%d %d))' % (j, rng.randrange(len(els))))
            elif arrkind == 'bool':
                use('dyn_array_length', 'extern fn dyn_array_length(a: array<bool>) -> int')
                use('dyn_array_get_bool', 'extern fn dyn_array_get_bool(a: array<bool>, i: int) -> bool')
                els = [rng.choice(['true', 'false']) for _ in range(rng.choice([0, 1, 4]))]
                body.append('    let a%d: array<bool> = [%s]' % (j, ', '.join(els)))
                body.append('    (println (dyn_array_length a%d))' % j)
                if els:
                    body.append('    (println (dyn_array_get_bool a%d %d))' % (j, rng.randrange(len(els))))
            else:
                use('dyn_array_length', 'extern fn dyn_array_length(a: array<array<int>>) -> int')
                k = rng.choice([0, 1, 3])
                els = ['[%s]' % ', '.join(rng.choice(INTS) for _ in range(rng.randrange(3))) for _ in range(k)]
                if k == 0 or any(e == '[]' for e in els):
                    els = ['[1, 2]', '[3]'][:max(1, k)]
                body.append('    let a%d: array<array<int>> = [%s]' % (j, ', '.join(els)))
                body.append('    (println (dyn_array_length a%d))' % j)
    src = '\n'.join(decl) + '\n' + MAKE + 'fn main() -> int {\n    (println "before")\n' + '\n'.join(body) + '\n    (println "after")\n    return 0\n}\n'
    return ('rand_%d' % idx, src, [], None)


def e2e_dir():
    d = os.path.join(vlib.BUILD, 'c15', 'e2e')
    os.makedirs(d, exist_ok=True)
    return d


_BIN = {}


def private_bin(b):
    """copies of the fresh nano_virt / nano_vm / nano_cop taken under the build lock (a concurrent check may relink build/plain/bin)"""
    if b.root not in _BIN:
        bd = os.path.join(vlib.BUILD, 'c15', 'bin')
        os.makedirs(bd, exist_ok=True)
        with vlib.Lock():
            for n in ('nano_virt', 'nano_vm', 'nano_cop'):
                dst = os.path.join(bd, n)
                if not os.path.exists(dst) or open(dst, 'rb').read() != open(b.bin(n), 'rb').read():
                    shutil.copy2(b.bin(n), dst + '.tmp'); os.replace(dst + '.tmp', dst)
        _BIN[b.root] = bd
    return _BIN[b.root]


def run_prog(b, name, src):
    """compile with the fresh nano_virt, run in-process and isolated; returns dict or raises for machinery errors"""
    d = e2e_dir()
    bd = private_bin(b)
    p = os.path.join(d, name + '.nano')
    open(p, 'w').write(src)
    nvm = os.path.join(d, name + '.nvm')
    if os.path.exists(nvm):
        os.unlink(nvm)
    rc, o, e = vlib.sh([os.path.join(bd, 'nano_virt'), p, '--emit-nvm', '-o', nvm], timeout=60, cwd=b.root)
    if rc != 0 or not os.path.exists(nvm):
        return dict(compiled=False, rc=rc, err=(o + e)[-1500:])
    env = dict(os.environ, PATH=bd + ':' + os.environ.get('PATH', ''), NANO_C15_VAR='value of var', NANO_C15_EMPTY='',
               NANO_C15_HIGH='héllo ✓')
    env.pop('NANO_C15_UNSET', None)
    r1 = vlib.sh([os.path.join(bd, 'nano_vm'), nvm], timeout=60, env=env, cwd=d)
    r2 = vlib.sh([os.path.join(bd, 'nano_vm'), '--isolate-ffi', nvm], timeout=120, env=env, cwd=d)
    return dict(compiled=True, inproc=r1, cop=r2, path=p)


def py_size(v):
    """serialized size by arithmetic (used instead of the model only for the two 16 MiB programs of the quick tier, where
    evaluating the extracted model on 16M-element lists costs minutes; the thorough tier asks the model)"""
    k = v[0]
    if k == 's': return 5 + len(v[1])
    if k == 'R': return 6 + v[1] * (5 + v[2])
    if k == 'I': return 6 + 9 * v[1]
    raise ValueError(v)


def model_request(ck, ref, argsets, C, huge):
    """per extern call of the program: does the model's vm_ffi_call_cop request fit?  -> list of 'ok'/'argfail i'"""
    if not argsets:
        return []
    if huge == 'arith' or (huge and not ck.thorough):
        out = []
        for args in argsets:
            pos, res = 6, 'ok'
            for i, a in enumerate(args):
                if pos + py_size(a) > C['REQ_BUF_SIZE']:
                    res = 'argfail %d' % i; break
                pos += py_size(a)
            out.append(res)
        return out
    out = run_model(ref, ['reqfit 0 ' + ' '.join(show(a) for a in args) for args in argsets], timeout=1200)
    return [o.strip() for o in out]


def model_reply_kind(ck, ref, spec, C, huge):
    """what does the model's handle_ffi_req answer for this result value?  -> 'result' | 'error' | 'empty' (old code)"""
    if spec is None:
        return 'result'
    if huge == 'arith' or (huge and not ck.thorough):
        return 'result' if py_size(spec) <= C['COP_REPLY_BIG_BUF'] else 'error'
    out = run_model(ref, ['replykind ' + show(spec)], timeout=1200)
    return out[0].strip()


def check_prog(ck, b, ref, prog, C):
    name, src, argsets, replyspec = prog[:4]
    huge = len(prog) > 4 and prog[4]
    r = run_prog(b, name, src)
    if not r['compiled']:
        raise RuntimeError('e2e program %s does not compile with nano_virt: %s' % (name, r['err']))
    a, c = r['inproc'], r['cop']
    same = (a[0], a[1], a[2]) == (c[0], c[1], c[2])
    reqs = model_request(ck, ref, argsets, C, huge)
    fits = all(x == 'ok' for x in reqs)
    rkind = model_reply_kind(ck, ref, replyspec, C, huge)
    at_protocol_bound = C['REQ_BUF_SIZE'] >= C['COP_MAX_PAYLOAD'], C['COP_REPLY_BIG_BUF'] >= C['COP_MAX_PAYLOAD']
    ck.count(('e2e', src), nontrivial=a[0] == 0 and 'before' in a[1] and a[1].count('\n') >= 3)
    replay = dict(case='e2e', program=name, source=src, inproc=dict(rc=a[0], stdout=a[1][-600:], stderr=a[2][-600:]),
                  cop=dict(rc=c[0], stdout=c[1][-600:], stderr=c[2][-600:]), model_request=reqs, model_reply=rkind,
                  engine='nano_vm vs nano_vm --isolate-ffi')
    if a[0] == -9 or c[0] == -9:
        ck.fail('c15:e2e:timeout:' + name, 'timeout running %s (inproc rc=%s, cop rc=%s)' % (name, a[0], c[0]), replay)
        return r
    if not fits:
        # the model says the request does not fit: the implementation must show exactly that failure
        i = next(x for x in reqs if x != 'ok').split(' ')[1]
        if same:
            ck.fail('c15:e2e-model:' + name, 'model predicts "failed to serialize arg %s" but both runs agree: model of the request buffer is wrong' % i, replay)
        elif ('COP: failed to serialize arg %s' % i) in c[2]:
            ck.fail(K_REQ_MAX if at_protocol_bound[0] else K_REQ,
                    'extern call whose arguments need more than %d bytes fails only under --isolate-ffi (%s)' % (C['REQ_BUF_SIZE'] - 6, name), replay)
        else:
            ck.fail('c15:e2e:' + name, 'in-process and co-process runs differ (not the predicted request failure)', replay)
    elif rkind != 'result':
        if same:
            ck.fail('c15:e2e-model:' + name, 'model predicts that the result does not fit the reply buffer but both runs agree', replay)
        elif rkind == 'error' and bytes(C['COP_REPLY_TOO_LARGE_MSG']).decode('latin-1') in c[2]:
            ck.fail(K_REPLY_MAX if at_protocol_bound[1] else K_REPLY,
                    'extern result larger than %d bytes is an FFI error under --isolate-ffi (%s)' % (C['COP_REPLY_BIG_BUF'], name), replay)
        else:
            ck.fail(K_REPLY if not at_protocol_bound[1] else 'c15:e2e:' + name,
                    'extern result larger than the reply buffer: runs differ, not by the predicted error text (%s)' % name, replay)
    elif not same:
        ck.fail(K_STDOUT if name == 'extern_writes_stdout' else 'c15:e2e:' + name,
                'in-process and co-process runs differ: %s' % name, replay)
    return r


def prog_bigstrings(count, slen):
    src = '''extern fn dyn_array_new(t: int) -> opaque
extern fn dyn_array_push_string_copy(a: opaque, s: string) -> opaque
extern fn dyn_array_clone(a: opaque) -> array<string>
extern fn dyn_array_length(a: opaque) -> int
''' + MAKE + '''fn main() -> int {
    (println "before")
    let h: opaque = (dyn_array_new 3)
    let s: string = (make %d)
    let mut i: int = 0
    while (< i %d) {
        let h2: opaque = (dyn_array_push_string_copy h s)
        set i (+ i 1)
    }
    (println (dyn_array_length h))
    let r: array<string> = (dyn_array_clone h)
    (println (array_length r))
    (println "after")
    return 0
}
''' % (slen, count)
    return ('bigstrings_%dx%d' % (count, slen), src, [[('s', b'x' * slen)]], ('R', count, slen), True)


# ------------------------------------------------------------------------------------------------ size residues
def pipe_capacity():
    """default capacity of a pipe on this kernel (F_GETPIPE_SZ)"""
    import fcntl
    r, w = os.pipe()
    try:
        return fcntl.fcntl(w, 1032)
    except OSError:
        return 65536
    finally:
        os.close(r); os.close(w)


def residue_lengths(C):
    """lengths around every buffer boundary the code has (constants regenerated from the sources by gen_cop.py; the pipe
    capacity asked from the kernel): for each boundary B and header size h in {0 raw, 5 string header, 8 message header,
    13 both}: B-h-1, B-h, B+-1 ...; plus page residues k*4096 + r"""
    bounds = {C['COP_REPLY_STACK_BUF'], C.get('REQ_STACK_BUF', 8192), pipe_capacity(), C.get('COP_REPLY_BIG_INITIAL', 1 << 20)}
    ls = set()
    for B in bounds:
        for h in (0, 5, 8, 13):
            ls |= {B - h - 1, B - h, B - h + 1}
        ls |= {B - 1, B, B + 1}
    for k in (1, 2, 16):
        for r in (0, 1, 4091, 4092, 4093, 4094, 4095):
            ls.add(k * 4096 + r)
    return sorted(l for l in ls if l > 0), sorted(bounds)


def prog_strresult(L):
    """a string of L bytes crosses the pipe twice: as argument of strstr and (match at offset 0) as its result"""
    src = ('extern fn strlen(s: string) -> int\nextern fn strstr(h: string, n: string) -> string\n' + MAKE +
           'fn main() -> int {\n    (println "before")\n    let s: string = (make %d)\n    let r: string = (strstr s "x")\n'
           '    (println (strlen r))\n    (println (== r s))\n    (println "after")\n    return 0\n}\n' % L)
    return ('resid_str_%d' % L, src, [[('s', b'x' * L), ('s', b'x')], [('s', b'x' * L)]], ('s', b'x' * L))


def prog_arrresult(n):
    src = '''extern fn dyn_array_new(t: int) -> opaque
extern fn dyn_array_push_int(a: opaque, v: int) -> opaque
extern fn dyn_array_clone(a: opaque) -> array<int>
fn main() -> int {
    (println "before")
    let h: opaque = (dyn_array_new 1)
    let mut i: int = 0
    while (< i %d) {
        let h2: opaque = (dyn_array_push_int h i)
        set i (+ i 1)
    }
    let r: array<int> = (dyn_array_clone h)
    (println (array_length r))
    (println (at r %d))
    (println "after")
    return 0
}
''' % (n, n - 1)
    return ('resid_arr_%d' % n, src, [], ('I', n))


def prog_errtext(n):
    """the callee's own error text (function not found) has 38 + n bytes: around the 255-byte error buffers of both sides"""
    name = 'nosuch_' + 'a' * (n - 7)
    src = ('extern fn %s(x: int) -> int\nfn main() -> int {\n    (println "before")\n    (println (%s 1))\n    (println "after")\n    return 0\n}\n'
           % (name, name))
    return ('resid_err_%d' % (38 + n), src, [], None)


def residue_programs(ck, C):
    ls, bounds = residue_lengths(C)
    progs = [prog_strresult(L) for L in ls]
    for B in bounds:
        if B <= (1 << 16):
            n = (B - 6) // 9
            progs += [prog_arrresult(n), prog_arrresult(n + 1)]
    for n in (100, 214, 215, 216, 217, 218, 219, 220, 230, 250):
        progs.append(prog_errtext(n))
    # the protocol bound: string ARGUMENTS around COP_MAX_PAYLOAD (a result that large cannot be asked for: its request is larger);
    # whether the request fits is predicted by arithmetic on the generated constants (the extracted model needs minutes per
    # 16M-element list; the two programs at the exact limit are also put to the model in the thorough tier, see e2e_programs)
    MAXP = C['COP_MAX_PAYLOAD']
    big = set()
    for h in (0, 5, 8, 13):
        big |= {MAXP - h - 1, MAXP - h, MAXP - h + 1}
    for L in sorted(big - {MAXP - 11, MAXP - 10}):
        nm, src, argsets, rs = prog_strlen(L)
        progs.append(('resid_arg_%d' % L, src, argsets, rs, 'arith'))
    ck.extra['size_residues'] = dict(boundaries=bounds + [MAXP], string_lengths=len(ls), programs=len(progs))
    return progs



def e2e_programs(ck, C):
    req, big = C['REQ_BUF_SIZE'], C['COP_REPLY_BIG_BUF']
    sizes = {0, 1, 4091, 8180, 8181, 8182, 8192, 32768, 65536}
    pairs = {(4088, 4088), (4088, 4089), (4089, 4089), (10, 8192)}
    if req <= 65536:
        lim = req - 6 - 5                              # longest single string argument that fits
        sizes |= {lim - 1, lim, lim + 1, req}
        half = (req - 6 - 10) // 2
        pairs |= {(half, half), (half, half + 1 + (req - 6 - 10) % 2), (half + 1, half + 1), (10, req)}
    progs = [prog_strlen(n) for n in sorted(sizes)] + [prog_strcmp(a, b) for a, b in sorted(pairs)]
    counts = {116507, 116508}                          # around the 1 MiB retry buffer of the unchanged code
    if big <= 2 * 1024 * 1024:
        nmax = (big - 6) // 9                          # largest int array result that fits the reply buffer
        counts |= {nmax, nmax + 1}
    progs += [prog_bigreply(n) for n in sorted(counts)]
    # the protocol bound itself (one message <= COP_MAX_PAYLOAD): last size that fits / first that does not
    MAXP = C['COP_MAX_PAYLOAD']
    if req >= MAXP:
        for n in (MAXP - 11, MAXP - 10):
            nm, src, argsets, rs = prog_strlen(n)
            progs.append((nm, src, argsets, rs, True))
    if big >= MAXP:
        k = (MAXP - 6) // 8005
        progs += [prog_bigstrings(k, 8000), prog_bigstrings(k + 1, 8000)]
    progs.append(PROG_STDOUT)
    progs += residue_programs(ck, C)
    for i in range(120 if ck.thorough else 30):
        progs.append(rand_program(ck.rng, i))
    return progs


def corpus_programs():
    out = []
    for p in sorted(glob.glob(os.path.join(vlib.VERIF, 'corpus', 'C15', '*.nano'))):
        out.append(('corpus_' + os.path.splitext(os.path.basename(p))[0], open(p).read(), [], None))
    return out


def run(ck):
    b = ck.build('plain')
    ck.build('asan')
    try:
        ck.gen(['gen_cop'])
    except Exception as e:
        # the sources no longer have the shape the translator reads (e.g. a limit the model describes is gone): the theorems
        # are not re-established; keep going with the last generated constants to look for a concrete failing input
        ck.proof['broken'].append('translator: %s' % str(e)[:300])
        ck.note('translator failed: %s' % str(e)[:200])
    C = read_consts()
    proved = ck.prove()
    if ck.thorough and proved:
        rc, o, e = vlib.sh(['coqchk', '-silent', '-o', '-Q', 'NV', 'NV', 'NV.Props.Properties_C15'], cwd=vlib.COQ, timeout=1500)
        ck.extra['coqchk'] = 'ok' if rc == 0 else 'FAILED rc=%s %s' % (rc, (o + e)[-400:])
        if rc != 0:
            ck.proof['broken'].append('coqchk NV.Props.Properties_C15')
    ref = ck.nvref('c15')
    probe_asan = ck.probe('cop_probe.c', 'asan')
    probe_plain = ck.probe('cop_probe.c', 'plain')
    run_codec(ck, ref, probe_asan, probe_plain, C)
    shutil.rmtree(e2e_dir(), ignore_errors=True)
    private_bin(b)
    progs = corpus_programs() + e2e_programs(ck, C)
    from concurrent.futures import ThreadPoolExecutor
    seen = {}
    with ThreadPoolExecutor(8) as ex:
        for prog, r in zip(progs, ex.map(lambda p: check_prog(ck, b, ref, p, C), progs)):
            seen[prog[0]] = r
    r = seen.get('rand_0')
    if r:
        ck.sample(dict(program='rand_0', inproc_stdout=r['inproc'][1][:300], cop_stdout=r['cop'][1][:300]))
    # open known findings are replayed by the fixed programs above (strlen_<lim+1>, bigreply_<nmax+1>, extern_writes_stdout);
    # entries carrying their own program are replayed here as well
    for k in ck.known:
        src = (k.get('input') or {}).get('source')
        if src and (k.get('input') or {}).get('program') not in seen:
            check_prog(ck, b, ref, ('known_' + k['input'].get('program', 'x'), src, [], None), C)
    ck.cov['rule'] = ('codec: every value kind at boundary sizes (strings 0..65536 around the 4096/8192 buffers, 64-bit patterns, NaN/inf/-0, '
                      'empty/nested/deep/mixed arrays, non-transferable tags) x {round trip, capacities size-1/size/size+1/0/1/4096/8186, '
                      'exact, trailing junk, truncations} + mutated encodings (length/count fields set to wrap-around and allocator-limit '
                      'values) + random bytes, on the ASan/UBSan probe with a known allocator limit and on the plain probe; '
                      'e2e: fixed boundary programs (string argument lengths around REQ_BUF_SIZE-11, two-argument sums, int-array results '
                      'around COP_REPLY_BIG_BUF) + generated programs over libc char/str/math helpers and runtime array helpers; '
                      'non-trivial = not a bare empty/one-byte decode, e2e program ran to completion in-process; distinct = distinct probe line / program text')
    ck.extra['exhaustive'] = False
    ck.extra['e2e_programs'] = len(progs)
    ck.extra['constants'] = {k: C[k] for k in ('REQ_BUF_SIZE', 'REQ_MAX_ARGS', 'COP_REPLY_STACK_BUF', 'COP_REPLY_BIG_BUF', 'COP_MAX_PAYLOAD')}
    ck.trusted += ['translator tools/gen/dump_cop.c + gen_cop.py + clang_ast.py (constants printed through the current headers; local buffer '
                   'sizes and argument caps read from the clang AST of vm_ffi_call_cop / handle_ffi_req)',
                   'extraction: ExtrOcamlBasic only; extract/nvio.ml + c15_driver.ml (value syntax parser/printer)',
                   'probes/cop_probe.c (builds NanoValues with vm_string_new / vm_array_new, prints what the real deserializer produced)',
                   'the in-process vs co-process comparison runs the real nano_virt / nano_vm / nano_cop of the current tree']
    ck.assumptions += ['little-endian host (checked by the translator)',
                       'buffer sizes handed to the codec are < 2^32 (uint32 parameters); strings shorter than 2^32-5 bytes',
                       'allocation succeeds in the round-trip theorems (deser = allocator grants every count < 2^32); the allocator limit is an explicit '
                       'parameter of deser_a and is exercised on the ASan build with max_allocation_size_mb=%d' % ASAN_MAX_MB,
                       'the callee (vm_ffi_call: dlsym, marshalling to C) is the same code in both processes and is not modelled; callees that write '
                       'to stdout or mutate their arguments in place are outside the modelled interface',
                       'heap effects of deserialization (interning, reference counts) are not modelled (see C14)']


def replay(ck, d):
    b = ck.build('plain'); ck.build('asan'); ck.gen(['gen_cop'])
    C = read_consts()
    ref = ck.nvref('c15')
    if d.get('case') == 'e2e' or d.get('source'):
        src = d.get('source') or d['input']['source']
        r = run_prog(b, 'replay_' + d.get('program', 'x'), src)
        a, c = r['inproc'], r['cop']
        print('in-process : rc=%s stdout=%r stderr=%r' % (a[0], a[1][-300:], a[2][-300:]))
        print('co-process : rc=%s stdout=%r stderr=%r' % (c[0], c[1][-300:], c[2][-300:]))
        same = a == c
        print('not reproduced' if same else 'REPRODUCED')
        return 0 if same else 1
    l = d.get('input')
    eng = d.get('engine', 'cop_probe(asan)')
    probe = ck.probe('cop_probe.c', 'asan' if 'asan' in eng else 'plain')
    env = dict(os.environ, ASAN_OPTIONS='detect_leaks=0:allocator_may_return_null=1:max_allocation_size_mb=%d' % ASAN_MAX_MB)
    rc, o, e = vlib.sh([probe], input=(l + '\n').encode(), env=env, timeout=120)
    m = run_model(ref, [model_line(l, ASAN_AMAX if 'asan' in eng else None)])
    print('input:', l[:300]); print('impl :', o.strip()[:300], '(rc=%s)' % rc); print('model:', m[0][:300] if m else None)
    same = rc == 0 and norm_impl(o.strip()) == (m[0] if m else None)
    print('REPRODUCED' if not same else 'not reproduced')
    return 0 if same else 1
