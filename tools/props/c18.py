"""C18 -- the daemon survives malformed and abandoned client sessions.
Proof: NV/Props/Properties_C18.v (model NV/Proto/Vmd.v) over NV/gen/VmdConsts.v + VmdFacts.v regenerated from the tree.
Correspondence:
  (A) real vmd_msg_recv_header / vmd_msg_send / vmd_msg_recv_payload (probes/vmd_probe.c) vs the extracted model, same byte strings;
  (B) a private live nano_vmd (hook h3): raw-socket clients performing the behaviour catalogue of the property, interleaved with
      well-formed clients; every session's reply bytes vs the extracted client_thread on the same byte stream (oracle = the
      standalone observation of the submitted module); daemon pid alive, answering PING, client count back to idle;
      well-formed clients standalone-equal.
  (C) the refutation witness of C18_daemon_survives_current (module that nvm_verify refuses) replayed on an isolated daemon."""
import os, sys, json, time, struct, threading, tempfile, shutil, hashlib, signal
import vlib
import vmd_common as V

KEY_HOSTILE = 'c18:daemon:unverified-module:code_offset-outside-code-section'


def hx(b):
    return b.hex() if b else '-'


# ------------------------------------------------------------------------------------------ (A) function level
def probe_cases(ck):
    rng = ck.rng
    lines = []
    n = 6000 if ck.thorough else 1500
    lens = [0, 1, 4, 5, 255, 256, 65535, 65536, V.MAX_PAYLOAD - 1, V.MAX_PAYLOAD, V.MAX_PAYLOAD + 1, 0x7fffffff, 0x80000000, 0xffffffff]
    for ver in (0, 1, 2, 255):
        for t in (0, 1, 2, 3, 4, 5, 0x10, 0x11, 0x12, 0x13, 0x14, 0x15, 0xff):
            for ln in lens:
                h = struct.pack('<BBHI', ver, t, rng.choice([0, 0, 1, 0xffff]), ln)
                lines.append('hdr ' + h.hex() + os.urandom(0).hex() + ''.join('%02x' % rng.randrange(256) for _ in range(rng.choice([0, 0, 3]))))
    for k in range(9):                                     # every truncation of a header
        lines.append('hdr ' + hx(struct.pack('<BBHI', 1, 2, 0, 0)[:k]))
    for _ in range(n):
        ln = rng.randrange(0, 14)
        bs = bytes(rng.randrange(256) for _ in range(ln))
        if rng.random() < 0.6 and ln >= 1:
            bs = b'\x01' + bs[1:]
        lines.append('hdr ' + hx(bs))
    for _ in range(n // 3):
        t = rng.choice([1, 2, 3, 4, 0x10, 0x11, 0x12, 0x13, 0x14, rng.randrange(256)])
        ln = rng.choice([0, 1, 2, 7, 8, 9, 100, rng.randrange(0, 3000)])
        lines.append('enc %x %s' % (t, hx(bytes(rng.randrange(256) for _ in range(ln)))))
    return lines


def run_probe_corr(ck, ref, probe, env):
    lines = probe_cases(ck)
    rc, o, e = vlib.sh([probe], input=('\n'.join(lines) + '\n').encode(), timeout=300, env=env)
    impl = o.splitlines()
    if rc != 0:
        k = len(impl)
        ck.fail('c18:probe:crash:' + (lines[k] if k < len(lines) else '?'), 'vmd_probe crashed / sanitizer report (rc=%s)' % rc,
                dict(input=lines[k] if k < len(lines) else None, stderr=e[-2000:], engine='vmd_probe', case='probe'))
    model = vlib.run_lines(ref, lines)
    bad = 0
    dist = dict(hdr_ok=0, hdr_err=0, enc=0)
    for l, a, m in zip(lines, impl, model):
        mm = 'err' if m in ('short', 'badver', 'toolong') else m
        if l.startswith('hdr'):
            dist['hdr_ok' if a.startswith('ok') else 'hdr_err'] += 1
        else:
            dist['enc'] += 1
        ck.count(l, nontrivial=len(l) > 8)
        if a != mm:
            bad += 1
            ck.fail('c18:probe:' + l[:80], 'vmd_protocol.c differs from the model on "%s": impl=%s model=%s' % (l[:80], a[:80], m[:80]),
                    dict(case='probe', input=l, expected_model=m, observed_impl=a, correspondence='vmd_probe vs nvref_c18'))
            if bad > 10:
                break
    if len(impl) != len(lines) or len(model) != len(lines):
        ck.fail('c18:probe:linecount', 'probe/model produced %d/%d answers for %d questions' % (len(impl), len(model), len(lines)),
                dict(case='probe', correspondence='vmd_probe vs nvref_c18'))
    ck.sample(dict(q=lines[3], impl=impl[3] if len(impl) > 3 else None, model=model[3] if len(model) > 3 else None))
    return dist


# ------------------------------------------------------------------------------------------ (B) session catalogue
def oracle_for(item):
    """Model oracle line for a module whose standalone observation is known: the whole stdout as one chunk, main's int result
    (= the standalone exit status of a normal end) and whether the program makes extern calls."""
    rc, out, err = item['obs']
    ffi = '1' if item['kind'] == 'ffi' else '0'
    if 0 <= rc <= 255 and err == b'':
        return 'ranx none %x %s %s' % (rc, ffi, hx(out))
    if rc == 1 and err.startswith(b'Runtime error: ') and err.endswith(b'\n'):
        return 'ranx %s 0 %s %s' % (hx(err[:-1]), ffi, hx(out))
    return None


KEY_EXIT = 'c18:wellformed:main-result-exit-status'


def exit_only(obs, exp):
    """The client saw everything standalone shows except that the exit status is 0 instead of main's result."""
    return obs[1:] == exp[1:] and obs[0] == 0 and exp[0] != 0


def fail_exit(ck, p, obs, tag):
    ck.fail(KEY_EXIT, 'well-formed client of a program whose main returns %d gets exit status %d from the daemon (standalone nano_vm: %d); output and stderr agree' % (
                p['obs'][0], obs[0], p['obs'][0]),
            dict(case='exit-status', program=p['src'], engine=tag, expected=dict(exit=p['obs'][0]), observed=dict(exit=obs[0]),
                 model='vmd_exit_from_main=%s standalone_exit_from_main=%s' % (ck.extra.get('facts', {}).get('exitmain'), ck.extra.get('facts', {}).get('saexitmain'))))


def catalogue(ck, progs):
    """[(behaviour, name, bytes, mode, read_limit, oracle, chunks/pause)] -- none of these may harm the daemon."""
    rng = ck.rng
    S = []
    def add(beh, name, data, mode='full', read_limit=None, oracle='none', chunks=None, pause=0.0, prog=None):
        S.append(dict(beh=beh, name=name, data=data, mode=mode, read_limit=read_limit, oracle=oracle, chunks=chunks, pause=pause, prog=prog))
    good = [p for p in progs.items if oracle_for(p)]
    small = [p for p in good if len(p['obs'][1]) < 50000]
    bigs = [p for p in good if p['kind'] == 'big']
    # well-formed
    for p in good:
        add('exec', 'exec:' + p['name'], V.frame(V.T_LOAD_EXEC, p['blob']), oracle=oracle_for(p), prog=p)
    add('ping', 'ping', V.frame(V.T_PING))
    add('status', 'status', V.frame(V.T_STATUS))
    add('ping', 'ping-noshut', V.frame(V.T_PING), mode='noshut')
    # header only / truncated header
    full = V.frame(V.T_LOAD_EXEC, small[0]['blob'])
    for k in range(0, 8):
        add('header-truncated', 'hdr-trunc-%d' % k, full[:k])
    add('header-only', 'exec-header-only', full[:8])
    add('header-only', 'exec-header-only-len1', V.header(V.T_LOAD_EXEC, 1))
    add('header-only', 'exec-header-only-max', V.header(V.T_LOAD_EXEC, V.MAX_PAYLOAD))
    # payload truncated at each length class
    for p in small[:2]:
        f = V.frame(V.T_LOAD_EXEC, p['blob'])
        L = len(p['blob'])
        for cut in sorted(set([1, 4, 31, 32, 33, 44, L // 2, L - 1] + [rng.randrange(1, L) for _ in range(3)])):
            if 0 < cut < L:
                add('payload-truncated', 'trunc:%s:%d' % (p['name'], cut), f[:8 + cut])
    # the announced length is shorter / longer than what follows
    p = small[0]
    add('length-mismatch', 'len-shorter:' + p['name'], V.header(V.T_LOAD_EXEC, len(p['blob']) - 5) + p['blob'], oracle='nd')
    add('length-mismatch', 'len-longer:' + p['name'], V.header(V.T_LOAD_EXEC, len(p['blob']) + 5) + p['blob'])
    add('trailing', 'exec-trailing-bytes:' + p['name'], V.frame(V.T_LOAD_EXEC, p['blob']) + b'EXTRA' * 10, oracle=oracle_for(p), prog=p)
    # wrong version
    for v in (0, 2, 255):
        add('wrong-version', 'version-%d' % v, V.frame(V.T_PING, version=v))
        add('wrong-version', 'version-%d-exec' % v, V.frame(V.T_LOAD_EXEC, p['blob'], version=v))
    # length > max
    for ln in (V.MAX_PAYLOAD + 1, 0x7fffffff, 0x80000000, 0xffffffff):
        add('length-over-max', 'len-%x' % ln, V.header(V.T_LOAD_EXEC, ln) + b'x' * 64)
        add('length-over-max', 'ping-len-%x' % ln, V.header(V.T_PING, ln))
    add('length-zero', 'exec-len0', V.header(V.T_LOAD_EXEC, 0))
    add('length-zero', 'exec-len0+data', V.header(V.T_LOAD_EXEC, 0) + p['blob'])
    # unknown types, flags, unread payload on control messages
    for t in (0, 5, 0x0f, 0x10, 0x11, 0x12, 0x13, 0x14, 0x15, 0x7f, 0xff):
        add('unknown-type', 'type-%02x' % t, V.frame(t))
    add('unknown-type', 'type-77-payload', V.frame(0x77, b'q' * 100))
    add('flags', 'ping-flags', V.frame(V.T_PING, flags=0xbeef))
    add('flags', 'exec-flags:' + p['name'], V.frame(V.T_LOAD_EXEC, p['blob'], flags=1), oracle=oracle_for(p), prog=p)
    add('unread-payload', 'ping-with-payload', V.frame(V.T_PING, b'z' * 300))
    add('unread-payload', 'status-with-payload', V.frame(V.T_STATUS, b'z' * 5))
    # garbage
    for i in range(40 if ck.thorough else 14):
        n = rng.choice([1, 2, 7, 8, 9, 16, 64, 300])
        g = bytes(rng.randrange(256) for _ in range(n))
        if i % 2 == 0:
            g = b'\x01' + g[1:]
        if len(g) >= 2 and g[0] == 1 and g[1] == V.T_SHUTDOWN:
            g = g[:1] + b'\x09' + g[2:]
        orc = 'nd'
        add('garbage', 'garbage-%d:%s' % (i, hashlib.sha1(g).hexdigest()[:8]), g, oracle=orc)
    # non-modules and corrupt modules as payload
    add('non-module', 'payload-text', V.frame(V.T_LOAD_EXEC, b'this is not a module\n'), oracle='nd')
    add('non-module', 'payload-zeros', V.frame(V.T_LOAD_EXEC, bytes(64)), oracle='nd')
    add('non-module', 'payload-magic-only', V.frame(V.T_LOAD_EXEC, b'NVM\x01' + bytes(28)), oracle='nd')
    for p in small[:3]:
        bl = bytearray(p['blob'])
        for _ in range(4 if ck.thorough else 2):
            q = bytearray(bl); pos = rng.randrange(32, len(q)); q[pos] ^= 1 << rng.randrange(8)
            add('corrupt-module', 'bitflip:%s:%d' % (p['name'], pos), V.frame(V.T_LOAD_EXEC, bytes(q)), oracle='nd')
        add('corrupt-module', 'cut-module:%s' % p['name'], V.frame(V.T_LOAD_EXEC, p['blob'][:len(p['blob']) - 7]), oracle='nd')
        add('corrupt-module', 'junk-appended:%s' % p['name'], V.frame(V.T_LOAD_EXEC, p['blob'] + b'\0' * 9), oracle='nd')
    # slow / fragmented senders
    p = small[1 % len(small)]
    f = V.frame(V.T_LOAD_EXEC, p['blob'])
    add('fragmented', 'frag-bytewise-header:' + p['name'], f, chunks=list(range(1, 9)), pause=0.002, oracle=oracle_for(p), prog=p)
    add('fragmented', 'frag-random:' + p['name'], f, chunks=sorted(rng.sample(range(1, len(f)), 6)), pause=0.003, oracle=oracle_for(p), prog=p)
    # disconnect before / while / after output
    for p in (small[:2] + bigs[:2]):
        f = V.frame(V.T_LOAD_EXEC, p['blob'])
        add('disconnect-before-output', 'abandon:' + p['name'], f, mode='abandon', oracle=oracle_for(p), prog=p)
        for rl in (1, 8, 9, 100):
            add('disconnect-while-output', 'read%d:%s' % (rl, p['name']), f, mode='read_n', read_limit=rl, oracle=oracle_for(p), prog=p)
    for p in bigs[:2]:
        f = V.frame(V.T_LOAD_EXEC, p['blob'])
        add('disconnect-while-output', 'read-half:' + p['name'], f, mode='read_n', read_limit=len(p['obs'][1]) // 2, oracle=oracle_for(p), prog=p)
    add('disconnect-before-output', 'abandon-ping', V.frame(V.T_PING), mode='abandon')
    add('disconnect-before-output', 'abandon-status', V.frame(V.T_STATUS), mode='abandon')
    add('disconnect-before-output', 'abandon-garbage', b'\x01\x09', mode='abandon')
    return S


def model_reply(ref, sessions, actives):
    """Extracted client_thread on each session's byte stream (client reads everything), generated facts, active = given."""
    lines = ['sess r r %x - %s %s' % (a, hx(s['data']), s['oracle']) for s, a in zip(sessions, actives)]
    out = vlib.run_lines(V.nvref_cmd(ref), lines, timeout=600)
    res = []
    for o in out:
        f = o.split()
        res.append(dict(sent=bytes.fromhex(f[1]) if f[1] != '-' else b'', alive=f[3] == '1', active=f[5], shutdown=f[7] == '1', sigign=f[9] == '1'))
    return res, lines


def check_session(ck, s, r, m, tag):
    """r = real session result, m = model result for the same bytes.  Returns a short verdict string."""
    key = 'c18:session:%s' % s['name']
    rep = dict(case='session', behaviour=s['beh'], name=s['name'], input_hex=s['data'].hex()[:4000], input_len=len(s['data']), mode=s['mode'],
               read_limit=s['read_limit'], oracle=s['oracle'][:200], engine=tag, correspondence='live nano_vmd vs nvref_c18 client_thread')
    recv = r['recv']
    if r.get('timeout'):
        ck.fail(key, 'session %s was not ended by the daemon within the client timeout (no reply / connection kept open); the model ends it with %s' % (
                    s['name'], ('reply ' + m['sent'][:40].hex()) if m['sent'] else 'a closed connection'),
                dict(rep, hung=True, observed='timeout', received_hex=recv.hex()[:400], expected_model=m['sent'].hex()[:400]))
        return 'timeout'
    if not m['alive']:
        return 'model-dead'
    exp = m['sent']
    if s['mode'] in ('full', 'noshut'):
        if s['prog'] is None:
            if recv != exp:
                ck.fail(key, 'reply of session %s differs from the model: impl=%s model=%s' % (s['name'], recv[:60], exp[:60]),
                        dict(rep, expected_model=exp.hex()[:4000], observed_impl=recv.hex()[:4000]))
                return 'diff'
        else:
            a, b_ = V.canon_reply(recv), V.canon_reply(exp)
            if (a['out'], a['others'], a['rest']) != (b_['out'], b_['others'], b_['rest']) or not a['ordered'] or not a['hdr_ok']:
                ck.fail(key, 'exec session %s: reply differs from the model (output %d vs %d bytes, tail %s vs %s)' % (
                            s['name'], len(a['out']), len(b_['out']), a['others'], b_['others']),
                        dict(rep, expected_model=dict(out_len=len(b_['out']), tail=str(b_['others'])),
                             observed_impl=dict(out_len=len(a['out']), tail=str(a['others']), rest=a['rest'].hex()[:200], ordered=a['ordered']),
                             first_diff=next((i for i, (x, y) in enumerate(zip(a['out'], b_['out'])) if x != y), None)))
                return 'diff'
            # property level, independent of the model: what the client shows equals the standalone observation
            if exit_only(V.expected_client_obs(a), s['prog']['obs']):
                fail_exit(ck, s['prog'], V.expected_client_obs(a), tag)
            elif V.expected_client_obs(a) != s['prog']['obs']:
                ck.fail(key + ':standalone', 'exec session %s: client-visible result differs from standalone nano_vm' % s['name'],
                        dict(rep, expected=str(s['prog']['obs'])[:600], observed=str(V.expected_client_obs(a))[:600]))
                return 'diff'
    elif s['mode'] == 'read_n':
        # what a disconnecting client received is a prefix of the uncut reply (C18_session_ends / cut_is_prefix)
        if s['prog'] is None:
            ok = exp.startswith(recv)
        else:
            a = V.canon_reply(recv)
            ok = s['prog']['obs'][1].startswith(a['out']) and a['hdr_ok']
        if not ok:
            ck.fail(key, 'session %s: bytes received before disconnecting are not a prefix of the model reply' % s['name'],
                    dict(rep, expected_model=exp.hex()[:600], observed_impl=recv.hex()[:600]))
            return 'diff'
    return 'ok'


def run_live(ck, b, ref, progs, tag, bud, env_extra=None):
    """One daemon, the whole catalogue interleaved with well-formed clients.  Returns distribution dict.
    Bounded: every session/client is limited to bud.timeout(); after bud.k hung sessions or communication errors no further session is
    started on this daemon (what ran is still compared and reported)."""
    rng = ck.rng
    S = catalogue(ck, progs)
    order = list(range(len(S)))
    rng.shuffle(order)
    good = [p for p in progs.items if oracle_for(p)]
    dist = {}
    d = V.Daemon(b, env_extra=env_extra)
    d.start()
    results = [None] * len(S)
    wf_results = []
    lock = threading.Lock()
    bud.new_phase()
    aborted = False
    try:
        pid0 = d.pid
        nthreads = 8
        it = iter(order)

        def bad_worker():
            while not bud.exhausted():
                with lock:
                    i = next(it, None)
                if i is None:
                    return
                s = S[i]
                try:
                    results[i] = V.raw_session(d.sock, s['data'], mode=s['mode'], read_limit=s['read_limit'], timeout=bud.timeout(),
                                               chunks=s['chunks'], pause=s['pause'])
                    if results[i].get('timeout'):
                        bud.anomaly('hung: session %s' % s['name'], hung=True)
                except OSError as e:
                    results[i] = dict(recv=b'', error=str(e))
                    bud.anomaly('connect/send error: session %s: %s' % (s['name'], e))

        stop = threading.Event()

        def good_worker(seed):
            import random
            r = random.Random(seed)
            while not stop.is_set() and not bud.exhausted():
                p = r.choice(good)
                t0 = time.time()
                obs = V.via_daemon(b, d, p['nvm'], timeout=bud.timeout())
                an = V.client_anomaly(obs)
                if an:
                    bud.anomaly('%s: well-formed client %s' % (an, p['name']), hung=(an == 'hung'))
                with lock:
                    wf_results.append((p, obs, time.time() - t0))
                time.sleep(r.random() * 0.01)

        gws = [threading.Thread(target=good_worker, args=(ck.seed * 100 + k,)) for k in range(4)]
        bws = [threading.Thread(target=bad_worker) for _ in range(nthreads)]
        for t in gws + bws:
            t.start()
        for t in bws:
            t.join()
        time.sleep(0.05)
        stop.set()
        for t in gws:
            t.join()
        aborted = bud.exhausted()
        # one more well-formed client per program after all bad sessions ("clients that connect afterwards")
        after = []
        for p in good:
            if bud.exhausted():
                break
            o = V.via_daemon(b, d, p['nvm'], timeout=bud.timeout())
            an = V.client_anomaly(o)
            if an:
                bud.anomaly('%s: well-formed client %s after the catalogue' % (an, p['name']), hung=(an == 'hung'))
            after.append((p, o))
        # survival
        fast = aborted or bool(bud.hangs)
        alive = d.alive() and d.pid == pid0
        pong = d.ping(timeout=3.0 if fast else 5.0) if alive else False
        idle = None
        if alive:
            t0 = time.time()
            while time.time() - t0 < (3 if fast else 10):
                idle = d.status(timeout=2.0 if fast else 5.0)
                if idle == 1:
                    break
                time.sleep(0.05)
        err_text = d.stderr()
        out_text = d.stdout()
        rc = d.exit_status()
    finally:
        d.stop()
    base = dict(case='live', engine=tag)
    if aborted:
        ck.note('%s: %d hung sessions / communication errors: no further session started on this daemon (%d of %d catalogue sessions ran)' % (
            tag, bud.phase, sum(1 for r in results if r is not None), len(S)))
    if not alive or not pong:
        # which session was it?  replay candidates one by one on fresh daemons (the search for the failing input)
        culprit = find_culprit(ck, b, [s_ for s_, r_ in zip(S, results) if r_ is not None] if aborted else S, env_extra, allS=S)
        ck.fail('c18:daemon-died:' + (culprit['name'] if culprit else 'unknown'),
                'daemon %s after the session catalogue (exit status %s)' % ('died' if not alive else 'stopped answering PING', rc),
                dict(base, observed='alive=%s pong=%s rc=%s' % (alive, pong, rc), stderr=err_text[-1500:],
                     culprit=dict(name=culprit['name'], input_hex=culprit['data'].hex()[:200000], mode=culprit['mode'], read_limit=culprit['read_limit'],
                                  first_input_hex=culprit['first']['data'].hex()[:200000] if culprit.get('first') else None) if culprit else None))
        # everything that failed after the death is a consequence: report the death (with its culprit) only
        return dict(sessions=len(S), daemon_alive=alive, pong=pong, exit_status=rc,
                    culprit=culprit['name'] if culprit else None)
    if idle != 1:
        ck.fail('c18:active-clients-leak', 'client count did not return to idle: STATUS reports active_clients=%s after all sessions ended' % idle,
                dict(base, observed=idle, expected=1))
    if out_text:
        ck.fail('c18:daemon-stdout', 'client output leaked to the daemon\'s own stdout', dict(base, observed=out_text[:400].hex()))
    san = [l for l in err_text.splitlines() if 'Sanitizer' in l or 'runtime error:' in l]
    if san:
        ck.fail('c18:sanitizer:' + san[0][:80], 'sanitizer report in the daemon', dict(base, stderr=err_text[-3000:]))
    # model replies: STATUS sessions get the count the daemon actually reported
    actives = []
    for s, r in zip(S, results):
        a = 0
        if len(s['data']) >= 2 and s['data'][1] == V.T_STATUS:
            fs, _ = V.parse_frames((r or {}).get('recv', b''))
            if fs and fs[0][0] == V.T_STATUS_RSP and fs[0][1].startswith(b'active_clients='):
                try:
                    a = max(0, int(fs[0][1].split(b'=')[1]) - 1)
                except ValueError:
                    a = 0
        actives.append(a)
    models, mlines = model_reply(ref, S, actives)
    for s, r, m in zip(S, results, models):
        if r is None:
            continue
        v = check_session(ck, s, r, m, tag)
        dist.setdefault(s['beh'], [0, 0])
        dist[s['beh']][0] += 1
        dist[s['beh']][1] += (v == 'ok')
        ck.count(('sess', tag, s['name'], len(s['data'])), nontrivial=True)
    for p, obs, dt in wf_results + [(p, o, 0) for p, o in after]:
        ck.count(('wf', tag, p['name'], len(wf_results)), nontrivial=False)
        if exit_only(obs, p['obs']):
            fail_exit(ck, p, obs, tag)
        elif obs != p['obs']:
            an = V.client_anomaly(obs)
            ck.fail('c18:wellformed:' + p['name'], 'well-formed client of %s %s while bad sessions ran (standalone: exit %s, %d stdout bytes)' % (
                        p['name'], 'was never served (killed after the client timeout)' if an == 'hung' else 'got a result different from standalone', p['obs'][0], len(p['obs'][1])),
                    dict(base, program=p['src'], hung=(an == 'hung'), phase='session catalogue on 8 threads + 4 threads of well-formed clients',
                         expected=str(p['obs'])[:800], observed=str(obs)[:800]))
    i = next((i for i, s in enumerate(S) if s['beh'] == 'payload-truncated'), 0)
    ck.sample(dict(session=S[i]['name'], sent=S[i]['data'].hex()[:64] + '...', impl=(results[i] or {}).get('recv', b'').hex(), model=models[i]['sent'].hex()))
    i = next((i for i, s in enumerate(S) if s['beh'] == 'wrong-version'), 0)
    ck.sample(dict(session=S[i]['name'], sent=S[i]['data'].hex()[:64], impl=(results[i] or {}).get('recv', b'').hex() or '(closed, no bytes)', model=models[i]['sent'].hex() or '(closed, no bytes)'))
    return dict(sessions=len(S), sessions_run=sum(1 for r in results if r is not None), aborted=aborted,
                behaviours={k: dict(run=v[0], agree=v[1]) for k, v in sorted(dist.items())},
                wellformed_concurrent=len(wf_results), wellformed_after=len(after), idle_status=idle, daemon_alive=alive, pong=pong)


def model_history(ref, sessions):
    """Serve `sessions` = [(data, wb or None, oracle)] one after the other in the extracted model, threading the whole daemon state
    (alive, count, SIGPIPE disposition).  Returns [dict(alive, active, sigign, sent)] = the state after each session."""
    out = []
    alive, active, ign = True, 0, None            # ign None: as set at start-up (generated fact)
    for data, wb, oracle in sessions:
        if not alive:
            out.append(dict(alive=False, active=active, sigign=bool(ign), sent=b''))
            continue
        line = 'sess %s r %s %s %s %s' % ('r' if ign is None else ('1' if ign else '0'), ('-%x' % -active) if active < 0 else '%x' % active,
                                          '-' if wb is None else str(wb), hx(data), oracle)
        f = vlib.run_lines(V.nvref_cmd(ref), [line], timeout=300)[0].split()
        alive = f[3] == '1'
        active = int(('-0x' + f[5][1:]) if f[5].startswith('-') else '0x' + f[5], 16)
        ign = f[9] == '1'
        out.append(dict(alive=alive, active=active, sigign=ign, sent=bytes.fromhex(f[1]) if f[1] != '-' else b''))
    return out


def real_sigign(d):
    """Is SIGPIPE ignored by the live daemon process?  (/proc/<pid>/status SigIgn, bit 13)"""
    try:
        m = d.sigign_mask()
    except OSError:
        return None
    return None if m is None else bool(m & (1 << 12))


def wait_status_reply(d, want, t=3.0):
    """Poll STATUS until the reply bytes equal `want` twice in a row, 30 ms apart (a finished session decrements after it has closed
    its socket, and a just-accepted one increments only when its thread runs)."""
    t0 = time.time(); last = None; hits = 0
    while time.time() - t0 < t:
        try:
            last = V.raw_session(d.sock, V.frame(V.T_STATUS), timeout=2.0)['recv']
        except OSError:
            last = None
        hits = hits + 1 if last == want else 0
        if hits >= 2:
            return last
        time.sleep(0.03 if hits else 0.02)
    return last


def counter_tie(ck, b, ref, progs, bud, tag='nano_vmd(plain)'):
    """The session-count bookkeeping tied to the model: one session at a time on a fresh daemon; after EVERY malformed / abandoned /
    well-formed session a STATUS request must be answered with exactly the bytes the extracted client_thread produces when started
    from the count the model has reached by serving the same sessions (C18_session_ends: the count is restored; C18_daemon_survives:
    active = 0 afterwards; C17_active_zero_when_done)."""
    S = [s for s in catalogue(ck, progs)
         if not (s['prog'] is not None and s['prog']['kind'] == 'big') and len(s['data']) < 200000 and not s['chunks']]
    lim = 140 if ck.thorough else 70
    if len(S) > lim:
        # keep every behaviour class, thin out the large ones
        by = {}
        for s_ in S:
            by.setdefault(s_['beh'], []).append(s_)
        S = []
        while len(S) < lim and any(by.values()):
            for k in sorted(by):
                if by[k] and len(S) < lim:
                    S.append(by[k].pop(0))
    # model: the count after each session, then the STATUS reply from that count
    m1 = vlib.run_lines(V.nvref_cmd(ref), ['sess r r 0 %s %s %s' % ('0' if s_['mode'] == 'abandon' else '-', hx(s_['data']), s_['oracle']) for s_ in S], timeout=600)
    counts, acc = [], 0
    for o in m1:
        f = o.split()
        acc += int(f[5].replace('-', '-0x') if f[5].startswith('-') else '0x' + f[5], 16)      # model's count after a session started from 0
        counts.append(acc)
    m2 = vlib.run_lines(ref, ['sess r r %s - %s none' % (('-%x' % -c) if c < 0 else '%x' % c, V.frame(V.T_STATUS).hex()) for c in counts])
    want = [bytes.fromhex(o.split()[1]) for o in m2]
    # the SIGPIPE disposition after each session, in the model (it changes only when some session-reachable call resets it)
    signs, cur = [], None
    for o in m1:
        f = o.split()
        cur = (f[9] == '1') if cur in (None, True) else False
        signs.append(cur)
    bud.new_phase()
    rep = dict(sessions=0, agree=0, behaviours=sorted(set(s_['beh'] for s_ in S)))
    d = V.Daemon(b); d.start()
    try:
        idle_reply = vlib.run_lines(ref, ['sess r r 0 - %s none' % V.frame(V.T_STATUS).hex()])[0].split()[1]
        first = wait_status_reply(d, bytes.fromhex(idle_reply))         # the connect-and-close probe of Daemon.start() has ended
        ck.count(('countertie', 'fresh-daemon'), nontrivial=True)
        if first != bytes.fromhex(idle_reply):
            fs, _ = V.parse_frames(first or b'')
            ck.fail('c18:counter:after:connect-close', 'after one connection that was closed without sending anything STATUS answers %r, the model answers active_clients=1' % (
                        fs[0][1] if fs else first),
                    dict(case='counter', behaviour='disconnect-before-header', name='connect-close', input_hex='', mode='abandon', expected_model=idle_reply,
                         observed_impl=(first or b'').hex(), engine=tag, theorem='C18_session_ends (count restored)'))
            S, want, counts = [], [], []          # every later STATUS would repeat the same drift
        for s_, w, c, sg in zip(S, want, counts, signs):
            if bud.exhausted() or not d.alive():
                break
            try:
                r = V.raw_session(d.sock, s_['data'], mode=s_['mode'], read_limit=s_['read_limit'], timeout=bud.timeout())
            except OSError as e:
                r = dict(recv=b'', error=str(e))
            if r.get('timeout'):
                bud.anomaly('hung: sequential session %s' % s_['name'], hung=True)
                ck.fail('c18:session:' + s_['name'], 'session %s (alone on the daemon) was not ended by the daemon within %g s' % (s_['name'], bud.timeout()),
                        dict(case='session', behaviour=s_['beh'], name=s_['name'], input_hex=s_['data'].hex()[:4000], mode=s_['mode'], read_limit=s_['read_limit'],
                             oracle=s_['oracle'][:200], hung=True, engine=tag, phase='sequential counter tie'))
            got = wait_status_reply(d, w)
            rs = real_sigign(d)
            if rs is not None and (rs != sg or rs is False):
                ck.fail('c18:sigpipe:after:' + s_['name'], 'after session %s (%s) the daemon process %s SIGPIPE (SigIgn of /proc/<pid>/status), the model says it %s' % (
                            s_['name'], s_['beh'], 'ignores' if rs else 'does NOT ignore', 'ignores it' if sg else 'does not'),
                        dict(case='sigpipe', behaviour=s_['beh'], name=s_['name'], input_hex=s_['data'].hex()[:4000], mode=s_['mode'], read_limit=s_['read_limit'],
                             oracle=s_['oracle'][:200], program=(s_['prog'] or {}).get('src'), expected_model=sg, observed_impl=rs, engine=tag,
                             theorem='C18_no_session_resets_sigpipe / C18_daemon_survives (sigign stays true)'))
            rep['sigign_checked'] = rep.get('sigign_checked', 0) + (rs is not None)
            rep['sessions'] += 1
            ck.count(('countertie', s_['name'], len(s_['data'])), nontrivial=True)
            if got == w:
                rep['agree'] += 1
            else:
                fs, _ = V.parse_frames(got or b'')
                ck.fail('c18:counter:after:' + s_['name'],
                        'after session %s (%s) STATUS answers %r, the model (count %d after the same sessions) answers %r' % (
                            s_['name'], s_['beh'], fs[0][1] if fs else got, c, V.parse_frames(w)[0][0][1] if w else w),
                        dict(case='counter', behaviour=s_['beh'], name=s_['name'], input_hex=s_['data'].hex()[:4000], mode=s_['mode'], read_limit=s_['read_limit'],
                             sessions_before=[x['name'] for x in S[:S.index(s_)]][-8:], expected_model=w.hex(), observed_impl=(got or b'').hex(), engine=tag,
                             theorem='C18_session_ends (count restored) / C17_active_zero_when_done'))
                break            # every later STATUS would repeat the same drift
    finally:
        d.stop()
    return rep


def ffi_histories(ck, b, ref, progs, bud, wd, tag='nano_vmd(plain)'):
    """Programs that make extern calls start and stop the FFI co-process inside the daemon (vm_ffi_cop_start / vm_ffi_cop_stop): the
    process-wide SIGPIPE disposition must survive that.  Each history runs on a fresh daemon, one session at a time; after EVERY
    session the process's real SIGPIPE disposition (SigIgn) and its liveness are compared with the extracted model serving the
    same history; afterwards PING and a well-formed client must be served."""
    ffis = [p for p in progs.items if p['kind'] == 'ffi']
    small = next(p for p in progs.items if p['kind'] == 'lines')
    chatty = progs.add(ck.rng, 'CHATTY', 'big', scale=4, ret='0')           # > 1 MB of output: the daemon is still writing when the client has gone
    if not ffis:
        raise RuntimeError('no ffi program generated')
    F = lambda p: ('ffi:' + p['name'], V.frame(V.T_LOAD_EXEC, p['blob']), 'full', None, None, oracle_for(p), p)
    HANG = ('hangup-while-printing:' + chatty['name'], V.frame(V.T_LOAD_EXEC, chatty['blob']), 'read_n', 9, 2, 'ranx none 0 0 6161 6161 6161 6161', None)
    ABAN = ('abandon:' + small['name'], V.frame(V.T_LOAD_EXEC, small['blob']), 'abandon', None, 0, oracle_for(small), None)
    PING = ('ping', V.frame(V.T_PING), 'full', None, None, 'none', None)
    f0, f1 = ffis[0], ffis[-1]
    hists = [('ffi-then-hangup', [F(f0), HANG]),
             ('hangup-then-ffi', [HANG, F(f0), PING]),
             ('ffi-ffi-then-hangup', [F(f0), F(f1), HANG]),
             ('ffi-then-abandon-then-hangup', [F(f1), ABAN, HANG]),
             ('hangup-ffi-hangup', [HANG, F(f0), HANG])]
    rep = {}
    for hname, H in hists:
        if bud.exhausted():
            break
        model = model_history(ref, [(data, wb, orc) for (_, data, _, _, wb, orc, _) in H])
        steps = []
        d = V.Daemon(b); d.start()
        try:
            for (name, data, mode, rl, wb, orc, prog), m in zip(H, model):
                try:
                    r = V.raw_session(d.sock, data, mode=mode, read_limit=rl, timeout=bud.timeout())
                except OSError as e:
                    r = dict(recv=b'', error=str(e))
                if r.get('timeout'):
                    bud.anomaly('hung: history %s session %s' % (hname, name), hung=True)
                # the daemon notices a hang-up at its next write; give it the time to get there
                t0 = time.time()
                while d.alive() and time.time() - t0 < (1.0 if mode in ('read_n', 'abandon') else 0.1):
                    time.sleep(0.02)
                    if mode in ('read_n', 'abandon') and d.status(timeout=1.0) == 1:
                        break
                alive = d.alive()
                rs = real_sigign(d) if alive else None
                ck.count(('history', hname, name), nontrivial=True)
                steps.append(dict(session=name, daemon_alive=alive, sigpipe_ignored=rs, model_alive=m['alive'], model_sigpipe_ignored=m['sigign']))
                hist_replay = dict(case='history', history=hname, engine=tag, steps=steps,
                                   sessions=[dict(name=n_, input_hex=dt.hex()[:200000], mode=md, read_limit=rl_) for (n_, dt, md, rl_, _, _, _) in H[:len(steps)]])
                # property level (every program of these histories is verified and harmless): the daemon must stay up, whatever the model says
                if not alive:
                    ck.fail('c18:history:%s:%s' % (hname, name), 'history %s: the daemon died (exit status %s) in session %s; every program in it is well-formed; the model %s' % (
                                hname, d.exit_status(), name, 'predicts this death (a session-reachable call resets SIGPIPE: C18_no_session_resets_sigpipe is broken)' if not m['alive'] else 'says it survives'),
                            dict(hist_replay, observed='daemon exit status %s' % d.exit_status(), expected='daemon alive', model_alive=m['alive'], daemon_stderr=d.stderr()[-300:]))
                    break
                if alive != m['alive']:
                    ck.fail('c18:model:history:%s:%s' % (hname, name), 'history %s: after session %s the daemon is alive, the model says dead' % (hname, name),
                            dict(hist_replay, correspondence='history vs extracted serve'))
                    break
                if rs is False:
                    ck.fail('c18:sigpipe:history:%s:%s' % (hname, name), 'history %s: after session %s the daemon process no longer ignores SIGPIPE (SigIgn of /proc/<pid>/status); the model %s' % (
                                hname, name, 'agrees (a session-reachable call resets it)' if not m['sigign'] else 'says it is still ignored'),
                            dict(hist_replay, expected=True, expected_model=m['sigign'], observed_impl=rs, theorem='C18_no_session_resets_sigpipe / C18_sigpipe_needed'))
                elif rs is not None and rs != m['sigign']:
                    ck.fail('c18:model:sigpipe:history:%s:%s' % (hname, name), 'history %s: after session %s the process ignores SIGPIPE, the model says it does not' % (hname, name),
                            dict(hist_replay, expected_model=m['sigign'], observed_impl=rs, correspondence='SigIgn vs extracted model'))
                if prog is not None and mode == 'full' and alive:
                    obs = V.expected_client_obs(V.canon_reply(r['recv']))
                    if exit_only(obs, prog['obs']):
                        fail_exit(ck, prog, obs, tag)
                    elif obs != prog['obs']:
                        ck.fail('c18:session:' + name, 'history %s: FFI program %s served through the daemon differs from standalone: exit %s vs %s, stdout %d vs %d bytes, stderr %r' % (
                                    hname, prog['name'], obs[0], prog['obs'][0], len(obs[1]), len(prog['obs'][1]), obs[2][:120]),
                                dict(hist_replay, program=prog['src'], expected=str(prog['obs'])[:600], observed=str(obs)[:600]))
                if not alive:
                    break
            if d.alive():
                pong = d.ping(timeout=5.0)
                after = V.via_daemon(b, d, small['nvm'], timeout=bud.timeout())
                ck.count(('history', hname, 'afterwards'), nontrivial=True)
                if not pong or (after != small['obs'] and not exit_only(after, small['obs'])):
                    ck.fail('c18:history:%s:afterwards' % hname, 'history %s: afterwards PING %s and a well-formed client %s' % (
                                hname, 'answered' if pong else 'NOT answered', 'is served like standalone' if after == small['obs'] else 'is NOT served like standalone'),
                            dict(case='history', history=hname, engine=tag, steps=steps, observed=str(after)[:400], expected=str(small['obs'])[:400]))
                elif exit_only(after, small['obs']):
                    fail_exit(ck, small, after, tag)
        finally:
            d.stop()
        rep[hname] = steps
    return rep


def idle_timeout_case(ck, b, progs, bud, wd, tag='nano_vmd(plain) --idle-timeout 2'):
    """A daemon that may idle out: after malformed and abandoned sessions a program that runs for several idle periods must still
    be served completely (the idle check reads the session counter: a counter that drifted below the truth shuts the daemon
    down under a running program)."""
    # calibrate: the program must run for about three idle periods (6 s) on this machine, now
    cal, diag = V.compile_nvm(b, V.gen_slow_program('IDLE', 8, 24), wd, 'idle_cal')
    if cal is None:
        raise RuntimeError('nano_virt refused the slow program: %s' % (diag,))
    tc = time.time(); V.standalone(b, cal, timeout=120); tc = max(0.004, (time.time() - tc) / 8)
    steps = max(20, min(2000, int(6.0 / tc)))
    slow_src = V.gen_slow_program('IDLE', steps, 24)
    nvm, diag = V.compile_nvm(b, slow_src, wd, 'idle_slow')
    if nvm is None:
        raise RuntimeError('nano_virt refused the slow program: %s' % (diag,))
    box = {}
    th = threading.Thread(target=lambda: box.__setitem__('st', V.standalone(b, nvm, timeout=120)))
    th.start()
    small = next(p for p in progs.items if p['kind'] == 'lines')
    bad = [('version-9', V.frame(V.T_PING, version=9), 'full'), ('hdr-trunc-3', V.header(V.T_PING, 0)[:3], 'full'),
           ('connect-close', b'', 'abandon'), ('len-over-max', V.header(V.T_LOAD_EXEC, V.MAX_PAYLOAD + 1), 'full'),
           ('abandon-exec', V.frame(V.T_LOAD_EXEC, small['blob']), 'abandon')]
    # two daemons side by side: (A) exactly one rejected session before the program (the connect-and-close probe of Daemon.start():
    # a counter that is one too low reads 0 while one program runs), (B) five rejected / abandoned sessions before it
    variants = [('one-rejected-session', []), ('five-rejected-sessions', bad)]
    res = {}

    def one(vname, sessions):
        d = V.Daemon(b, args=('--foreground', '--idle-timeout', '2')); d.start()
        t0 = time.time()
        try:
            for name, data, mode in sessions:
                try:
                    V.raw_session(d.sock, data, mode=mode, timeout=min(10.0, bud.timeout()))
                except OSError:
                    pass
            st_reply = wait_status_reply(d, V.frame(V.T_STATUS_RSP, b'active_clients=1'), t=2.0)
            obs = V.via_daemon(b, d, nvm, timeout=max(30.0, bud.timeout()))
            t_run = time.time() - t0
            alive_after = d.alive()
            t1 = time.time()
            while d.alive() and time.time() - t1 < 4:
                time.sleep(0.05)
            res[vname] = dict(st_reply=st_reply, obs=obs, t_run=t_run, alive_after=alive_after, rc=d.exit_status(), err=d.stderr(), sessions=sessions)
        finally:
            d.stop()

    ths = [threading.Thread(target=one, args=v) for v in variants]
    [t.start() for t in ths]; [t.join() for t in ths]
    th.join()
    st = box.get('st')
    out = {}
    for vname, _ in variants:
        r = res.get(vname)
        if r is None:
            ck.fail('c18:idle-timeout:' + vname + ':no-result', 'idle-timeout variant %s produced no result (daemon did not start?)' % vname, dict(case='idle', engine=tag))
            continue
        obs, rc, sessions = r['obs'], r['rc'], r['sessions']
        ck.count(('idle-timeout', vname), nontrivial=True)
        fs, _ = V.parse_frames(r['st_reply'] or b'')
        if r['st_reply'] != V.frame(V.T_STATUS_RSP, b'active_clients=1'):
            ck.fail('c18:counter:idle-daemon:%s:status' % vname, 'idle-timeout daemon, %s: STATUS answers %r (expected active_clients=1)' % (vname, fs[0][1] if fs else r['st_reply']),
                    dict(case='counter', name='idle-daemon', sessions_before=['connect-close (start probe)'] + [n for n, _, _ in sessions], observed_impl=(r['st_reply'] or b'').hex(), engine=tag))
        if not r['alive_after'] and obs == st:
            ck.note('idle-timeout case %s: the daemon had already idled out when the client finished; the run may have been served by a lazily launched daemon' % vname)
        if obs != st:
            an = V.client_anomaly(obs)
            if an == 'hung':
                bud.anomaly('hung: slow program under --idle-timeout', hung=True)
            ck.fail('c18:idle-timeout:slow-program:' + vname,
                    'a program running for %.1f s on a daemon started with --idle-timeout 2, after %d rejected/abandoned sessions, %s: exit %s vs %s, stdout %d vs %d bytes, stderr %r (daemon exit status %s)' % (
                        r['t_run'], len(sessions) + 1, 'was never served' if an == 'hung' else 'was not served like standalone', obs[0], st[0], len(obs[1]), len(st[1]), obs[2][:100], rc),
                    dict(case='idle', variant=vname, sessions_before=[dict(name=n, hex=dt.hex()[:64], mode=m_) for n, dt, m_ in sessions], program=slow_src,
                         expected=dict(exit=st[0], stdout_len=len(st[1]), stderr=st[2].decode('utf-8', 'replace')[:200]),
                         observed=dict(exit=obs[0], stdout_len=len(obs[1]), stderr=obs[2].decode('utf-8', 'replace')[:200], stdout_tail=obs[1][-80:].decode('utf-8', 'replace')),
                         daemon_exit_status=rc, daemon_stderr=r['err'][-400:], engine=tag))
        out[vname] = dict(program_steps=steps, program_seconds=round(r['t_run'], 1), status_before_program=(fs[0][1].decode('utf-8', 'replace') if fs else None),
                          client_equal_standalone=(obs == st), daemon_alive_when_client_finished=r['alive_after'], daemon_exit_after_idle=rc)
    return out


def find_culprit(ck, b, S, env_extra=None, allS=None):
    """Search for the failing history: single sessions first, then an FFI session followed by a disconnecting one."""
    def dies(seq):
        try:
            with V.Daemon(b, env_extra=env_extra) as d:
                for s in seq:
                    try:
                        V.raw_session(d.sock, s['data'], mode=s['mode'], read_limit=s['read_limit'], timeout=20, chunks=s['chunks'], pause=s['pause'])
                    except OSError:
                        pass
                    time.sleep(0.05)
                for _ in range(20):
                    if not d.alive():
                        return True
                    if d.ping(timeout=2.0):
                        break
                    time.sleep(0.05)
                return not d.alive()
        except Exception:
            return False
    t0 = time.time()
    for s in S:
        if time.time() - t0 > 60:
            break
        if dies([s]):
            return s
    A = allS or S
    ffi = [s for s in A if s['prog'] is not None and s['prog']['kind'] == 'ffi' and s['mode'] == 'full'][:2]
    gone = [s for s in A if s['mode'] in ('read_n', 'abandon') and s['prog'] is not None and s['prog']['kind'] == 'big'][:3]
    for f in ffi:
        for g in gone:
            if time.time() - t0 > 120:
                return None
            if dies([f, g]):
                return dict(g, name='%s then %s' % (f['name'], g['name']), data=g['data'], first=f)
    return None


# ------------------------------------------------------------------------------------------ (C) hostile module / SHUTDOWN, isolated daemons
def hostile_run(ck, b, ref, progs, kind, tag='plain'):
    """Submit a module that nvm_deserialize accepts and nvm_verify refuses.  Returns dict(observation)."""
    base = next(p for p in progs.items if p['kind'] == 'lines')
    blob = V.hostile_module(base['blob'], kind)
    wd = tempfile.mkdtemp(prefix='c18h_', dir=os.path.join(vlib.BUILD))
    try:
        hp = os.path.join(wd, 'hostile_%s.nvm' % kind)
        open(hp, 'wb').write(blob)
        st = V.standalone(b, hp)
        with V.Daemon(b) as d:
            bystander_before = V.via_daemon(b, d, base['nvm'])
            r = V.raw_session(d.sock, V.frame(V.T_LOAD_EXEC, blob), timeout=30)
            time.sleep(0.2)
            alive = d.alive()
            rc = d.exit_status()
            pong = d.ping() if alive else False
            bystander_after = V.via_daemon(b, d, base['nvm'], timeout=20) if alive else None
            err = d.stderr()
    finally:
        shutil.rmtree(wd, ignore_errors=True)
    return dict(kind=kind, blob=blob, standalone=st, reply=r['recv'], alive=alive, rc=rc, pong=pong,
                bystander_ok=(bystander_after == base['obs']) if alive else None, stderr=err[-600:], base=base['name'])


def shutdown_case(ck, b, ref):
    with V.Daemon(b) as d:
        r = V.raw_session(d.sock, V.frame(V.T_SHUTDOWN), timeout=10)
        m = vlib.run_lines(ref, ['sess r r 0 - %s none' % V.frame(V.T_SHUTDOWN).hex()])[0].split()
        ok_reply = (r['recv'].hex() or '-') == m[1] and m[7] == '1'
        # the accept loop notices g_shutdown at its next wake-up
        try:
            V.raw_session(d.sock, V.frame(V.T_PING), timeout=5)
        except OSError:
            pass
        t0 = time.time()
        while d.alive() and time.time() - t0 < 5:
            time.sleep(0.02)
        rc = d.exit_status()
    ck.count(('shutdown',), nontrivial=True)
    if not ok_reply:
        ck.fail('c18:session:shutdown', 'SHUTDOWN reply differs from the model', dict(case='shutdown', observed_impl=r['recv'].hex(), expected_model=m[1]))
    return dict(reply_agrees=ok_reply, daemon_exit=rc)


def run(ck):
    b = ck.build('plain')
    ck.gen(['gen_vmdconsts', 'gen_vmdfacts', 'gen_sigsites'])
    ck.prove()
    ref = ck.nvref('c18')
    facts = dict(zip(*[iter(vlib.run_lines(ref, ['facts'])[0].split())] * 2))
    probe = ck.probe('vmd_probe.c', 'asan' if ck.thorough else 'plain')
    env = dict(os.environ, ASAN_OPTIONS='detect_leaks=0:abort_on_error=0', UBSAN_OPTIONS='halt_on_error=1')
    ck.extra['facts'] = facts
    ck.extra['probe_distribution'] = run_probe_corr(ck, ref, probe, env)

    wd = tempfile.mkdtemp(prefix='c18_', dir=vlib.BUILD)
    try:
        progs = V.Programs(b, wd)
        kinds = ['lines', 'globals', 'strings', 'noeol', 'rterr', 'arrays', 'big', 'silent', 'mixed', 'big', 'ffi', 'ffi']
        for i, k in enumerate(kinds):
            progs.add(ck.rng, 'K%02d%s' % (i, 'abcdefghijkl'[i]), k)
        ck.extra['programs'] = [dict(name=p['name'], stdout_bytes=len(p['obs'][1]), exit=p['obs'][0], stderr=p['obs'][2].decode('utf-8', 'replace')[:80]) for p in progs.items]
        bud = V.Budget(t_first=45.0, t_after=15.0, k=3, wall=200.0 if not ck.thorough else 1000.0)
        ck.extra['live_plain'] = run_live(ck, b, ref, progs, 'nano_vmd(plain)', bud)
        ck.extra['counter_tie'] = counter_tie(ck, b, ref, progs, bud)
        ck.extra['idle_timeout_case'] = idle_timeout_case(ck, b, progs, bud, wd)
        ck.extra['ffi_histories'] = ffi_histories(ck, b, ref, progs, bud, wd)
        if ck.thorough:
            ba = ck.build('asan')
            ck.extra['live_asan'] = run_live(ck, ba, ref, progs, 'nano_vmd(asan)', bud,
                                             env_extra=dict(ASAN_OPTIONS='detect_leaks=0:abort_on_error=1', UBSAN_OPTIONS='halt_on_error=1:print_stacktrace=1'))
            for _ in range(2):
                if bud.left() > 0 or not ck.failures:
                    ck.extra.setdefault('live_plain_more', []).append(run_live(ck, b, ref, progs, 'nano_vmd(plain)', bud))
        ck.extra['shutdown_case'] = shutdown_case(ck, b, ref)

        # (C) the witness of the refutation branch, on the real binary; also every open known finding
        hostile = {}
        for kind in ('code_offset', 'code_length'):
            h = hostile_run(ck, b, ref, progs, kind)
            ck.count(('hostile', kind), nontrivial=True)
            refused = h['standalone'][0] == 1 and b'Bytecode verification failed' in h['standalone'][2]
            vmsg = h['standalone'][2].split(b"': ", 1)[1].rstrip(b'\n') if refused and b"': " in h['standalone'][2] else b'refused'
            m = vlib.run_lines(ref, ['sess r r 0 - %s rejcrash %s' % (V.frame(V.T_LOAD_EXEC, h['blob']).hex(), hx(vmsg))])[0].split()
            if facts.get('verify') == '1' and h['alive']:
                # the handler verifies first: its refusal must be the model's (ERROR text + EXIT 1)
                if (h['reply'].hex() or '-') != m[1]:
                    ck.fail('c18:session:hostile:' + kind, 'reply to a module that nvm_verify refuses differs from the model',
                            dict(case='hostile', hostile_kind=kind, input_hex=h['blob'].hex(), expected_model=m[1][:400], observed_impl=h['reply'].hex()[:400]))
            hostile[kind] = dict(standalone_exit=h['standalone'][0], standalone_stderr=h['standalone'][2].decode('utf-8', 'replace')[:160],
                                 daemon_alive=h['alive'], daemon_exit_status=h['rc'], reply=h['reply'].hex()[:80], model_alive=m[3] == '1',
                                 bystander_ok=h['bystander_ok'])
            if not h['alive']:
                key = KEY_HOSTILE if kind == 'code_offset' else 'c18:daemon:unverified-module:' + kind
                ck.fail(key, 'a module that standalone nano_vm refuses (nvm_verify) kills nano_vmd: exit status %s' % h['rc'],
                        dict(case='hostile', hostile_kind=kind, input_hex=h['blob'].hex(), base_program=h['base'], engine='nano_vmd(plain)',
                             expected='error reply or closed connection, daemon alive', observed='daemon exit status %s' % h['rc'],
                             standalone=str(h['standalone'])[:300], model='alive=%s (verify_before_execute=%s)' % (m[3], facts.get('verify'))))
            elif refused and facts.get('verify') == '0' and kind == 'code_offset':
                ck.note('model says the daemon dies on the hostile module but the real daemon survived')
                ck.fail('c18:model:hostile-survived', 'model (verify_before_execute=false) predicts death on the refutation witness, the real daemon survived',
                        dict(case='hostile', hostile_kind=kind, input_hex=h['blob'].hex(), correspondence='refutation witness vs live daemon'))
            if h['alive'] and refused and h['standalone'][1] != V.canon_reply(h['reply'])['out']:
                # executed although standalone refuses: a transparency difference, recorded as a note (no crash, daemon fine)
                ck.note('module refused standalone (%s) is executed by the daemon and produced %d output bytes' % (kind, len(V.canon_reply(h['reply'])['out'])))
        ck.extra['hostile_modules'] = hostile
        # corpus: stored modules that once killed the daemon, each on its own daemon
        cdir = os.path.join(vlib.VERIF, 'corpus', 'C18')
        for fn in sorted(os.listdir(cdir)) if os.path.isdir(cdir) else []:
            if not fn.endswith('.nvm'):
                continue
            blob = open(os.path.join(cdir, fn), 'rb').read()
            st = V.standalone(b, os.path.join(cdir, fn))
            with V.Daemon(b) as d:
                r = V.raw_session(d.sock, V.frame(V.T_LOAD_EXEC, blob), timeout=30)
                time.sleep(0.2)
                alive = d.alive(); rc = d.exit_status()
            ck.count(('corpus', fn), nontrivial=True)
            ck.extra.setdefault('corpus', {})[fn] = dict(standalone_exit=st[0], daemon_alive=alive, daemon_exit_status=rc)
            if not alive:
                key = KEY_HOSTILE if fn == 'hostile_code_offset.nvm' else 'c18:corpus:' + fn
                ck.fail(key, 'corpus module %s kills nano_vmd (exit status %s); standalone exit %s' % (fn, rc, st[0]),
                        dict(case='hostile', hostile_kind='corpus:' + fn, input_hex=blob.hex(), engine='nano_vmd(plain)',
                             standalone=str(st)[:300], observed='daemon exit status %s' % rc))
        for k in ck.known:
            if k['key'] not in [f['key'] for f in ck.failures] and k.get('input', {}).get('hostile_kind'):
                h = hostile_run(ck, b, ref, progs, k['input']['hostile_kind'])
                if not h['alive']:
                    ck.fail(k['key'], k['what'], dict(case='hostile', hostile_kind=k['input']['hostile_kind'], input_hex=h['blob'].hex()))
        ck.extra['budget'] = bud.summary()
    finally:
        shutil.rmtree(wd, ignore_errors=True)

    ck.cov['rule'] = ('(A) header strings: 4 versions x 13 types x 14 boundary lengths, every header truncation, random strings; frames of random type/length; '
                      '(B) one live daemon, behaviour catalogue of the property in shuffled order on 8 client threads, 4 more threads running well-formed '
                      'nano_vm --daemon clients throughout, every reply compared with the extracted client_thread; (B2) one session at a time, STATUS after every session '
                      'compared byte for byte with the model started from the model\'s own count; (B3) --idle-timeout 2 daemon: rejected/abandoned sessions, then a program '
                      'running for several idle periods; non-trivial = a live session or a non-empty probe line; '
                      'distinct = distinct (behaviour, bytes)')
    ck.extra['exhaustive'] = False
    ck.trusted += ['translators tools/gen/dump_vmdconsts.c + gen_vmdconsts.py (constants through the compiler; golden frames through the real vmd_msg_send into a pipe)',
                   'tools/gen/gen_vmdfacts.py: clang -ast-dump=json call sequence of client_thread/run_standalone (rule: nvm_verify occurs before vm_execute in source order); '
                   'SigIgn mask of a listening private nano_vmd read from /proc/<pid>/status',
                   'extraction: ExtrOcamlBasic only; extract/nvio.ml + nvio_z.ml + c18_driver.ml',
                   'probes/vmd_probe.c; tools/props/vmd_common.py (private daemon, raw sessions, frame parser, python transcription of the client loop for raw exec sessions)',
                   'OS rules stated in NV/Proto/Vmd.v: read() returns 0 at EOF; write() on a stream socket whose peer closed fails with EPIPE and raises SIGPIPE']
    ck.assumptions += ['every peer eventually stops sending and closes (a silent peer that keeps its connection open blocks one thread and stays counted; outside the property\'s behaviour list)',
                       'malloc of the announced payload size succeeds (the "Out of memory" reply is not modelled)',
                       'loading / verifying / executing the module is an oracle in the model (o_deser, o_verify, o_run); C18_daemon_survives assumes oracle_safe = the statement of C13\'s vm_safe',
                       'the daemon is started by the check (foreground, --no-timeout); SHUTDOWN is a designed way to stop it and is exercised on its own daemon']


def replay(ck, d):
    b = ck.build('plain'); ck.gen(['gen_vmdconsts', 'gen_vmdfacts', 'gen_sigsites'])
    ref = ck.nvref('c18')
    kind = d.get('case')
    if kind == 'probe':
        probe = ck.probe('vmd_probe.c', 'plain')
        l = d['input']
        a = vlib.run_lines(probe, [l])[0]; m = vlib.run_lines(ref, [l])[0]
        mm = 'err' if m in ('short', 'badver', 'toolong') else m
        print('input:', l); print('impl :', a); print('model:', m)
        print('REPRODUCED' if a != mm else 'not reproduced'); return 1 if a != mm else 0
    if kind == 'hostile' or (d.get('culprit') and kind == 'live'):
        blob = bytes.fromhex(d['input_hex']) if kind == 'hostile' else None
        data = V.frame(V.T_LOAD_EXEC, blob) if blob is not None else bytes.fromhex(d['culprit']['input_hex'])
        mode = 'full' if blob is not None else d['culprit']['mode']
        with V.Daemon(b) as dm:
            if (d.get('culprit') or {}).get('first_input_hex'):
                V.raw_session(dm.sock, bytes.fromhex(d['culprit']['first_input_hex']), timeout=30)
            r = V.raw_session(dm.sock, data, mode=mode, read_limit=(d.get('culprit') or {}).get('read_limit'), timeout=30)
            time.sleep(0.3)
            alive = dm.alive(); rc = dm.exit_status()
        print('sent %d bytes; reply %s; daemon alive=%s exit status=%s' % (len(data), r['recv'][:60], alive, rc))
        print('REPRODUCED' if not alive else 'not reproduced'); return 1 if not alive else 0
    if kind == 'session':
        data = bytes.fromhex(d['input_hex'])
        with V.Daemon(b) as dm:
            r = V.raw_session(dm.sock, data, mode=d.get('mode', 'full'), read_limit=d.get('read_limit'), timeout=60)
            alive = dm.alive()
        m = vlib.run_lines(ref, ['sess r r 0 - %s %s' % (hx(data), d.get('oracle', 'none'))])[0]
        print('impl reply :', r['recv'].hex()[:400], '(daemon alive=%s)' % alive); print('model      :', m[:400])
        same = alive and ('sent ' + (r['recv'].hex() or '-') + ' ') in m + ' '
        print('not reproduced' if same else 'REPRODUCED (or exec session: compare canonical forms by a full run)'); return 0 if same else 1
    if kind == 'history':
        with V.Daemon(b) as dm:
            for x in d.get('sessions', []):
                try:
                    V.raw_session(dm.sock, bytes.fromhex(x['input_hex']), mode=x['mode'], read_limit=x.get('read_limit'), timeout=30)
                except OSError:
                    pass
                time.sleep(0.5)
                print('after %-50s daemon alive=%s SIGPIPE ignored=%s' % (x['name'], dm.alive(), real_sigign(dm) if dm.alive() else None))
                if not dm.alive():
                    break
            alive = dm.alive(); ign = real_sigign(dm) if alive else None; rc = dm.exit_status()
        print('daemon exit status:', rc)
        rep = (not alive) or ign is False
        print('REPRODUCED' if rep else 'not reproduced'); return 1 if rep else 0
    if kind == 'sigpipe':
        with V.Daemon(b) as dm:
            before = real_sigign(dm)
            V.raw_session(dm.sock, bytes.fromhex(d.get('input_hex') or ''), mode=d.get('mode', 'full'), read_limit=d.get('read_limit'), timeout=30)
            time.sleep(0.3)
            after = real_sigign(dm) if dm.alive() else None
        print('SIGPIPE ignored before the session: %s, after: %s' % (before, after))
        rep = after is not True
        print('REPRODUCED' if rep else 'not reproduced'); return 1 if rep else 0
    if kind == 'exit-status':
        wd = tempfile.mkdtemp(prefix='c18r_', dir=vlib.BUILD)
        try:
            nvm, diag = V.compile_nvm(b, d['program'], wd, 'x')
            st = V.standalone(b, nvm)
            with V.Daemon(b) as dm:
                o = V.via_daemon(b, dm, nvm)
        finally:
            shutil.rmtree(wd, ignore_errors=True)
        print('standalone exit %s, via daemon exit %s' % (st[0], o[0]))
        print('REPRODUCED' if o != st else 'not reproduced'); return 1 if o != st else 0
    if kind == 'counter':
        data = bytes.fromhex(d.get('input_hex') or '')
        with V.Daemon(b) as dm:
            before = wait_status_reply(dm, V.frame(V.T_STATUS_RSP, b'active_clients=1'))
            V.raw_session(dm.sock, data, mode=d.get('mode', 'full'), read_limit=d.get('read_limit'), timeout=20)
            after = wait_status_reply(dm, V.frame(V.T_STATUS_RSP, b'active_clients=1'))
        print('STATUS before the session:', before); print('STATUS after the session :', after)
        rep = after != V.frame(V.T_STATUS_RSP, b'active_clients=1')
        print('REPRODUCED' if rep else 'not reproduced'); return 1 if rep else 0
    if kind == 'idle':
        wd = tempfile.mkdtemp(prefix='c18r_', dir=vlib.BUILD)
        try:
            nvm, diag = V.compile_nvm(b, d['program'], wd, 'idle_slow')
            st = V.standalone(b, nvm, timeout=120)
            dm = V.Daemon(b, args=('--foreground', '--idle-timeout', '2')); dm.start()
            try:
                for x in d.get('sessions_before', []):
                    try:
                        V.raw_session(dm.sock, bytes.fromhex(x['hex']), mode=x['mode'], timeout=10)
                    except OSError:
                        pass
                obs = V.via_daemon(b, dm, nvm, timeout=60)
            finally:
                dm.stop()
        finally:
            shutil.rmtree(wd, ignore_errors=True)
        print('standalone: exit %s, %d stdout bytes' % (st[0], len(st[1]))); print('via daemon: exit %s, %d stdout bytes, stderr %r' % (obs[0], len(obs[1]), obs[2][:120]))
        print('REPRODUCED' if obs != st else 'not reproduced'); return 1 if obs != st else 0
    print('replay kind %r: run the full check' % kind)
    return 1
