"""C17 -- daemon execution is transparent and concurrent clients are isolated.
Proof: NV/Props/Properties_C17.v (Proto/Sessions.v interleaving model + lazy CRC table under SC, Proto/Vmd.v handler/client loop,
Proto/SharedClasses.v over the regenerated inventory NV/gen/SharedState.v).
Correspondence (hook h3, one private nano_vmd per phase):
  (A) k concurrent clients (k <= 16 quick / 64 thorough) with seeded arrival jitter, programs with long distinctive outputs;
      each `nano_vm --daemon x.nvm` observation (stdout bytes, stderr bytes, exit) must equal `nano_vm x.nvm` of the same tree;
      a quarter of the clients are raw sockets whose reply bytes are also decoded by the extracted client loop (client_observe);
  (B) the specified CRC-32 (Sessions.crc32_spec) vs the real nvm_crc32 (probe) and vs the checksum nano_virt wrote in each module;
  (C) the session counter (theorems C17_active_balanced / C17_active_zero_when_done) tied to the real daemon: with m sessions held in
      flight STATUS reports m + 1, afterwards 1; STATUS sampled during every round stays within [1, k + 1];
  (D) simultaneous cold-start burst on the ThreadSanitizer build (both tiers); thorough: whole rounds on the TSan and ASan builds.
Bounded time: every client is limited to 60 s (20 s once one client has hung); a daemon instance that has produced 3 hung clients or
communication errors is abandoned (the failures are recorded with the round's concurrency level and programs) and the phases that
remain run on fresh daemons; optional phases are dropped when the budget is gone and failures are on record."""
import os, sys, json, time, struct, threading, tempfile, shutil, hashlib, random, re
import vlib
import vmd_common as V

KEY_UNVERIFIED = 'c17:transparency:unverified-module:code_length'
KEY_TSAN_CRC = 'c17:tsan:data-race:crc32_init'
KEY_EXIT = 'c17:transparency:main-result-exit-status'
KEY_TSAN_FFI = 'c17:tsan:data-race:ffi_loader-initialized'


def exit_only(obs, exp):
    """Everything standalone shows except that the exit status is 0 instead of main's int result."""
    return obs[1:] == exp[1:] and obs[0] == 0 and exp[0] != 0


def fail_exit(ck, p, obs, tag, k=1):
    ck.fail(KEY_EXIT, 'a program whose main returns %d exits with status %d through the daemon and %d standalone (stdout and stderr agree)' % (p['obs'][0], obs[0], p['obs'][0]),
            dict(case='exit-status', program=p['src'], k=k, engine=tag, expected=dict(exit=p['obs'][0]), observed=dict(exit=obs[0])))


def hx(b):
    return b.hex() if b else '-'


def crc_corr(ck, ref, probe, progs):
    rng = ck.rng
    lines = []
    for p in progs.items:
        lines.append('crc ' + hx(p['blob'][32:]))
    for n in [0, 1, 2, 3, 4, 7, 8, 255, 256, 257, 1000]:
        lines.append('crc ' + hx(bytes(rng.randrange(256) for _ in range(n))))
    for _ in range(300 if ck.thorough else 60):
        lines.append('crc ' + hx(bytes(rng.randrange(256) for _ in range(rng.randrange(0, 64)))))
    for b_ in range(256):
        lines.append('crc %02x' % b_)
    impl = vlib.run_lines(probe, lines)
    model = vlib.run_lines(V.nvref_cmd(ref), lines)
    for i, (l, a, m) in enumerate(zip(lines, impl, model)):
        ck.count(('crc', l[:200]), nontrivial=l != 'crc -')
        if a != m:
            ck.fail('c17:crc:' + l[:60], 'nvm_crc32 differs from Sessions.crc32_spec: impl=%s model=%s' % (a, m),
                    dict(case='crc', input=l, expected_model=m, observed_impl=a, correspondence='vmd_probe crc vs nvref_c17'))
            break
    for p, m in zip(progs.items, model):
        stored = '%x' % struct.unpack_from('<I', p['blob'], 28)[0]
        if stored != m:
            ck.fail('c17:crc:header:' + p['name'], 'checksum stored by nano_virt differs from the specified CRC-32 of the body',
                    dict(case='crc', program=p['src'], expected_model=m, observed_impl=stored))
    return len(lines)


class Monitor(threading.Thread):
    """Polls STATUS to measure how many sessions really overlapped."""
    def __init__(self, d):
        super().__init__(daemon=True)
        self.d = d; self.stop = threading.Event(); self.maxv = 0; self.minv = None; self.samples = 0

    def run(self):
        while not self.stop.is_set():
            v = self.d.status(timeout=2.0)
            if v is not None:
                self.samples += 1
                self.maxv = max(self.maxv, v - 1)     # minus the STATUS session itself
                self.minv = v - 1 if self.minv is None else min(self.minv, v - 1)
            time.sleep(0.002)


def one_round(ck, b, d, ref, progs, k, jitter, seed, tag, bud, raw_share=0.25, prev_k=0):
    """k clients with arrival jitter against daemon d.  Returns (n_bad, overlap_max, details).
    Every client is bounded by bud.timeout(); hung clients and communication errors are failures AND count against the phase."""
    r = random.Random(seed)
    picks = [r.choice(progs.items) for _ in range(k)]
    delays = [r.random() * jitter for _ in range(k)]
    raws = [r.random() < raw_share for _ in range(k)]
    res = [None] * k
    tmo = bud.timeout()

    def client(i):
        time.sleep(delays[i])
        p = picks[i]
        if raws[i]:
            try:
                rr = V.raw_session(d.sock, V.frame(V.T_LOAD_EXEC, p['blob']), timeout=tmo)
                res[i] = ('raw', rr['recv'], rr)
            except OSError as e:
                res[i] = ('raw', b'', dict(error=str(e)))
        else:
            res[i] = ('cli', V.via_daemon(b, d, p['nvm'], timeout=tmo), None)

    mon = Monitor(d); mon.start()
    ths = [threading.Thread(target=client, args=(i,)) for i in range(k)]
    t_round = time.time()
    for t in ths:
        t.start()
    for t in ths:
        t.join()
    t_round = time.time() - t_round
    mon.stop.set(); mon.join(3)
    bad = 0
    raw_lines, raw_idx = [], []
    round_programs = ['%s(%s)' % (p['name'], 'raw' if rw else 'nano_vm --daemon') for p, rw in zip(picks, raws)]
    n_hung = n_comm = 0
    for i, (p, rs) in enumerate(zip(picks, res)):
        base = dict(case='client', program=p['src'], program_name=p['name'], program_kind=p['kind'], k=k, jitter=jitter, round_seed=seed,
                    engine=tag, client_index=i, client_type=rs[0], client_timeout_s=tmo, round_programs=round_programs,
                    phase='concurrent round of %d clients, arrival jitter %g s' % (k, jitter))
        key = 'c17:client:%s:%s' % (p['kind'], hashlib.sha1(p['src'].encode()).hexdigest()[:10])
        if rs[0] == 'cli':
            obs = rs[1]
            anom = V.client_anomaly(obs)
        else:
            c = V.canon_reply(rs[1])
            obs = V.expected_client_obs(c)
            anom = V.raw_anomaly(rs[2])
            if anom is None and len(rs[1]) <= 100000:   # the extracted client loop appends lists: quadratic on very long replies
                raw_lines.append('obs ' + hx(rs[1])); raw_idx.append(i)
            fs, rest = V.parse_frames(rs[1])
            exits = [f for f in fs if f[0] == V.T_EXIT]
            if anom is None and (rest or not c['ordered'] or not c['hdr_ok'] or len(exits) != 1 or fs[-1][0] != V.T_EXIT):
                bad += 1
                ck.fail(key + ':framing', 'reply stream of a LOAD_EXEC session is not OUTPUT* [ERROR] EXIT_CODE', dict(base, frames=[(f[0], len(f[1])) for f in fs][-6:], rest=rest.hex()[:100]))
        ck.count(('client', tag, p['name'], k, jitter, seed, i), nontrivial=len(p['obs'][1]) > 0 and k > 1)
        exp = p['obs']
        if anom == 'hung':
            n_hung += 1; bad += 1
            bud.anomaly('hung: client %d/%d %s (%s)' % (i, k, p['name'], rs[0]), hung=True)
            got = len(obs[1]) if rs[0] == 'cli' else len(rs[1])
            ck.fail(key, 'client %d of %d concurrent clients (%s) was never served: no complete reply within %g s (%d bytes received), standalone nano_vm gives exit %s and %d stdout bytes' % (
                        i, k, rs[0], tmo, got, exp[0], len(exp[1])),
                    dict(base, hung=True, expected=dict(exit=exp[0], stdout_len=len(exp[1]), stderr=exp[2].decode('utf-8', 'replace')[:300]),
                         observed=dict(outcome='timeout after %g s' % tmo, bytes_received=got, daemon_alive=d.alive())))
            continue
        if anom == 'comm':
            n_comm += 1
            bud.anomaly('comm: client %d/%d %s (%s)' % (i, k, p['name'], rs[0]))
        if exit_only(obs, exp):
            bad += 1
            fail_exit(ck, p, obs, tag, k)
        elif obs != exp:
            bad += 1
            fd = next((j for j, (x, y) in enumerate(zip(obs[1], exp[1])) if x != y), min(len(obs[1]), len(exp[1])))
            ck.fail(key, 'client %d/%d (%s) observed a result different from standalone nano_vm: exit %s vs %s, stdout %d vs %d bytes (first difference at %d), stderr %r vs %r' % (
                        i, k, rs[0], obs[0], exp[0], len(obs[1]), len(exp[1]), fd, obs[2][:80], exp[2][:80]),
                    dict(base, communication_error=(anom == 'comm'),
                         expected=dict(exit=exp[0], stdout_len=len(exp[1]), stderr=exp[2].decode('utf-8', 'replace')[:300]),
                         observed=dict(exit=obs[0], stdout_len=len(obs[1]), stderr=obs[2].decode('utf-8', 'replace')[:300],
                                       stdout_around_diff=obs[1][max(0, fd - 40):fd + 80].decode('utf-8', 'replace'))))
    # the session counter as seen through STATUS while the round ran: between 0 and k sessions besides the STATUS session itself
    # (sessions of the previous round may still be between close() and their decrement: allow prev_k more)
    if mon.minv is not None and (mon.minv < 0 or mon.maxv > k + prev_k):
        bad += 1
        ck.fail('c17:counter:range:k=%d' % k, 'STATUS reported active_clients outside [1, %d] during a round of %d clients (min %d, max %d incl. the STATUS session)' % (
                    k + 1, k, mon.minv + 1, mon.maxv + 1),
                dict(case='counter', k=k, jitter=jitter, round_seed=seed, engine=tag, observed=dict(min=mon.minv + 1, max=mon.maxv + 1), expected='1 .. %d' % (k + 1),
                     theorem='C17_active_balanced: the counter equals the number of sessions in flight'))
    # the extracted client loop on the very bytes the raw clients received
    if raw_lines:
        mo = vlib.run_lines(V.nvref_cmd(ref), raw_lines, timeout=600)
        for i, m in zip(raw_idx, mo):
            p = picks[i]
            f = m.split()
            mobs = (int(f[5]), bytes.fromhex(f[1]) if f[1] != '-' else b'', bytes.fromhex(f[3]) if f[3] != '-' else b'')
            ck.count(('clientloop', tag, p['name'], seed, i), nontrivial=True)
            if exit_only(mobs, p['obs']):
                fail_exit(ck, p, mobs, tag, k)
            elif mobs != p['obs']:
                bad += 1
                ck.fail('c17:clientloop:%s' % p['name'], 'extracted client_observe on the daemon\'s reply bytes differs from the standalone observation',
                        dict(case='clientloop', program=p['src'], expected=str(p['obs'])[:400], observed_model=str(mobs)[:400], reply_hex=res[i][1].hex()[:2000]))
    return bad, mon.maxv, dict(k=k, jitter=jitter, seed=seed, overlap_max=mon.maxv, raw=sum(raws), status_samples=mon.samples,
                               kinds=sorted(set(p['kind'] for p in picks)), hung=n_hung, comm_errors=n_comm, seconds=round(t_round, 1))


def daemon_health(ck, d, tag, t_idle=10, quick=False):
    if quick:
        t_idle = 3
    alive = d.alive()
    pong = d.ping(timeout=3.0 if quick else 5.0) if alive else False
    idle = None
    if alive:
        t0 = time.time()
        while time.time() - t0 < t_idle:
            idle = d.status(timeout=2.0 if quick else 5.0)
            if idle == 1:
                break
            time.sleep(0.05)
    if not alive or not pong:
        ck.fail('c17:daemon-died', 'daemon died or stopped answering during well-formed concurrent sessions (exit status %s)' % d.exit_status(),
                dict(case='health', engine=tag, stderr=d.stderr()[-2000:]))
    elif idle != 1:
        ck.fail('c17:active-clients-leak', 'STATUS reports active_clients=%s after all clients finished' % idle, dict(case='health', engine=tag))
    out = d.stdout()
    if out:
        ck.fail('c17:leak:daemon-stdout', 'program output appeared on the daemon\'s own stdout instead of a client connection',
                dict(case='health', engine=tag, observed=out[:300].decode('utf-8', 'replace')))
    return dict(alive=alive, pong=pong, idle_status=idle)


def rounds(ck, b, ref, progs, tag, ks, bud, env_extra=None, nrounds=3):
    """All rounds of one daemon instance = one phase.  Abandoned as soon as bud.exhausted() (>= k hung clients / communication errors)."""
    rep = []
    bud.new_phase()
    aborted = None
    prev_k = 0
    d = V.Daemon(b, env_extra=env_extra)
    d.start()
    try:
        for ri in range(nrounds):
            for k in ks:
                jitter = [0.0, 0.004, 0.03][ri % 3]
                seed = ck.seed * 7919 + ri * 131 + k
                bad, ov, det = one_round(ck, b, d, ref, progs, k, jitter, seed, tag, bud, prev_k=prev_k)
                prev_k = k
                rep.append(det)
                if not d.alive():
                    aborted = 'daemon died in round %d (k=%d)' % (ri, k)
                elif bud.exhausted():
                    aborted = '%d hung clients / communication errors in this phase (last round: k=%d, %d hung, %d communication errors)' % (
                        bud.phase, k, det['hung'], det['comm_errors'])
                if aborted:
                    break
            if aborted:
                break
        if aborted:
            ck.note('%s: remaining rounds of this daemon skipped: %s' % (tag, aborted))
        health = daemon_health(ck, d, tag, quick=bool(aborted or bud.hangs))
        health['aborted'] = aborted
        err = d.stderr()
    finally:
        d.stop()
    return rep, health, err


def wait_status(d, want, t=3.0):
    """Poll STATUS until it reports `want` twice in a row (threads start and finish asynchronously); returns the last value seen."""
    t0 = time.time(); v = None; hits = 0
    while time.time() - t0 < t:
        v = d.status(timeout=2.0)
        hits = hits + 1 if v == want else 0
        if hits >= 2:
            return v
        time.sleep(0.03 if hits else 0.02)
    return v


def counter_tie(ck, b, progs, bud, tag='nano_vmd(plain)'):
    """C17_active_balanced / C17_active_zero_when_done tied to the real daemon: with m well-formed sessions held in flight
    (header and half of the module sent) STATUS must report m + 1 (the m sessions and the STATUS session itself); when they
    complete, each gets its standalone-equal result and STATUS is back to 1."""
    import socket
    small = [p for p in progs.items if len(p['obs'][1]) < 20000]
    rep = []
    bud.new_phase()
    d = V.Daemon(b); d.start()
    try:
        v0 = wait_status(d, 1)
        ck.count(('counter', 'idle'), nontrivial=True)
        if v0 != 1:
            ck.fail('c17:counter:idle', 'fresh daemon with no client reports active_clients=%s through STATUS (expected 1: the STATUS session itself)' % v0,
                    dict(case='counter', m=0, engine=tag, expected=1, observed=v0, theorem='C17_active_zero_when_done'))
        for m in (1, 3, 7):
            if bud.exhausted() or not d.alive():
                break
            picks = [small[(m + j) % len(small)] for j in range(m)]
            socks = []
            for p in picks:
                s_ = socket.socket(socket.AF_UNIX, socket.SOCK_STREAM); s_.settimeout(bud.timeout())
                t0 = time.time()
                while True:
                    try:
                        s_.connect(d.sock); break
                    except BlockingIOError:
                        if time.time() - t0 > 5:
                            raise
                        time.sleep(0.005)
                f = V.frame(V.T_LOAD_EXEC, p['blob'])
                s_.sendall(f[:8 + len(p['blob']) // 2])
                socks.append((s_, f[8 + len(p['blob']) // 2:]))
            v = wait_status(d, m + 1)
            ck.count(('counter', 'inflight', m), nontrivial=True)
            if v != m + 1:
                ck.fail('c17:counter:inflight:m=%d' % m, 'with %d sessions in flight STATUS reports active_clients=%s (expected %d)' % (m, v, m + 1),
                        dict(case='counter', m=m, engine=tag, expected=m + 1, observed=v, programs=[p['name'] for p in picks],
                             theorem='C17_active_balanced: the counter equals the number of sessions in flight'))
            for (s_, rest), p in zip(socks, picks):
                buf = b''; hung = False
                try:
                    s_.sendall(rest); s_.shutdown(socket.SHUT_WR)
                    while True:
                        x = s_.recv(65536)
                        if not x:
                            break
                        buf += x
                except socket.timeout:
                    hung = True
                except OSError:
                    pass
                s_.close()
                ck.count(('counter', 'client', m, p['name']), nontrivial=True)
                if hung:
                    bud.anomaly('hung: held session %s' % p['name'], hung=True)
                    for s2, _ in socks:          # do not wait one timeout per remaining held session
                        s2.settimeout(2.0)
                if not hung and exit_only(V.expected_client_obs(V.canon_reply(buf)), p['obs']):
                    fail_exit(ck, p, V.expected_client_obs(V.canon_reply(buf)), tag, m)
                elif hung or V.expected_client_obs(V.canon_reply(buf)) != p['obs']:
                    ck.fail('c17:client:%s:%s' % (p['kind'], hashlib.sha1(p['src'].encode()).hexdigest()[:10]),
                            'session held in flight with %d others %s' % (m - 1, 'was never completed by the daemon (timeout %g s)' % bud.timeout() if hung else 'got a result different from standalone'),
                            dict(case='client', program=p['src'], k=m, hung=hung, engine=tag, phase='counter tie: %d sessions held in flight' % m))
            v1 = wait_status(d, 1)
            if v1 != 1:
                ck.fail('c17:counter:after:m=%d' % m, 'after %d sessions completed STATUS reports active_clients=%s (expected 1)' % (m, v1),
                        dict(case='counter', m=m, engine=tag, expected=1, observed=v1, theorem='C17_active_zero_when_done'))
            rep.append(dict(m=m, status_in_flight=v, status_after=v1))
    finally:
        d.stop()
    return rep


class SilentPhase(threading.Thread):
    """The "silent interval" axis: programs that print, compute silently for about T seconds, and print again, served by their own
    daemon through `nano_vm --daemon` and through a generated daemon wrapper (nano_virt --daemon-wrapper), compared with standalone.
    Runs beside the concurrent rounds so that the wall time grows by little.  T is calibrated on this machine, now."""
    def __init__(self, ck, b, wd, targets):
        super().__init__(daemon=True)
        self.ck, self.b, self.wd, self.targets = ck, b, os.path.join(wd, 'silent'), targets
        self.report = []; self.error = None; self.fails = []

    def run(self):
        try:
            self._run()
        except Exception as e:          # reported by the main thread
            self.error = '%s: %s' % (type(e).__name__, e)

    def _run(self):
        b = self.b
        os.makedirs(self.wd, exist_ok=True)
        cal, diag = V.compile_nvm(b, V.gen_silent_program('CAL', 8, 24), self.wd, 'cal')
        if cal is None:
            raise RuntimeError('nano_virt refused the silent program: %s' % (diag,))
        t0 = time.time(); V.standalone(b, cal, timeout=120); unit = max(0.004, (time.time() - t0) / 8)
        items = []
        for T in self.targets:
            steps = max(10, min(5000, int(1.25 * T / unit)))
            src = V.gen_silent_program('SILENT%d' % T, steps, 24)
            nvm, diag = V.compile_nvm(b, src, self.wd, 'silent%d' % T)
            if nvm is None:
                raise RuntimeError('nano_virt refused the silent program: %s' % (diag,))
            wrap, wdiag = V.build_daemon_wrapper(b, os.path.join(self.wd, 'silent%d.nano' % T), os.path.join(self.wd, 'silent%d_wrapper' % T), self.wd)
            items.append(dict(T=T, steps=steps, src=src, nvm=nvm, wrapper=wrap, wrapper_diag=wdiag))
        d = V.Daemon(b); d.start()
        try:
            res = {}

            def one(key, cmd, env, tmo):
                t1 = time.time(); res[key] = (V.run_cmd(cmd, env=env, timeout=tmo), time.time() - t1)
            ths = []
            for it in items:
                tmo = 6 * it['T'] + 40
                ths.append(threading.Thread(target=one, args=((it['T'], 'standalone'), [b.bin('nano_vm'), it['nvm']], None, tmo)))
                ths.append(threading.Thread(target=one, args=((it['T'], 'nano_vm --daemon'), [b.bin('nano_vm'), '--daemon', it['nvm']], d.env, tmo)))
                if it['wrapper']:
                    ths.append(threading.Thread(target=one, args=((it['T'], 'daemon wrapper'), [it['wrapper']], d.env, tmo)))
            [t.start() for t in ths]; [t.join() for t in ths]
            alive = d.alive()
        finally:
            d.stop()
        for it in items:
            st, t_st = res[(it['T'], 'standalone')]
            row = dict(target_s=it['T'], steps=it['steps'], standalone_s=round(t_st, 1), wrapper_built=bool(it['wrapper']))
            if not it['wrapper']:
                row['wrapper_diag'] = str(it['wrapper_diag'])[:300]
            for how in ('nano_vm --daemon', 'daemon wrapper'):
                if (it['T'], how) not in res:
                    continue
                obs, t_o = res[(it['T'], how)]
                row[how.replace(' ', '_') + '_s'] = round(t_o, 1)
                exp = st
                if obs != exp:
                    self.fails.append(('c17:silent:%ds:%s' % (it['T'], how.replace(' ', '-')),
                        'a program that prints, computes silently for %.1f s and prints again is not served like standalone through %s: exit %s vs %s, stdout %r vs %r, stderr %r vs %r (client ended after %.1f s)' % (
                            t_st, how, obs[0], exp[0], obs[1][:60], exp[1][:60], obs[2][:80], exp[2][:80], t_o),
                        dict(case='silent', program=it['src'], silent_seconds_standalone=round(t_st, 1), target_seconds=it['T'], client=how, engine='nano_vmd(plain)',
                             expected=dict(exit=exp[0], stdout=exp[1].decode('utf-8', 'replace')[:300], stderr=exp[2].decode('utf-8', 'replace')[:200]),
                             observed=dict(exit=obs[0], stdout=obs[1].decode('utf-8', 'replace')[:300], stderr=obs[2].decode('utf-8', 'replace')[:200], seconds=round(t_o, 1)),
                             daemon_alive=alive, theorem='C17_client_waits_indefinitely / C17_daemon_transparent_partial')))
            self.report.append(row)

    def finish(self, ck):
        """called by the main thread after join()"""
        if self.error:
            raise RuntimeError('silent-interval phase failed: ' + self.error)
        for row in self.report:
            ck.count(('silent', row['target_s'], 'nano_vm --daemon'), nontrivial=True)
            if row.get('wrapper_built'):
                ck.count(('silent', row['target_s'], 'daemon wrapper'), nontrivial=True)
            if row['standalone_s'] < row['target_s']:
                ck.note('silent program calibrated for %d s ran only %.1f s standalone' % (row['target_s'], row['standalone_s']))
        for key, what, rep in self.fails:
            ck.fail(key, what, rep)
        return self.report


def shape_phase(ck, b, wd, bud):
    """The "output shape" family (deterministic): one print of exactly n bytes for n at the stdio-buffer, 64 KiB and MiB boundaries, the
    same volume as many small prints / as lines, a last print without newline, long and short prints interleaved, a long print followed by
    a runtime error; all at once through `nano_vm --daemon` on one daemon, some through a generated daemon wrapper; byte for byte and
    exit status against standalone."""
    sd = os.path.join(wd, 'shape'); os.makedirs(sd, exist_ok=True)
    rets = ['0', '7', '3', '255']
    names = ['single:%d' % n for n in V.SHAPE_LENGTHS] + ['small:73728', 'lines:73728', 'small:1048576', 'noeol:1', 'noeol:8193', 'noeol:73728', 'mix', 'err:73728', 'err:100']
    wrap_for = set(names) if ck.thorough else {'single:65537', 'single:73728', 'single:1048576', 'noeol:73728', 'mix'}
    items = []
    for i, nm in enumerate(names):
        src = V.gen_shape_program(nm, rets[i % len(rets)])
        fn = 'shape_%s' % nm.replace(':', '_')
        nvm, diag = V.compile_nvm(b, src, sd, fn)
        if nvm is None:
            raise RuntimeError('nano_virt refused shape program %s: %s' % (nm, diag))
        w = None
        if nm in wrap_for:
            w, wdiag = V.build_daemon_wrapper(b, os.path.join(sd, fn + '.nano'), os.path.join(sd, fn + '_wrapper'), sd)
        items.append(dict(name=nm, src=src, nvm=nvm, wrapper=w, obs=V.standalone(b, nvm, timeout=120)))
    bud.new_phase()
    res = {}
    d = V.Daemon(b); d.start()
    try:
        tmo = bud.timeout()

        def one(key, cmd):
            res[key] = V.run_cmd(cmd, env=d.env, timeout=tmo)
        ths = [threading.Thread(target=one, args=((it['name'], 'nano_vm --daemon'), [b.bin('nano_vm'), '--daemon', it['nvm']])) for it in items]
        ths += [threading.Thread(target=one, args=((it['name'], 'daemon wrapper'), [it['wrapper']])) for it in items if it['wrapper']]
        [t.start() for t in ths]; [t.join() for t in ths]
        health = daemon_health(ck, d, 'nano_vmd(plain) output shapes', quick=bool(bud.hangs))
    finally:
        d.stop()
    bad = 0
    for it in items:
        for how in ('nano_vm --daemon', 'daemon wrapper'):
            if (it['name'], how) not in res:
                continue
            obs, exp = res[(it['name'], how)], it['obs']
            ck.count(('shape', it['name'], how), nontrivial=True)
            if V.client_anomaly(obs) == 'hung':
                bud.anomaly('hung: shape %s' % it['name'], hung=True)
            if how == 'daemon wrapper' and obs[:2] == exp[:2] and obs[2].lower() == exp[2].lower():
                continue
            if obs != exp:
                bad += 1
                fd = next((j for j, (x, y) in enumerate(zip(obs[1], exp[1])) if x != y), min(len(obs[1]), len(exp[1])))
                ck.fail('c17:shape:%s:%s' % (it['name'], how.replace(' ', '-')),
                        'output shape %s through %s differs from standalone: exit %s vs %s, stdout %d vs %d bytes (first difference at %d), stderr %r vs %r' % (
                            it['name'], how, obs[0], exp[0], len(obs[1]), len(exp[1]), fd, obs[2][:80], exp[2][:80]),
                        dict(case='client', program=it['src'], k=1, shape=it['name'], client=how, engine='nano_vmd(plain)',
                             expected=dict(exit=exp[0], stdout_len=len(exp[1]), stderr=exp[2].decode('utf-8', 'replace')[:200]),
                             observed=dict(exit=obs[0], stdout_len=len(obs[1]), stderr=obs[2].decode('utf-8', 'replace')[:200]),
                             theorem='C17_receiver_limit_is_model / C17_daemon_transparent_partial'))
    return dict(shapes=len(items), wrappers=sum(1 for it in items if it['wrapper']), differing=bad, health=health,
                stdout_bytes={it['name']: len(it['obs'][1]) for it in items})


def unverified_case(ck, b, progs, bud):
    """Open finding replay: a module that standalone refuses is executed by the daemon (no crash needed)."""
    base = next(p for p in progs.items if p['kind'] == 'lines')
    blob = V.hostile_module(base['blob'], 'code_length')
    wd = tempfile.mkdtemp(prefix='c17u_', dir=vlib.BUILD)
    try:
        hp = os.path.join(wd, 'unverified.nvm'); open(hp, 'wb').write(blob)
        st = V.standalone(b, hp)
        with V.Daemon(b) as d:
            dm = V.via_daemon(b, d, hp, timeout=bud.timeout())
            alive = d.alive()
        if V.client_anomaly(dm) == 'hung':
            bud.anomaly('hung: single client, unverified module', hung=True)
    finally:
        shutil.rmtree(wd, ignore_errors=True)
    ck.count(('unverified', 'code_length'), nontrivial=True)
    refused = st[0] == 1 and b'Bytecode verification failed' in st[2]
    # compare modulo the file name, which only the standalone tool knows
    st_norm = (st[0], st[1], re.sub(rb" for '[^']*'", b'', st[2]))
    if refused and alive and (dm[0], dm[1]) != (st[0], st[1]):
        ck.fail(KEY_UNVERIFIED, 'module refused by standalone nano_vm (nvm_verify) is executed by the daemon: exit %s, %d output bytes' % (dm[0], len(dm[1])),
                dict(case='unverified', hostile_kind='code_length', input_hex=blob.hex(), base_program=base['src'],
                     expected=dict(exit=st[0], stdout_len=len(st[1]), stderr=st[2].decode('utf-8', 'replace')[:200]),
                     observed=dict(exit=dm[0], stdout_len=len(dm[1]), stderr=dm[2].decode('utf-8', 'replace')[:200])))
    elif refused and alive and dm != st_norm:
        # same exit and output, only the wording of the refusal differs beyond the file name
        ck.note('refusal text differs: standalone %r daemon %r' % (st[2][:120], dm[2][:120]))
    return dict(standalone=dict(exit=st[0], stderr=st[2].decode('utf-8', 'replace')[:160]), daemon=dict(exit=dm[0], stdout_len=len(dm[1]), stderr=dm[2].decode('utf-8', 'replace')[:160]), daemon_alive=alive)


def tsan_reports(err):
    reps = []
    for m in re.finditer(r'WARNING: ThreadSanitizer: ([^\n]+)\n(.*?)(?:\n={10,}|\Z)', err, re.S):
        body = m.group(2)
        funcs = re.findall(r'#\d+ (\w+) ', body)[:6]
        locs = re.findall(r'(?:Location is global|global) \'?(\w+)\'?', body)
        reps.append(dict(kind=m.group(1).strip(), funcs=funcs, globals=locs, text=m.group(0)[:1500]))
    return reps


def tsan_cold_burst(ck, bt, progs, bud, n=12):
    """Fresh TSan daemon; n pre-connected clients release their LOAD_EXEC requests at the same instant, so that several sessions
    are inside crc32_init()/nvm_crc32() before any of them has written to its socket (TSan treats every socket write/read pair as
    a release/acquire on one global object, which hides the race from later arrivals)."""
    import socket
    small = [p for p in progs.items if len(p['obs'][1]) < 20000 and p['obs'][2] == b'']
    d = V.Daemon(bt, env_extra=dict(TSAN_OPTIONS='halt_on_error=0:report_signal_unsafe=0'))
    d.start()
    out = [None] * n
    try:
        socks = []
        for i in range(n):
            s = socket.socket(socket.AF_UNIX, socket.SOCK_STREAM); s.settimeout(bud.timeout())
            t0 = time.time()
            while True:
                try:
                    s.connect(d.sock); break
                except BlockingIOError:
                    if time.time() - t0 > 5:
                        raise
                    time.sleep(0.005)
            socks.append(s)
        time.sleep(0.3)                       # all n handler threads are now blocked reading their header
        bar = threading.Barrier(n)

        def go(i):
            p = small[i % len(small)]
            data = V.frame(V.T_LOAD_EXEC, p['blob'])
            buf = b''; hung = False
            try:
                bar.wait(30)
                socks[i].sendall(data); socks[i].shutdown(socket.SHUT_WR)
                while True:
                    x = socks[i].recv(65536)
                    if not x:
                        break
                    buf += x
            except socket.timeout:
                hung = True
            except (OSError, threading.BrokenBarrierError):
                pass
            out[i] = (p, buf, hung)
        ths = [threading.Thread(target=go, args=(i,)) for i in range(n)]
        [t.start() for t in ths]; [t.join() for t in ths]
        for s in socks:
            s.close()
        time.sleep(0.3)
        health = daemon_health(ck, d, 'nano_vmd(tsan) cold burst', quick=bool(bud.hangs) or any(o and o[2] for o in out))
        err = d.stderr()
    finally:
        d.stop()
    for i, o in enumerate(out):
        if o is None:
            continue
        p, buf, hung = o
        ck.count(('tsanburst', p['name'], i), nontrivial=True)
        if hung:
            bud.anomaly('hung: cold burst client %d %s' % (i, p['name']), hung=True)
        if not hung and exit_only(V.expected_client_obs(V.canon_reply(buf)), p['obs']):
            fail_exit(ck, p, V.expected_client_obs(V.canon_reply(buf)), 'nano_vmd(tsan)', n)
        elif hung or V.expected_client_obs(V.canon_reply(buf)) != p['obs']:
            ck.fail('c17:client:%s:%s' % (p['kind'], hashlib.sha1(p['src'].encode()).hexdigest()[:10]),
                    'client %d of the simultaneous cold-start burst of %d %s' % (i, n, 'was never served (timeout)' if hung else 'observed a result different from standalone'),
                    dict(case='client', program=p['src'], k=n, hung=hung, engine='nano_vmd(tsan)', phase='simultaneous cold-start burst of %d raw clients' % n))
    return tsan_reports(err), health


def report_tsan(ck, reps):
    for r in reps:
        if r['globals'] and all(g.startswith('vm_verif_') for g in r['globals']):
            # the racing location is a variable of the verification hooks (guard NANOLANG_VERIF: vm_verif_env_read is the
            # write-once "environment consulted" flag of hook h1); it does not exist in the product build
            ck.extra.setdefault('tsan_hook_artefacts', [])
            if r['globals'] not in ck.extra['tsan_hook_artefacts']:
                ck.extra['tsan_hook_artefacts'].append(r['globals'])
            continue
        if any(f.startswith('ffi_loader') for f in r['funcs']) and ('vm_ffi_call' in r['funcs'] or 'vm_ffi_init' in r['funcs']):
            ck.fail(KEY_TSAN_FFI, 'ThreadSanitizer: %s on the FFI loader state (runtime/ffi_loader.c) between sessions that fell back to in-process FFI' % r['kind'],
                    dict(case='tsan', report=r['text']))
            continue
        if 'crc32' in ' '.join(r['funcs'] + r['globals']) or 'nvm_crc32' in r['text']:
            ck.fail(KEY_TSAN_CRC, 'ThreadSanitizer: %s in crc32_init/nvm_crc32 (lazy table initialisation without synchronisation)' % r['kind'],
                    dict(case='tsan', report=r['text']))
        else:
            ck.fail('c17:tsan:%s:%s' % (r['kind'].split('(')[0].strip().replace(' ', '-'), '-'.join(r['funcs'][:2])),
                    'ThreadSanitizer report in the daemon: %s' % r['kind'], dict(case='tsan', report=r['text']))


def run(ck):
    b = ck.build('plain')
    ck.gen(['gen_vmdconsts', 'gen_vmdfacts', 'gen_sharedstate', 'gen_sigsites', 'gen_vmdrecv'])
    ck.prove()
    ref = ck.nvref('c17')
    probe = ck.probe('vmd_probe.c', 'plain')
    wd = tempfile.mkdtemp(prefix='c17_', dir=vlib.BUILD)
    try:
        progs = V.Programs(b, wd)
        nprog = 32 if ck.thorough else 16
        kinds = list(V.PROGRAM_KINDS) + ['ffi']
        for i in range(nprog):
            progs.add(ck.rng, 'C%02d%s' % (i, 'qwertyuiopasdfghjklzxcvbnmQWERTY'[i % 32]), kinds[i % len(kinds)], scale=2 if ck.thorough else 1)
        ck.extra['programs'] = dict(count=len(progs.items), kinds={k: sum(1 for p in progs.items if p['kind'] == k) for k in kinds},
                                    stdout_bytes=dict(min=min(len(p['obs'][1]) for p in progs.items), max=max(len(p['obs'][1]) for p in progs.items),
                                                      total=sum(len(p['obs'][1]) for p in progs.items)),
                                    with_runtime_error=sum(1 for p in progs.items if p['obs'][2] != b''),
                                    exit_statuses=sorted(set(p['obs'][0] for p in progs.items)))
        # standalone is deterministic (otherwise the comparison means nothing)
        for p in progs.items[:6]:
            again = V.standalone(b, p['nvm'])
            if again != p['obs']:
                ck.fail('c17:standalone-nondeterministic:' + p['kind'], 'two standalone runs of one module differ', dict(case='client', program=p['src']))
        ck.extra['crc_cases'] = crc_corr(ck, ref, probe, progs)
        ks = [2, 8, 16, 16] if not ck.thorough else [2, 16, 64]
        bud = V.Budget(t_first=60.0, t_after=20.0, k=3, wall=200.0 if not ck.thorough else 1000.0)
        silent = SilentPhase(ck, b, wd, [7] if not ck.thorough else [2, 6, 12])
        silent.start()
        rep, health, err = rounds(ck, b, ref, progs, 'nano_vmd(plain)', ks, bud, nrounds=4 if not ck.thorough else 6)
        ck.extra['rounds_plain'] = rep
        ck.extra['health_plain'] = health
        ck.extra['overlap_max'] = max([r['overlap_max'] for r in rep] + [0])
        if ck.extra['overlap_max'] < 2:
            ck.note('sessions never overlapped (max simultaneous = %d): isolation was not exercised' % ck.extra['overlap_max'])
        ck.extra['output_shapes'] = shape_phase(ck, b, wd, bud)
        ck.extra['counter_tie'] = counter_tie(ck, b, progs, bud)
        silent.join()
        ck.extra['silent_interval'] = silent.finish(ck)
        ck.extra['unverified_module'] = unverified_case(ck, b, progs, bud)
        cdir = os.path.join(vlib.VERIF, 'corpus', 'C17')
        for fn in sorted(os.listdir(cdir)) if os.path.isdir(cdir) else []:
            if fn.endswith('.nvm'):
                fp = os.path.join(cdir, fn)
                st = V.standalone(b, fp)
                with V.Daemon(b) as dm:
                    r = V.via_daemon(b, dm, fp, timeout=bud.timeout())
                ck.count(('corpus', fn), nontrivial=True)
                ck.extra.setdefault('corpus', {})[fn] = dict(standalone_exit=st[0], daemon_exit=r[0], daemon_stdout_len=len(r[1]))
                if (r[0], r[1]) != (st[0], st[1]):
                    key = KEY_UNVERIFIED if fn == 'unverified_code_length.nvm' else 'c17:corpus:' + fn
                    ck.fail(key, 'corpus module %s: daemon result (exit %s, %d bytes) differs from standalone (exit %s, %d bytes)' % (fn, r[0], len(r[1]), st[0], len(st[1])),
                            dict(case='unverified', hostile_kind='corpus:' + fn, input_hex=open(fp, 'rb').read().hex()))
        # simultaneous cold start on the ThreadSanitizer build (both tiers: this is where the lazy CRC initialisation races)
        def skip(phase):
            """Optional phases are dropped only when the budget is gone AND failures are already on record."""
            if bud.left() <= 0 and ck.failures:
                ck.note('time budget used up after recorded failures: phase "%s" skipped' % phase)
                ck.extra.setdefault('skipped_phases', []).append(phase)
                return True
            return False
        if not skip('tsan cold burst'):
            bt = ck.build('tsan')
            reps, health_b = tsan_cold_burst(ck, bt, progs, bud, n=12 if not ck.thorough else 24)
            ck.extra['tsan_cold_burst'] = dict(health=health_b, reports=[dict(kind=r['kind'], funcs=r['funcs'][:4], globals=r['globals']) for r in reps[:10]])
            report_tsan(ck, reps)
        if ck.thorough and not skip('tsan rounds'):
            bt = ck.build('tsan')
            rep_t, health_t, err_t = rounds(ck, bt, ref, progs, 'nano_vmd(tsan)', [16, 32], bud, nrounds=2,
                                            env_extra=dict(TSAN_OPTIONS='halt_on_error=0:report_signal_unsafe=0:history_size=4'))
            ck.extra['rounds_tsan'] = rep_t; ck.extra['health_tsan'] = health_t
            reps = tsan_reports(err_t)
            ck.extra['tsan_reports_rounds'] = [dict(kind=r['kind'], funcs=r['funcs'], globals=r['globals']) for r in reps[:10]]
            report_tsan(ck, reps)
        if ck.thorough and not skip('asan rounds'):
            ba = ck.build('asan')
            rep_a, health_a, err_a = rounds(ck, ba, ref, progs, 'nano_vmd(asan)', [16], bud, nrounds=2,
                                            env_extra=dict(ASAN_OPTIONS='detect_leaks=0:abort_on_error=1', UBSAN_OPTIONS='halt_on_error=1'))
            ck.extra['rounds_asan'] = rep_a; ck.extra['health_asan'] = health_a
            if 'Sanitizer' in err_a or 'runtime error:' in err_a:
                ck.fail('c17:asan:' + hashlib.sha1(err_a.encode()).hexdigest()[:8], 'sanitizer report in the daemon under concurrent well-formed clients',
                        dict(case='asan', report=err_a[-3000:]))
        ck.extra['budget'] = bud.summary()
        p = progs.items[1]
        ck.sample(dict(program=p['name'], standalone=dict(exit=p['obs'][0], stdout_head=p['obs'][1][:60].decode('utf-8', 'replace'), stdout_len=len(p['obs'][1])),
                       note='every concurrent client of this module observed exactly this'))
        p = next(q for q in progs.items if q['kind'] == 'rterr')
        ck.sample(dict(program=p['name'], standalone=dict(exit=p['obs'][0], stderr=p['obs'][2].decode(), stdout_len=len(p['obs'][1]))))
    finally:
        shutil.rmtree(wd, ignore_errors=True)
    ck.cov['rule'] = ('rounds of k concurrent clients (k in %s) x arrival jitter {0, 4 ms, 30 ms}; modules drawn with repetition from generated programs of 9 kinds '
                      '(line printers, global state, heap-heavy strings, unterminated last line, runtime error after partial line, arrays, >300 KB output, silent, mixed); '
                      '3/4 real nano_vm --daemon clients, 1/4 raw sockets whose reply is also run through the extracted client loop; overlap measured by STATUS polling; '
                      'counter tie: m in {1,3,7} sessions held in flight vs STATUS; output-shape family: single prints of 1 B .. 4 MiB at the 8 KiB / 64 KiB boundaries, the same volume as small prints, no final newline, interleaved, long print + runtime error; silent-interval axis: print / compute silently ~7 s (thorough 2, 6, 12 s, calibrated at run time) / print, '
                      'through nano_vm --daemon and a generated daemon wrapper; '
                      'non-trivial = a client with output in a round of k > 1; distinct = (module, round, client index)' % ks)
    ck.extra['exhaustive'] = False
    ck.trusted += ['tools/gen/gen_sharedstate.py: nm inventory of the objects in nano_vmd\'s link list (tools/build_repo.py); reachability from ld --gc-sections --print-gc-sections '
                   'and from the objdump relocation graph rooted at .text.client_thread (objects recompiled with -ffunction-sections -fdata-sections)',
                   'tools/gen/gen_vmdfacts.py (clang AST), gen_vmdconsts.py + dump_vmdconsts.c',
                   'extraction: ExtrOcamlBasic only; extract/nvio.ml + c17_driver.ml',
                   'tools/props/vmd_common.py (private daemon, frame parser, python transcription of the client loop for raw sessions); probes/vmd_probe.c',
                   'the scheduler of the host: interleavings are those the kernel produced under the seeded arrival jitter; no yields are injected inside the daemon']
    ck.assumptions += ['the client is a blocking reader with no time limit between connect and EXIT_CODE (model: client_loop is a function of the reply bytes; source: generated flag vmd_client_has_timeout = false, theorem C17_client_waits_indefinitely)',
                       'sequential consistency for the shared CRC table (the C11 data race on crc32_initialized/crc32_table is outside the model; TSan build in the thorough tier)',
                       'classes of SharedClasses.v are asserted by reading; sessions that perform extern calls (PerProcessFfi symbols: FFI module table, runtime allocator gc_state) '
                       'are outside the isolation theorem and outside the generated programs',
                       'dlopen-ed FFI modules could name exported symbols that the relocation graph does not show',
                       'STATUS and SHUTDOWN observe/alter shared state by design and are excluded from the isolation statement',
                       'transparency is stated for modules that standalone accepts; o_run (the VM run) is an oracle shared by both sides of C17_daemon_transparent_partial']


def replay(ck, d):
    b = ck.build('plain'); ck.gen(['gen_vmdconsts', 'gen_vmdfacts', 'gen_sharedstate', 'gen_sigsites', 'gen_vmdrecv'])
    kind = d.get('case')
    wd = tempfile.mkdtemp(prefix='c17r_', dir=vlib.BUILD)
    try:
        if kind == 'silent':
            nvm, diag = V.compile_nvm(b, d['program'], wd, 'silent')
            st = V.standalone(b, nvm, timeout=300)
            with V.Daemon(b) as dm:
                o = V.via_daemon(b, dm, nvm, timeout=300)
            print('standalone:', st); print('via daemon:', o)
            print('REPRODUCED' if o != st else 'not reproduced'); return 1 if o != st else 0
        if kind in ('client', 'clientloop', 'exit-status'):
            nvm, diag = V.compile_nvm(b, d['program'], wd, 'replay')
            if nvm is None:
                print('program no longer compiles:', diag); return 1
            st = V.standalone(b, nvm)
            k = int(d.get('k', 16))
            res = [None] * k
            with V.Daemon(b) as dm:
                ths = [threading.Thread(target=lambda i=i: res.__setitem__(i, V.via_daemon(b, dm, nvm, timeout=25))) for i in range(k)]
                [t.start() for t in ths]; [t.join() for t in ths]
            badn = sum(1 for r in res if r != st)
            print('standalone: exit %s, %d stdout bytes, stderr %r' % (st[0], len(st[1]), st[2][:100]))
            print('%d of %d concurrent daemon clients differ (%d never served within 25 s)' % (badn, k, sum(1 for r in res if V.client_anomaly(r) == 'hung')))
            print('REPRODUCED' if badn else 'not reproduced'); return 1 if badn else 0
        if kind == 'unverified':
            hp = os.path.join(wd, 'u.nvm'); open(hp, 'wb').write(bytes.fromhex(d['input_hex']))
            st = V.standalone(b, hp)
            with V.Daemon(b) as dm:
                r = V.via_daemon(b, dm, hp)
            print('standalone:', st[0], st[2][:160]); print('daemon    :', r[0], len(r[1]), 'stdout bytes', r[2][:160])
            rep = (r[0], r[1]) != (st[0], st[1])
            print('REPRODUCED' if rep else 'not reproduced'); return 1 if rep else 0
        if kind == 'counter':
            import socket
            m = int(d.get('m', 0) or 0)
            with V.Daemon(b) as dm:
                held = []
                for _ in range(m):
                    s_ = socket.socket(socket.AF_UNIX); s_.connect(dm.sock); s_.sendall(V.header(V.T_LOAD_EXEC, 1000) + b'x' * 10); held.append(s_)
                v = wait_status(dm, m + 1)
                for s_ in held:
                    s_.close()
                v1 = wait_status(dm, 1)
            print('%d sessions held in flight: STATUS active_clients=%s (expected %d); after they ended: %s (expected 1)' % (m, v, m + 1, v1))
            rep = v != m + 1 or v1 != 1
            print('REPRODUCED' if rep else 'not reproduced'); return 1 if rep else 0
        if kind == 'crc':
            ref = ck.nvref('c17'); probe = ck.probe('vmd_probe.c', 'plain')
            a = vlib.run_lines(probe, [d['input']])[0]; m = vlib.run_lines(V.nvref_cmd(ref), [d['input']])[0]
            print('impl', a, 'model', m); print('REPRODUCED' if a != m else 'not reproduced'); return 1 if a != m else 0
    finally:
        shutil.rmtree(wd, ignore_errors=True)
    print('replay kind %r: run the full check (thorough tier for tsan/asan)' % kind)
    return 1
