"""C17 -- daemon execution is transparent and concurrent clients are isolated.
Proof: NV/Props/Properties_C17.v (Proto/Sessions.v interleaving model + lazy CRC table under SC, Proto/Vmd.v handler/client loop,
Proto/SharedClasses.v over the regenerated inventory NV/gen/SharedState.v).
Correspondence (hook h3, one private nano_vmd per phase):
  (A) k concurrent clients (k <= 16 quick / 64 thorough) with seeded arrival jitter, programs with long distinctive outputs;
      each `nano_vm --daemon x.nvm` observation (stdout bytes, stderr bytes, exit) must equal `nano_vm x.nvm` of the same tree;
      a quarter of the clients are raw sockets whose reply bytes are also decoded by the extracted client loop (client_observe);
  (B) the specified CRC-32 (Sessions.crc32_spec) vs the real nvm_crc32 (probe) and vs the checksum nano_virt wrote in each module;
  (C) thorough: the same rounds against the ThreadSanitizer build of the daemon; reports are findings."""
import os, sys, json, time, struct, threading, tempfile, shutil, hashlib, random, re
import vlib
import vmd_common as V

KEY_UNVERIFIED = 'c17:transparency:unverified-module:code_length'
KEY_TSAN_CRC = 'c17:tsan:data-race:crc32_init'


def hx(b):
    return b.hex() if b else '-'


def crc_corr(ck, ref, probe, progs):
    rng = ck.rng
    lines = []
    for p in progs.items:
        lines.append('crc ' + hx(p['blob'][32:]))
    for n in [0, 1, 2, 3, 4, 7, 8, 255, 256, 257, 1000]:
        lines.append('crc ' + hx(bytes(rng.randrange(256) for _ in range(n))))
    for _ in range(300 if ck.thorough else 60):
        lines.append('crc ' + hx(bytes(rng.randrange(256) for _ in range(rng.randrange(0, 64)))))
    for b_ in range(256):
        lines.append('crc %02x' % b_)
    impl = vlib.run_lines(probe, lines)
    model = vlib.run_lines(V.nvref_cmd(ref), lines)
    for i, (l, a, m) in enumerate(zip(lines, impl, model)):
        ck.count(('crc', l[:200]), nontrivial=l != 'crc -')
        if a != m:
            ck.fail('c17:crc:' + l[:60], 'nvm_crc32 differs from Sessions.crc32_spec: impl=%s model=%s' % (a, m),
                    dict(case='crc', input=l, expected_model=m, observed_impl=a, correspondence='vmd_probe crc vs nvref_c17'))
            break
    for p, m in zip(progs.items, model):
        stored = '%x' % struct.unpack_from('<I', p['blob'], 28)[0]
        if stored != m:
            ck.fail('c17:crc:header:' + p['name'], 'checksum stored by nano_virt differs from the specified CRC-32 of the body',
                    dict(case='crc', program=p['src'], expected_model=m, observed_impl=stored))
    return len(lines)


class Monitor(threading.Thread):
    """Polls STATUS to measure how many sessions really overlapped."""
    def __init__(self, d):
        super().__init__(daemon=True)
        self.d = d; self.stop = threading.Event(); self.maxv = 0; self.samples = 0

    def run(self):
        while not self.stop.is_set():
            v = self.d.status(timeout=2.0)
            if v is not None:
                self.samples += 1
                self.maxv = max(self.maxv, v - 1)     # minus the STATUS session itself
            time.sleep(0.002)


def one_round(ck, b, d, ref, progs, k, jitter, seed, tag, raw_share=0.25):
    """k clients with arrival jitter against daemon d.  Returns (n_bad, overlap_max, details)."""
    r = random.Random(seed)
    picks = [r.choice(progs.items) for _ in range(k)]
    delays = [r.random() * jitter for _ in range(k)]
    raws = [r.random() < raw_share for _ in range(k)]
    res = [None] * k

    def client(i):
        time.sleep(delays[i])
        p = picks[i]
        if raws[i]:
            try:
                rr = V.raw_session(d.sock, V.frame(V.T_LOAD_EXEC, p['blob']), timeout=180)
                res[i] = ('raw', rr['recv'], rr)
            except OSError as e:
                res[i] = ('raw', b'', dict(error=str(e)))
        else:
            res[i] = ('cli', V.via_daemon(b, d, p['nvm'], timeout=180), None)

    mon = Monitor(d); mon.start()
    ths = [threading.Thread(target=client, args=(i,)) for i in range(k)]
    for t in ths:
        t.start()
    for t in ths:
        t.join()
    mon.stop.set(); mon.join(3)
    bad = 0
    raw_lines, raw_idx = [], []
    for i, (p, rs) in enumerate(zip(picks, res)):
        base = dict(case='client', program=p['src'], program_name=p['name'], program_kind=p['kind'], k=k, jitter=jitter, round_seed=seed,
                    engine=tag, client_index=i, client_type=rs[0])
        key = 'c17:client:%s:%s' % (p['kind'], hashlib.sha1(p['src'].encode()).hexdigest()[:10])
        if rs[0] == 'cli':
            obs = rs[1]
        else:
            c = V.canon_reply(rs[1])
            obs = V.expected_client_obs(c)
            if len(rs[1]) <= 100000:            # the extracted client loop appends lists: quadratic on very long replies
                raw_lines.append('obs ' + hx(rs[1])); raw_idx.append(i)
            fs, rest = V.parse_frames(rs[1])
            exits = [f for f in fs if f[0] == V.T_EXIT]
            if rest or not c['ordered'] or not c['hdr_ok'] or len(exits) != 1 or fs[-1][0] != V.T_EXIT:
                bad += 1
                ck.fail(key + ':framing', 'reply stream of a LOAD_EXEC session is not OUTPUT* [ERROR] EXIT_CODE', dict(base, frames=[(f[0], len(f[1])) for f in fs][-6:], rest=rest.hex()[:100]))
        ck.count(('client', tag, p['name'], k, jitter, seed, i), nontrivial=len(p['obs'][1]) > 0 and k > 1)
        if obs != p['obs']:
            bad += 1
            exp = p['obs']
            fd = next((j for j, (x, y) in enumerate(zip(obs[1], exp[1])) if x != y), min(len(obs[1]), len(exp[1])))
            ck.fail(key, 'client %d/%d (%s) observed a result different from standalone nano_vm: exit %s vs %s, stdout %d vs %d bytes (first difference at %d), stderr %r vs %r' % (
                        i, k, rs[0], obs[0], exp[0], len(obs[1]), len(exp[1]), fd, obs[2][:80], exp[2][:80]),
                    dict(base, expected=dict(exit=exp[0], stdout_len=len(exp[1]), stderr=exp[2].decode('utf-8', 'replace')[:300]),
                         observed=dict(exit=obs[0], stdout_len=len(obs[1]), stderr=obs[2].decode('utf-8', 'replace')[:300],
                                       stdout_around_diff=obs[1][max(0, fd - 40):fd + 80].decode('utf-8', 'replace'))))
    # the extracted client loop on the very bytes the raw clients received
    if raw_lines:
        mo = vlib.run_lines(V.nvref_cmd(ref), raw_lines, timeout=600)
        for i, m in zip(raw_idx, mo):
            p = picks[i]
            f = m.split()
            mobs = (int(f[5]), bytes.fromhex(f[1]) if f[1] != '-' else b'', bytes.fromhex(f[3]) if f[3] != '-' else b'')
            ck.count(('clientloop', tag, p['name'], seed, i), nontrivial=True)
            if mobs != p['obs']:
                bad += 1
                ck.fail('c17:clientloop:%s' % p['name'], 'extracted client_observe on the daemon\'s reply bytes differs from the standalone observation',
                        dict(case='clientloop', program=p['src'], expected=str(p['obs'])[:400], observed_model=str(mobs)[:400], reply_hex=res[i][1].hex()[:2000]))
    return bad, mon.maxv, dict(k=k, jitter=jitter, seed=seed, overlap_max=mon.maxv, raw=sum(raws), status_samples=mon.samples,
                               kinds=sorted(set(p['kind'] for p in picks)))


def daemon_health(ck, d, tag, t_idle=10):
    alive = d.alive()
    pong = d.ping() if alive else False
    idle = None
    if alive:
        t0 = time.time()
        while time.time() - t0 < t_idle:
            idle = d.status()
            if idle == 1:
                break
            time.sleep(0.05)
    if not alive or not pong:
        ck.fail('c17:daemon-died', 'daemon died or stopped answering during well-formed concurrent sessions (exit status %s)' % d.exit_status(),
                dict(case='health', engine=tag, stderr=d.stderr()[-2000:]))
    elif idle != 1:
        ck.fail('c17:active-clients-leak', 'STATUS reports active_clients=%s after all clients finished' % idle, dict(case='health', engine=tag))
    out = d.stdout()
    if out:
        ck.fail('c17:leak:daemon-stdout', 'program output appeared on the daemon\'s own stdout instead of a client connection',
                dict(case='health', engine=tag, observed=out[:300].decode('utf-8', 'replace')))
    return dict(alive=alive, pong=pong, idle_status=idle)


def rounds(ck, b, ref, progs, tag, ks, env_extra=None, nrounds=3):
    rep = []
    d = V.Daemon(b, env_extra=env_extra)
    d.start()
    try:
        for ri in range(nrounds):
            for k in ks:
                jitter = [0.0, 0.004, 0.03][ri % 3]
                seed = ck.seed * 7919 + ri * 131 + k
                bad, ov, det = one_round(ck, b, d, ref, progs, k, jitter, seed, tag)
                rep.append(det)
                if not d.alive():
                    break
        health = daemon_health(ck, d, tag)
        err = d.stderr()
    finally:
        d.stop()
    return rep, health, err


def unverified_case(ck, b, progs):
    """Open finding replay: a module that standalone refuses is executed by the daemon (no crash needed)."""
    base = next(p for p in progs.items if p['kind'] == 'lines')
    blob = V.hostile_module(base['blob'], 'code_length')
    wd = tempfile.mkdtemp(prefix='c17u_', dir=vlib.BUILD)
    try:
        hp = os.path.join(wd, 'unverified.nvm'); open(hp, 'wb').write(blob)
        st = V.standalone(b, hp)
        with V.Daemon(b) as d:
            dm = V.via_daemon(b, d, hp, timeout=60)
            alive = d.alive()
    finally:
        shutil.rmtree(wd, ignore_errors=True)
    ck.count(('unverified', 'code_length'), nontrivial=True)
    refused = st[0] == 1 and b'Bytecode verification failed' in st[2]
    # compare modulo the file name, which only the standalone tool knows
    st_norm = (st[0], st[1], re.sub(rb" for '[^']*'", b'', st[2]))
    if refused and alive and (dm[0], dm[1]) != (st[0], st[1]):
        ck.fail(KEY_UNVERIFIED, 'module refused by standalone nano_vm (nvm_verify) is executed by the daemon: exit %s, %d output bytes' % (dm[0], len(dm[1])),
                dict(case='unverified', hostile_kind='code_length', input_hex=blob.hex(), base_program=base['src'],
                     expected=dict(exit=st[0], stdout_len=len(st[1]), stderr=st[2].decode('utf-8', 'replace')[:200]),
                     observed=dict(exit=dm[0], stdout_len=len(dm[1]), stderr=dm[2].decode('utf-8', 'replace')[:200])))
    elif refused and alive and dm != st_norm:
        # same exit and output, only the wording of the refusal differs beyond the file name
        ck.note('refusal text differs: standalone %r daemon %r' % (st[2][:120], dm[2][:120]))
    return dict(standalone=dict(exit=st[0], stderr=st[2].decode('utf-8', 'replace')[:160]), daemon=dict(exit=dm[0], stdout_len=len(dm[1]), stderr=dm[2].decode('utf-8', 'replace')[:160]), daemon_alive=alive)


def tsan_reports(err):
    reps = []
    for m in re.finditer(r'WARNING: ThreadSanitizer: ([^\n]+)\n(.*?)(?:\n={10,}|\Z)', err, re.S):
        body = m.group(2)
        funcs = re.findall(r'#\d+ (\w+) ', body)[:6]
        locs = re.findall(r'(?:Location is global|global) \'?(\w+)\'?', body)
        reps.append(dict(kind=m.group(1).strip(), funcs=funcs, globals=locs, text=m.group(0)[:1500]))
    return reps


def tsan_cold_burst(ck, bt, progs, n=12):
    """Fresh TSan daemon; n pre-connected clients release their LOAD_EXEC requests at the same instant, so that several sessions
    are inside crc32_init()/nvm_crc32() before any of them has written to its socket (TSan treats every socket write/read pair as
    a release/acquire on one global object, which hides the race from later arrivals)."""
    import socket
    small = [p for p in progs.items if len(p['obs'][1]) < 20000 and p['obs'][0] == 0]
    d = V.Daemon(bt, env_extra=dict(TSAN_OPTIONS='halt_on_error=0:report_signal_unsafe=0'))
    d.start()
    out = [None] * n
    try:
        socks = []
        for i in range(n):
            s = socket.socket(socket.AF_UNIX, socket.SOCK_STREAM); s.settimeout(120)
            while True:
                try:
                    s.connect(d.sock); break
                except BlockingIOError:
                    time.sleep(0.005)
            socks.append(s)
        time.sleep(0.3)                       # all n handler threads are now blocked reading their header
        bar = threading.Barrier(n)

        def go(i):
            p = small[i % len(small)]
            data = V.frame(V.T_LOAD_EXEC, p['blob'])
            bar.wait()
            socks[i].sendall(data); socks[i].shutdown(socket.SHUT_WR)
            buf = b''
            while True:
                x = socks[i].recv(65536)
                if not x:
                    break
                buf += x
            out[i] = (p, buf)
        ths = [threading.Thread(target=go, args=(i,)) for i in range(n)]
        [t.start() for t in ths]; [t.join() for t in ths]
        for s in socks:
            s.close()
        time.sleep(0.3)
        health = daemon_health(ck, d, 'nano_vmd(tsan) cold burst')
        err = d.stderr()
    finally:
        d.stop()
    for i, o in enumerate(out):
        if o is None:
            continue
        p, buf = o
        ck.count(('tsanburst', p['name'], i), nontrivial=True)
        if V.expected_client_obs(V.canon_reply(buf)) != p['obs']:
            ck.fail('c17:client:%s:%s' % (p['kind'], hashlib.sha1(p['src'].encode()).hexdigest()[:10]),
                    'client %d of the simultaneous cold-start burst observed a result different from standalone' % i,
                    dict(case='client', program=p['src'], k=n, engine='nano_vmd(tsan)'))
    return tsan_reports(err), health


def report_tsan(ck, reps):
    for r in reps:
        if r['globals'] and all(g.startswith('vm_verif_') for g in r['globals']):
            # the racing location is a variable of the verification hooks (guard NANOLANG_VERIF: vm_verif_env_read is the
            # write-once "environment consulted" flag of hook h1); it does not exist in the product build
            ck.extra.setdefault('tsan_hook_artefacts', [])
            if r['globals'] not in ck.extra['tsan_hook_artefacts']:
                ck.extra['tsan_hook_artefacts'].append(r['globals'])
            continue
        if 'crc32' in ' '.join(r['funcs'] + r['globals']) or 'nvm_crc32' in r['text']:
            ck.fail(KEY_TSAN_CRC, 'ThreadSanitizer: %s in crc32_init/nvm_crc32 (lazy table initialisation without synchronisation)' % r['kind'],
                    dict(case='tsan', report=r['text']))
        else:
            ck.fail('c17:tsan:%s:%s' % (r['kind'].split('(')[0].strip().replace(' ', '-'), '-'.join(r['funcs'][:2])),
                    'ThreadSanitizer report in the daemon: %s' % r['kind'], dict(case='tsan', report=r['text']))


def run(ck):
    b = ck.build('plain')
    ck.gen(['gen_vmdconsts', 'gen_vmdfacts', 'gen_sharedstate'])
    ck.prove()
    ref = ck.nvref('c17')
    probe = ck.probe('vmd_probe.c', 'plain')
    wd = tempfile.mkdtemp(prefix='c17_', dir=vlib.BUILD)
    try:
        progs = V.Programs(b, wd)
        nprog = 32 if ck.thorough else 16
        kinds = list(V.PROGRAM_KINDS)
        for i in range(nprog):
            progs.add(ck.rng, 'C%02d%s' % (i, 'qwertyuiopasdfghjklzxcvbnmQWERTY'[i % 32]), kinds[i % len(kinds)], scale=2 if ck.thorough else 1)
        ck.extra['programs'] = dict(count=len(progs.items), kinds={k: sum(1 for p in progs.items if p['kind'] == k) for k in kinds},
                                    stdout_bytes=dict(min=min(len(p['obs'][1]) for p in progs.items), max=max(len(p['obs'][1]) for p in progs.items),
                                                      total=sum(len(p['obs'][1]) for p in progs.items)),
                                    with_runtime_error=sum(1 for p in progs.items if p['obs'][0] != 0))
        # standalone is deterministic (otherwise the comparison means nothing)
        for p in progs.items[:6]:
            again = V.standalone(b, p['nvm'])
            if again != p['obs']:
                ck.fail('c17:standalone-nondeterministic:' + p['kind'], 'two standalone runs of one module differ', dict(case='client', program=p['src']))
        ck.extra['crc_cases'] = crc_corr(ck, ref, probe, progs)
        ks = [2, 8, 16, 16] if not ck.thorough else [2, 16, 64]
        rep, health, err = rounds(ck, b, ref, progs, 'nano_vmd(plain)', ks, nrounds=4 if not ck.thorough else 6)
        ck.extra['rounds_plain'] = rep
        ck.extra['health_plain'] = health
        ck.extra['overlap_max'] = max([r['overlap_max'] for r in rep] + [0])
        if ck.extra['overlap_max'] < 2:
            ck.note('sessions never overlapped (max simultaneous = %d): isolation was not exercised' % ck.extra['overlap_max'])
        ck.extra['unverified_module'] = unverified_case(ck, b, progs)
        cdir = os.path.join(vlib.VERIF, 'corpus', 'C17')
        for fn in sorted(os.listdir(cdir)) if os.path.isdir(cdir) else []:
            if fn.endswith('.nvm'):
                fp = os.path.join(cdir, fn)
                st = V.standalone(b, fp)
                with V.Daemon(b) as dm:
                    r = V.via_daemon(b, dm, fp, timeout=60)
                ck.count(('corpus', fn), nontrivial=True)
                ck.extra.setdefault('corpus', {})[fn] = dict(standalone_exit=st[0], daemon_exit=r[0], daemon_stdout_len=len(r[1]))
                if (r[0], r[1]) != (st[0], st[1]):
                    key = KEY_UNVERIFIED if fn == 'unverified_code_length.nvm' else 'c17:corpus:' + fn
                    ck.fail(key, 'corpus module %s: daemon result (exit %s, %d bytes) differs from standalone (exit %s, %d bytes)' % (fn, r[0], len(r[1]), st[0], len(st[1])),
                            dict(case='unverified', hostile_kind='corpus:' + fn, input_hex=open(fp, 'rb').read().hex()))
        for kf in ck.known:
            if kf['key'] == KEY_UNVERIFIED and KEY_UNVERIFIED not in [f['key'] for f in ck.failures]:
                pass          # unverified_case already replayed it; a non-reproducing finding is reported by finish()
        # simultaneous cold start on the ThreadSanitizer build (both tiers: this is where the lazy CRC initialisation races)
        bt = ck.build('tsan')
        reps, health_b = tsan_cold_burst(ck, bt, progs, n=12 if not ck.thorough else 24)
        ck.extra['tsan_cold_burst'] = dict(health=health_b, reports=[dict(kind=r['kind'], funcs=r['funcs'][:4], globals=r['globals']) for r in reps[:10]])
        report_tsan(ck, reps)
        if ck.thorough:
            rep_t, health_t, err_t = rounds(ck, bt, ref, progs, 'nano_vmd(tsan)', [16, 32], nrounds=2,
                                            env_extra=dict(TSAN_OPTIONS='halt_on_error=0:report_signal_unsafe=0:history_size=4'))
            ck.extra['rounds_tsan'] = rep_t; ck.extra['health_tsan'] = health_t
            reps = tsan_reports(err_t)
            ck.extra['tsan_reports_rounds'] = [dict(kind=r['kind'], funcs=r['funcs'], globals=r['globals']) for r in reps[:10]]
            report_tsan(ck, reps)
            ba = ck.build('asan')
            rep_a, health_a, err_a = rounds(ck, ba, ref, progs, 'nano_vmd(asan)', [16], nrounds=2,
                                            env_extra=dict(ASAN_OPTIONS='detect_leaks=0:abort_on_error=1', UBSAN_OPTIONS='halt_on_error=1'))
            ck.extra['rounds_asan'] = rep_a; ck.extra['health_asan'] = health_a
            if 'Sanitizer' in err_a or 'runtime error:' in err_a:
                ck.fail('c17:asan:' + hashlib.sha1(err_a.encode()).hexdigest()[:8], 'sanitizer report in the daemon under concurrent well-formed clients',
                        dict(case='asan', report=err_a[-3000:]))
        p = progs.items[1]
        ck.sample(dict(program=p['name'], standalone=dict(exit=p['obs'][0], stdout_head=p['obs'][1][:60].decode('utf-8', 'replace'), stdout_len=len(p['obs'][1])),
                       note='every concurrent client of this module observed exactly this'))
        p = next(q for q in progs.items if q['kind'] == 'rterr')
        ck.sample(dict(program=p['name'], standalone=dict(exit=p['obs'][0], stderr=p['obs'][2].decode(), stdout_len=len(p['obs'][1]))))
    finally:
        shutil.rmtree(wd, ignore_errors=True)
    ck.cov['rule'] = ('rounds of k concurrent clients (k in %s) x arrival jitter {0, 4 ms, 30 ms}; modules drawn with repetition from generated programs of 9 kinds '
                      '(line printers, global state, heap-heavy strings, unterminated last line, runtime error after partial line, arrays, >300 KB output, silent, mixed); '
                      '3/4 real nano_vm --daemon clients, 1/4 raw sockets whose reply is also run through the extracted client loop; overlap measured by STATUS polling; '
                      'non-trivial = a client with output in a round of k > 1; distinct = (module, round, client index)' % ks)
    ck.extra['exhaustive'] = False
    ck.trusted += ['tools/gen/gen_sharedstate.py: nm inventory of the objects in nano_vmd\'s link list (tools/build_repo.py); reachability from ld --gc-sections --print-gc-sections '
                   'and from the objdump relocation graph rooted at .text.client_thread (objects recompiled with -ffunction-sections -fdata-sections)',
                   'tools/gen/gen_vmdfacts.py (clang AST), gen_vmdconsts.py + dump_vmdconsts.c',
                   'extraction: ExtrOcamlBasic only; extract/nvio.ml + c17_driver.ml',
                   'tools/props/vmd_common.py (private daemon, frame parser, python transcription of the client loop for raw sessions); probes/vmd_probe.c',
                   'the scheduler of the host: interleavings are those the kernel produced under the seeded arrival jitter; no yields are injected inside the daemon']
    ck.assumptions += ['sequential consistency for the shared CRC table (the C11 data race on crc32_initialized/crc32_table is outside the model; TSan build in the thorough tier)',
                       'classes of SharedClasses.v are asserted by reading; sessions that perform extern calls (PerProcessFfi symbols: FFI module table, runtime allocator gc_state) '
                       'are outside the isolation theorem and outside the generated programs',
                       'dlopen-ed FFI modules could name exported symbols that the relocation graph does not show',
                       'STATUS and SHUTDOWN observe/alter shared state by design and are excluded from the isolation statement',
                       'transparency is stated for modules that standalone accepts; o_run (the VM run) is an oracle shared by both sides of C17_daemon_transparent_partial']


def replay(ck, d):
    b = ck.build('plain'); ck.gen(['gen_vmdconsts', 'gen_vmdfacts', 'gen_sharedstate'])
    kind = d.get('case')
    wd = tempfile.mkdtemp(prefix='c17r_', dir=vlib.BUILD)
    try:
        if kind in ('client', 'clientloop'):
            nvm, diag = V.compile_nvm(b, d['program'], wd, 'replay')
            if nvm is None:
                print('program no longer compiles:', diag); return 1
            st = V.standalone(b, nvm)
            k = int(d.get('k', 16))
            res = [None] * k
            with V.Daemon(b) as dm:
                ths = [threading.Thread(target=lambda i=i: res.__setitem__(i, V.via_daemon(b, dm, nvm, timeout=180))) for i in range(k)]
                [t.start() for t in ths]; [t.join() for t in ths]
            badn = sum(1 for r in res if r != st)
            print('standalone: exit %s, %d stdout bytes, stderr %r' % (st[0], len(st[1]), st[2][:100]))
            print('%d of %d concurrent daemon clients differ' % (badn, k))
            print('REPRODUCED' if badn else 'not reproduced'); return 1 if badn else 0
        if kind == 'unverified':
            hp = os.path.join(wd, 'u.nvm'); open(hp, 'wb').write(bytes.fromhex(d['input_hex']))
            st = V.standalone(b, hp)
            with V.Daemon(b) as dm:
                r = V.via_daemon(b, dm, hp)
            print('standalone:', st[0], st[2][:160]); print('daemon    :', r[0], len(r[1]), 'stdout bytes', r[2][:160])
            rep = (r[0], r[1]) != (st[0], st[1])
            print('REPRODUCED' if rep else 'not reproduced'); return 1 if rep else 0
        if kind == 'crc':
            ref = ck.nvref('c17'); probe = ck.probe('vmd_probe.c', 'plain')
            a = vlib.run_lines(probe, [d['input']])[0]; m = vlib.run_lines(V.nvref_cmd(ref), [d['input']])[0]
            print('impl', a, 'model', m); print('REPRODUCED' if a != m else 'not reproduced'); return 1 if a != m else 0
    finally:
        shutil.rmtree(wd, ignore_errors=True)
    print('replay kind %r: run the full check (thorough tier for tsan/asan)' % kind)
    return 1
