.string "s0"
.string "s1"
.entry 0
.function main 0 2 0
  PUSH_STR 0
  ARR_LITERAL 5 1
  STORE_LOCAL 0
  LOAD_LOCAL 0
  PUSH_I64 -1
  PUSH_STR 1
  PUSH_STR 0
  STR_CONCAT
  ARR_SET
  PUSH_I64 0
  RET
.end
