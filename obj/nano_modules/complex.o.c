#define _POSIX_C_SOURCE 200809L

#include <stdio.h>
#include <stdint.h>
#include <stdbool.h>
#include <string.h>
#include <stdlib.h>
#include <time.h>
#include <stdarg.h>
#include <math.h>
#include "runtime/nl_string.h"
#include "runtime/gc.h"
#include "runtime/dyn_array.h"
#include "nanolang.h"

/* nanolang runtime */
#include "runtime/list_int.h"
#include "runtime/list_string.h"
#include "runtime/list_token.h"
#include "runtime/token_helpers.h"
#include <sys/stat.h>
#include <sys/types.h>
#include <dirent.h>
#include <unistd.h>
#include <libgen.h>
#include <sys/wait.h>
#include <spawn.h>
#include <fcntl.h>

#pragma GCC diagnostic push
#pragma GCC diagnostic ignored "-Wunused-function"
#pragma GCC diagnostic ignored "-Wunused-variable"
#pragma GCC diagnostic ignored "-Wunused-parameter"
#pragma GCC diagnostic ignored "-Wunused-const-variable"

/* ========== OS Standard Library ========== */

static char* nl_os_file_read(const char* path) {
    FILE* f = fopen(path, "rb");  /* Binary mode for MOD files */
    if (!f) return gc_alloc_string(0);
    fseek(f, 0, SEEK_END);
    long size = ftell(f);
    fseek(f, 0, SEEK_SET);
    char* buffer = gc_alloc_string((size_t)size);
    if (!buffer) { fclose(f); return gc_alloc_string(0); }
    fread(buffer, 1, size, f);
    buffer[size] = '\0';
    fclose(f);
    return buffer;
}

static DynArray* nl_os_file_read_bytes(const char* path) {
    FILE* f = fopen(path, "rb");
    if (!f) {
        /* Return empty array on error */
        return dyn_array_new(ELEM_U8);
    }
    
    fseek(f, 0, SEEK_END);
    long size = ftell(f);
    fseek(f, 0, SEEK_SET);
    
    /* Create dynamic array for bytes */
    DynArray* bytes = dyn_array_new(ELEM_U8);
    
    /* Read bytes and add to array */
    for (long i = 0; i < size; i++) {
        int c = fgetc(f);
        if (c == EOF) break;
        dyn_array_push_u8(bytes, (uint8_t)(unsigned char)c);
    }
    
    fclose(f);
    return bytes;
}

static int64_t nl_os_file_write(const char* path, const char* content) {
    FILE* f = fopen(path, "w");
    if (!f) return -1;
    fputs(content, f);
    fclose(f);
    return 0;
}

static int64_t nl_os_file_append(const char* path, const char* content) {
    FILE* f = fopen(path, "a");
    if (!f) return -1;
    fputs(content, f);
    fclose(f);
    return 0;
}

static int64_t nl_os_file_remove(const char* path) {
    return remove(path) == 0 ? 0 : -1;
}

static int64_t nl_os_file_delete(const char* path) {
    return nl_os_file_remove(path);
}

static int64_t nl_os_file_rename(const char* old_path, const char* new_path) {
    return rename(old_path, new_path) == 0 ? 0 : -1;
}

static int64_t nl_os_file_size(const char* path) {
    struct stat st;
    if (stat(path, &st) != 0) return -1;
    return (int64_t)st.st_size;
}

static bool nl_os_file_exists(const char* path) {
    struct stat st;
    return stat(path, &st) == 0;
}

static char* nl_os_tmp_dir(void) {
    const char* tmp = getenv("TMPDIR");
    if (!tmp || tmp[0] == '\0') tmp = "/tmp";
    size_t len = strlen(tmp);
    char* out = gc_alloc_string(len);
    if (!out) return gc_alloc_string(0);
    memcpy(out, tmp, len);
    out[len] = '\0';
    return out;
}

static char* nl_os_mktemp(const char* prefix) {
    const char* tmp = getenv("TMPDIR");
    if (!tmp || tmp[0] == '\0') tmp = "/tmp";
    const char* p = (prefix && prefix[0]) ? prefix : "nanolang_";
    char templ[1024];
    snprintf(templ, sizeof(templ), "%s/%sXXXXXX", tmp, p);
    int fd = mkstemp(templ);
    if (fd < 0) return gc_alloc_string(0);
    close(fd);
    size_t len = strlen(templ);
    char* out = gc_alloc_string(len);
    if (!out) return gc_alloc_string(0);
    memcpy(out, templ, len);
    out[len] = '\0';
    return out;
}

static char* nl_os_mktemp_dir(const char* prefix) {
    const char* tmp = getenv("TMPDIR");
    if (!tmp || tmp[0] == '\0') tmp = "/tmp";
    const char* p = (prefix && prefix[0]) ? prefix : "nanolang_dir_";
    char path[1024];
    for (int i = 0; i < 100; i++) {
        snprintf(path, sizeof(path), "%s/%s%lld_%d", tmp, p, (long long)time(NULL), i);
        if (mkdir(path, 0700) == 0) {
            size_t len = strlen(path);
            char* out = gc_alloc_string(len);
            if (!out) return gc_alloc_string(0);
            memcpy(out, path, len);
            out[len] = '\0';
            return out;
        }
    }
    return gc_alloc_string(0);
}

static int64_t nl_os_dir_create(const char* path) {
    return mkdir(path, 0755) == 0 ? 0 : -1;
}

static int64_t nl_os_dir_remove(const char* path) {
    return rmdir(path) == 0 ? 0 : -1;
}

static char* nl_os_dir_list(const char* path) {
    DIR* dir = opendir(path);
    if (!dir) return gc_alloc_string(0);
    size_t capacity = 4096;
    size_t used = 0;
    char* buffer = gc_alloc_string(capacity);
    if (!buffer) { closedir(dir); return gc_alloc_string(0); }
    buffer[0] = '\0';
    struct dirent* entry;
    while ((entry = readdir(dir)) != NULL) {
        if (strcmp(entry->d_name, ".") == 0 || strcmp(entry->d_name, "..") == 0) continue;
        size_t name_len = strlen(entry->d_name);
        size_t needed = used + name_len + 2; /* +1 for newline, +1 for null */
        if (needed > capacity) {
            capacity = needed * 2;
            char* new_buffer = gc_alloc_string(capacity);
            if (!new_buffer) { gc_release(buffer); closedir(dir); return gc_alloc_string(0); }
            memcpy(new_buffer, buffer, used);
            gc_release(buffer);
            buffer = new_buffer;
        }
        memcpy(buffer + used, entry->d_name, name_len);
        used += name_len;
        buffer[used++] = '\n';
        buffer[used] = '\0';
    }
    closedir(dir);
    return buffer;
}

static bool nl_os_dir_exists(const char* path) {
    struct stat st;
    if (stat(path, &st) != 0) return false;
    return S_ISDIR(st.st_mode);
}

static char* nl_os_getcwd(void) {
    char temp_buffer[1024];
    if (getcwd(temp_buffer, sizeof(temp_buffer)) == NULL) {
        return gc_alloc_string(0);
    }
    size_t len = strlen(temp_buffer);
    char* buffer = gc_alloc_string(len);
    if (buffer) memcpy(buffer, temp_buffer, len + 1);
    return buffer ? buffer : gc_alloc_string(0);
}

static int64_t nl_os_chdir(const char* path) {
    return chdir(path) == 0 ? 0 : -1;
}

static void nl_os_walkdir_rec(const char* root, DynArray* out) {
    DIR* dir = opendir(root);
    if (!dir) return;
    struct dirent* entry;
    while ((entry = readdir(dir)) != NULL) {
        if (strcmp(entry->d_name, ".") == 0 || strcmp(entry->d_name, "..") == 0) continue;
        size_t root_len = strlen(root);
        size_t name_len = strlen(entry->d_name);
        bool needs_slash = (root_len > 0 && root[root_len - 1] != '/');
        size_t cap = root_len + (needs_slash ? 1 : 0) + name_len + 1;
        char* path = malloc(cap);
        if (!path) continue;
        if (needs_slash) snprintf(path, cap, "%s/%s", root, entry->d_name);
        else snprintf(path, cap, "%s%s", root, entry->d_name);

        struct stat st;
        if (stat(path, &st) != 0) { free(path); continue; }
        if (S_ISDIR(st.st_mode)) {
            nl_os_walkdir_rec(path, out);
            free(path);
        } else if (S_ISREG(st.st_mode)) {
            dyn_array_push_string(out, path);
        } else {
            free(path);
        }
    }
    closedir(dir);
}

static DynArray* nl_os_walkdir(const char* root) {
    DynArray* out = dyn_array_new(ELEM_STRING);
    if (!root || root[0] == '\0') return out;
    nl_os_walkdir_rec(root, out);
    return out;
}

static bool nl_os_path_isfile(const char* path) {
    struct stat st;
    if (stat(path, &st) != 0) return false;
    return S_ISREG(st.st_mode);
}

static bool nl_os_path_isdir(const char* path) {
    struct stat st;
    if (stat(path, &st) != 0) return false;
    return S_ISDIR(st.st_mode);
}

static char* nl_os_path_join(const char* a, const char* b) {
    size_t len_a = strlen(a);
    size_t len_b = strlen(b);
    size_t total_len = len_a + len_b + 2; /* +1 for '/', +1 for null */
    char* buffer = gc_alloc_string(total_len);
    if (!buffer) return gc_alloc_string(0);
    if (len_a == 0) {
        snprintf(buffer, total_len, "%s", b);
    } else if (a[len_a - 1] == '/') {
        snprintf(buffer, total_len, "%s%s", a, b);
    } else {
        snprintf(buffer, total_len, "%s/%s", a, b);
    }
    return buffer;
}

static char* nl_os_path_basename(const char* path) {
    char* path_copy = strdup(path);
    char* base = basename(path_copy);
    size_t len = strlen(base);
    char* result = gc_alloc_string(len);
    if (result) memcpy(result, base, len + 1);
    free(path_copy);
    return result ? result : gc_alloc_string(0);
}

static char* nl_os_path_dirname(const char* path) {
    char* path_copy = strdup(path);
    char* dir = dirname(path_copy);
    size_t len = strlen(dir);
    char* result = gc_alloc_string(len);
    if (result) memcpy(result, dir, len + 1);
    free(path_copy);
    return result ? result : gc_alloc_string(0);
}

static char* nl_os_path_normalize(const char* path) {
    if (!path) return gc_alloc_string(0);
    bool abs = (path[0] == '/');
    char* copy = strdup(path);
    if (!copy) return gc_alloc_string(0);

    const char* parts[512];
    int count = 0;
    char* save = NULL;
    char* tok = strtok_r(copy, "/", &save);
    while (tok) {
        if (strcmp(tok, "") == 0 || strcmp(tok, ".") == 0) {
            /* skip */
        } else if (strcmp(tok, "..") == 0) {
            if (count > 0 && strcmp(parts[count - 1], "..") != 0) {
                count--;
            } else if (!abs) {
                parts[count++] = tok;
            }
        } else {
            if (count < 512) parts[count++] = tok;
        }
        tok = strtok_r(NULL, "/", &save);
    }

    /* Allocate GC string with max possible size */
    size_t cap = strlen(path) + 3;
    char* out = gc_alloc_string(cap);
    if (!out) { free(copy); return gc_alloc_string(0); }
    size_t pos = 0;
    if (abs) out[pos++] = '/';

    for (int i = 0; i < count; i++) {
        size_t len = strlen(parts[i]);
        /* Check if we have enough space */
        if (pos + len + 2 > cap) {
            /* Need more space - allocate new GC string and copy */
            size_t new_cap = (pos + len + 2) * 2;
            char* new_out = gc_alloc_string(new_cap);
            if (!new_out) { gc_release(out); free(copy); return gc_alloc_string(0); }
            memcpy(new_out, out, pos);
            gc_release(out);
            out = new_out;
            cap = new_cap;
        }
        if (pos > 0 && out[pos - 1] != '/') out[pos++] = '/';
        memcpy(out + pos, parts[i], len);
        pos += len;
    }

    if (pos == 0) {
        if (abs) { out[pos++] = '/'; } else { out[pos++] = '.'; }
    }
    out[pos] = '\0';

    free(copy);
    return out;
}

static int64_t nl_os_system(const char* command) {
    return system(command);
}

static void nl_os_exit(int64_t code) {
    exit((int)code);
}

static const char* nl_os_getenv(const char* name) {
    const char* value = getenv(name);
    return value ? value : "";
}

/* system() wrapper - stdlib system() available via stdlib.h */
static inline int64_t nl_exec_shell(const char* cmd) {
    return (int64_t)system(cmd);
}

static char* nl_os_read_all_fd(int fd) {
    size_t cap = 4096;
    size_t len = 0;
    char* buf = malloc(cap);
    if (!buf) return strdup("");
    while (1) {
        if (len + 1 >= cap) {
            cap *= 2;
            char* n = realloc(buf, cap);
            if (!n) { free(buf); return strdup(""); }
            buf = n;
        }
        ssize_t r = read(fd, buf + len, cap - len - 1);
        if (r <= 0) break;
        len += (size_t)r;
    }
    buf[len] = '\0';
    return buf;
}

static DynArray* nl_os_process_run(const char* command) {
    DynArray* out = dyn_array_new(ELEM_STRING);
    if (!command) {
        dyn_array_push_string(out, strdup("-1"));
        dyn_array_push_string(out, strdup(""));
        dyn_array_push_string(out, strdup(""));
        return out;
    }

    int out_pipe[2];
    int err_pipe[2];
    if (pipe(out_pipe) != 0 || pipe(err_pipe) != 0) {
        dyn_array_push_string(out, strdup("-1"));
        dyn_array_push_string(out, strdup(""));
        dyn_array_push_string(out, strdup(""));
        return out;
    }

    posix_spawn_file_actions_t actions;
    posix_spawn_file_actions_init(&actions);
    posix_spawn_file_actions_adddup2(&actions, out_pipe[1], STDOUT_FILENO);
    posix_spawn_file_actions_adddup2(&actions, err_pipe[1], STDERR_FILENO);
    posix_spawn_file_actions_addclose(&actions, out_pipe[0]);
    posix_spawn_file_actions_addclose(&actions, err_pipe[0]);

    pid_t pid = 0;
    char* argv[] = { "sh", "-c", (char*)command, NULL };
    extern char **environ;
    int rc = posix_spawn(&pid, "/bin/sh", &actions, NULL, argv, environ);
    posix_spawn_file_actions_destroy(&actions);

    close(out_pipe[1]);
    close(err_pipe[1]);

    char* out_s = nl_os_read_all_fd(out_pipe[0]);
    char* err_s = nl_os_read_all_fd(err_pipe[0]);
    close(out_pipe[0]);
    close(err_pipe[0]);

    int code = -1;
    if (rc != 0) {
        code = rc;
    } else {
        int status = 0;
        (void)waitpid(pid, &status, 0);
        if (WIFEXITED(status)) code = WEXITSTATUS(status);
        else if (WIFSIGNALED(status)) code = 128 + WTERMSIG(status);
        else code = -1;
    }

    char code_buf[64];
    snprintf(code_buf, sizeof(code_buf), "%d", code);
    dyn_array_push_string(out, strdup(code_buf));
    dyn_array_push_string(out, out_s);
    dyn_array_push_string(out, err_s);
    return out;
}

/* ========== End OS Standard Library ========== */

/* ========== Advanced String Operations ========== */

static int64_t char_at(const char* s, int64_t index) {
    /* Safety: Bound string scan to reasonable size (1MB) */
    int len = strnlen(s, 1024*1024);
    if (index < 0 || index >= len) {
        fprintf(stderr, "Error: Index %lld out of bounds (string length %d)\n", (long long)index, len);
        return 0;
    }
    return (unsigned char)s[index];
}

static char* string_from_char(int64_t c) {
    char* buffer = gc_alloc_string(1);
    if (!buffer) return "";
    buffer[0] = (char)c;
    buffer[1] = '\0';
    return buffer;
}

static bool is_digit(int64_t c) {
    return c >= '0' && c <= '9';
}

static bool is_alpha(int64_t c) {
    return (c >= 'a' && c <= 'z') || (c >= 'A' && c <= 'Z');
}

static bool is_alnum(int64_t c) {
    return (c >= '0' && c <= '9') || (c >= 'a' && c <= 'z') || (c >= 'A' && c <= 'Z');
}

static bool is_whitespace(int64_t c) {
    return c == ' ' || c == '\t' || c == '\n' || c == '\r';
}

static bool is_upper(int64_t c) {
    return c >= 'A' && c <= 'Z';
}

static bool is_lower(int64_t c) {
    return c >= 'a' && c <= 'z';
}

static char* int_to_string(int64_t n) {
    char* buffer = gc_alloc_string(31);
    if (!buffer) return "";
    snprintf(buffer, 32, "%lld", (long long)n);
    return buffer;
}

static char* float_to_string(double x) {
    char* buffer = gc_alloc_string(63);
    if (!buffer) return "";
    snprintf(buffer, 64, "%g", x);
    return buffer;
}

typedef struct {
    char *buf;
    size_t len;
    size_t cap;
} nl_fmt_sb_t;

static void nl_fmt_sb_ensure(nl_fmt_sb_t *sb, size_t extra) {
    if (!sb) return;
    size_t needed = sb->len + extra + 1;
    if (needed <= sb->cap) return;
    size_t new_cap = sb->cap ? sb->cap : 128;
    while (new_cap < needed) new_cap *= 2;
    char *new_buf = realloc(sb->buf, new_cap);
    if (!new_buf) return;
    sb->buf = new_buf;
    sb->cap = new_cap;
}

static nl_fmt_sb_t nl_fmt_sb_new(size_t initial_cap) {
    nl_fmt_sb_t sb = {0};
    sb.cap = initial_cap ? initial_cap : 128;
    sb.buf = (char*)malloc(sb.cap);
    sb.len = 0;
    if (sb.buf) sb.buf[0] = '\0';
    return sb;
}

static void nl_fmt_sb_append_cstr(nl_fmt_sb_t *sb, const char *s) {
    if (!sb || !s) return;
    size_t n = strlen(s);
    nl_fmt_sb_ensure(sb, n);
    if (!sb->buf) return;
    memcpy(sb->buf + sb->len, s, n);
    sb->len += n;
    sb->buf[sb->len] = '\0';
}

static void nl_fmt_sb_append_char(nl_fmt_sb_t *sb, char c) {
    if (!sb) return;
    nl_fmt_sb_ensure(sb, 1);
    if (!sb->buf) return;
    sb->buf[sb->len++] = c;
    sb->buf[sb->len] = '\0';
}

static char* nl_fmt_sb_build(nl_fmt_sb_t *sb) {
    if (!sb || !sb->buf) return "";
    return sb->buf;
}

static const char* nl_to_string_int(int64_t v) { return int_to_string(v); }
static const char* nl_to_string_float(double v) { return float_to_string(v); }
static const char* nl_to_string_bool(bool v) { return v ? "true" : "false"; }
static const char* nl_to_string_string(const char* v) { return v ? v : ""; }

static const char* nl_to_string_array(DynArray* arr) {
    if (!arr) return "[]";
    nl_fmt_sb_t sb = nl_fmt_sb_new(256);
    nl_fmt_sb_append_char(&sb, '[');
    int64_t len = dyn_array_length(arr);
    ElementType t = dyn_array_get_elem_type(arr);
    for (int64_t i = 0; i < len; i++) {
        if (i > 0) nl_fmt_sb_append_cstr(&sb, ", ");
        switch (t) {
            case ELEM_INT: {
                const char* s = nl_to_string_int(dyn_array_get_int(arr, i));
                nl_fmt_sb_append_cstr(&sb, s);
                break;
            }
            case ELEM_U8: {
                const char* s = nl_to_string_int((int64_t)dyn_array_get_u8(arr, i));
                nl_fmt_sb_append_cstr(&sb, s);
                break;
            }
            case ELEM_FLOAT: {
                const char* s = nl_to_string_float(dyn_array_get_float(arr, i));
                nl_fmt_sb_append_cstr(&sb, s);
                break;
            }
            case ELEM_BOOL: {
                nl_fmt_sb_append_cstr(&sb, nl_to_string_bool(dyn_array_get_bool(arr, i)));
                break;
            }
            case ELEM_STRING: {
                nl_fmt_sb_append_char(&sb, '"');
                nl_fmt_sb_append_cstr(&sb, nl_to_string_string(dyn_array_get_string(arr, i)));
                nl_fmt_sb_append_char(&sb, '"');
                break;
            }
            case ELEM_ARRAY: {
                const char* s = nl_to_string_array(dyn_array_get_array(arr, i));
                nl_fmt_sb_append_cstr(&sb, s);
                break;
            }
            case ELEM_STRUCT: {
                nl_fmt_sb_append_cstr(&sb, "<struct>");
                break;
            }
            default: {
                nl_fmt_sb_append_cstr(&sb, "?");
                break;
            }
        }
    }
    nl_fmt_sb_append_char(&sb, ']');
    return nl_fmt_sb_build(&sb);
}

static const char* nl_str_concat(const char* s1, const char* s2);
static DynArray* nl_array_add(DynArray* a, DynArray* b);
static DynArray* nl_array_sub(DynArray* a, DynArray* b);
static DynArray* nl_array_mul(DynArray* a, DynArray* b);
static DynArray* nl_array_div(DynArray* a, DynArray* b);
static DynArray* nl_array_mod(DynArray* a, DynArray* b);

static void nl_array_assert_compatible(DynArray* a, DynArray* b) {
    assert(a && b);
    assert(dyn_array_length(a) == dyn_array_length(b));
    assert(dyn_array_get_elem_type(a) == dyn_array_get_elem_type(b));
}

static DynArray* nl_array_add(DynArray* a, DynArray* b) {
    nl_array_assert_compatible(a, b);
    ElementType t = dyn_array_get_elem_type(a);
    int64_t len = dyn_array_length(a);
    DynArray* out = dyn_array_new(t);
    switch (t) {
        case ELEM_INT: for (int64_t i=0;i<len;i++) dyn_array_push_int(out, dyn_array_get_int(a,i)+dyn_array_get_int(b,i)); break;
        case ELEM_FLOAT: for (int64_t i=0;i<len;i++) dyn_array_push_float(out, dyn_array_get_float(a,i)+dyn_array_get_float(b,i)); break;
        case ELEM_STRING: for (int64_t i=0;i<len;i++) dyn_array_push_string(out, nl_str_concat(dyn_array_get_string(a,i), dyn_array_get_string(b,i))); break;
        case ELEM_ARRAY: for (int64_t i=0;i<len;i++) dyn_array_push_array(out, nl_array_add(dyn_array_get_array(a,i), dyn_array_get_array(b,i))); break;
        default: assert(false && "nl_array_add: unsupported element type");
    }
    return out;
}

static DynArray* nl_array_sub(DynArray* a, DynArray* b) {
    nl_array_assert_compatible(a, b);
    ElementType t = dyn_array_get_elem_type(a);
    int64_t len = dyn_array_length(a);
    DynArray* out = dyn_array_new(t);
    switch (t) {
        case ELEM_INT: for (int64_t i=0;i<len;i++) dyn_array_push_int(out, dyn_array_get_int(a,i)-dyn_array_get_int(b,i)); break;
        case ELEM_FLOAT: for (int64_t i=0;i<len;i++) dyn_array_push_float(out, dyn_array_get_float(a,i)-dyn_array_get_float(b,i)); break;
        case ELEM_ARRAY: for (int64_t i=0;i<len;i++) dyn_array_push_array(out, nl_array_sub(dyn_array_get_array(a,i), dyn_array_get_array(b,i))); break;
        default: assert(false && "nl_array_sub: unsupported element type");
    }
    return out;
}

static DynArray* nl_array_mul(DynArray* a, DynArray* b) {
    nl_array_assert_compatible(a, b);
    ElementType t = dyn_array_get_elem_type(a);
    int64_t len = dyn_array_length(a);
    DynArray* out = dyn_array_new(t);
    switch (t) {
        case ELEM_INT: for (int64_t i=0;i<len;i++) dyn_array_push_int(out, dyn_array_get_int(a,i)*dyn_array_get_int(b,i)); break;
        case ELEM_FLOAT: for (int64_t i=0;i<len;i++) dyn_array_push_float(out, dyn_array_get_float(a,i)*dyn_array_get_float(b,i)); break;
        case ELEM_ARRAY: for (int64_t i=0;i<len;i++) dyn_array_push_array(out, nl_array_mul(dyn_array_get_array(a,i), dyn_array_get_array(b,i))); break;
        default: assert(false && "nl_array_mul: unsupported element type");
    }
    return out;
}

static DynArray* nl_array_div(DynArray* a, DynArray* b) {
    nl_array_assert_compatible(a, b);
    ElementType t = dyn_array_get_elem_type(a);
    int64_t len = dyn_array_length(a);
    DynArray* out = dyn_array_new(t);
    switch (t) {
        case ELEM_INT: for (int64_t i=0;i<len;i++) dyn_array_push_int(out, dyn_array_get_int(a,i)/dyn_array_get_int(b,i)); break;
        case ELEM_FLOAT: for (int64_t i=0;i<len;i++) dyn_array_push_float(out, dyn_array_get_float(a,i)/dyn_array_get_float(b,i)); break;
        case ELEM_ARRAY: for (int64_t i=0;i<len;i++) dyn_array_push_array(out, nl_array_div(dyn_array_get_array(a,i), dyn_array_get_array(b,i))); break;
        default: assert(false && "nl_array_div: unsupported element type");
    }
    return out;
}

static DynArray* nl_array_mod(DynArray* a, DynArray* b) {
    nl_array_assert_compatible(a, b);
    ElementType t = dyn_array_get_elem_type(a);
    int64_t len = dyn_array_length(a);
    DynArray* out = dyn_array_new(t);
    switch (t) {
        case ELEM_INT: for (int64_t i=0;i<len;i++) dyn_array_push_int(out, dyn_array_get_int(a,i)%dyn_array_get_int(b,i)); break;
        case ELEM_ARRAY: for (int64_t i=0;i<len;i++) dyn_array_push_array(out, nl_array_mod(dyn_array_get_array(a,i), dyn_array_get_array(b,i))); break;
        default: assert(false && "nl_array_mod: unsupported element type");
    }
    return out;
}

static DynArray* nl_array_add_scalar_int(DynArray* a, int64_t s) {
    assert(a); assert(dyn_array_get_elem_type(a) == ELEM_INT);
    int64_t len = dyn_array_length(a); DynArray* out = dyn_array_new(ELEM_INT);
    for (int64_t i=0;i<len;i++) dyn_array_push_int(out, dyn_array_get_int(a,i) + s);
    return out;
}

static DynArray* nl_array_radd_scalar_int(int64_t s, DynArray* a) { return nl_array_add_scalar_int(a, s); }

static DynArray* nl_array_sub_scalar_int(DynArray* a, int64_t s) {
    assert(a); assert(dyn_array_get_elem_type(a) == ELEM_INT);
    int64_t len = dyn_array_length(a); DynArray* out = dyn_array_new(ELEM_INT);
    for (int64_t i=0;i<len;i++) dyn_array_push_int(out, dyn_array_get_int(a,i) - s);
    return out;
}

static DynArray* nl_array_rsub_scalar_int(int64_t s, DynArray* a) {
    assert(a); assert(dyn_array_get_elem_type(a) == ELEM_INT);
    int64_t len = dyn_array_length(a); DynArray* out = dyn_array_new(ELEM_INT);
    for (int64_t i=0;i<len;i++) dyn_array_push_int(out, s - dyn_array_get_int(a,i));
    return out;
}

static DynArray* nl_array_mul_scalar_int(DynArray* a, int64_t s) {
    assert(a); assert(dyn_array_get_elem_type(a) == ELEM_INT);
    int64_t len = dyn_array_length(a); DynArray* out = dyn_array_new(ELEM_INT);
    for (int64_t i=0;i<len;i++) dyn_array_push_int(out, dyn_array_get_int(a,i) * s);
    return out;
}

static DynArray* nl_array_rmul_scalar_int(int64_t s, DynArray* a) { return nl_array_mul_scalar_int(a, s); }

static DynArray* nl_array_div_scalar_int(DynArray* a, int64_t s) {
    assert(a); assert(dyn_array_get_elem_type(a) == ELEM_INT);
    int64_t len = dyn_array_length(a); DynArray* out = dyn_array_new(ELEM_INT);
    for (int64_t i=0;i<len;i++) dyn_array_push_int(out, dyn_array_get_int(a,i) / s);
    return out;
}

static DynArray* nl_array_rdiv_scalar_int(int64_t s, DynArray* a) {
    assert(a); assert(dyn_array_get_elem_type(a) == ELEM_INT);
    int64_t len = dyn_array_length(a); DynArray* out = dyn_array_new(ELEM_INT);
    for (int64_t i=0;i<len;i++) dyn_array_push_int(out, s / dyn_array_get_int(a,i));
    return out;
}

static DynArray* nl_array_mod_scalar_int(DynArray* a, int64_t s) {
    assert(a); assert(dyn_array_get_elem_type(a) == ELEM_INT);
    int64_t len = dyn_array_length(a); DynArray* out = dyn_array_new(ELEM_INT);
    for (int64_t i=0;i<len;i++) dyn_array_push_int(out, dyn_array_get_int(a,i) % s);
    return out;
}

static DynArray* nl_array_rmod_scalar_int(int64_t s, DynArray* a) {
    assert(a); assert(dyn_array_get_elem_type(a) == ELEM_INT);
    int64_t len = dyn_array_length(a); DynArray* out = dyn_array_new(ELEM_INT);
    for (int64_t i=0;i<len;i++) dyn_array_push_int(out, s % dyn_array_get_int(a,i));
    return out;
}

static DynArray* nl_array_add_scalar_float(DynArray* a, double s) {
    assert(a); assert(dyn_array_get_elem_type(a) == ELEM_FLOAT);
    int64_t len = dyn_array_length(a); DynArray* out = dyn_array_new(ELEM_FLOAT);
    for (int64_t i=0;i<len;i++) dyn_array_push_float(out, dyn_array_get_float(a,i) + s);
    return out;
}

static DynArray* nl_array_radd_scalar_float(double s, DynArray* a) { return nl_array_add_scalar_float(a, s); }

static DynArray* nl_array_sub_scalar_float(DynArray* a, double s) {
    assert(a); assert(dyn_array_get_elem_type(a) == ELEM_FLOAT);
    int64_t len = dyn_array_length(a); DynArray* out = dyn_array_new(ELEM_FLOAT);
    for (int64_t i=0;i<len;i++) dyn_array_push_float(out, dyn_array_get_float(a,i) - s);
    return out;
}

static DynArray* nl_array_rsub_scalar_float(double s, DynArray* a) {
    assert(a); assert(dyn_array_get_elem_type(a) == ELEM_FLOAT);
    int64_t len = dyn_array_length(a); DynArray* out = dyn_array_new(ELEM_FLOAT);
    for (int64_t i=0;i<len;i++) dyn_array_push_float(out, s - dyn_array_get_float(a,i));
    return out;
}

static DynArray* nl_array_mul_scalar_float(DynArray* a, double s) {
    assert(a); assert(dyn_array_get_elem_type(a) == ELEM_FLOAT);
    int64_t len = dyn_array_length(a); DynArray* out = dyn_array_new(ELEM_FLOAT);
    for (int64_t i=0;i<len;i++) dyn_array_push_float(out, dyn_array_get_float(a,i) * s);
    return out;
}

static DynArray* nl_array_rmul_scalar_float(double s, DynArray* a) { return nl_array_mul_scalar_float(a, s); }

static DynArray* nl_array_div_scalar_float(DynArray* a, double s) {
    assert(a); assert(dyn_array_get_elem_type(a) == ELEM_FLOAT);
    int64_t len = dyn_array_length(a); DynArray* out = dyn_array_new(ELEM_FLOAT);
    for (int64_t i=0;i<len;i++) dyn_array_push_float(out, dyn_array_get_float(a,i) / s);
    return out;
}

static DynArray* nl_array_rdiv_scalar_float(double s, DynArray* a) {
    assert(a); assert(dyn_array_get_elem_type(a) == ELEM_FLOAT);
    int64_t len = dyn_array_length(a); DynArray* out = dyn_array_new(ELEM_FLOAT);
    for (int64_t i=0;i<len;i++) dyn_array_push_float(out, s / dyn_array_get_float(a,i));
    return out;
}

static DynArray* nl_array_add_scalar_string(DynArray* a, const char* s) {
    assert(a); assert(dyn_array_get_elem_type(a) == ELEM_STRING);
    int64_t len = dyn_array_length(a); DynArray* out = dyn_array_new(ELEM_STRING);
    for (int64_t i=0;i<len;i++) dyn_array_push_string(out, nl_str_concat(dyn_array_get_string(a,i), s));
    return out;
}

static DynArray* nl_array_radd_scalar_string(const char* s, DynArray* a) {
    assert(a); assert(dyn_array_get_elem_type(a) == ELEM_STRING);
    int64_t len = dyn_array_length(a); DynArray* out = dyn_array_new(ELEM_STRING);
    for (int64_t i=0;i<len;i++) dyn_array_push_string(out, nl_str_concat(s, dyn_array_get_string(a,i)));
    return out;
}

static int64_t string_to_int(const char* s) {
    return strtoll(s, NULL, 10);
}

static int64_t digit_value(int64_t c) {
    if (c >= '0' && c <= '9') {
        return c - '0';
    }
    return -1;
}

static int64_t char_to_lower(int64_t c) {
    if (c >= 'A' && c <= 'Z') {
    return c + 32;
    }
    return c;
}

static int64_t char_to_upper(int64_t c) {
    if (c >= 'a' && c <= 'z') {
        return c - 32;
    }
    return c;
}

/* ========== End Advanced String Operations ========== */

/* ========== Timing Utilities ========== */

#include <sys/time.h>
#ifdef __MACH__
#include <mach/mach_time.h>
#endif

/* Get current time in microseconds since epoch */
static int64_t nl_timing_get_microseconds(void) {
#ifdef CLOCK_REALTIME
    struct timespec ts;
    clock_gettime(CLOCK_REALTIME, &ts);
    return ((int64_t)ts.tv_sec * 1000000LL) + (int64_t)(ts.tv_nsec / 1000);
#else
    struct timeval tv;
    gettimeofday(&tv, NULL);
    return ((int64_t)tv.tv_sec * 1000000LL) + (int64_t)tv.tv_usec;
#endif
}

/* Get high-resolution time in nanoseconds */
static int64_t nl_timing_get_nanoseconds(void) {
#ifdef __MACH__
    static mach_timebase_info_data_t timebase;
    static int initialized = 0;
    if (!initialized) {
        mach_timebase_info(&timebase);
        initialized = 1;
    }
    uint64_t mach_time = mach_absolute_time();
    return (int64_t)((mach_time * timebase.numer) / timebase.denom);
#elif defined(CLOCK_MONOTONIC)
    struct timespec ts;
    clock_gettime(CLOCK_MONOTONIC, &ts);
    return ((int64_t)ts.tv_sec * 1000000000LL) + (int64_t)ts.tv_nsec;
#else
    return nl_timing_get_microseconds() * 1000LL;
#endif
}

/* Convenience: current time in milliseconds */
static int64_t nl_get_time_ms(void) { return nl_timing_get_microseconds() / 1000LL; }

/* ========== End Timing Utilities ========== */

/* ========== Console I/O Utilities ========== */

/* Read a line from stdin, returns heap-allocated string */
/* Static to avoid duplicate symbols when linking multiple modules */
static const char* nl_read_line(void) {
    char buffer[4096];
    if (fgets(buffer, sizeof(buffer), stdin) == NULL) {
        char* empty = malloc(1);
        if (empty) empty[0] = '\0';
        return empty ? empty : "";
    }
    /* Remove trailing newline if present */
    size_t len = strlen(buffer);
    if (len > 0 && buffer[len-1] == '\n') {
        buffer[len-1] = '\0';
        len--;
    }
    char* result = malloc(len + 1);
    if (!result) return "";
    memcpy(result, buffer, len + 1);
    return result;
}

/* ========== End Console I/O Utilities ========== */

/* ========== Math and Utility Built-in Functions ========== */

#define nl_abs(x) _Generic((x), \
    double: (double)((x) < 0.0 ? -(x) : (x)), \
    default: (int64_t)((x) < 0 ? -(x) : (x)))

#define nl_min(a, b) _Generic((a), \
    double: (double)((a) < (b) ? (a) : (b)), \
    default: (int64_t)((a) < (b) ? (a) : (b)))

#define nl_max(a, b) _Generic((a), \
    double: (double)((a) > (b) ? (a) : (b)), \
    default: (int64_t)((a) > (b) ? (a) : (b)))

/* Trigonometric functions */
static double nl_sin(double x) { return sin(x); }
static double nl_cos(double x) { return cos(x); }
static double nl_tan(double x) { return tan(x); }
static double nl_atan2(double y, double x) { return atan2(y, x); }

/* Power and root functions */
static double nl_sqrt(double x) { return sqrt(x); }
static double nl_pow(double base, double exp) { return pow(base, exp); }

/* Rounding functions */
static double nl_floor(double x) { return floor(x); }
static double nl_ceil(double x) { return ceil(x); }
static double nl_round(double x) { return round(x); }

static int64_t nl_cast_int(double x) { return (x >= -9223372036854775808.0 && x < 9223372036854775808.0) ? (int64_t)x : INT64_MIN; }
static int64_t nl_cast_int_from_int(int64_t x) { return x; }
static double nl_cast_float(int64_t x) { return (double)x; }
static double nl_cast_float_from_float(double x) { return x; }
static void* nl_null_opaque() { return NULL; }
static int64_t nl_cast_bool_to_int(bool x) { return x ? 1 : 0; }
static bool nl_cast_bool(int64_t x) { return x != 0; }

static void nl_println(void* value_ptr) {
    (void)value_ptr; /* Unused - actual implementation uses type info from checker */
}

static void nl_print_int(int64_t value) {
    printf("%lld", (long long)value);
}

static void nl_print_float(double value) {
    printf("%g", value);
}

static void nl_print_string(const char* value) {
    printf("%s", value);
}

static void nl_print_bool(bool value) {
    printf(value ? "true" : "false");
}

static void nl_println_int(int64_t value) {
    printf("%lld\n", (long long)value);
}

static void nl_println_float(double value) {
    printf("%g\n", value);
}

static void nl_println_string(const char* value) {
    printf("%s\n", value);
}

/* Dynamic array runtime (using GC) - LEGACY */
#include "runtime/gc.h"
#include "runtime/dyn_array.h"
#include "runtime/nl_string.h"

static DynArray* dynarray_literal_int(int count, ...) {
    DynArray* arr = dyn_array_new(ELEM_INT);
    va_list args;
    va_start(args, count);
    for (int i = 0; i < count; i++) {
        int64_t val = va_arg(args, int64_t);
        dyn_array_push_int(arr, val);
    }
    va_end(args);
    return arr;
}

static DynArray* dynarray_literal_u8(int count, ...) {
    DynArray* arr = dyn_array_new(ELEM_U8);
    va_list args;
    va_start(args, count);
    for (int i = 0; i < count; i++) {
        int val = va_arg(args, int); /* default promotion */
        dyn_array_push_u8(arr, (uint8_t)val);
    }
    va_end(args);
    return arr;
}

static DynArray* dynarray_literal_float(int count, ...) {
    DynArray* arr = dyn_array_new(ELEM_FLOAT);
    va_list args;
    va_start(args, count);
    for (int i = 0; i < count; i++) {
        double val = va_arg(args, double);
        dyn_array_push_float(arr, val);
    }
    va_end(args);
    return arr;
}

static DynArray* dynarray_literal_string(int count, ...) {
    DynArray* arr = dyn_array_new(ELEM_STRING);
    va_list args;
    va_start(args, count);
    for (int i = 0; i < count; i++) {
        const char* val = va_arg(args, const char*);
        dyn_array_push_string(arr, val);
    }
    va_end(args);
    return arr;
}

static DynArray* dynarray_literal_bool(int count, ...) {
    DynArray* arr = dyn_array_new(ELEM_BOOL);
    va_list args;
    va_start(args, count);
    for (int i = 0; i < count; i++) {
        int val = va_arg(args, int); /* bool promotes to int */
        dyn_array_push_bool(arr, val);
    }
    va_end(args);
    return arr;
}

static DynArray* dynarray_push(DynArray* arr, double val) {
    if (arr->elem_type == ELEM_U8) {
        return dyn_array_push_u8(arr, (uint8_t)val);
    } else if (arr->elem_type == ELEM_INT) {
        return dyn_array_push_int(arr, (int64_t)val);
    } else {
        return dyn_array_push_float(arr, val);
    }
}

static DynArray* nl_array_push(DynArray* arr, double val) {
    if (arr->elem_type == ELEM_U8) {
        return dyn_array_push_u8(arr, (uint8_t)val);
    } else if (arr->elem_type == ELEM_INT) {
        return dyn_array_push_int(arr, (int64_t)val);
    } else {
        return dyn_array_push_float(arr, val);
    }
}

static double nl_array_pop(DynArray* arr) {
    bool success = false;
    if (arr->elem_type == ELEM_U8) {
        return (double)dyn_array_pop_u8(arr, &success);
    } else if (arr->elem_type == ELEM_INT) {
        return (double)dyn_array_pop_int(arr, &success);
    } else {
        return dyn_array_pop_float(arr, &success);
    }
}

static int64_t nl_array_length(DynArray* arr) {
    return dyn_array_length(arr);
}

static DynArray* nl_array_remove_at(DynArray* arr, int64_t index) {
    return dyn_array_remove_at(arr, index);
}

static int64_t nl_array_at_int(DynArray* arr, int64_t idx) {
    return dyn_array_get_int(arr, idx);
}

static uint8_t nl_array_at_u8(DynArray* arr, int64_t idx) {
    return dyn_array_get_u8(arr, idx);
}

static double nl_array_at_float(DynArray* arr, int64_t idx) {
    return dyn_array_get_float(arr, idx);
}

static const char* nl_array_at_string(DynArray* arr, int64_t idx) {
    return dyn_array_get_string(arr, idx);
}

static bool nl_array_at_bool(DynArray* arr, int64_t idx) {
    return dyn_array_get_bool(arr, idx);
}

static void nl_array_set_int(DynArray* arr, int64_t idx, int64_t val) {
    dyn_array_set_int(arr, idx, val);
}

static void nl_array_set_u8(DynArray* arr, int64_t idx, uint8_t val) {
    dyn_array_set_u8(arr, idx, val);
}

static void nl_array_set_float(DynArray* arr, int64_t idx, double val) {
    dyn_array_set_float(arr, idx, val);
}

static void nl_array_set_string(DynArray* arr, int64_t idx, const char* val) {
    dyn_array_set_string(arr, idx, val);
}

static void nl_array_set_bool(DynArray* arr, int64_t idx, bool val) {
    dyn_array_set_bool(arr, idx, val);
}

static DynArray* nl_array_at_array(DynArray* arr, int64_t idx) {
    return dyn_array_get_array(arr, idx);
}

static void nl_array_set_array(DynArray* arr, int64_t idx, DynArray* val) {
    dyn_array_set_array(arr, idx, val);
}

static DynArray* nl_array_new_int(int64_t size, int64_t default_val) {
    DynArray* arr = dyn_array_new(ELEM_INT);
    for (int64_t i = 0; i < size; i++) {
        dyn_array_push_int(arr, default_val);
    }
    return arr;
}

static DynArray* nl_array_new_float(int64_t size, double default_val) {
    DynArray* arr = dyn_array_new(ELEM_FLOAT);
    for (int64_t i = 0; i < size; i++) {
        dyn_array_push_float(arr, default_val);
    }
    return arr;
}

static DynArray* nl_array_new_string(int64_t size, const char* default_val) {
    DynArray* arr = dyn_array_new(ELEM_STRING);
    for (int64_t i = 0; i < size; i++) {
        dyn_array_push_string(arr, default_val);
    }
    return arr;
}

static DynArray* nl_array_new_bool(int64_t size, bool default_val) {
    DynArray* arr = dyn_array_new(ELEM_BOOL);
    for (int64_t i = 0; i < size; i++) {
        dyn_array_push_bool(arr, default_val);
    }
    return arr;
}

static int64_t dynarray_length(DynArray* arr) {
    return dyn_array_length(arr);
}

static double dynarray_at_for_transpiler(DynArray* arr, int64_t idx) {
    if (arr->elem_type == ELEM_U8) {
        return (double)dyn_array_get_u8(arr, idx);
    } else if (arr->elem_type == ELEM_INT) {
        return (double)dyn_array_get_int(arr, idx);
    } else {
        return dyn_array_get_float(arr, idx);
    }
}

/* bstring helpers (nl_string_t wrappers) */
static nl_string_t* bstr_new(const char* cstr) {
    if (!cstr) cstr = "";
    return nl_string_new(cstr);
}

static nl_string_t* bstr_new_binary(DynArray* bytes) {
    if (!bytes || dyn_array_get_elem_type(bytes) != ELEM_U8) {
        return nl_string_new_binary("", 0);
    }
    int64_t len = dyn_array_length(bytes);
    if (len <= 0) {
        return nl_string_new_binary("", 0);
    }
    uint8_t* buffer = malloc((size_t)len);
    if (!buffer) {
        return nl_string_new_binary("", 0);
    }
    for (int64_t i = 0; i < len; i++) {
        buffer[i] = dyn_array_get_u8(bytes, i);
    }
    nl_string_t* result = nl_string_new_binary(buffer, (size_t)len);
    free(buffer);
    return result;
}

static size_t bstr_length(nl_string_t* str) {
    if (!str) return 0;
    return nl_string_length(str);
}

static int64_t bstr_byte_at(nl_string_t* str, int64_t index) {
    if (!str || index < 0 || (size_t)index >= nl_string_length(str)) {
        return 0;
    }
    return (unsigned char)nl_string_byte_at(str, (size_t)index);
}

static nl_string_t* bstr_concat(nl_string_t* a, nl_string_t* b) {
    if (!a && !b) return nl_string_new("");
    if (!a) return nl_string_clone(b);
    if (!b) return nl_string_clone(a);
    return nl_string_concat(a, b);
}

static nl_string_t* bstr_substring(nl_string_t* str, int64_t start, int64_t length) {
    if (!str || start < 0 || length < 0) {
        return nl_string_new("");
    }
    size_t len = nl_string_length(str);
    if ((size_t)start > len) {
        start = (int64_t)len;
    }
    if ((size_t)(start + length) > len) {
        length = (int64_t)len - start;
    }
    return nl_string_substring(str, (size_t)start, (size_t)length);
}

static bool bstr_equals(nl_string_t* a, nl_string_t* b) {
    if (!a || !b) return a == b;
    return nl_string_equals(a, b);
}

static bool bstr_validate_utf8(nl_string_t* str) {
    if (!str) return false;
    return nl_string_validate_utf8(str);
}

static int64_t bstr_utf8_length(nl_string_t* str) {
    if (!str) return 0;
    return nl_string_utf8_length(str);
}

static int64_t bstr_utf8_char_at(nl_string_t* str, int64_t char_index) {
    if (!str || char_index < 0) return -1;
    return nl_string_utf8_char_at(str, (size_t)char_index);
}

static const char* bstr_to_cstr(nl_string_t* str) {
    if (!str) return "";
    return nl_string_to_cstr(str);
}

static void bstr_free(nl_string_t* str) {
    if (str) {
        nl_string_free(str);
    }
}

/* String concatenation - use strnlen for safety */
static const char* nl_str_concat(const char* s1, const char* s2) {
    /* Safety: Bound string scan to 1MB */
    size_t len1 = strnlen(s1, 1024*1024);
    size_t len2 = strnlen(s2, 1024*1024);
    char* result = gc_alloc_string(len1 + len2);
    if (!result) return "";
    memcpy(result, s1, len1);
    memcpy(result + len1, s2, len2);
    result[len1 + len2] = '\0';
    return result;
}

/* String substring - use strnlen for safety */
static const char* nl_str_substring(const char* str, int64_t start, int64_t length) {
    /* Safety: Bound string scan to 1MB */
    int64_t str_len = strnlen(str, 1024*1024);
    if (start < 0 || start > str_len || length < 0) return "";
    if (start == str_len) return "";
    if (length > str_len - start) length = str_len - start;
    char* result = gc_alloc_string(length);
    if (!result) return "";
    strncpy(result, str + start, length);
    result[length] = '\0';
    return result;
}

/* String contains */
static bool nl_str_contains(const char* str, const char* substr) {
    return strstr(str, substr) != NULL;
}

/* String equals */
static bool nl_str_equals(const char* s1, const char* s2) {
    return strcmp(s1, s2) == 0;
}

static DynArray* nl_bytes_from_string(const char* s) {
    DynArray* out = dyn_array_new(ELEM_U8);
    if (!out) return NULL;
    if (!s) return out;
    size_t len = strnlen(s, 1024*1024);
    for (size_t i = 0; i < len; i++) {
        dyn_array_push_u8(out, (uint8_t)(unsigned char)s[i]);
    }
    return out;
}

static const char* nl_string_from_bytes(DynArray* bytes) {
    if (!bytes) return "";
    if (dyn_array_get_elem_type(bytes) != ELEM_U8) return "";
    int64_t len = dyn_array_length(bytes);
    if (len < 0) return "";
    char* out = gc_alloc_string((size_t)len);
    if (!out) return "";
    for (int64_t i = 0; i < len; i++) {
        out[i] = (char)dyn_array_get_u8(bytes, i);
    }
    out[len] = '\0';
    return out;
}

static DynArray* nl_array_slice(DynArray* arr, int64_t start, int64_t length) {
    if (!arr) return dyn_array_new(ELEM_INT);
    if (start < 0) start = 0;
    if (length < 0) length = 0;
    int64_t len = dyn_array_length(arr);
    if (start > len) start = len;
    if (length > len - start) length = len - start;
    int64_t end = start + length;
    ElementType t = dyn_array_get_elem_type(arr);
    DynArray* out = dyn_array_new(t);
    if (!out) return NULL;
    for (int64_t i = start; i < end; i++) {
        switch (t) {
            case ELEM_U8: dyn_array_push_u8(out, dyn_array_get_u8(arr, i)); break;
            case ELEM_INT: dyn_array_push_int(out, dyn_array_get_int(arr, i)); break;
            case ELEM_FLOAT: dyn_array_push_float(out, dyn_array_get_float(arr, i)); break;
            case ELEM_BOOL: dyn_array_push_bool(out, dyn_array_get_bool(arr, i)); break;
            case ELEM_STRING: dyn_array_push_string(out, dyn_array_get_string(arr, i)); break;
            case ELEM_ARRAY: dyn_array_push_array(out, dyn_array_get_array(arr, i)); break;
            case ELEM_STRUCT: dyn_array_push_struct(out, dyn_array_get_struct(arr, i), (size_t)arr->elem_size); break;
            default: assert(false && "nl_array_slice: unsupported element type");
        }
    }
    return out;
}

static void nl_println_bool(bool value) {
    printf("%s\n", value ? "true" : "false");
}

static void nl_print_array(DynArray* arr) {
    printf("[");
    for (int i = 0; i < arr->length; i++) {
        if (i > 0) printf(", ");
        switch (arr->elem_type) {
            case ELEM_INT:
                printf("%lld", (long long)((int64_t*)arr->data)[i]);
                break;
            case ELEM_U8:
                printf("%u", (unsigned)((uint8_t*)arr->data)[i]);
                break;
            case ELEM_FLOAT:
                printf("%g", ((double*)arr->data)[i]);
                break;
            default:
                printf("?");
                break;
        }
    }
    printf("]");
}

static void nl_println_array(DynArray* arr) {
    nl_print_array(arr);
    printf("\n");
}

/* ========== Array Operations (With Bounds Checking!) ========== */

/* Array struct */
/* ========== End Array Operations ========== */

/* ========== End Math and Utility Built-in Functions ========== */

/* ========== Enum Definitions ========== */

/* ========== End Enum Definitions ========== */

/* ========== Struct and Union Definitions ========== */

#ifndef DEFINED_nl_Complex
#define DEFINED_nl_Complex
typedef struct nl_Complex {
    double re;
    double im;
} nl_Complex;
#endif

/* ========== End Struct and Union Definitions ========== */

/* ========== Auto-Generated Struct Metadata ========== */

inline int64_t ___reflect_Complex_field_count(void) {
    return 2;
}

inline const char* ___reflect_Complex_field_name(int64_t index) {
    if (index == 0) { return "re"; }
    else if (index == 1) { return "im"; }
    else { return ""; }
}

inline const char* ___reflect_Complex_field_type(int64_t index) {
    if (index == 0) { return "float"; }
    else if (index == 1) { return "float"; }
    else { return ""; }
}

inline bool ___reflect_Complex_has_field(const char* name) {
    if (strcmp(name, "re") == 0) { return 1; }
    else if (strcmp(name, "im") == 0) { return 1; }
    else { return 0; }
}

inline const char* ___reflect_Complex_field_type_by_name(const char* name) {
    if (strcmp(name, "re") == 0) { return "float"; }
    else if (strcmp(name, "im") == 0) { return "float"; }
    else { return ""; }
}

/* ========== End Struct Metadata ========== */

/* ========== HashMap Runtime (Generated) ========== */

static uint64_t nl_hashmap_hash_string(const char *s) {
    if (!s) return 0;
    uint64_t hash = 1469598103934665603ULL;
    while (*s) { hash ^= (uint8_t)(*s++); hash *= 1099511628211ULL; }
    return hash;
}

static uint64_t nl_hashmap_hash_int(int64_t x) {
    uint64_t z = (uint64_t)x;
    z ^= z >> 33;
    z *= 0xff51afd7ed558ccdULL;
    z ^= z >> 33;
    z *= 0xc4ceb9fe1a85ec53ULL;
    z ^= z >> 33;
    return z;
}

static bool nl_hashmap_key_eq_string(const char *a, const char *b) {
    if (a == b) return true;
    if (!a || !b) return false;
    return strcmp(a, b) == 0;
}

/* (no HashMap instantiations) */

/* ========== End HashMap Runtime (Generated) ========== */

/* ========== To-String Helpers ========== */

/* To-String forward declarations */
static const char* nl_to_string_Complex(nl_Complex v);

static const char* nl_to_string_Complex(nl_Complex v) {
    nl_fmt_sb_t sb = nl_fmt_sb_new(256);
    nl_fmt_sb_append_cstr(&sb, "Complex { ");
    nl_fmt_sb_append_cstr(&sb, "re: ");
    nl_fmt_sb_append_cstr(&sb, nl_to_string_float(v.re));
    nl_fmt_sb_append_cstr(&sb, ", ");
    nl_fmt_sb_append_cstr(&sb, "im: ");
    nl_fmt_sb_append_cstr(&sb, nl_to_string_float(v.im));
    nl_fmt_sb_append_cstr(&sb, " }");
    return nl_fmt_sb_build(&sb);
}

/* ========== End To-String Helpers ========== */

/* External C function declarations */

/* Forward declarations for imported module functions */

/* Top-level globals */

/* Forward declarations for program functions */
nl_Complex std_math_complex__complex_new(double re, double im);
nl_Complex std_math_complex__complex_add(nl_Complex a, nl_Complex b);
nl_Complex std_math_complex__complex_sub(nl_Complex a, nl_Complex b);
nl_Complex std_math_complex__complex_mul(nl_Complex a, nl_Complex b);
nl_Complex std_math_complex__complex_conj(nl_Complex a);
double std_math_complex__complex_abs(nl_Complex a);
double std_math_complex__complex_arg(nl_Complex a);
nl_Complex std_math_complex__complex_div(nl_Complex a, nl_Complex b);
nl_Complex std_math_complex__complex_from_polar(double r, double theta);
nl_Complex std_math_complex__complex_exp(nl_Complex z);

nl_Complex std_math_complex__complex_new(double re, double im) {
    return (nl_Complex){.re = re, .im = im};
}

nl_Complex std_math_complex__complex_add(nl_Complex a, nl_Complex b) {
    return (nl_Complex){.re = (a.re + b.re), .im = (a.im + b.im)};
}

nl_Complex std_math_complex__complex_sub(nl_Complex a, nl_Complex b) {
    return (nl_Complex){.re = (a.re - b.re), .im = (a.im - b.im)};
}

nl_Complex std_math_complex__complex_mul(nl_Complex a, nl_Complex b) {
    return (nl_Complex){.re = ((a.re * b.re) - (a.im * b.im)), .im = ((a.re * b.im) + (a.im * b.re))};
}

nl_Complex std_math_complex__complex_conj(nl_Complex a) {
    return (nl_Complex){.re = a.re, .im = (- a.im)};
}

double std_math_complex__complex_abs(nl_Complex a) {
    {
        double __result = sqrt(((a.re * a.re) + (a.im * a.im)));
        if (!((__result >= 0.0))) { fputs("Contract violation at line 42: (>= __result 0)\n", stderr); exit(1); }
        return __result;
    }
}

double std_math_complex__complex_arg(nl_Complex a) {
    return atan2(a.im, a.re);
}

nl_Complex std_math_complex__complex_div(nl_Complex a, nl_Complex b) {
    double denom = ((b.re * b.re) + (b.im * b.im));
    if ((denom == 0.0))     {
        return std_math_complex__complex_new(0.0, 0.0);
    }
    return (nl_Complex){.re = (((a.re * b.re) + (a.im * b.im)) / denom), .im = (((a.im * b.re) - (a.re * b.im)) / denom)};
}

nl_Complex std_math_complex__complex_from_polar(double r, double theta) {
    return (nl_Complex){.re = (r * cos(theta)), .im = (r * sin(theta))};
}

nl_Complex std_math_complex__complex_exp(nl_Complex z) {
    double er = exp(z.re);
    return (nl_Complex){.re = (er * cos(z.im)), .im = (er * sin(z.im))};
}


#pragma GCC diagnostic pop
