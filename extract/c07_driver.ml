(* nvref_c07: line protocol
     parse <d> <code>:<valhex|-> ...   -> ok <sexp|null> rest=<n> err=<0|1> | unsupported | generic | fuel
        (tokens before EOF; <d> = recursion_depth on entry; same S-expression syntax as probes/front_probe.c)
     case <sx>                         -> prefix=<toks> infix=<toks> denote=<sexp> class=<name> nest=<n>
        <sx> ::= N <hex> | B 0|1 | V <hex> | O <code> <sx> <sx> | U <code> <sx> | F <sx> <hex> | I <sx> <hex> | C <hex> <n> <sx>*n
        token lists are comma separated <code>:<valhex|-> *)
let bytes_of_hex' s = if s = "-" || s = "=" then [] else bytes_of_hex s
let hex_of_bytes' bs = if bs = [] then "-" else hex_of_bytes bs
let kind_of_int i = match kind_of_code (n_of_int i) with Some k -> k | None -> failwith "kind"
let tok_of_string s =
  match String.index_opt s ':' with
  | Some i -> { tk = kind_of_int (int_of_string (String.sub s 0 i)); tv = bytes_of_hex' (String.sub s (i+1) (String.length s - i - 1)) }
  | None -> failwith "tok"
let string_of_tok t = Printf.sprintf "%d:%s" (int_of_n (kind_code t.tk)) (hex_of_bytes' t.tv)
let dec_of_z (x : z) : ostring =
  let h = hex_of_z x in
  if String.length h > 0 && h.[0] = '-' then
    Int64.to_string (Int64.neg (Int64.of_string ("0x" ^ String.sub h 1 (String.length h - 1))))
  else Int64.to_string (Int64.of_string ("0x" ^ h))
let idhex bs = if bs = [] then "=" else hex_of_bytes bs
let rec sexp (e : expr) : ostring =
  match e with
  | ENum z -> "(num " ^ dec_of_z z ^ ")"
  | EBool b -> if b then "(bool 1)" else "(bool 0)"
  | EStr s -> "(str " ^ idhex s ^ ")"
  | EVar x -> "(id " ^ idhex x ^ ")"
  | EOp (op, args) -> "(op " ^ string_of_int (int_of_n (kind_code op)) ^ sexps args ^ ")"
  | ECall (f, args) -> "(call " ^ idhex f ^ sexps args ^ ")"
  | ECallE (f, args) -> "(calle " ^ sexp f ^ sexps args ^ ")"
  | EModCall (m, f, args) -> "(mcall " ^ idhex m ^ " " ^ idhex f ^ sexps args ^ ")"
  | EField (e, f) -> "(field " ^ sexp e ^ " " ^ idhex f ^ ")"
  | ETIdx (e, i) -> "(tidx " ^ sexp e ^ " " ^ dec_of_z i ^ ")"
  | ETuple es -> "(tuple" ^ sexps es ^ ")"
and sexps l = String.concat "" (List.map (fun e -> " " ^ sexp e) l)
let show_res r =
  match r with
  | Ok (e, ts, err) ->
      Printf.sprintf "ok %s rest=%d err=%d" (match e with Some x -> sexp x | None -> "null") (List.length ts) (if err then 1 else 0)
  | Unsupported -> "unsupported" | Generic -> "generic" | OutOfFuel -> "fuel"
(* reads one <sx> from a word list *)
let rec read_sx (w : ostring list) : sx * ostring list =
  match w with
  | "N" :: h :: r -> (SNum (bytes_of_hex' h), r)
  | "B" :: b :: r -> (SBool (b = "1"), r)
  | "V" :: h :: r -> (SVar (bytes_of_hex' h), r)
  | "O" :: c :: r -> let (a, r1) = read_sx r in let (b, r2) = read_sx r1 in (SBin (kind_of_int (int_of_string c), a, b), r2)
  | "U" :: c :: r -> let (a, r1) = read_sx r in (SUn (kind_of_int (int_of_string c), a), r1)
  | "F" :: r -> let (a, r1) = read_sx r in (match r1 with h :: r2 -> (SField (a, bytes_of_hex' h), r2) | [] -> failwith "sx")
  | "I" :: r -> let (a, r1) = read_sx r in (match r1 with h :: r2 -> (STIdx (a, bytes_of_hex' h), r2) | [] -> failwith "sx")
  | "C" :: h :: n :: r ->
      let rec go k r acc = if k = 0 then (List.rev acc, r) else let (a, r1) = read_sx r in go (k - 1) r1 (a :: acc) in
      let (args, r1) = go (int_of_string n) r [] in (SCall (bytes_of_hex' h, args), r1)
  | _ -> failwith "sx"
let toks l = if l = [] then "-" else String.concat "," (List.map string_of_tok l)
let class_name c = match c with CSafe -> "safe" | CGroupUnary -> "group-leading-unary"
let () = iter_lines (fun line ->
  try
    match words line with
    | "parse" :: d :: ts ->
        let ts = List.map tok_of_string ts in
        print_string (show_res (parse_expression (fuel_for ts) (nat_of_int (int_of_string d)) ts false) ^ "\n")
    | "case" :: w ->
        let (s, _) = read_sx w in
        print_string (Printf.sprintf "prefix=%s\tinfix=%s\tdenote=%s\tclass=%s\tnest=%d\n" (toks (pp_prefix s)) (toks (pp_infix s))
                        (sexp (denote s)) (class_name (infix_class s)) (int_of_nat (nest_prefix s)))
    | [] -> ()
    | _ -> print_string "bad\n"
  with Failure m -> print_string ("bad " ^ m ^ "\n"))
