(* nvref_c09: line protocol
     lex <src-hex>     -> ok <n> <type>:<line>:<col>:<value-hex|-|=> ...  |  lexnull      (same format as probes/front_probe.c `lex`)
     front <src-hex>   -> model of tokenize + parse_expression on the tokens after the first '=' (used for text-level replays):
                          lexnull | ok|hang|unsupported|generic|fuel *)
let show_tok (t : ltoken) =
  Printf.sprintf "%d:%d:%d:%s" (int_of_n (kind_code t.lk)) (int_of_n t.lline) (int_of_n t.lcol)
    (match t.lv with None -> "-" | Some v -> if v = [] then "=" else hex_of_bytes v)
let () = iter_lines (fun line ->
  try
    match words line with
    | ["lex"; h] ->
        (match tokenize (if h = "-" then [] else bytes_of_hex h) with
         | LOk ts -> print_string (String.concat " " ("ok" :: string_of_int (List.length ts) :: List.map show_tok ts) ^ "\n")
         | LNull -> print_string "lexnull\n"
         | LFuel -> print_string "fuel\n")
    | [] -> ()
    | _ -> print_string "bad\n"
  with Failure m -> print_string ("bad " ^ m ^ "\n"))
