(* nvref_c09: line protocol
     lex <src-hex>     -> ok <n> <type>:<line>:<col>:<value-hex|-|=> ...  |  lexnull      (same format as probes/front_probe.c `lex`)
     front <src-hex>   -> model of tokenize + parse_expression on the tokens after the first '=' (used for text-level replays):
                          lexnull | ok|hang|unsupported|generic|fuel
     imports <main> <k>=<d>,<d>.. ...   -> model of the import phase (NV.Front.ImportGraph) on the graph "file k imports d, d, .." ("-" = none),
                          main = the program file; answer: "<guarded> | <unguarded>", each  ok <loaded,..> | cycle <k> | missing <k> | fuel *)
let show_tok (t : ltoken) =
  Printf.sprintf "%d:%d:%d:%s" (int_of_n (kind_code t.lk)) (int_of_n t.lline) (int_of_n t.lcol)
    (match t.lv with None -> "-" | Some v -> if v = [] then "=" else hex_of_bytes v)
let assign_code = int_of_n (kind_code K_ASSIGN)
let show_import_result r = match r with
  | Done c -> "ok " ^ (match c with [] -> "-" | _ -> String.concat "," (List.map (fun (k, a) -> string_of_int (int_of_nat k) ^ (if a then "" else "?")) c))
  | Diag (Cycle k) -> "cycle " ^ string_of_int (int_of_nat k)
  | Diag (Missing k) -> "missing " ^ string_of_int (int_of_nat k)
  | NoFuel -> "fuel"
let parse_graph (ws : ostring list) =
  List.map (fun w -> match String.split_on_char '=' w with
    | [k; ds] -> (nat_of_int (int_of_string k),
                  if ds = "-" then [] else List.map (fun d -> nat_of_int (int_of_string d)) (String.split_on_char ',' ds))
    | _ -> failwith "graph") ws
let () = iter_lines (fun line ->
  try
    match words line with
    | ["lex"; h] ->
        (match tokenize (if h = "-" then [] else bytes_of_hex h) with
         | LOk ts -> print_string (String.concat " " ("ok" :: string_of_int (List.length ts) :: List.map show_tok ts) ^ "\n")
         | LNull -> print_string "lexnull\n"
         | LFuel -> print_string "fuel\n")
    | ["expr"; h] ->
        (* text level: tokenizer model, then the expression-parser model on the tokens after the first '=' *)
        (match tokenize (if h = "-" then [] else bytes_of_hex h) with
         | LOk ts ->
             let toks = parser_tokens ts in
             let rec after_assign l = match l with [] -> [] | t :: r -> if int_of_n (kind_code t.tk) = assign_code then r else after_assign r in
             (match parse (after_assign toks) with
              | Ok (Some _, [], false) -> print_string "ok\n"
              | Ok (_, _, _) -> print_string "error\n"
              | Unsupported -> print_string "unsupported\n" | Generic -> print_string "generic\n"
              | OutOfFuel -> print_string "fuel\n")
         | LNull -> print_string "lexnull\n"
         | LFuel -> print_string "fuel\n")
    | "imports" :: m :: rest ->
        let g = parse_graph rest in
        let m = nat_of_int (int_of_string m) in
        print_string (show_import_result (run_guarded g m) ^ " | " ^ show_import_result (run_unguarded g m) ^ "\n")
    | [] -> ()
    | _ -> print_string "bad\n"
  with Failure m -> print_string ("bad " ^ m ^ "\n"))
