(* nvref_c20: same line protocol as probes/dyn_probe.c (see there).  Besides the concrete model's answer every line
   also runs the abstract list machine [lstep] on [abs state] and prints "ABS-MISMATCH" if the two disagree
   (run-time echo of theorem dyn_refines_list), and "INV-BROKEN" if [invb] fails. *)
let z_of_dec (s : ostring) : z =
  let neg = String.length s > 0 && s.[0] = '-' in
  let body = if neg then String.sub s 1 (String.length s - 1) else s in
  (* decimal -> hex via OCaml ints is not enough for 2^63 edge cases: use string arithmetic on int64 with care *)
  let v = Int64.of_string ("0u" ^ body) in   (* unsigned parse up to 2^64-1 *)
  let hex = Printf.sprintf "%Lx" v in
  z_of_hex ((if neg then "-" else "") ^ hex)
let kind_of_code c = match c with
  | 1 -> EInt | 2 -> EFloat | 3 -> EString | 4 -> EBool | 5 -> EArray | 6 -> EStruct | 7 -> EPointer | 8 -> EU8
  | _ -> failwith "kind"
let code_of_kind k = match k with
  | EInt -> 1 | EFloat -> 2 | EString -> 3 | EBool -> 4 | EArray -> 5 | EStruct -> 6 | EPointer -> 7 | EU8 -> 8
let skind_of c = match c with
  | 'i' -> SInt | 'b' -> SU8 | 'f' -> SFloat | 'o' -> SBool | 's' -> SString | 'a' -> SArray | _ -> failwith "skind"
let str_cell c = match c with
  | Uninit -> "u" | Val n -> "v" ^ hex_of_n n | Blob bs -> "b" ^ hex_of_bytes bs
let str_out o = match o with
  | OUnit -> "unit" | OCell c -> "cell " ^ str_cell c
  | OPop (ok, c) -> "pop " ^ (if ok then "1 " else "0 ") ^ str_cell c
  | ONull -> "null" | OLen n -> "len " ^ string_of_int (int_of_nat n)
let rec take n l = if n <= 0 then [] else match l with [] -> [] | x :: r -> x :: take (n - 1) r
let fnv (s : string) : string =
  let h = ref 0xcbf29ce484222325L in
  String.iter (fun c -> h := Int64.mul (Int64.logxor !h (Int64.of_int (Char.code c))) 0x100000001b3L) s;
  Printf.sprintf "%016Lx" !h
let rec drop n l = if n <= 0 then l else match l with [] -> [] | _ :: r -> drop (n - 1) r
let str_state (d : dyn) =
  let len = int_of_nat d.d_len in
  Printf.sprintf " | k=%d es=%d len=%d cap=%d d=%s" (code_of_kind d.d_kind) (int_of_n d.d_esize) len (int_of_nat d.d_cap)
    (match d.d_data with
     | None -> "null"
     | Some els ->
        if len = 0 then "-" else
        let cs = List.map str_cell (take len els) in
        let full = String.concat "," cs in
        if len <= 48 then full
        else "#" ^ fnv full ^ " " ^ String.concat "," (take 4 cs) ^ ",..," ^ String.concat "," (drop (len - 4) cs))
let parse_op (w : ostring list) : op option =
  match w with
  | ["push"; k; v] -> Some (Push (skind_of k.[0], n_of_hex v))
  | ["pop"; k] -> Some (Pop (skind_of k.[0]))
  | ["get"; k; i] -> Some (Get (skind_of k.[0], z_of_dec i))
  | ["set"; k; i; v] -> Some (Set_ (skind_of k.[0], z_of_dec i, n_of_hex v))
  | ["pushnull"] -> Some PushStrCopyNull
  | ["rm"; i] -> Some (RemoveAt (z_of_dec i))
  | ["clear"] -> Some Clear
  | ["reserve"; n] -> Some (Reserve (z_of_dec n))
  | ["len"] -> Some Length
  | ["clone"] -> Some Clone
  | ["slice"; a; b] -> Some (Slice (z_of_dec a, z_of_dec b))
  | ["pushs"; h] -> Some (PushStruct (bytes_of_hex h))
  | ["gets"; i] -> Some (GetStruct (z_of_dec i))
  | ["sets"; i; h] -> Some (SetStruct (z_of_dec i, bytes_of_hex h))
  | ["pops"; n] -> Some (PopStruct (n_of_int (int_of_string n)))
  | ["pushse"; i] -> Some (PushStructElem (z_of_dec i))
  | ["setse"; i; j] -> Some (SetStructElem (z_of_dec i, z_of_dec j))
  | _ -> None
(* ---- gc lines (same protocol as probes/gc_probe.c, with addresses instead of handles):
     gnew | galloc <addr> <size> <type> | gretain <addr> | gretainsafe <addr> | grelease <addr> | gmanaged <addr> | gcollect *)
let gc_state : gc ref = ref gc_empty
let gc_dead = ref false
let str_gc (g : gc) =
  let ids = List.sort_uniq compare (List.map int_of_n g.g_set) in
  Printf.sprintf " | n=%s use=%s list=%s set=%s%s" (string_of_int (int_of_n g.g_count)) (string_of_int (int_of_n g.g_usage))
    (if g.g_list = [] then "-" else String.concat "," (List.map (fun p ->
        let rc = (let rec look h = match h with [] -> "?" | (q, x) :: r -> if q = p then string_of_int (int_of_n x.h_rc) else look r in look g.g_heap) in
        string_of_int (int_of_n p) ^ ":" ^ rc) g.g_list))
    (if ids = [] then "-" else String.concat "," (List.map string_of_int ids))
    (if ginvb g then "" else " GINV-BROKEN")
let gc_line (w : ostring list) : bool =
  let run o =
    if !gc_dead then print_string "skip\n" else
    (match gstep rt_gc_header !gc_state o with
     | GOk (g', x) -> gc_state := g';
         print_string ((match x with GUnit -> "unit" | GBool b -> if b then "bool 1" else "bool 0" | GPtr p -> "ptr " ^ string_of_int (int_of_n p)) ^ str_gc g' ^ "\n")
     | GAbort -> gc_dead := true; print_string "abort\n"
     | GCrash -> gc_dead := true; print_string "crash\n"
     | GBadEnv -> gc_dead := true; print_string "badenv\n") in
  match w with
  | ["gnew"] -> gc_state := gc_empty; gc_dead := false; print_string "reset\n"; true
  | ["galloc"; a; s; t] -> run (GAlloc (n_of_int (int_of_string a), n_of_int (int_of_string s), n_of_int (int_of_string t))); true
  | ["gretain"; a] -> run (GRetain (n_of_int (int_of_string a))); true
  | ["gretainsafe"; a] ->
      let p = n_of_int (int_of_string a) in
      (match gstep rt_gc_header !gc_state (GIsManaged p) with
       | GOk (_, GBool true) -> run (GRetain p)
       | _ -> if !gc_dead then print_string "skip\n" else print_string ("unit" ^ str_gc !gc_state ^ "\n")); true
  | ["grelease"; a] -> run (GRelease (n_of_int (int_of_string a))); true
  | ["gmanaged"; a] -> run (GIsManaged (n_of_int (int_of_string a))); true
  | ["gcollect"] -> run GCollect; true
  | _ -> false

(* ---- string builder lines (same protocol as probes/sb_probe.c): sbnew <cap> | cstr <n> | chr *)
let list_mode = ref false
let sb_state : sbuf option ref = ref None
let sb_k = ref 0
let sb_answer (s : sbuf) =
  let b = Buffer.create 64 in
  List.iter (fun x -> Buffer.add_char b (Char.chr (int_of_n x))) s.b_text;
  let txt = Buffer.contents b in
  Printf.sprintf "len=%d cap=%s nul=1 strlen=%d h=%s\n" (int_of_n s.b_len) (string_of_int (int_of_n s.b_cap)) (String.length txt) (fnv txt)
let sb_line (w : ostring list) : bool =
  let fin r = (match r with
     | SOk s -> sb_state := Some s; print_string (sb_answer s)
     | SCrash -> sb_state := None; print_string "crash\n"
     | SLoop -> sb_state := None; print_string "loop\n") in
  match w with
  | ["sbnew"; c] -> list_mode := false; sb_k := 0; fin (SOk (sb_new fmtsb_params (n_of_int (int_of_string c)))); true
  | ["cstr"; m] ->
      (match !sb_state with
       | None -> print_string "skip\n"
       | Some s -> let m = int_of_string m in
           let piece = List.init m (fun i -> n_of_int (97 + (!sb_k + i) mod 26)) in
           incr sb_k; fin (append_cstr fmtsb_params s piece)); true
  | ["chr"] ->
      (match !sb_state with
       | None -> print_string "skip\n"
       | Some s -> let c = n_of_int (65 + !sb_k mod 26) in incr sb_k; fin (append_char fmtsb_params s c)); true
  | _ -> false

(* ---- emitted HashMap lines (same protocol as probes/hm_probe.c): hnew <eng> | put <key> <v> | has/get/rm <key> | len | clear | keys *)
let hm_mode = ref false
let hm_state : (hmap * (hkey * n) list) option ref = ref None
let hkey_of (s : ostring) : hkey =
  let body = String.sub s 2 (String.length s - 2) in
  if s.[0] = 's' then KStr (List.init (String.length body) (fun i -> n_of_int (Char.code body.[i]))) else KInt (n_of_hex body)
let str_hkey (k : hkey) : ostring =
  match k with
  | KInt x -> "i:" ^ hex_of_n x
  | KStr bs -> let b = Buffer.create 16 in List.iter (fun x -> Buffer.add_char b (Char.chr (int_of_n x))) bs; "s:" ^ Buffer.contents b
let str_hm (m : hmap) : ostring =
  let st = Buffer.create 64 and h = Buffer.create 256 in
  List.iteri (fun i e -> match e with
    | Empty -> Buffer.add_char st '.'
    | Tomb _ -> Buffer.add_char st 'T'
    | Live (k, v) -> Buffer.add_char st 'L'; Buffer.add_string h (Printf.sprintf "%d:%s=%s;" i (str_hkey k) (hex_of_n v))) m.h_entries;
  Printf.sprintf " | size=%d tombs=%d cap=%d st=%s h=%s" (int_of_nat m.h_count) (int_of_nat m.h_tombs) (int_of_nat m.h_cap) (Buffer.contents st) (fnv (Buffer.contents h))
let hm_exec (w : ostring list) =
  match w, !hm_state with
  | ["hnew"; _], _ -> let m = hnew hm_params in hm_state := Some (m, []); print_string ("unit" ^ str_hm m ^ "\n")
  | _, None -> print_string "skip\n"
  | ["keys"], Some (m, _) -> print_string ("keys " ^ String.concat "," (List.map str_hkey (hkeys m)) ^ Printf.sprintf " | size=%d\n" (int_of_nat m.h_count))
  | _, Some (m, l) ->
     let o = (match w with
       | ["put"; k; v] -> Some (HPut (hkey_of k, n_of_hex v)) | ["has"; k] -> Some (HHas (hkey_of k)) | ["get"; k] -> Some (HGet (hkey_of k))
       | ["rm"; k] -> Some (HRemove (hkey_of k)) | ["len"] -> Some HLength | ["clear"] -> Some HClear | _ -> None) in
     (match o with
      | None -> print_string "bad\n"
      | Some o ->
        let (l', xa) = amstep l o in
        (match hstep hm_params m o with
         | HCrash -> hm_state := None; print_string "crash\n"
         | HOk (m', x) ->
            let extra = (if x = xa && int_of_nat m'.h_count = List.length l' then "" else " ABS-MISMATCH") in
            hm_state := Some (m', l');
            print_string ((match x with None -> "unit" | Some v -> "val " ^ hex_of_n v) ^ str_hm m' ^ extra ^ "\n")))

(* ---- runtime list lines (same protocol as probes/list_probe.c); the engine name is ignored: one template *)
let rl_state : rlist option ref = ref None
let str_rl (s : rlist) =
  let n = int_of_nat s.r_len in
  let cs = List.map hex_of_n (take n s.r_data) in
  Printf.sprintf " | len=%d cap=%d d=%s" n (int_of_nat s.r_cap)
    (if n = 0 then "-" else if n <= 48 then String.concat "," cs
     else "#" ^ fnv (String.concat "," cs) ^ " " ^ List.hd cs ^ ",..," ^ List.nth cs (n - 1))
let rl_start (s : rlist) = list_mode := true; rl_state := Some s; print_string ("unit" ^ str_rl s ^ "\n")
let rl_exec (o : lop) =
  match !rl_state with
  | None -> print_string "skip\n"
  | Some s ->
     let extra = ref (if rinvb s then "" else " RINV-BROKEN") in
     let a = astep (rabs s) o in
     (match rstep list_params s o with
      | ROk_ (s', x) ->
          (match a with
           | AOk (l', x') -> if not (l' = rabs s' && x' = x) then extra := !extra ^ " ABS-MISMATCH"
           | AExit -> extra := !extra ^ " ABS-MISMATCH"
           | ANoSpec -> ());
          rl_state := Some s';
          print_string ((match x with RUnit -> "unit" | RVal v -> "val " ^ hex_of_n v | RNat n -> "nat " ^ string_of_int (int_of_nat n)
                                     | RBool b -> if b then "bool 1" else "bool 0") ^ str_rl s' ^ !extra ^ "\n")
      | RExit -> (match a with AExit -> () | _ -> extra := !extra ^ " ABS-MISMATCH"); rl_state := None; print_string ("exit" ^ !extra ^ "\n")
      | RCrash_ -> rl_state := None; print_string ("crash" ^ !extra ^ "\n"))
(* list operation lines share verbs with the dyn-array protocol (push/pop/get/set/len/clear): they are told apart by which kind of
   history is open *)
let rl_op (w : ostring list) : lop option =
  match w with
  | ["push"; v] -> Some (RPush (n_of_hex v))
  | ["pop"] -> Some RPop
  | ["ins"; i; v] -> Some (RInsert (z_of_dec i, n_of_hex v))
  | ["rm"; i] -> Some (RRemove (z_of_dec i))
  | ["set"; i; v] -> Some (RSet (z_of_dec i, n_of_hex v))
  | ["get"; i] -> Some (RGet (z_of_dec i))
  | ["clear"] -> Some RClear
  | ["len"] -> Some RLength
  | ["cap"] -> Some RCapacity
  | ["empty"] -> Some RIsEmpty
  | _ -> None

(* one modelled operation on the current state: Ok (state', output, notes) or Stop (answer line) *)
type o1 = Ok1 of dyn * out * string | Stop1 of string
let exec1 (d : dyn) (o : op) : o1 =
  let extra = ref "" in
  if not (invb rt_params d) then extra := " INV-BROKEN";
  let a = lstep rt_params (abs d) o in
  match step rt_params d o with
  | ROk (d', x) ->
      (match a with
       | LOk (l', x') -> if not (l' = abs d' && x' = x) then extra := !extra ^ " ABS-MISMATCH"
       | LAbort -> extra := !extra ^ " ABS-MISMATCH"
       | LExcluded -> ());
      Ok1 (d', x, !extra)
  | RAbort -> (match a with LAbort | LExcluded -> () | _ -> extra := !extra ^ " ABS-MISMATCH"); Stop1 ("abort" ^ !extra)
  | RCrash -> (match a with LExcluded -> () | _ -> extra := !extra ^ " ABS-MISMATCH"); Stop1 ("crash" ^ !extra)
  | ROom -> (match a with LExcluded -> () | _ -> extra := !extra ^ " ABS-MISMATCH"); Stop1 ("oom" ^ !extra)
(* composite lines of the probe: the value operand is read from the same array by a modelled get/pop first *)
let exec_line (d : dyn) (w : ostring list) : o1 option =
  let value_of x = match x with OCell (Val v) -> Some v | OPop (_, Val v) -> Some v | _ -> None in
  let seq2 o1_ mk =
    (match exec1 d o1_ with
     | Stop1 s -> Some (Stop1 s)
     | Ok1 (d1, x, e1) ->
        (match value_of x with
         | None -> Some (Stop1 ("crash" ^ e1 ^ " UNINIT-OPERAND"))
         | Some v -> (match exec1 d1 (mk v) with
                      | Ok1 (d2, x2, e2) -> Some (Ok1 (d2, x2, e1 ^ e2))
                      | Stop1 s -> Some (Stop1 (s ^ e1))))) in
  match w with
  | ["pushat"; k; i] -> let sk = skind_of k.[0] in seq2 (Get (sk, z_of_dec i)) (fun v -> Push (sk, v))
  | ["setat"; k; i; j] -> let sk = skind_of k.[0] in seq2 (Get (sk, z_of_dec j)) (fun v -> Set_ (sk, z_of_dec i, v))
  | ["pushpop"; k] -> let sk = skind_of k.[0] in seq2 (Pop sk) (fun v -> Push (sk, v))
  | _ -> (match parse_op w with None -> None | Some o -> Some (exec1 d o))

let dyn_main () =
  let st : dyn option ref = ref None in
  iter_lines (fun line ->
    match words line with
    | [] -> ()
    | "hnew" :: _ as w -> hm_mode := true; list_mode := false; hm_exec w
    | w when !hm_mode && (match w with ["new"; _] | ["newcap"; _; _] | ["sbnew"; _] | ["lnew"; _] | ["lcap"; _; _] | ["gnew"] -> false | _ -> true) -> hm_exec w
    | w when (hm_mode := false; gc_line w) -> ()
    | ["lnew"; _] -> rl_start (rl_new list_params)
    | ["lcap"; _; c] -> rl_start (rl_with_capacity (nat_of_int (int_of_string c)))
    | w when !list_mode && (match w with ["new"; _] | ["newcap"; _; _] | ["sbnew"; _] -> false | _ -> true) ->
        (match rl_op w with Some o -> rl_exec o | None -> print_string "bad\n")
    | w when sb_line w -> ()
    | ["new"; k] -> let d = dyn_new rt_params (kind_of_code (int_of_string k)) in
        list_mode := false; st := Some d; print_string ("unit" ^ str_state d ^ "\n")
    | ["newcap"; k; c] ->
        (match dyn_new_cap rt_params (kind_of_code (int_of_string k)) (z_of_dec c) with
         | ROk (d, _) -> list_mode := false; st := Some d; print_string ("unit" ^ str_state d ^ "\n")
         | RCrash -> st := None; print_string "crash\n"
         | _ -> st := None; print_string "oom\n")
    | w ->
        (match !st with
         | None -> print_string "skip\n"
         | Some d ->
            (match exec_line d w with
             | None -> print_string "bad\n"
             | Some (Ok1 (d', x, e)) -> st := Some d'; print_string (str_out x ^ str_state d' ^ e ^ "\n")
             | Some (Stop1 s) -> st := None; print_string (s ^ "\n"))))
let () = dyn_main ()
