(* nvref_c13: line protocol (same answer format as probes/vm_probe.c)
     run <cfgbits10> <fuel> <hex bytes | ->   ->  <class>|<detail>|<module crc>|<stdout hex>
   cfgbits = fx_sec fx_slen fx_fnrange fx_div fx_substr fx_print fx_arr fx_npop fx_ipop fx_strict as 0/1 characters. *)
let cfg_of (s : ostring) : cfg =
  { fx_sec = s.[0] = '1'; fx_slen = s.[1] = '1'; fx_fnrange = s.[2] = '1'; fx_div = s.[3] = '1';
    fx_substr = s.[4] = '1'; fx_print = s.[5] = '1'; fx_arr = s.[6] = '1'; fx_npop = s.[7] = '1'; fx_ipop = s.[8] = '1'; fx_strict = s.[9] = '1' }
let str_of_bytes (bs : n list) : ostring =
  let b = Buffer.create 16 in List.iter (fun x -> Buffer.add_char b (Char.chr (int_of_n x))) bs; Buffer.contents b
let show_val (v : value) : ostring =
  match v with
  | VVoid -> "void"
  | VInt z -> "i:" ^ str_of_bytes (dec_of_Z z)
  | VBool b -> if b then "b:1" else "b:0"
  | _ -> "tag:" ^ str_of_bytes (dec_of_Z (tag_of v))
let crc_hex (m : module0) : ostring =
  let h = hex_of_n (crc32 (dump_module m)) in String.make (8 - String.length h) '0' ^ h
let () = iter_lines (fun line ->
  match words line with
  | ["run"; cb; fuel; hx] ->
      let c = cfg_of cb in
      let data = bytes_of_hex hx in
      let r = pipeline c data (nat_of_int (int_of_string fuel)) in
      let s = match r with
        | PLoadCrash -> "crash|load|-|-"
        | PLoadFuel -> "modelfuel|load|-|-"
        | PLoadReject -> "load-reject||-|-"
        | PVerifyCrash -> "crash|verify|-|-"
        | PVerifyFuel -> "modelfuel|verify|-|-"
        | PVerifyJunk -> "unmodelled|verify|-|-"
        | PVerifyReject -> "verify-reject||-|-"
        | PRun (m, o) ->
            let mc = crc_hex m in
            if m.m_imports <> [] then "has-imports||" ^ mc ^ "|-" else
            let out = hex_of_bytes (out_of o) in
            (match o with
             | Finished (v, _) -> "finished|" ^ show_val v ^ "|" ^ mc ^ "|" ^ out
             | VmError (e, _) -> "vmerror|" ^ string_of_int (int_of_n e) ^ "|" ^ mc ^ "|" ^ out
             | OutOfFuel _ -> "fuel||" ^ mc ^ "|" ^ out
             | Crash -> "crash|run|" ^ mc ^ "|-"
             | Signal x -> "crash|run:signal" ^ string_of_int (int_of_n x) ^ "|" ^ mc ^ "|-"
             | Unmodelled -> "unmodelled|run|" ^ mc ^ "|-")
      in
      (* the module crc of a rejected-at-verify module is still comparable *)
      let s = match r with
        | PVerifyCrash | PVerifyJunk | PVerifyReject | PVerifyFuel ->
            (match deserializeC c data with
             | Loaded m -> (match String.split_on_char '|' s with
                            | [a; b; _; d] -> a ^ "|" ^ b ^ "|" ^ crc_hex m ^ "|" ^ d | _ -> s)
             | _ -> s)
        | _ -> s in
      print_string (s ^ "\n")
  | [] -> ()
  | _ -> print_string "bad|||\n")
