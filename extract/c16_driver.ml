(* nvref_c16: line protocol
     run <sigign 0|1> <amax-hex> <ncalls> <script>|<script>|...
        script = entries separated by ';', entry = <label>=<action>,<action>,...   ("-" = empty script)
        label  = init | ready | alive<j> | req<j> | hdr<j> | pay<j> | shutdown | wait1 | wait2
        action = d<bytes-hex> | ci | co | x<code> | k
     -> <status> <err> <done> <orphans 0|1> <all_reaped 0|1> <wf 0|1> <stderr-hex | ->
        stderr = the bytes the model says reach stderr when the reported error text came from the peer (FFI_ERROR), else -
        status = exit0 | exit1 | sig13:<label> | sig11 | hang:<label>
        err    = - | ser<i> | req_died | resp_died | payload | deser | msg | badtype *)
let label_of (s : ostring) : label =
  let num p = n_of_int (int_of_string (String.sub s p (String.length s - p))) in
  if s = "init" then LInit else if s = "ready" then LReady else if s = "shutdown" then LShutdown
  else if s = "wait1" then LWait1 else if s = "wait2" then LWait2
  else if String.length s > 5 && String.sub s 0 5 = "alive" then LAlive (num 5)
  else if String.sub s 0 3 = "req" then LReq (num 3)
  else if String.sub s 0 3 = "hdr" then LHdr (num 3)
  else if String.sub s 0 3 = "pay" then LPay (num 3)
  else failwith ("label " ^ s)
let show_label (l : label) : ostring = match l with
  | LInit -> "init" | LReady -> "ready" | LShutdown -> "shutdown" | LWait1 -> "wait1" | LWait2 -> "wait2"
  | LAlive j -> "alive" ^ string_of_int (int_of_n j) | LReq j -> "req" ^ string_of_int (int_of_n j)
  | LHdr j -> "hdr" ^ string_of_int (int_of_n j) | LPay j -> "pay" ^ string_of_int (int_of_n j)
let action_of (s : ostring) : action =
  if s = "ci" then ACloseIn else if s = "co" then ACloseOut else if s = "k" then AKilled
  else if s.[0] = 'x' then AExit (n_of_int (int_of_string (String.sub s 1 (String.length s - 1))))
  else if s.[0] = 'd' then ADeliver (bytes_of_hex (String.sub s 1 (String.length s - 1)))
  else failwith ("action " ^ s)
let script_of (s : ostring) : (label * action list) list =
  if s = "-" || s = "" then [] else
  List.map (fun e ->
    match String.index_opt e '=' with
    | Some i -> (label_of (String.sub e 0 i),
                 List.map action_of (List.filter (fun x -> x <> "") (String.split_on_char ',' (String.sub e (i + 1) (String.length e - i - 1)))))
    | None -> failwith ("entry " ^ e)) (List.filter (fun x -> x <> "") (String.split_on_char ';' s))
let show_err = function
  | None -> "-" | Some (ESer i) -> "ser" ^ string_of_int (int_of_n i) | Some EReqDied -> "req_died" | Some ERespDied -> "resp_died"
  | Some EPayload -> "payload" | Some EDeser -> "deser" | Some (EMsg _) -> "msg" | Some (EType _) -> "badtype"
let b01 b = if b then "1" else "0"
let () = iter_lines (fun line ->
  match words line with
  | ["run"; ign; amax; nc; scripts] ->
      let scs = List.map script_of (String.split_on_char '|' scripts) in
      let reqs = List.init (int_of_string nc) (fun _ -> ReqOk []) in
      let o = run (deser_a (n_of_hex amax)) (ign = "1") scs reqs in
      let st = match o.o_status with
        | SExit0 -> "exit0" | SExit1 -> "exit1" | SKilled l -> "sig13:" ^ show_label l | SCrash -> "sig11"
        | SHang l -> "hang:" ^ show_label l in
      print_string (String.concat " " [st; show_err o.o_err; string_of_int (int_of_n o.o_done); b01 (orphans o.o_world);
                                       b01 (all_reaped o.o_world); b01 (wfb o.o_vm o.o_world);
                                       (match o.o_err with
                                        | Some e -> (match stderr_report e with Some bs -> hex_of_bytes bs | None -> "-")
                                        | None -> "-")] ^ "\n")
  | [] -> ()
  | _ -> print_string "bad\n")
