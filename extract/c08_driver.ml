(* nvref_c08: line protocol
     acc <cfgbits10> <vm|native|interp> <get|set|pop|remove> <len-hex> <idx as [-]hex>  ->  elem <i-hex> | void | noop | trap ; then " legit"/" oob"
     field <count-hex> <idx-hex>                                                      ->  elem <i-hex> | trap *)
let cfg_of (s : ostring) : cfg =
  { fx_sec = s.[0] = '1'; fx_slen = s.[1] = '1'; fx_fnrange = s.[2] = '1'; fx_div = s.[3] = '1';
    fx_substr = s.[4] = '1'; fx_print = s.[5] = '1'; fx_arr = s.[6] = '1'; fx_npop = s.[7] = '1'; fx_ipop = s.[8] = '1'; fx_strict = s.[9] = '1' }
let show = function AElem i -> "elem " ^ hex_of_n i | AVoid -> "void" | ANoop -> "noop" | ATrap -> "trap"
let () = iter_lines (fun line ->
  match words line with
  | ["acc"; cb; e; k; len; idx] ->
      let e' = (match e with "vm" -> EVm | "native" -> ENative | _ -> EInterp) in
      let k' = (match k with "get" -> AGet | "set" -> ASet | "pop" -> APop | _ -> ARemove) in
      let l = n_of_hex len and i = z_of_hex idx in
      print_string (show (access (cfg_of cb) e' k' l i) ^ (if legit k' l i then " legit" else " oob") ^ "\n")
  | ["field"; cnt; idx] -> print_string (show (vm_field (n_of_hex cnt) (n_of_hex idx)) ^ "\n")
  | [] -> ()
  | _ -> print_string "bad\n")
