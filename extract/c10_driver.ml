(* nvref_c12 / nvref_c10: line protocol shared with probes/nvm_probe.c (same answers expected, byte for byte)
     rt <desc>        -> <dump built> # <serialized hex> # <dump of deserialize(serialized)> # <hex of serialize(loaded)>
     load <hex>       -> <dump> | NULL | CRASH | FUEL
     sweep <hex>      -> A <bit positions (byte*8+bit, LSB first) whose single flip is still accepted, comma separated | ->
     truncs <hex>     -> T <prefix lengths 0..len-1 that are accepted | ->
     crc <hex>        -> <crc hex>
   model only:
     steer <hex>      -> four bytes hex: CRC-preserving tail for that file
     wf <desc>        -> 1 | 0
     exit <virt|wrapper|vm|daemon> <int VALUE(dec, may be negative)|other|err>  -> status
   <desc> = <flags-hex> <entry-hex> { ; s <hex|-> | ; c <hex|-> | ; f n a o l lc u | ; d o l | ; i m f pc rt <hex|-|null> }   (numbers hex)
   dump  = H fl en ns so sl crc | X t:o:s ... | S hex ... | C hex | F n:a:o:l:lc:u ... | D o:l ... | I m:f:pc:rt:hex ... *)
let hx = hex_of_n
let dump (m : module0) : ostring =
  let h = m.m_hdr in
  let sp l = if l = [] then "" else " " ^ String.concat " " l in
  "H " ^ String.concat " " [hx h.h_flags; hx h.h_entry; hx h.h_nsec; hx h.h_spoff; hx h.h_splen; hx h.h_crc]
  ^ " | X" ^ sp (List.map (fun ((t, o), s) -> hx t ^ ":" ^ hx o ^ ":" ^ hx s) m.m_secs)
  ^ " | S" ^ sp (List.map hex_of_bytes m.m_strings)
  ^ " | C " ^ hex_of_bytes m.m_code
  ^ " | F" ^ sp (List.map (fun f -> String.concat ":" [hx f.fn_name; hx f.fn_arity; hx f.fn_off; hx f.fn_len; hx f.fn_locals; hx f.fn_upv]) m.m_funcs)
  ^ " | D" ^ sp (List.map (fun (o, l) -> hx o ^ ":" ^ hx l) m.m_debug)
  ^ " | I" ^ sp (List.map (fun i -> String.concat ":" [hx i.im_mod; hx i.im_fn; hx i.im_pc; hx i.im_ret; hex_of_bytes i.im_params]) m.m_imports)

let show = function Loaded m -> dump m | Refused -> "NULL" | Crash -> "CRASH" | OutOfFuel -> "FUEL"

let rec split_ops (ws : ostring list) : ostring list list =
  let rec go cur acc = function
    | [] -> List.rev (List.rev cur :: acc)
    | ";" :: r -> go [] (List.rev cur :: acc) r
    | w :: r -> go (w :: cur) acc r in
  go [] [] ws

let parse_desc (ws : ostring list) : module0 =
  match split_ops ws with
  | [fl; en] :: ops ->
      let op = function
        | ["s"; h] -> OpString (bytes_of_hex h)
        | ["c"; h] -> OpCode (bytes_of_hex h)
        | ["f"; a; b; c; d; e; f] -> OpFunc { fn_name = n_of_hex a; fn_arity = n_of_hex b; fn_off = n_of_hex c; fn_len = n_of_hex d; fn_locals = n_of_hex e; fn_upv = n_of_hex f }
        | ["d"; o; l] -> OpDebug (n_of_hex o, n_of_hex l)
        | ["i"; m; f; pc; rt; p] -> OpImport { im_mod = n_of_hex m; im_fn = n_of_hex f; im_pc = n_of_hex pc; im_ret = n_of_hex rt;
                                               im_params = (if p = "null" then [] else bytes_of_hex p) }
        | _ -> failwith "bad op" in
      build (n_of_hex fl) (n_of_hex en) (List.map op (List.filter (fun o -> o <> []) ops))
  | _ -> failwith "bad desc"

let accepted bs = match deserialize bs with Loaded _ -> true | _ -> false
let flip (bs : n list) (p : int) : n list =
  List.mapi (fun i b -> if i = p / 8 then n_of_int ((int_of_n b) lxor (1 lsl (p mod 8))) else b) bs
let rec take k l = if k <= 0 then [] else match l with [] -> [] | x :: r -> x :: take (k - 1) r
let join l = if l = [] then "-" else String.concat "," (List.map string_of_int l)

let () = iter_lines (fun line ->
  match words line with
  | "rt" :: d ->
      let m = parse_desc d in
      let bs = serialize m in
      let r = deserialize bs in
      let again = (match r with Loaded m2 -> hex_of_bytes (serialize m2) | _ -> "none") in
      print_string (dump m ^ " # " ^ hex_of_bytes bs ^ " # " ^ show r ^ " # " ^ again ^ "\n")
  | ["load"; h] -> print_string (show (deserialize (bytes_of_hex h)) ^ "\n")
  | ["sweep"; h] ->
      let bs = bytes_of_hex h in
      let n = 8 * List.length bs in
      let acc = ref [] in
      for p = n - 1 downto 0 do if accepted (flip bs p) then acc := p :: !acc done;
      print_string ("A " ^ join !acc ^ "\n")
  | ["truncs"; h] ->
      let bs = bytes_of_hex h in
      let acc = ref [] in
      for k = List.length bs - 1 downto 0 do if accepted (take k bs) then acc := k :: !acc done;
      print_string ("T " ^ join !acc ^ "\n")
  | ["crc"; h] -> print_string (hx (crc32 (bytes_of_hex h)) ^ "\n")
  | ["steer"; h] -> print_string (hex_of_bytes (steer_file (bytes_of_hex h)) ^ "\n")
  | "wf" :: d -> print_string (if wf_moduleb (parse_desc d) then "1\n" else "0\n")
  | ["exit"; r; "int"; v] ->
      let rn = (match r with "virt" -> VirtRun | "wrapper" -> Wrapper | "vm" -> NanoVmFile | _ -> DaemonClient) in
      let z = (let neg = String.length v > 0 && v.[0] = '-' in
               let a = if neg then String.sub v 1 (String.length v - 1) else v in
               let hexs = Printf.sprintf "%Lx" (Int64.of_string a) in
               z_of_hex ((if neg then "-" else "") ^ hexs)) in
      print_string (string_of_int (int_of_string ("0x" ^ hex_of_z (exit_status rn (VmOk (true, z))))) ^ "\n")
  | ["exit"; r; o] ->
      let rn = (match r with "virt" -> VirtRun | "wrapper" -> Wrapper | "vm" -> NanoVmFile | _ -> DaemonClient) in
      let oc = if o = "err" then VmError else VmOk (false, Z0) in
      print_string (string_of_int (int_of_string ("0x" ^ hex_of_z (exit_status rn oc))) ^ "\n")
  | [] -> ()
  | _ -> print_string "bad\n")
