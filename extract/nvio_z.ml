(* Z conversions; included only when the extracted module defines type z *)
(* z as "-hex" / "hex" *)
let z_of_hex (s : ostring) : z =
  if String.length s > 0 && s.[0] = '-' then
    (match n_of_hex (String.sub s 1 (String.length s - 1)) with N0 -> Z0 | Npos p -> Zneg p)
  else (match n_of_hex s with N0 -> Z0 | Npos p -> Zpos p)
let hex_of_z (x : z) : ostring =
  match x with Z0 -> "0" | Zpos p -> hex_of_n (Npos p) | Zneg p -> "-" ^ hex_of_n (Npos p)
