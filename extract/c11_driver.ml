(* nvref_c11: line protocol
     enc <op-hex> <arg-hex>...      -> ok <bytes-hex> | err
     dec <bytes-hex>                -> ok <n> <op-hex> <arg-hex>... | err
     wf  <op-hex> <arg-hex>...      -> 1 | 0
   text form (same answers as probes/asm_probe.c, see there for <mod>):
     dis <mod>        -> ok <text-hex>
     asm <text-hex>   -> ok <mod> | err <code> <line>
     rt  <mod>        -> ok <mod-as-built> <text-hex> A <mod'> | ok <mod-as-built> <text-hex> E <code> <line>
     wfm <mod>        -> wf | notwf <conjunct>,...     the hypothesis of C11_asm_disasm_module, conjunct by conjunct
     f64 <bits-hex>   -> ok <text-hex> <bits'-hex>|rej         the oracle: print, then re-read
     dec10 <hex>      -> ok <text-hex>         print_dec
     ll <text-hex>    -> ok <z-hex> <rest-hex> | err      strtoll(base 0) + errno test
   The float oracle (Section variables print_f64 / parse_f64 of NV.Isa.Asm) is instantiated here with the host libc
   through OCaml: Printf "%.17g" (C printf) and float_of_string (C strtod); overflow (the only refused ERANGE) is reconstructed from the result. *)
let bytes_of_ostring (s : ostring) : n list = List.init (String.length s) (fun i -> n_of_int (Char.code s.[i]))
let ostring_of_bytes (l : n list) : ostring =
  let b = Buffer.create 64 in List.iter (fun c -> Buffer.add_char b (Char.chr (int_of_n c land 255))) l; Buffer.contents b
let pf (bits : n) : n list =
  bytes_of_ostring (Printf.sprintf "%.17g" (Int64.float_of_bits (Int64.of_string ("0x" ^ hex_of_n bits))))
let is_sp c = c = ' ' || (c >= '\t' && c <= '\r')
let sf (l : n list) : (n * n list) option =
  (* strtod skips isspace, then takes the longest prefix that is a number; the texts we are asked about end the number at a blank/end *)
  let rec drop = function c :: r when is_sp (Char.chr (int_of_n c land 255)) -> drop r | l -> l in
  let l = drop l in
  let rec span acc = function
    | c :: r when not (is_sp (Char.chr (int_of_n c land 255))) -> span (c :: acc) r
    | r -> (List.rev acc, r) in
  let (tok, rest0) = span [] l in
  let full = ostring_of_bytes tok in
  (* strtod takes the longest prefix that is a number: try the token, then ever shorter prefixes of it *)
  let rec best k = if k = 0 then None else
    let s = String.sub full 0 k in
    if String.contains s '_' then best (k - 1) else
    match float_of_string_opt s with Some v -> Some (s, v, k) | None -> best (k - 1) in
  match best (String.length full) with
  | None -> None
  | Some (s, v, k) ->
      let rest = (let rec dropn n l = if n = 0 then l else match l with [] -> [] | _ :: r -> dropn (n - 1) r in dropn k tok) @ rest0 in
      let ls = String.lowercase_ascii s in
      let has sub = let n = String.length sub in
        let rec go i = i + n <= String.length ls && (String.sub ls i n = sub || go (i + 1)) in go 0 in
      let nonzero_digit = let r = ref false in
        (try String.iter (fun c -> if c = 'e' || c = 'p' then raise Exit; if c >= '1' && c <= '9' then r := true) ls with Exit -> ()); !r in
      let cls = classify_float v in
      (* parse_double after the fix: errno is only an error when the result is +-HUGE_VAL (overflow) *)
      let erange = (cls = FP_infinite && not (has "inf")) in
      if erange then None
      else Some (n_of_hex (Printf.sprintf "%Lx" (Int64.bits_of_float v)), rest)

let split_on c s = String.split_on_char c s
let dec_n (s : ostring) : n = n_of_hex (Printf.sprintf "%x" (int_of_string s))
let dec_of_n (x : n) : ostring = string_of_int (int_of_n x)
let mod_of_desc (d : ostring) : module0 =
  match split_on ';' d with
  | [hdr; strs; fns; code] ->
      let (fl, en) = (match split_on '/' hdr with [a; b] -> (dec_n a, dec_n b) | _ -> failwith "hdr") in
      let m = ref { empty_module with m_flags = fl; m_entry = en } in
      if strs <> "-" then List.iter (fun t ->
        let h = String.sub t 1 (String.length t - 1) in
        m := fst (add_string !m (if h = "" then [] else bytes_of_hex h))) (split_on ',' strs);
      let fs = if fns = "-" then [] else List.map (fun t ->
        match List.map dec_n (split_on '/' t) with
        | [a; b; c; d; e; f] -> { fn_name = a; fn_arity = b; fn_off = c; fn_len = d; fn_locals = e; fn_upv = f }
        | _ -> failwith "fn") (split_on ',' fns) in
      { !m with m_funcs = fs; m_code = bytes_of_hex code }
  | _ -> failwith "mod"
let desc_of_mod (m : module0) : ostring =
  dec_of_n m.m_flags ^ "/" ^ dec_of_n m.m_entry ^ ";" ^
  (if m.m_strings = [] then "-" else String.concat "," (List.map (fun s -> "s" ^ (if s = [] then "" else hex_of_bytes s)) m.m_strings)) ^ ";" ^
  (if m.m_funcs = [] then "-" else String.concat "," (List.map (fun f ->
     String.concat "/" (List.map dec_of_n [f.fn_name; f.fn_arity; f.fn_off; f.fn_len; f.fn_locals; f.fn_upv])) m.m_funcs)) ^ ";" ^
  hex_of_bytes m.m_code
let asm_answer (t : n list) : ostring =
  match asm_assemble table_list sf t with
  | AOk m -> "A " ^ desc_of_mod m
  | AErr (c, l) -> "E " ^ dec_of_n c ^ " " ^ dec_of_n l

let () = iter_lines (fun line ->
  match words line with
  | "enc" :: o :: a ->
      (match encode table { op = n_of_hex o; args = List.map n_of_hex a } with
       | Some bs -> print_string ("ok " ^ hex_of_bytes bs ^ "\n") | None -> print_string "err\n")
  | "wf" :: o :: a ->
      print_string (if wf_instrb table { op = n_of_hex o; args = List.map n_of_hex a } then "1\n" else "0\n")
  | ["dec"; h] ->
      (match decode table (bytes_of_hex h) with
       | Some (i, n) -> print_string (String.concat " " ("ok" :: string_of_int (int_of_nat n) :: hex_of_n i.op :: List.map hex_of_n i.args) ^ "\n")
       | None -> print_string "err\n")
  | ["dis"; d] ->
      print_string ("ok " ^ hex_of_bytes (disasm_module table_list pf (mod_of_desc d)) ^ "\n")
  | ["rt"; d] ->
      let m = mod_of_desc d in
      let t = disasm_module table_list pf m in
      print_string ("ok " ^ desc_of_mod m ^ " " ^ hex_of_bytes t ^ " " ^ asm_answer t ^ "\n")
  | ["asm"; h] ->
      (match asm_assemble table_list sf (bytes_of_hex h) with
       | AOk m -> print_string ("ok " ^ desc_of_mod m ^ "\n")
       | AErr (c, l) -> print_string ("err " ^ dec_of_n c ^ " " ^ dec_of_n l ^ "\n"))
  | ["wfm"; d] ->
      let m = mod_of_desc d in
      let good v = (match sf (pf v) with Some (v', []) -> v' = v | _ -> false) in
      let names = ["str_bytes"; "distinct"; "fn_fields"; "fn_names"; "layout";
                   "code_bytes"; "code_decodes"; "code_patches"; "code_f64"; "entry"] in
      let cs = wf_conjuncts_fast table_list good m in   (* = wf_conjuncts, theorem C11_wf_fast_is_wf *)
      let bad = List.filter_map (fun (nm, ok) -> if ok then None else Some nm) (List.combine names cs) in
      print_string (if bad = [] then "wf\n" else "notwf " ^ String.concat "," bad ^ "\n")
  | ["f64"; h] ->
      let t = pf (n_of_hex h) in
      print_string ("ok " ^ hex_of_bytes t ^ " " ^ (match sf t with Some (v, []) -> hex_of_n v | _ -> "rej") ^ "\n")
  | ["dec10"; h] -> print_string ("ok " ^ hex_of_bytes (print_dec (n_of_hex h)) ^ "\n")
  | ["ll"; h] ->
      (match strtoll (bytes_of_hex h) with
       | Some (z, r) -> print_string ("ok " ^ hex_of_z z ^ " " ^ hex_of_bytes r ^ "\n")
       | None -> print_string "err\n")
  | [] -> ()
  | _ -> print_string "bad\n")
