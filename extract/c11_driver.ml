(* nvref_c11: line protocol
     enc <op-hex> <arg-hex>...      -> ok <bytes-hex> | err
     dec <bytes-hex>                -> ok <n> <op-hex> <arg-hex>... | err
     wf  <op-hex> <arg-hex>...      -> 1 | 0 *)
let () = iter_lines (fun line ->
  match words line with
  | "enc" :: o :: a ->
      (match encode table { op = n_of_hex o; args = List.map n_of_hex a } with
       | Some bs -> print_string ("ok " ^ hex_of_bytes bs ^ "\n") | None -> print_string "err\n")
  | "wf" :: o :: a ->
      print_string (if wf_instrb table { op = n_of_hex o; args = List.map n_of_hex a } then "1\n" else "0\n")
  | ["dec"; h] ->
      (match decode table (bytes_of_hex h) with
       | Some (i, n) -> print_string (String.concat " " ("ok" :: string_of_int (int_of_nat n) :: hex_of_n i.op :: List.map hex_of_n i.args) ^ "\n")
       | None -> print_string "err\n")
  | [] -> ()
  | _ -> print_string "bad\n")
