(* nvref_c19: same line protocol as probes/ser_probe.c ("mod ..." and "encr ...").
     mod fill=<z|seed> ...   -> idx <...> ok <hex>     serialize_into crc32 ser_consts <init from fill> m, where the strings went
                                                      through add_all (the model of nvm_add_string) first
     encr <op-hex> <count> <s0> <s1> <s2> <s3>  -> ok <hex> | err      encode_raw table on the raw slots *)
let split_on c s = if s = "" then [] else String.split_on_char c s
let n_of_dec s = n_of_int (int_of_string s)
let init_of fill total =
  if fill = "z" then List.init total (fun _ -> N0)
  else let seed = int_of_string fill in
    List.init total (fun i -> n_of_int (((seed * 131 + i * 17 + (i * i) mod 251) land 255) lor 1))
let () = iter_lines (fun line ->
  match words line with
  | "mod" :: toks ->
      let fill = ref "z" and flags = ref N0 and entry = ref N0 and strs = ref [] and code = ref [] and fns = ref []
      and dbg = ref [] and imps = ref [] in
      List.iter (fun t ->
        if String.length t > 5 && String.sub t 0 5 = "fill=" then fill := String.sub t 5 (String.length t - 5)
        else if String.length t > 6 && String.sub t 0 6 = "flags=" then flags := n_of_dec (String.sub t 6 (String.length t - 6))
        else if String.length t > 6 && String.sub t 0 6 = "entry=" then entry := n_of_dec (String.sub t 6 (String.length t - 6))
        else begin
          let body = String.sub t 2 (String.length t - 2) in
          match t.[0] with
          | 'S' -> strs := List.map bytes_of_hex (split_on ',' body)
          | 'C' -> code := (if body = "" then [] else bytes_of_hex body)
          | 'F' -> fns := List.map (fun it -> match List.map n_of_dec (split_on '.' it) with
                     | [a; b; c; d; e; f] -> { f_name = a; f_arity = b; f_off = c; f_len = d; f_locals = e; f_upvals = f }
                     | _ -> failwith "F") (split_on ',' body)
          | 'D' -> dbg := List.map (fun it -> match List.map n_of_dec (split_on '.' it) with
                     | [a; b] -> { g_off = a; g_line = b } | _ -> failwith "D") (split_on ',' body)
          | 'I' -> imps := List.map (fun it -> match split_on '.' it with
                     | [a; b; c; d; pt] -> { i_mod = n_of_dec a; i_fn = n_of_dec b; i_pcount = n_of_dec c; i_ret = n_of_dec d;
                                             i_ptypes = (if pt = "null" then None else Some (bytes_of_hex pt)) }
                     | _ -> failwith "I") (split_on ',' body)
          | _ -> failwith "tok"
        end) toks;
      let (pool, idx) = add_all [] !strs in
      let m = { m_flags = !flags; m_entry = !entry; m_strings = pool; m_code = !code; m_fns = !fns; m_dbg = !dbg; m_imps = !imps } in
      let total = int_of_nat (total_size ser_consts m) in
      let init = init_of !fill total in
      let idxs = if idx = [] then "-" else String.concat "," (List.map (fun i -> string_of_int (int_of_nat i)) idx) in
      (match serialize_into crc32 ser_consts init m with
       | Some bs -> print_string ("idx " ^ idxs ^ " ok " ^ hex_of_bytes bs ^ "\n")
       | None -> print_string ("idx " ^ idxs ^ " err\n"))
  | ["encr"; o; c; s0; s1; s2; s3] ->
      (match encode_raw table { r_op = n_of_hex o; r_count = n_of_dec c; r_slots = List.map n_of_hex [s0; s1; s2; s3];
                                r_types = []; r_bytelen = N0 } with
       | Some bs -> print_string ("ok " ^ hex_of_bytes bs ^ "\n") | None -> print_string "err\n")
  | [] -> ()
  | _ -> print_string "bad\n")
