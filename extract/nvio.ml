(* Hand-written glue shared by all drivers (textually included after `open Ex_<id>`): conversions between
   OCaml strings and the extracted Coq datatypes positive / n / z / nat / list.  Trusted. *)
let rec pos_of_bits (bits : bool list) (acc : positive) : positive =
  match bits with [] -> acc | b :: r -> pos_of_bits r (if b then XI acc else XO acc)
(* bits MSB first *)
let n_of_bits_msb (bits : bool list) : n =
  let rec strip = function false :: r -> strip r | l -> l in
  match strip bits with [] -> N0 | _ :: r -> Npos (pos_of_bits r XH)
let hexval c = match c with
  | '0'..'9' -> Char.code c - 48 | 'a'..'f' -> Char.code c - 87 | 'A'..'F' -> Char.code c - 55
  | _ -> failwith "hex"
let n_of_hex (s : ostring) : n =
  let bits = ref [] in
  String.iter (fun c -> let v = hexval c in
    bits := (v land 1 <> 0) :: (v land 2 <> 0) :: (v land 4 <> 0) :: (v land 8 <> 0) :: !bits) s;
  n_of_bits_msb (List.rev !bits)
let rec bits_lsb_of_pos (p : positive) : bool list =
  match p with XH -> [true] | XO q -> false :: bits_lsb_of_pos q | XI q -> true :: bits_lsb_of_pos q
let hex_of_n (x : n) : ostring =
  match x with N0 -> "0" | Npos p ->
    let bits = Array.of_list (bits_lsb_of_pos p) in
    let nb = Array.length bits in
    let nd = (nb + 3) / 4 in
    let b = Buffer.create nd in
    for d = nd - 1 downto 0 do
      let v = ref 0 in
      for k = 3 downto 0 do
        let i = d * 4 + k in
        v := !v * 2 + (if i < nb && bits.(i) then 1 else 0)
      done;
      Buffer.add_char b "0123456789abcdef".[!v]
    done; Buffer.contents b
let n_of_int (i : int) : n = n_of_hex (Printf.sprintf "%x" i)
let int_of_n (x : n) : int = int_of_string ("0x" ^ hex_of_n x)
let nat_of_int (i : int) : nat = let rec go acc i = if i <= 0 then acc else go (S acc) (i - 1) in go O i
let int_of_nat (x : nat) : int = let rec go a = function O -> a | S m -> go (a + 1) m in go 0 x
(* byte lists as contiguous hex, two digits per byte; "-" is the empty list *)
let bytes_of_hex (s : ostring) : n list =
  if s = "-" then [] else
  let l = String.length s / 2 in
  List.init l (fun i -> n_of_int (hexval s.[2*i] * 16 + hexval s.[2*i+1]))
let hex_of_bytes (bs : n list) : ostring =
  if bs = [] then "-" else String.concat "" (List.map (fun b -> Printf.sprintf "%02x" (int_of_n b)) bs)
let words (l : ostring) : ostring list = List.filter (fun s -> s <> "") (String.split_on_char ' ' l)
let iter_lines (f : ostring -> unit) : unit =
  (try while true do f (input_line stdin) done with End_of_file -> ()); flush stdout
