(* nvref_lang: line protocol over S-expressions produced by tools/progen.py
     ref <fuel> <prog-sexp>   -> done <exit> <out-hex> | fault <kind> <out-hex> | stuck | nofuel      (Lang/Ref.v) *)
type sx = A of ostring | L of sx list
let parse_sx (s : ostring) : sx =
  let n = String.length s in
  let pos = ref 0 in
  let rec skip () = if !pos < n && (s.[!pos] = ' ' || s.[!pos] = '\t') then (incr pos; skip ()) in
  let rec one () : sx =
    skip ();
    if !pos >= n then failwith "sexp: eof" else
    if s.[!pos] = '(' then begin
      incr pos;
      let items = ref [] in
      let rec loop () = skip ();
        if !pos >= n then failwith "sexp: unclosed" else
        if s.[!pos] = ')' then incr pos else (items := one () :: !items; loop ()) in
      loop (); L (List.rev !items)
    end else begin
      let st = !pos in
      while !pos < n && s.[!pos] <> ' ' && s.[!pos] <> '(' && s.[!pos] <> ')' do incr pos done;
      A (String.sub s st (!pos - st))
    end in
  one ()

let ty_of = function "int" -> TInt | "bool" -> TBool | "void" -> TVoid | "str" -> TStr | "arr" -> TArr | t -> failwith ("ty " ^ t)
let binop_of : ostring -> binop = function
  | "add" -> BAdd | "sub" -> BSub | "mul" -> BMul | "div" -> BDiv | "mod" -> BMod | "eq" -> BEq | "ne" -> BNe
  | "lt" -> BLt | "le" -> BLe | "gt" -> BGt | "ge" -> BGe | "and" -> BAnd | "or" -> BOr | o -> failwith ("binop " ^ o)
let rec expr_of (x : sx) : expr =
  match x with
  | L [A "num"; A z] -> ENum (z_of_hex z)
  | L [A "bool"; A b] -> EBool (b = "1")
  | L [A "str"; A h] -> EStr (bytes_of_hex h)
  | L [A "var"; A v] -> EVar (n_of_hex v)
  | L [A "un"; A "neg"; a] -> EUn (UNeg, expr_of a)
  | L [A "un"; A "not"; a] -> EUn (UNot, expr_of a)
  | L [A "bin"; A o; a; b] -> EBin (binop_of o, expr_of a, expr_of b)
  | L (A "call" :: A f :: args) -> ECall (n_of_hex f, List.map expr_of args)
  | L [A "cond"; c; a; b] -> ECond (expr_of c, expr_of a, expr_of b)
  | L (A "arr" :: es) -> EArr (List.map expr_of es)
  | L [A "at"; a; i] -> EAt (expr_of a, expr_of i)
  | L [A "len"; a] -> ELen (expr_of a)
  | L [A "s1"; A o; a] -> EStr1 ((match o with "len" -> SLen | "ofint" -> SOfInt | _ -> failwith ("sop1 " ^ o)), expr_of a)
  | L [A "s2"; A o; a; b] ->
      EStr2 ((match o with "plus" -> SPlus | "concat" -> SConcat | "equals" -> SEquals | "contains" -> SContains | "charat" -> SCharAt
              | _ -> failwith ("sop2 " ^ o)), expr_of a, expr_of b)
  | L [A "substr"; a; b; c] -> ESubstr (expr_of a, expr_of b, expr_of c)
  | _ -> failwith "expr"
let rec stmt_of (x : sx) : stmt =
  match x with
  | L [A "skip"] -> SSkip
  | L [A "seq"; a; b] -> SSeq (stmt_of a, stmt_of b)
  | L [A "let"; A m; A v; A t; e] -> SLet (m = "1", n_of_hex v, ty_of t, expr_of e)
  | L [A "set"; A v; e] -> SSet (n_of_hex v, expr_of e)
  | L [A "if"; c; a; b] -> SIf (expr_of c, stmt_of a, stmt_of b)
  | L [A "while"; c; b] -> SWhile (expr_of c, stmt_of b)
  | L [A "for"; A v; lo; hi; b] -> SFor (n_of_hex v, expr_of lo, expr_of hi, stmt_of b)
  | L [A "break"] -> SBreak
  | L [A "continue"] -> SContinue
  | L [A "ret"] -> SReturn None
  | L [A "ret"; e] -> SReturn (Some (expr_of e))
  | L [A "print"; A nl; e] -> SPrint (nl = "1", expr_of e)
  | L [A "assert"; e] -> SAssert (expr_of e)
  | L [A "expr"; e] -> SExpr (expr_of e)
  | _ -> failwith "stmt"
let prog_of (x : sx) : program =
  match x with
  | L [A "prog"; A m; L (A "globals" :: gs); L (A "fns" :: fs)] ->
      { pglobals = List.map (function L [A "g"; A v; A t; e] -> ((n_of_hex v, ty_of t), expr_of e) | _ -> failwith "global") gs;
        pfns = List.map (function
          | L [A "fn"; A f; A r; L ps; b] ->
              { fname = n_of_hex f; fret = ty_of r; fbody = stmt_of b;
                fparams = List.map (function L [A v; A t] -> (n_of_hex v, ty_of t) | _ -> failwith "param") ps }
          | _ -> failwith "fn") fs;
        pmain = n_of_hex m }
  | _ -> failwith "prog"

let fault_name = function FAssert -> "assert" | FDivZero -> "divzero" | FDivOverflow -> "divoverflow" | FOob -> "oob" | FStrDomain -> "strdomain"
let show_outcome = function
  | Done (out, ex) -> "done " ^ hex_of_z ex ^ " " ^ hex_of_bytes out
  | Faulted (f, out) -> "fault " ^ fault_name f ^ " " ^ hex_of_bytes out
  | StuckO -> "stuck"
  | OutOfFuel -> "nofuel"

let merr_name = function EType -> "type" | EOob -> "oob" | EStack -> "stack" | ECallDepth -> "calldepth" | EAssert -> "assert"
  | EDecode -> "decode" | EUndefFn -> "undeffn" | EUnsupported -> "unsupported"
let show_vm = function
  | VDone (out, ex) -> "done " ^ hex_of_z ex ^ " " ^ hex_of_bytes out
  | VError (e, out) -> "vmerror " ^ merr_name e ^ " " ^ hex_of_bytes out
  | VSignal out -> "signal fpe " ^ hex_of_bytes out
  | VFellOff out -> "felloff x " ^ hex_of_bytes out
  | VOutOfFuel -> "nofuel"
  | VBad -> "bad"

let show_nat = function
  | NDone (out, ex) -> "done " ^ hex_of_z ex ^ " " ^ hex_of_bytes out
  | NFaulted (NFAssert, out) -> "fault assert " ^ hex_of_bytes out
  | NFaulted (NFOob, out) -> "abort oob " ^ hex_of_bytes out
  | NFaulted (NFStrDomain, out) -> "fault strdomain " ^ hex_of_bytes out
  | NFaulted (_, out) -> "signal fpe " ^ hex_of_bytes out
  | NStuckO -> "stuck"
  | NCcFailO -> "ccfail"
  | NOutOfFuel -> "nofuel"

let split2 (l : ostring) : ostring * ostring =
  match String.index_opt l ' ' with
  | Some i -> (String.sub l 0 i, String.sub l (i + 1) (String.length l - i - 1))
  | None -> (l, "")

let () = iter_lines (fun line ->
  let (cmd, rest) = split2 line in
  try
    match cmd with
    | "ref" -> let (fu, sx) = split2 rest in
        print_string (show_outcome (run_ref (nat_of_int (int_of_string fu)) (prog_of (parse_sx sx))) ^ "\n")
    | "natl" | "natr" -> let (fu, sx) = split2 rest in
        print_string (show_nat (run_nat (if cmd = "natl" then LtoR else RtoL) (nat_of_int (int_of_string fu)) (prog_of (parse_sx sx))) ^ "\n")
    | "se" -> let (_, sx) = split2 rest in
        (* se <ignored> <prog-sexp> : NatOrder.se_program -- every call has at most one argument with a call or / % *)
        print_string ((if se_program (prog_of (parse_sx sx)) then "1" else "0") ^ "\n")
    | "nc" ->
        (* nc <fuel> (env (x int|bool v)...) <expr> : the repository's eval_fn on the embedded expression, and the common-domain evaluator *)
        let (fu, r) = split2 rest in
        (match parse_sx ("(" ^ r ^ ")") with
         | L [L (A "env" :: bs); e] ->
             let en = List.map (function
               | L [A x; A "int"; A v] -> (n_of_hex x, (false, VInt (z_of_hex v)))
               | L [A x; A "bool"; A v] -> (n_of_hex x, (false, VBool (v = "1")))
               | _ -> failwith "binding") bs in
             let ex = expr_of e in
             let show_v = function Some (VInt z) -> "int:" ^ hex_of_z z | Some (VBool b) -> if b then "bool:1" else "bool:0" | Some _ -> "other" | None -> "none" in
             print_string ("exact=" ^ show_v (exact_eval en ex) ^ " nanocore=" ^ show_v (nanocore_eval_v (nat_of_int (int_of_string fu)) en ex) ^ "\n")
         | _ -> print_string "bad\n")
    | "vmc" -> let (_, sx) = split2 rest in
        (match compile_program (prog_of (parse_sx sx)) with
         | None -> print_string "err\n"
         | Some m ->
             let strs = String.concat "," (List.map hex_of_bytes m.m_strings) in
             let fns = String.concat ";" (List.map (fun e -> Printf.sprintf "%d:%d:%d:%d:%d:0" (int_of_nat e.fe_name) (int_of_nat e.fe_arity)
                          (int_of_nat e.fe_off) (int_of_nat e.fe_len) (int_of_nat e.fe_locals)) m.m_fns) in
             print_string (Printf.sprintf "ok entry=%d strings=%s fns=%s code=%s\n" (int_of_nat m.m_entry) strs fns (hex_of_bytes m.m_code)))
    | "vmrun" -> let (fu, sx) = split2 rest in
        (match compile_program (prog_of (parse_sx sx)) with
         | None -> print_string "compile-error\n"
         | Some m -> print_string (show_vm (run_vm (nat_of_int (int_of_string fu)) m) ^ "\n"))
    | "" -> ()
    | _ -> print_string "bad\n"
  with Failure m -> print_string ("error " ^ m ^ "\n") | Stack_overflow -> print_string "error stackoverflow\n")
