(* nvref_c03: line protocol over S-expressions produced by tools/progen.py + tools/props/shadowlib.py
     interp <fuel> <sprog>           -> done tests=<f>:<p|f>:<nfail>:<asserts 0/1 string>:<out-hex>;... skipped=<f,..> | sigfpe | unmodelled | nofuel | oob <f|-> <out-hex>
                                        (Back/InterpSem + Driver/ShadowGate.run_interp, base = no leftover symbols)
     nanoc <fuel> <front> <later> <sprog> -> exit <code> <binary 0|1> failed=<f>:<n>,... warn=<f,..> | killed | unmodelled | hang
     reft <fuel> <sprog>             -> tests=<f>:<ok|assert|div|stuck|nofuel>:<out-hex>;...  | globals-failed     (Lang/Ref per shadow block)
     apart <sprog>                   -> 1 | 0                                                  (Back/NamesApart.names_apart)
   sprog = (sprog <prog> (shadows (sh <fn-hex> <skip 0|1> <stmt>) ...) [(imported <fn-hex> ...)])   shadows: ALL blocks in source order,  prog as in lang_driver.ml *)
type sx = A of ostring | L of sx list
let parse_sx (s : ostring) : sx =
  let n = String.length s in
  let pos = ref 0 in
  let rec skip () = if !pos < n && (s.[!pos] = ' ' || s.[!pos] = '\t') then (incr pos; skip ()) in
  let rec one () : sx =
    skip ();
    if !pos >= n then failwith "sexp: eof" else
    if s.[!pos] = '(' then begin
      incr pos;
      let items = ref [] in
      let rec loop () = skip ();
        if !pos >= n then failwith "sexp: unclosed" else
        if s.[!pos] = ')' then incr pos else (items := one () :: !items; loop ()) in
      loop (); L (List.rev !items)
    end else begin
      let st = !pos in
      while !pos < n && s.[!pos] <> ' ' && s.[!pos] <> '(' && s.[!pos] <> ')' do incr pos done;
      A (String.sub s st (!pos - st))
    end in
  one ()

let ty_of = function "int" -> TInt | "bool" -> TBool | "void" -> TVoid | "str" -> TStr | "arr" -> TArr | t -> failwith ("ty " ^ t)
let binop_of : ostring -> binop = function
  | "add" -> BAdd | "sub" -> BSub | "mul" -> BMul | "div" -> BDiv | "mod" -> BMod | "eq" -> BEq | "ne" -> BNe
  | "lt" -> BLt | "le" -> BLe | "gt" -> BGt | "ge" -> BGe | "and" -> BAnd | "or" -> BOr | o -> failwith ("binop " ^ o)
let rec expr_of (x : sx) : expr =
  match x with
  | L [A "num"; A z] -> ENum (z_of_hex z)
  | L [A "bool"; A b] -> EBool (b = "1")
  | L [A "str"; A h] -> EStr (bytes_of_hex h)
  | L [A "var"; A v] -> EVar (n_of_hex v)
  | L [A "un"; A "neg"; a] -> EUn (UNeg, expr_of a)
  | L [A "un"; A "not"; a] -> EUn (UNot, expr_of a)
  | L [A "bin"; A o; a; b] -> EBin (binop_of o, expr_of a, expr_of b)
  | L (A "call" :: A f :: args) -> ECall (n_of_hex f, List.map expr_of args)
  | L [A "cond"; c; a; b] -> ECond (expr_of c, expr_of a, expr_of b)
  | L (A "arr" :: es) -> EArr (List.map expr_of es)
  | L [A "at"; a; i] -> EAt (expr_of a, expr_of i)
  | L [A "len"; a] -> ELen (expr_of a)
  | L [A "s1"; A o; a] -> EStr1 ((match o with "len" -> SLen | "ofint" -> SOfInt | _ -> failwith ("sop1 " ^ o)), expr_of a)
  | L [A "s2"; A o; a; b] ->
      EStr2 ((match o with "plus" -> SPlus | "concat" -> SConcat | "equals" -> SEquals | "contains" -> SContains | "charat" -> SCharAt
              | _ -> failwith ("sop2 " ^ o)), expr_of a, expr_of b)
  | L [A "substr"; a; b; c] -> ESubstr (expr_of a, expr_of b, expr_of c)
  | _ -> failwith "expr"
let rec stmt_of (x : sx) : stmt =
  match x with
  | L [A "skip"] -> SSkip
  | L [A "seq"; a; b] -> SSeq (stmt_of a, stmt_of b)
  | L [A "let"; A m; A v; A t; e] -> SLet (m = "1", n_of_hex v, ty_of t, expr_of e)
  | L [A "set"; A v; e] -> SSet (n_of_hex v, expr_of e)
  | L [A "if"; c; a; b] -> SIf (expr_of c, stmt_of a, stmt_of b)
  | L [A "while"; c; b] -> SWhile (expr_of c, stmt_of b)
  | L [A "for"; A v; lo; hi; b] -> SFor (n_of_hex v, expr_of lo, expr_of hi, stmt_of b)
  | L [A "break"] -> SBreak
  | L [A "continue"] -> SContinue
  | L [A "ret"] -> SReturn None
  | L [A "ret"; e] -> SReturn (Some (expr_of e))
  | L [A "print"; A nl; e] -> SPrint (nl = "1", expr_of e)
  | L [A "assert"; e] -> SAssert (expr_of e)
  | L [A "expr"; e] -> SExpr (expr_of e)
  | _ -> failwith "stmt"
let prog_of (x : sx) : program =
  match x with
  | L [A "prog"; A m; L (A "globals" :: gs); L (A "fns" :: fs)] ->
      { pglobals = List.map (function L [A "g"; A v; A t; e] -> ((n_of_hex v, ty_of t), expr_of e) | _ -> failwith "global") gs;
        pfns = List.map (function
          | L [A "fn"; A f; A r; L ps; b] ->
              { fname = n_of_hex f; fret = ty_of r; fbody = stmt_of b;
                fparams = List.map (function L [A v; A t] -> (n_of_hex v, ty_of t) | _ -> failwith "param") ps }
          | _ -> failwith "fn") fs;
        pmain = n_of_hex m }
  | _ -> failwith "prog"
let shadow_of = function
  | L [A "sh"; A f; A sk; b] -> { sh_fn = n_of_hex f; sh_skip = (sk = "1"); sh_body = stmt_of b }
  | _ -> failwith "shadow"
let sprog_of (x : sx) : sprogram =
  match x with
  | L [A "sprog"; p; L (A "shadows" :: shs)] ->
      { sp_prog = prog_of p; sp_shadows = List.map shadow_of shs; sp_imported = [] }
  | L [A "sprog"; p; L (A "shadows" :: shs); L (A "imported" :: fs)] ->
      { sp_prog = prog_of p; sp_shadows = List.map shadow_of shs;
        sp_imported = List.map (function A f -> n_of_hex f | _ -> failwith "imported") fs }
  | _ -> failwith "sprog"

let names l = String.concat "," (List.map hex_of_n l)
let bits l = if l = [] then "-" else String.concat "" (List.map (fun b -> if b then "1" else "0") l)
let show_test (t : test_result) =
  Printf.sprintf "%s:%s:%d:%s:%s" (hex_of_n t.tr_name) (if test_passed t then "p" else "f") (int_of_nat (fail_count t))
    (bits t.tr_asserts) (hex_of_bytes t.tr_out)
let show_run = function
  | TDone (rs, sk, _) -> "done tests=" ^ String.concat ";" (List.map show_test rs) ^ " skipped=" ^ names sk
  | TSigfpe -> "sigfpe" | TUnmodelled -> "unmodelled" | TNoFuel -> "nofuel"
  | TOob (f, out) -> "oob " ^ (match f with Some n -> hex_of_n n | None -> "-") ^ " " ^ hex_of_bytes out
let show_nanoc = function
  | NExit (c, b, rep, w) ->
      let failed = List.filter_map (function RFailed (f, n) -> Some (hex_of_n f ^ ":" ^ string_of_int (int_of_nat n)) | _ -> None) rep in
      Printf.sprintf "exit %s %d failed=%s warn=%s stderrfailed=%d" (hex_of_z c) (if b then 1 else 0) (String.concat "," failed) (names w)
        (if List.exists (function RShadowTestsFailed -> true | _ -> false) rep then 1 else 0)
  | NKilled -> "killed" | NUnmodelledRun -> "unmodelled" | NHang -> "hang"
let show_ref (f, r) =
  hex_of_n f ^ ":" ^ (match r with
    | Ok (_, out) -> "ok:" ^ hex_of_bytes out
    | Fault (FAssert, out) -> "assert:" ^ hex_of_bytes out
    | Fault (FOob, out) -> "oob:" ^ hex_of_bytes out
    | Fault (_, out) -> "div:" ^ hex_of_bytes out
    | Stuck -> "stuck:-" | NoFuel -> "nofuel:-")

let split2 (l : ostring) : ostring * ostring =
  match String.index_opt l ' ' with
  | Some i -> (String.sub l 0 i, String.sub l (i + 1) (String.length l - i - 1))
  | None -> (l, "")

let () = iter_lines (fun line ->
  let (cmd, rest) = split2 line in
  try
    match cmd with
    | "interp" -> let (fu, sx) = split2 rest in
        print_string (show_run (run_interp (nat_of_int (int_of_string fu)) (sprog_of (parse_sx sx)) []) ^ "\n")
    | "nanoc" -> let (fu, r1) = split2 rest in let (fr, r2) = split2 r1 in let (la, sx) = split2 r2 in
        print_string (show_nanoc (nanoc { front_ok = (fr = "1"); later_ok = (la = "1") } (nat_of_int (int_of_string fu)) (sprog_of (parse_sx sx)) []) ^ "\n")
    | "reft" -> let (fu, sx) = split2 rest in
        (match ref_tests (nat_of_int (int_of_string fu)) (sprog_of (parse_sx sx)) with
         | None -> print_string "globals-failed\n"
         | Some l -> print_string ("tests=" ^ String.concat ";" (List.map show_ref l) ^ "\n"))
    | "apart" -> print_string ((if names_apart (sprog_of (parse_sx rest)) then "1" else "0") ^ "\n")
    | "" -> ()
    | _ -> print_string "bad\n"
  with Failure m -> print_string ("error " ^ m ^ "\n") | Stack_overflow -> print_string "error stackoverflow\n")
