(* nvref_c04: line protocol over the S-expressions of tools/progen.py (reader copied from lang_driver.ml)
     wt <prog-sexp>                 -> ok | ill                                      (Lang/Types.v wt)
     vmc <prog-sexp>                -> ok | none                                     (Back/VmCompile.compile_program succeeds?)
     muts <limit> <prog-sexp>       -> <n> then per mutant " | <rule> <fn> <path> <arg-hex> <wt:ok|ill> <mutant-sexp>"
                                       every (rule, position) of the catalogue Lang/Mutate.mut that applies, enumerated by
                                       walking the program tree (trusted enumeration; the mutants are produced by mut)
     mut <rule> <fn> <path> <arg-hex> <prog-sexp> -> some <wt:ok|ill> <sexp> | none
     pipe <tool> <failing-phase|none> -> exit=<0|1> artifact=<0|1> executed=<0|1> diag=<0|1>     (Driver/Pipeline.v run_tool) *)
type sx = A of ostring | L of sx list
let parse_sx (s : ostring) : sx =
  let n = String.length s in
  let pos = ref 0 in
  let rec skip () = if !pos < n && (s.[!pos] = ' ' || s.[!pos] = '\t') then (incr pos; skip ()) in
  let rec one () : sx =
    skip ();
    if !pos >= n then failwith "sexp: eof" else
    if s.[!pos] = '(' then begin
      incr pos;
      let items = ref [] in
      let rec loop () = skip ();
        if !pos >= n then failwith "sexp: unclosed" else
        if s.[!pos] = ')' then incr pos else (items := one () :: !items; loop ()) in
      loop (); L (List.rev !items)
    end else begin
      let st = !pos in
      while !pos < n && s.[!pos] <> ' ' && s.[!pos] <> '(' && s.[!pos] <> ')' do incr pos done;
      A (String.sub s st (!pos - st))
    end in
  one ()

let ty_of = function "int" -> TInt | "bool" -> TBool | "void" -> TVoid | "str" -> TStr | "arr" -> TArr | t -> failwith ("ty " ^ t)
let ty_name = function TInt -> "int" | TBool -> "bool" | TVoid -> "void" | TStr -> "str" | TArr -> "arr"
let binops = [("add",BAdd);("sub",BSub);("mul",BMul);("div",BDiv);("mod",BMod);("eq",BEq);("ne",BNe);("lt",BLt);("le",BLe);
              ("gt",BGt);("ge",BGe);("and",BAnd);("or",BOr)]
let binop_of (o : ostring) : binop = try List.assoc o binops with Not_found -> failwith ("binop " ^ o)
let binop_name (b : binop) : ostring = fst (List.find (fun (_, x) -> x = b) binops)
let rec expr_of (x : sx) : expr =
  match x with
  | L [A "num"; A z] -> ENum (z_of_hex z)
  | L [A "bool"; A b] -> EBool (b = "1")
  | L [A "str"; A h] -> EStr (bytes_of_hex h)
  | L [A "var"; A v] -> EVar (n_of_hex v)
  | L [A "un"; A "neg"; a] -> EUn (UNeg, expr_of a)
  | L [A "un"; A "not"; a] -> EUn (UNot, expr_of a)
  | L [A "bin"; A o; a; b] -> EBin (binop_of o, expr_of a, expr_of b)
  | L (A "call" :: A f :: args) -> ECall (n_of_hex f, List.map expr_of args)
  | L [A "cond"; c; a; b] -> ECond (expr_of c, expr_of a, expr_of b)
  | L (A "arr" :: es) -> EArr (List.map expr_of es)
  | L [A "at"; a; i] -> EAt (expr_of a, expr_of i)
  | L [A "len"; a] -> ELen (expr_of a)
  | L [A "s1"; A o; a] -> EStr1 ((match o with "len" -> SLen | "ofint" -> SOfInt | _ -> failwith ("sop1 " ^ o)), expr_of a)
  | L [A "s2"; A o; a; b] ->
      EStr2 ((match o with "plus" -> SPlus | "concat" -> SConcat | "equals" -> SEquals | "contains" -> SContains | "charat" -> SCharAt
              | _ -> failwith ("sop2 " ^ o)), expr_of a, expr_of b)
  | L [A "substr"; a; b; c] -> ESubstr (expr_of a, expr_of b, expr_of c)
  | _ -> failwith "expr"
let rec stmt_of (x : sx) : stmt =
  match x with
  | L [A "skip"] -> SSkip
  | L [A "seq"; a; b] -> SSeq (stmt_of a, stmt_of b)
  | L [A "let"; A m; A v; A t; e] -> SLet (m = "1", n_of_hex v, ty_of t, expr_of e)
  | L [A "set"; A v; e] -> SSet (n_of_hex v, expr_of e)
  | L [A "if"; c; a; b] -> SIf (expr_of c, stmt_of a, stmt_of b)
  | L [A "while"; c; b] -> SWhile (expr_of c, stmt_of b)
  | L [A "for"; A v; lo; hi; b] -> SFor (n_of_hex v, expr_of lo, expr_of hi, stmt_of b)
  | L [A "break"] -> SBreak
  | L [A "continue"] -> SContinue
  | L [A "ret"] -> SReturn None
  | L [A "ret"; e] -> SReturn (Some (expr_of e))
  | L [A "print"; A nl; e] -> SPrint (nl = "1", expr_of e)
  | L [A "assert"; e] -> SAssert (expr_of e)
  | L [A "expr"; e] -> SExpr (expr_of e)
  | _ -> failwith "stmt"
let prog_of (x : sx) : program =
  match x with
  | L [A "prog"; A m; L (A "globals" :: gs); L (A "fns" :: fs)] ->
      { pglobals = List.map (function L [A "g"; A v; A t; e] -> ((n_of_hex v, ty_of t), expr_of e) | _ -> failwith "global") gs;
        pfns = List.map (function
          | L [A "fn"; A f; A r; L ps; b] ->
              { fname = n_of_hex f; fret = ty_of r; fbody = stmt_of b;
                fparams = List.map (function L [A v; A t] -> (n_of_hex v, ty_of t) | _ -> failwith "param") ps }
          | _ -> failwith "fn") fs;
        pmain = n_of_hex m }
  | _ -> failwith "prog"

(* ---- printer (same syntax) *)
let rec sx_expr (e : expr) : ostring =
  match e with
  | ENum z -> "(num " ^ hex_of_z z ^ ")"
  | EBool b -> if b then "(bool 1)" else "(bool 0)"
  | EStr s -> "(str " ^ hex_of_bytes s ^ ")"
  | EVar x -> "(var " ^ hex_of_n x ^ ")"
  | EUn (UNeg, a) -> "(un neg " ^ sx_expr a ^ ")"
  | EUn (UNot, a) -> "(un not " ^ sx_expr a ^ ")"
  | EBin (o, a, b) -> "(bin " ^ binop_name o ^ " " ^ sx_expr a ^ " " ^ sx_expr b ^ ")"
  | ECall (f, args) -> "(call " ^ hex_of_n f ^ String.concat "" (List.map (fun a -> " " ^ sx_expr a) args) ^ ")"
  | ECond (c, a, b) -> "(cond " ^ sx_expr c ^ " " ^ sx_expr a ^ " " ^ sx_expr b ^ ")"
  | EArr es -> "(arr" ^ String.concat "" (List.map (fun a -> " " ^ sx_expr a) es) ^ ")"
  | EAt (a, i) -> "(at " ^ sx_expr a ^ " " ^ sx_expr i ^ ")"
  | ELen a -> "(len " ^ sx_expr a ^ ")"
  | EStr1 (o, a) -> "(s1 " ^ (match o with SLen -> "len" | SOfInt -> "ofint") ^ " " ^ sx_expr a ^ ")"
  | EStr2 (o, a, b) -> "(s2 " ^ (match o with SPlus -> "plus" | SConcat -> "concat" | SEquals -> "equals" | SContains -> "contains" | SCharAt -> "charat")
                       ^ " " ^ sx_expr a ^ " " ^ sx_expr b ^ ")"
  | ESubstr (a, b, c) -> "(substr " ^ sx_expr a ^ " " ^ sx_expr b ^ " " ^ sx_expr c ^ ")"
let rec sx_stmt (s : stmt) : ostring =
  match s with
  | SSkip -> "(skip)"
  | SSeq (a, b) -> "(seq " ^ sx_stmt a ^ " " ^ sx_stmt b ^ ")"
  | SLet (m, x, t, e) -> Printf.sprintf "(let %d %s %s %s)" (if m then 1 else 0) (hex_of_n x) (ty_name t) (sx_expr e)
  | SSet (x, e) -> "(set " ^ hex_of_n x ^ " " ^ sx_expr e ^ ")"
  | SIf (c, a, b) -> "(if " ^ sx_expr c ^ " " ^ sx_stmt a ^ " " ^ sx_stmt b ^ ")"
  | SWhile (c, b) -> "(while " ^ sx_expr c ^ " " ^ sx_stmt b ^ ")"
  | SFor (x, lo, hi, b) -> "(for " ^ hex_of_n x ^ " " ^ sx_expr lo ^ " " ^ sx_expr hi ^ " " ^ sx_stmt b ^ ")"
  | SBreak -> "(break)"
  | SContinue -> "(continue)"
  | SReturn None -> "(ret)"
  | SReturn (Some e) -> "(ret " ^ sx_expr e ^ ")"
  | SPrint (nl, e) -> Printf.sprintf "(print %d %s)" (if nl then 1 else 0) (sx_expr e)
  | SAssert e -> "(assert " ^ sx_expr e ^ ")"
  | SExpr e -> "(expr " ^ sx_expr e ^ ")"
let sx_prog (p : program) : ostring =
  let gl = String.concat " " (List.map (fun ((g, t), e) -> Printf.sprintf "(g %s %s %s)" (hex_of_n g) (ty_name t) (sx_expr e)) p.pglobals) in
  let fs = String.concat " " (List.map (fun d ->
    Printf.sprintf "(fn %s %s (%s) %s)" (hex_of_n d.fname) (ty_name d.fret)
      (String.concat " " (List.map (fun (x, t) -> Printf.sprintf "(%s %s)" (hex_of_n x) (ty_name t)) d.fparams)) (sx_stmt d.fbody)) p.pfns) in
  Printf.sprintf "(prog %s (globals %s) (fns %s))" (hex_of_n p.pmain) gl fs

(* ---- enumeration of candidate positions: every path of every function body *)
let rec paths_expr (e : expr) (pre : int list) (acc : int list list ref) : unit =
  acc := List.rev pre :: !acc;
  match e with
  | EUn (_, a) -> paths_expr a (0 :: pre) acc
  | EBin (_, a, b) -> paths_expr a (0 :: pre) acc; paths_expr b (1 :: pre) acc
  | ECall (_, args) -> List.iteri (fun i a -> paths_expr a (i :: pre) acc) args
  | ECond (c, a, b) -> paths_expr c (0 :: pre) acc; paths_expr a (1 :: pre) acc; paths_expr b (2 :: pre) acc
  | EArr es -> List.iteri (fun i a -> paths_expr a (i :: pre) acc) es
  | EAt (a, i) -> paths_expr a (0 :: pre) acc; paths_expr i (1 :: pre) acc
  | ELen a -> paths_expr a (0 :: pre) acc
  | EStr1 (_, a) -> paths_expr a (0 :: pre) acc
  | EStr2 (_, a, b) -> paths_expr a (0 :: pre) acc; paths_expr b (1 :: pre) acc
  | ESubstr (a, b, c) -> paths_expr a (0 :: pre) acc; paths_expr b (1 :: pre) acc; paths_expr c (2 :: pre) acc
  | _ -> ()
let rec paths_stmt (s : stmt) (pre : int list) (acc : int list list ref) : unit =
  acc := List.rev pre :: !acc;
  match s with
  | SSeq (a, b) -> paths_stmt a (0 :: pre) acc; paths_stmt b (1 :: pre) acc
  | SLet (_, _, _, e) | SSet (_, e) | SReturn (Some e) | SPrint (_, e) | SAssert e | SExpr e -> paths_expr e (0 :: pre) acc
  | SIf (c, a, b) -> paths_expr c (0 :: pre) acc; paths_stmt a (1 :: pre) acc; paths_stmt b (2 :: pre) acc
  | SWhile (c, b) -> paths_expr c (0 :: pre) acc; paths_stmt b (1 :: pre) acc
  | SFor (_, lo, hi, b) -> paths_expr lo (0 :: pre) acc; paths_expr hi (1 :: pre) acc; paths_stmt b (2 :: pre) acc
  | _ -> ()

let rules = [("operand",ROperand);("argtype",RArgType);("arity+",RArityPlus);("arity-",RArityMinus);("unknown-name",RUnknownName);
             ("unknown-fn",RUnknownFn);("other-fn-local",ROtherFnLocal);("out-of-scope",ROutOfScope);("set-immutable",RSetImmutable);
             ("set-param",RSetParam);("set-loopvar",RSetLoopVar);("missing-return",RMissingReturn);("wrong-return",RWrongReturn);
             ("return-novalue",RReturnNoValue);("nonbool-cond",RNonBoolCond);("void-variable",RVoidVariable);("dup-param",RDupParam);
             ("main-param",RMainParam);("out-of-scope-return",ROutOfScopeReturn);("out-of-scope-break",ROutOfScopeBreak);
             ("out-of-scope-continue",ROutOfScopeContinue)]
let rule_name r = fst (List.find (fun (_, x) -> x = r) rules)

let rec max_e (e : expr) : int =
  match e with
  | EVar x -> int_of_n x
  | EUn (_, a) -> max_e a
  | EBin (_, a, b) -> max (max_e a) (max_e b)
  | ECall (f, args) -> List.fold_left (fun m a -> max m (max_e a)) (int_of_n f) args
  | ECond (c, a, b) -> max (max_e c) (max (max_e a) (max_e b))
  | EArr es -> List.fold_left (fun m a -> max m (max_e a)) 0 es
  | EAt (a, i) -> max (max_e a) (max_e i)
  | ELen a -> max_e a
  | EStr1 (_, a) -> max_e a
  | EStr2 (_, a, b) -> max (max_e a) (max_e b)
  | ESubstr (a, b, c) -> max (max_e a) (max (max_e b) (max_e c))
  | _ -> 0
let rec max_s (s : stmt) : int =
  match s with
  | SSeq (a, b) -> max (max_s a) (max_s b)
  | SLet (_, x, _, e) | SSet (x, e) -> max (int_of_n x) (max_e e)
  | SIf (c, a, b) -> max (max_e c) (max (max_s a) (max_s b))
  | SWhile (c, b) -> max (max_e c) (max_s b)
  | SFor (x, lo, hi, b) -> max (int_of_n x) (max (max_e lo) (max (max_e hi) (max_s b)))
  | SReturn (Some e) | SPrint (_, e) | SAssert e | SExpr e -> max_e e
  | _ -> 0
let max_p (p : program) : int =
  List.fold_left (fun m d -> List.fold_left (fun m (x, _) -> max m (int_of_n x)) (max m (max (int_of_n d.fname) (max_s d.fbody))) d.fparams)
    (List.fold_left (fun m ((g, _), e) -> max m (max (int_of_n g) (max_e e))) 0 p.pglobals) p.pfns

let path_str (l : int list) : ostring = if l = [] then "-" else String.concat "." (List.map string_of_int l)
let path_of (s : ostring) : nat list = if s = "-" then [] else List.map (fun x -> nat_of_int (int_of_string x)) (String.split_on_char '.' s)

let all_mutants (p : program) : (ostring * int * int list * n * program) list =
  let fresh = n_of_int (max_p p + 1) in
  let out = ref [] in
  let seen = Hashtbl.create 97 in
  let try_ r k path arg =
    match mut r { p_fn = nat_of_int k; p_path = List.map nat_of_int path; p_arg = arg } p with
    | Some p' ->
        let key = (rule_name r, k, path, sx_prog p') in
        if not (Hashtbl.mem seen key) then (Hashtbl.add seen key (); out := (rule_name r, k, path, arg, p') :: !out)
    | None -> () in
  List.iteri (fun k d ->
    let acc = ref [] in
    paths_stmt d.fbody [] acc;
    let small = List.init 6 n_of_int in
    let earlier = earlier_names p (nat_of_int k) in
    List.iter (fun path ->
      List.iter (fun a -> try_ ROperand k path a) (List.init 4 n_of_int);
      List.iter (fun a -> try_ RArgType k path a) (List.init 8 n_of_int);
      try_ RArityPlus k path N0; try_ RArityMinus k path N0;
      try_ RUnknownName k path fresh; try_ RUnknownFn k path fresh; try_ ROutOfScope k path fresh;
      List.iter (fun z -> try_ ROtherFnLocal k path z) earlier;
      try_ RSetImmutable k path N0; try_ RSetLoopVar k path N0;
      List.iter (fun a -> try_ RWrongReturn k path a) (List.init 2 n_of_int);
      try_ RReturnNoValue k path N0;
      List.iter (fun a -> try_ RNonBoolCond k path a) (List.init 2 n_of_int);
      try_ RVoidVariable k path fresh;
      try_ ROutOfScopeReturn k path fresh; try_ ROutOfScopeBreak k path fresh; try_ ROutOfScopeContinue k path fresh) (List.rev !acc);
    List.iter (fun a -> try_ RDupParam k [] a) small;
    try_ RMainParam k [] fresh;
    List.iter (fun a -> try_ RSetParam k [] a) small;
    List.iter (fun pth -> try_ RMissingReturn k pth N0) [[]; [0]; [1]; [0;0]; [0;1]; [1;0]; [1;1]]) p.pfns;
  List.rev !out

let split2 (l : ostring) : ostring * ostring =
  match String.index_opt l ' ' with
  | Some i -> (String.sub l 0 i, String.sub l (i + 1) (String.length l - i - 1))
  | None -> (l, "")

let phase_of = function "lex" -> PLex | "parse" -> PParse | "imports" -> PImports | "typecheck" -> PTypeCheck | "shadow" -> PShadow
  | "transpile" -> PTranspile | "cc" -> PCc | "codegen" -> PCodegen | "serialize" -> PSerialize | "write" -> PWriteArtifact
  | "verify" -> PVerify | "exec" -> PExec | s -> failwith ("phase " ^ s)
let tool_of = function "nanoc" -> Nanoc | "virt-run" -> VirtRun | "virt-emit" -> VirtEmit | s -> failwith ("tool " ^ s)

let () = iter_lines (fun line ->
  let (cmd, rest) = split2 line in
  try
    match cmd with
    | "wt" -> print_string (if wt (prog_of (parse_sx rest)) then "ok\n" else "ill\n")
    | "vmc" -> print_string (match compile_program (prog_of (parse_sx rest)) with Some _ -> "ok\n" | None -> "none\n")
    | "muts" ->
        let (lim, sx) = split2 rest in
        let lim = int_of_string lim in
        let ms = all_mutants (prog_of (parse_sx sx)) in
        let ms = if lim > 0 && List.length ms > lim then List.filteri (fun i _ -> i < lim) ms else ms in
        print_string (string_of_int (List.length ms));
        List.iter (fun (r, k, path, arg, p') ->
          print_string (Printf.sprintf " | %s %d %s %s %s %s" r k (path_str path) (hex_of_n arg) (if wt p' then "ok" else "ill") (sx_prog p'))) ms;
        print_string "\n"
    | "mut" ->
        (match words rest with
         | r :: k :: path :: arg :: _ ->
             let sx = let rec drop n s = if n = 0 then s else drop (n - 1) (snd (split2 s)) in drop 4 rest in
             (match mut (List.assoc r rules) { p_fn = nat_of_int (int_of_string k); p_path = path_of path; p_arg = n_of_hex arg } (prog_of (parse_sx sx)) with
              | Some p' -> print_string ("some " ^ (if wt p' then "ok " else "ill ") ^ sx_prog p' ^ "\n")
              | None -> print_string "none\n")
         | _ -> print_string "bad\n")
    | "pipe" ->
        (match words rest with
         | [t; f] ->
             let o = run_tool (tool_of t) (fun ph -> f = "none" || ph <> phase_of f) in
             let b x = if x then 1 else 0 in
             print_string (Printf.sprintf "exit=%d artifact=%d executed=%d diag=%d\n" (b o.o_exit_nonzero) (b o.o_artifact) (b o.o_executed) (b o.o_diag))
         | _ -> print_string "bad\n")
    | "" -> ()
    | _ -> print_string "bad\n"
  with Failure m -> print_string ("error " ^ m ^ "\n") | Not_found -> print_string "error notfound\n" | Stack_overflow -> print_string "error stackoverflow\n")
