(* nvref_c15: line protocol (same as probes/cop_probe.c)
     ser <cap-dec> <value>   -> ok <bytes-hex> | err | overrun
     des|desx <bytes-hex>    -> ok <n> <value> | err | oob
     desa <amax-hex> <bytes-hex> -> same with an allocator that refuses arrays of more than amax elements
     rt <value>              -> ok <n> <value> | err | oob
     req <idx-hex> <value>...-> ok <payload-hex> | argfail <i> | overrun        (vm_ffi_call_cop request payload)
     reqfit <idx-hex> <value>... -> ok | argfail <i> | overrun                   (same, without printing the payload)
     reply <value>           -> result <payload-hex> | error <text-hex>          (handle_ffi_req answer for a result value)
     replykind <value>       -> result | error
   extra value syntax for large inputs: S<len-dec> = string of <len> bytes 'x'; I<count-dec> = array<int> [0..count-1];
   R<count-dec>x<len-dec> = array (element type 1) of <count> strings of <len> bytes 'x'
     tr <value>              -> 1 | 0                                           (transferableb)
   value syntax: v | i<hex> | f<hex> | b0 | b1 | s<hex>|s- | o<hex> | a<etype-hex>[v,...] | t<tag-hex> *)
let is_hex c = (c >= '0' && c <= '9') || (c >= 'a' && c <= 'f') || (c >= 'A' && c <= 'F')
let parse_value (s : ostring) : value =
  let pos = ref 0 in
  let n = String.length s in
  let peek () = if !pos < n then s.[!pos] else '\000' in
  let hex () = let st = !pos in while !pos < n && is_hex s.[!pos] do incr pos done; String.sub s st (!pos - st) in
  let rec pv () : value =
    let c = peek () in incr pos;
    match c with
    | 'v' -> VVoid
    | 'i' -> VInt (n_of_hex (hex ()))
    | 'f' -> VFloat (n_of_hex (hex ()))
    | 'o' -> VOpaque (n_of_hex (hex ()))
    | 't' -> VOther (n_of_hex (hex ()))
    | 'b' -> let d = peek () in incr pos; VBool (d = '1')
    | 's' -> if peek () = '-' then (incr pos; VStr []) else VStr (bytes_of_hex (hex ()))
    | 'S' -> let st = !pos in while !pos < n && s.[!pos] >= '0' && s.[!pos] <= '9' do incr pos done;
             let k = int_of_string (String.sub s st (!pos - st)) in
             let x = n_of_int 120 in VStr (List.init k (fun _ -> x))
    | 'R' -> let st = !pos in while !pos < n && s.[!pos] >= '0' && s.[!pos] <= '9' do incr pos done;
             let k = int_of_string (String.sub s st (!pos - st)) in
             incr pos;   (* 'x' *)
             let st2 = !pos in while !pos < n && s.[!pos] >= '0' && s.[!pos] <= '9' do incr pos done;
             let l = int_of_string (String.sub s st2 (!pos - st2)) in
             let x = n_of_int 120 in let str = VStr (List.init l (fun _ -> x)) in
             VArr (n_of_int 1, List.init k (fun _ -> str))
    | 'I' -> let st = !pos in while !pos < n && s.[!pos] >= '0' && s.[!pos] <= '9' do incr pos done;
             let k = int_of_string (String.sub s st (!pos - st)) in
             VArr (n_of_int 1, List.init k (fun i -> VInt (n_of_int i)))
    | 'a' -> let et = n_of_hex (hex ()) in
             if peek () = '[' then incr pos;
             let es = ref [] in
             while !pos < n && peek () <> ']' do
               es := pv () :: !es;
               if peek () = ',' then incr pos
             done;
             if peek () = ']' then incr pos;
             VArr (et, List.rev !es)
    | _ -> VVoid
  in pv ()
let rec show (b : Buffer.t) (v : value) : unit =
  match v with
  | VVoid -> Buffer.add_char b 'v'
  | VInt x -> Buffer.add_char b 'i'; Buffer.add_string b (hex_of_n x)
  | VFloat x -> Buffer.add_char b 'f'; Buffer.add_string b (hex_of_n x)
  | VOpaque x -> Buffer.add_char b 'o'; Buffer.add_string b (hex_of_n x)
  | VOther x -> Buffer.add_char b 't'; Buffer.add_string b (hex_of_n x)
  | VBool x -> Buffer.add_string b (if x then "b1" else "b0")
  | VStr s -> Buffer.add_char b 's'; Buffer.add_string b (hex_of_bytes s)
  | VArr (et, es) -> Buffer.add_char b 'a'; Buffer.add_string b (hex_of_n et); Buffer.add_char b '[';
      List.iteri (fun i e -> if i > 0 then Buffer.add_char b ','; show b e) es; Buffer.add_char b ']'
let show_v v = let b = Buffer.create 64 in show b v; Buffer.contents b
let hex_of_bytes_fast (bs : n list) : ostring =
  if bs = [] then "-" else begin
    let b = Buffer.create 1024 in
    List.iter (fun x -> Buffer.add_string b (Printf.sprintf "%02x" (int_of_n x))) bs; Buffer.contents b end
let pr_d r = match r with
  | DOk (v, n) -> print_string ("ok " ^ string_of_int (int_of_nat n) ^ " " ^ show_v v ^ "\n")
  | DFail -> print_string "err\n" | DOob -> print_string "oob\n" | DFuel -> print_string "FUEL\n"
let () = iter_lines (fun line ->
  match words line with
  | ["ser"; cap; v] ->
      (match ser_buf (parse_value v) (n_of_int (int_of_string cap)) with
       | SOk bs -> print_string ("ok " ^ hex_of_bytes_fast bs ^ "\n")
       | SNoRoom -> print_string "err\n" | SOverrun -> print_string "overrun\n")
  | ["des"; h] | ["desx"; h] -> pr_d (deser_r (bytes_of_hex h))
  | ["desa"; amax; h] -> pr_d (deser_a (n_of_hex amax) (bytes_of_hex h))
  | ["rt"; v] -> pr_d (deser_r (ser (parse_value v)))
  | "req" :: idx :: vs ->
      (match build_request (n_of_hex idx) (List.map parse_value vs) with
       | ReqOk p -> print_string ("ok " ^ hex_of_bytes_fast p ^ "\n")
       | ReqArgFail i -> print_string ("argfail " ^ string_of_int (int_of_n i) ^ "\n")
       | ReqOverrun -> print_string "overrun\n")
  | "reqfit" :: idx :: vs ->
      (match build_request (n_of_hex idx) (List.map parse_value vs) with
       | ReqOk _ -> print_string "ok\n"
       | ReqArgFail i -> print_string ("argfail " ^ string_of_int (int_of_n i) ^ "\n")
       | ReqOverrun -> print_string "overrun\n")
  | ["reply"; v] ->
      let (ty, p) = build_reply (ORes (parse_value v)) in
      print_string ((if int_of_n ty = 0x10 then "result " else "error ") ^ hex_of_bytes_fast p ^ "\n")
  | ["replykind"; v] ->
      let (ty, _) = build_reply (ORes (parse_value v)) in
      print_string (if int_of_n ty = 0x10 then "result\n" else "error\n")
  | ["tr"; v] -> print_string (if transferableb (parse_value v) then "1\n" else "0\n")
  | [] -> ()
  | _ -> print_string "bad\n")
