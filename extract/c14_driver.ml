(* nvref_c14: replays the decoded instruction stream logged by probes/heap_trace.c on the extracted heap model.
   input   R                                   reset to the initial state
           I <step> <ip> <opcode-hex> <name> <nops> <operand>... | p <v0> <v1> <v2> | c <arity> <locals> <isclos> | k <key> | d <delta>
           C <same fields>                     print the model instruction as Coq source text (no state change)
   output  S <stack_size> <frame_count> <leak> <inv> <exact> <trap> <id>:<tag>:<rc>:<indeg> ...     state after the instruction
             (trap = 1: the model says this opcode ends the run with trap_error after these ownership moves)
           U <why>      instruction outside the modelled fragment (state unchanged; caller stops comparing this program)
           X <UAF|FUEL|STUCK>
   Only parsing and the opcode-number -> constructor table live here; every ownership decision is in NV.Heap.Ops. *)
let z_of_dec (s : ostring) : z =
  let v = Int64.of_string s in
  if Int64.compare v 0L >= 0 then z_of_hex (Printf.sprintf "%Lx" v)
  else if v = Int64.min_int then z_of_hex "-8000000000000000"
  else z_of_hex ("-" ^ Printf.sprintf "%Lx" (Int64.neg v))
let state = ref init_state
let nstep = ref 0
let split_bar (l : ostring) = List.map words (String.split_on_char '|' l)
let nat s = nat_of_int (int_of_string s)
let hint_int v = if String.length v > 1 && v.[0] = 'i' then Some (z_of_dec (String.sub v 1 (String.length v - 1))) else None
let z0 = z_of_hex "0"
let zidx v = match hint_int v with Some z -> z | None -> z0
let print_state leak trap =
  let m = !state in
  let rows = live_rows m in
  let b = Buffer.create 256 in
  (* the executable invariant costs O(cells^2): evaluated on every step while the heap is small, then on every 64th step
     (2 = not evaluated; the per-step comparison of ref_counts and in-degrees with the audited real VM does not depend on it) *)
  incr nstep;
  let full = List.length m.hp.cells <= 160 || !nstep land 63 = 0 in
  Buffer.add_string b (Printf.sprintf "S %d %d %d %d %d %d" (List.length m.stack) (List.length m.frames) (if leak then 1 else 0)
    (if not full then 2 else if inv_b m && intern_b m.hp then 1 else 0) (if not full then 2 else if exact_b m then 1 else 0)
    (if trap then 1 else 0));
  List.iter (fun (((i, t), rc), ind) ->
    Buffer.add_string b (Printf.sprintf " %d:%d:%d:%d" (int_of_nat i) (int_of_nat t) (int_of_nat rc) (int_of_nat ind))) rows;
  Buffer.add_char b '\n'; print_string (Buffer.contents b)
let instr_of (op : int) (ops : ostring list) (p : ostring list) (c : ostring list) (k : ostring) (d : int) : instr option =
  let p0 = List.nth p 0 and p1 = List.nth p 1 in
  let key () = nat k in
  let okey () = if int_of_string k >= 0 then Some (nat k) else None in
  let o n = nat (List.nth ops n) in
  let ar () = nat (List.nth c 0) and lc () = nat (List.nth c 1) in
  let callee_ok () = int_of_string (List.nth c 0) >= 0 in
  match op with
  | 0xff -> Some (IEnter (lc ()))
  | 0x00 | 0x38 | 0xa2 | 0x82 | 0x83 | 0x6b | 0xa3 -> Some INop
  | 0x01 | 0x02 | 0x03 | 0x05 | 0x06 | 0x6c | 0xb0 -> Some IPushNon
  | 0x04 -> Some (IPushStr (key ()))
  | 0x07 -> Some IDup | 0x08 -> Some IPop | 0x09 -> Some ISwap | 0x0a -> Some IRot3
  | 0x10 -> Some (ILoadLocal (o 0)) | 0x11 -> Some (IStoreLocal (o 0))
  | 0x12 -> Some (ILoadGlobal (o 0)) | 0x13 -> Some (IStoreGlobal (o 0))
  | 0x14 -> Some (ILoadUpvalue (o 1)) | 0x15 -> Some (IStoreUpvalue (o 1))
  | 0x20 -> Some (IAdd (if int_of_string k >= 0 then key () else O))
  | 0x21 | 0x22 | 0x23 | 0x24 -> Some IArith2
  | 0x25 | 0xb1 -> Some (IPopDrop (S O, true))
  | 0x28 | 0x29 | 0x2a | 0x2b | 0x2c | 0x2d | 0x30 | 0x31 | 0x43 | 0x44 -> Some (IPopRelease (S (S O), true))
  | 0x32 | 0x40 | 0x55 | 0x69 | 0x88 | 0x89 | 0x8a | 0x8c -> Some (IPopRelease (S O, true))
  | 0x39 | 0x3a | 0x81 | 0xa0 | 0xa4 | 0xa1 -> Some (IPopRelease (S O, false))
  | 0x80 -> Some IGcRetain
  | 0x41 -> Some (IStrConcat (if int_of_string k >= 0 then key () else O))
  | 0x42 -> Some (IStrSubstr (if int_of_string k >= 0 then key () else O))
  | 0x45 -> Some IStrCharAt
  | 0x46 | 0x47 -> Some (IStrFromScalar (key ()))
  | 0x8b -> Some (ICastString (if int_of_string k >= 0 then key () else O))
  | 0x50 -> Some IArrNew | 0x51 -> Some IArrPush | 0x52 -> Some IArrPop
  | 0x53 -> Some (IArrGet (zidx p0))
  | 0x54 -> Some (IArrSet (zidx p1))
  | 0x56 -> Some (IArrSlice (zidx p1, hint_int p0))
  | 0x57 -> Some (IArrRemove (zidx p0))
  | 0x58 -> Some (IArrLiteral (o 1))
  | 0x60 -> Some IStructNew | 0x61 -> Some (IStructGet (o 0)) | 0x62 -> Some (IStructSet (o 0))
  | 0x63 -> Some (IStructLiteral (o 1))
  | 0x68 -> Some (IUnionConstruct (o 2)) | 0x6a -> Some (IUnionField (o 0))
  | 0x70 -> Some (ITupleNew (o 0)) | 0x71 -> Some (ITupleGet (o 0))
  | 0x90 -> Some (IClosureNew (o 1))
  | 0x3b -> if callee_ok () then Some (ICall (ar (), lc ())) else Some INop
  | 0x3c -> if callee_ok () then Some (ICallIndirect (ar (), lc (), true)) else Some (ICallIndirect (O, O, false))
  | 0x91 -> if callee_ok () then Some (IClosureCall (ar (), lc (), true)) else Some (IClosureCall (O, O, false))
  | 0x3d -> Some IRet
  | 0x3e -> if not (callee_ok ()) then Some INop
            else if d <> 1 - int_of_string (List.nth c 0) then Some (IPopRelease (ar (), false))   (* the FFI call failed: the harness releases the popped arguments, no result is pushed *)
            else Some (ICallExtern (ar (), okey ()))
  | _ -> None
(* Coq source text of an instruction (used by tools/gen/gen_churn14.py to translate logged streams into NV/gen/ChurnC14.v) *)
let dz (x : z) : ostring = let h = hex_of_z x in
  if String.length h > 0 && h.[0] = '-' then Printf.sprintf "(-%Ld)%%Z" (Int64.of_string ("0x" ^ String.sub h 1 (String.length h - 1)))
  else Printf.sprintf "(%Lu)%%Z" (Int64.of_string ("0x" ^ h))
let dn (x : nat) = string_of_int (int_of_nat x)
let db b = if b then "true" else "false"
let coq_of_instr (i : instr) : ostring = match i with
  | IEnter n -> "IEnter " ^ dn n | INop -> "INop" | IPushNon -> "IPushNon" | IPushStr k -> "IPushStr " ^ dn k
  | IDup -> "IDup" | IPop -> "IPop" | ISwap -> "ISwap" | IRot3 -> "IRot3"
  | ILoadLocal n -> "ILoadLocal " ^ dn n | IStoreLocal n -> "IStoreLocal " ^ dn n
  | ILoadGlobal n -> "ILoadGlobal " ^ dn n | IStoreGlobal n -> "IStoreGlobal " ^ dn n
  | ILoadUpvalue n -> "ILoadUpvalue " ^ dn n | IStoreUpvalue n -> "IStoreUpvalue " ^ dn n
  | IAdd k -> "IAdd " ^ dn k | IArith2 -> "IArith2"
  | IPopDrop (n, b) -> "IPopDrop " ^ dn n ^ " " ^ db b | IPopRelease (n, b) -> "IPopRelease " ^ dn n ^ " " ^ db b
  | IGcRetain -> "IGcRetain" | IStrConcat k -> "IStrConcat " ^ dn k | IStrSubstr k -> "IStrSubstr " ^ dn k
  | IStrCharAt -> "IStrCharAt" | IStrFromScalar k -> "IStrFromScalar " ^ dn k | ICastString k -> "ICastString " ^ dn k
  | IArrNew -> "IArrNew" | IArrPush -> "IArrPush" | IArrPop -> "IArrPop"
  | IArrGet z -> "IArrGet " ^ dz z | IArrSet z -> "IArrSet " ^ dz z
  | IArrSlice (a, e) -> "IArrSlice " ^ dz a ^ " " ^ (match e with Some z -> "(Some " ^ dz z ^ ")" | None -> "None")
  | IArrRemove z -> "IArrRemove " ^ dz z | IArrLiteral n -> "IArrLiteral " ^ dn n
  | IStructNew -> "IStructNew" | IStructGet n -> "IStructGet " ^ dn n | IStructSet n -> "IStructSet " ^ dn n
  | IStructLiteral n -> "IStructLiteral " ^ dn n | IUnionConstruct n -> "IUnionConstruct " ^ dn n
  | IUnionField n -> "IUnionField " ^ dn n | ITupleNew n -> "ITupleNew " ^ dn n | ITupleGet n -> "ITupleGet " ^ dn n
  | IClosureNew n -> "IClosureNew " ^ dn n | ICall (a, l) -> "ICall " ^ dn a ^ " " ^ dn l
  | ICallIndirect (a, l, b) -> "ICallIndirect " ^ dn a ^ " " ^ dn l ^ " " ^ db b
  | IClosureCall (a, l, b) -> "IClosureCall " ^ dn a ^ " " ^ dn l ^ " " ^ db b
  | IRet -> "IRet"
  | ICallExtern (a, k) -> "ICallExtern " ^ dn a ^ " " ^ (match k with Some k -> "(Some " ^ dn k ^ ")" | None -> "None")
let () = iter_lines (fun line ->
  match split_bar line with
  | ["R"] :: _ -> state := init_state; print_string "ok\n"
  | ("C" :: _ :: _ :: oph :: _ :: _ :: ops) :: ("p" :: p) :: ("c" :: c) :: ["k"; k] :: ["d"; d] :: _ ->
      (match instr_of (int_of_string ("0x" ^ oph)) ops p c k (int_of_string d) with
       | None -> print_string "U\n"
       | Some i -> print_string (coq_of_instr i ^ "\n"))
  | ("I" :: _ :: _ :: oph :: _ :: _ :: ops) :: ("p" :: p) :: ("c" :: c) :: ["k"; k] :: ["d"; d] :: _ ->
      (match instr_of (int_of_string ("0x" ^ oph)) ops p c k (int_of_string d) with
       | None -> print_string ("U opcode " ^ oph ^ "\n")
       | Some i ->
         let leak = step_leaks i !state in
         let trap = traps i !state in
         (match step i !state with
          | None -> print_string ("U state " ^ oph ^ "\n")
          | Some (Ok m) -> state := m; print_state leak trap
          | Some UAF -> print_string "X UAF\n"
          | Some OutOfFuel -> print_string "X FUEL\n"
          | Some Stuck -> print_string "X STUCK\n"))
  | [] :: _ | [] -> ()
  | _ -> print_string "bad\n")
