(* nvref_c17: line protocol
     crc <hex>     -> <crc32-hex>                      (Sessions.crc32_spec)
     entry <i-hex> -> <table entry hex>
     obs <hex>     -> out <hex> err <hex> exit <n>     (Vmd.client_observe: what nano_vm --daemon shows for these reply bytes) *)
let () = iter_lines (fun line ->
  match words line with
  | ["crc"; h] -> print_string (hex_of_n (crc32_spec (bytes_of_hex h)) ^ "\n")
  | ["entry"; i] -> print_string (hex_of_n (crc_entry (n_of_hex i)) ^ "\n")
  | ["obs"; h] ->
      let o = client_observe (bytes_of_hex h) in
      print_string (Printf.sprintf "out %s err %s exit %d\n" (hex_of_bytes o.o_stdout) (hex_of_bytes o.o_stderr) (int_of_n o.o_exit))
  | [] -> ()
  | _ -> print_string "bad\n")
