(* nvref_c18: line protocol (hex = contiguous two-digit bytes, "-" = empty)
     sess <ign 0|1|r> <verify 0|1|r> <active hex-Z> <wb -|n> <input-hex> <oracle...>
          r = the generated fact (NV.gen.VmdFacts / SigpipeSites via real_cfg); ign = the SIGPIPE disposition in force when the session starts
          (r: as set at start-up); the exit-status rule and the disposition an FFI session leaves behind are always those of real_cfg.
          oracle = none | nd | rej <msg-hex> | ran <err-hex|none> <chunk-hex>... | ranx <err-hex|none> <status-hex> <ffi 0|1> <chunk-hex>... | crash <chunk-hex>...
        -> sent <hex> alive <0|1> active <hex-Z> shutdown <0|1> sigign <0|1>
     hdr <hex>     -> ok <type> <flags> <len> <restlen> | short | badver | toolong
     enc <type-hex> <payload-hex> -> <hex>
     dec <hex>     -> <n> {<type-hex>:<payload-hex>}... rest <hex>
     obs <hex>     -> out <hex> err <hex> exit <n>
     facts         -> ign <0|1> verify <0|1> exitmain <0|1> saexitmain <0|1> ffisets <n|0|1> sitesok <0|1> *)
let b01 b = if b then "1" else "0"
let flag s gen = match s with "1" -> true | "0" -> false | _ -> gen
let err_of e = if e = "none" then None else Some (bytes_of_hex e)
let oracle_of ws : vm_oracle =
  match ws with
  | ["nd"] -> { o_deser = (fun _ -> false); o_verify = (fun _ -> None); o_run = (fun _ -> Ran ([], None, N0, false)) }
  | ["rej"; m] -> { o_deser = (fun _ -> true); o_verify = (fun _ -> Some (bytes_of_hex m)); o_run = (fun _ -> Crashed []) }
  | "ran" :: e :: ch ->
      { o_deser = (fun _ -> true); o_verify = (fun _ -> None); o_run = (fun _ -> Ran (List.map bytes_of_hex ch, err_of e, N0, false)) }
  | "ranx" :: e :: st :: ffi :: ch ->
      { o_deser = (fun _ -> true); o_verify = (fun _ -> None); o_run = (fun _ -> Ran (List.map bytes_of_hex ch, err_of e, n_of_hex st, ffi = "1")) }
  | "crash" :: ch -> { o_deser = (fun _ -> true); o_verify = (fun _ -> None); o_run = (fun _ -> Crashed (List.map bytes_of_hex ch)) }
  | "rejcrash" :: m :: ch -> { o_deser = (fun _ -> true); o_verify = (fun _ -> Some (bytes_of_hex m)); o_run = (fun _ -> Crashed (List.map bytes_of_hex ch)) }
  | _ -> { o_deser = (fun _ -> false); o_verify = (fun _ -> None); o_run = (fun _ -> Ran ([], None, N0, false)) }
let () = iter_lines (fun line ->
  match words line with
  | "sess" :: ign :: ver :: act :: wb :: inp :: orc ->
      let c = { c_ignores_sigpipe = flag ign vmd_ignores_sigpipe; c_verify_first = flag ver verify_before_execute;
                c_exit_from_main = real_cfg.c_exit_from_main; c_ffi_sets = real_cfg.c_ffi_sets } in
      let d = { alive = true; active = z_of_hex act; shutdown = false; sigign = c.c_ignores_sigpipe } in
      let wbv = if wb = "-" then None else Some (nat_of_int (int_of_string wb)) in
      let (sent, d') = client_thread c (oracle_of orc) (bytes_of_hex inp) wbv d in
      print_string (Printf.sprintf "sent %s alive %s active %s shutdown %s sigign %s\n" (hex_of_bytes sent) (b01 d'.alive) (hex_of_z d'.active) (b01 d'.shutdown) (b01 d'.sigign))
  | ["hdr"; h] ->
      (match recv_header (bytes_of_hex h) with
       | RShort -> print_string "short\n" | RBadVersion _ -> print_string "badver\n" | RTooLong _ -> print_string "toolong\n"
       | ROk (h, rest) -> print_string (Printf.sprintf "ok %s %s %s %d\n" (hex_of_n h.h_type) (hex_of_n h.h_flags) (hex_of_n h.h_len) (List.length rest)))
  | ["enc"; t; p] -> print_string (hex_of_bytes (encode_frame { f_type = n_of_hex t; f_payload = bytes_of_hex p }) ^ "\n")
  | ["dec"; h] ->
      let (fs, rest) = decode_frames (bytes_of_hex h) in
      print_string (String.concat " " (string_of_int (List.length fs) :: List.map (fun f -> hex_of_n f.f_type ^ ":" ^ hex_of_bytes f.f_payload) fs) ^ " rest " ^ hex_of_bytes rest ^ "\n")
  | ["obs"; h] ->
      let o = client_observe (bytes_of_hex h) in
      print_string (Printf.sprintf "out %s err %s exit %d\n" (hex_of_bytes o.o_stdout) (hex_of_bytes o.o_stderr) (int_of_n o.o_exit))
  | ["facts"] -> print_string (Printf.sprintf "ign %s verify %s exitmain %s saexitmain %s ffisets %s sitesok %s\n" (b01 vmd_ignores_sigpipe) (b01 verify_before_execute)
        (b01 vmd_exit_from_main) (b01 standalone_exit_from_main) (match real_cfg.c_ffi_sets with None -> "n" | Some v -> b01 v) (b01 sigpipe_sites_ok))
  | [] -> ()
  | _ -> print_string "bad\n")
