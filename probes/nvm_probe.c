/* nvm_probe: drives the repo's real nvm_* API with the same line protocol as nvref_c12 / nvref_c10
   (see extract/c12_driver.ml for the grammar).  Buffers handed to nvm_deserialize are heap blocks of exactly
   the stated size, so any read past the file is an ASan report.
     rt <desc>    build through nvm_module_new/nvm_add_string/nvm_append_code/nvm_add_function/nvm_add_debug_entry/
                  nvm_add_import, dump, nvm_serialize, nvm_deserialize, dump, nvm_serialize again
     load <hex>   nvm_deserialize -> dump | NULL
     sweep <hex>  every single-bit flip: positions still accepted
     truncs <hex> every proper prefix: lengths accepted
     crc <hex>    nvm_crc32 */
#include <stdio.h>
#include <stdlib.h>
#include <string.h>
#include <stdint.h>
#include "nvm_format.h"

static int hexv(int c) { return c <= '9' ? c - '0' : (c | 32) - 'a' + 10; }

static uint8_t *unhex(const char *t, size_t *len) {
    size_t n = (t && strcmp(t, "-") && strcmp(t, "null")) ? strlen(t) / 2 : 0;
    uint8_t *b = malloc(n ? n : 1);
    for (size_t i = 0; i < n; i++) b[i] = (uint8_t)(hexv(t[2*i]) * 16 + hexv(t[2*i+1]));
    *len = n;
    return b;
}
static void puthex(const uint8_t *p, size_t n) {
    if (n == 0 || !p) { printf("-"); return; }
    for (size_t i = 0; i < n; i++) printf("%02x", p[i]);
}

static void dump(const NvmModule *m) {
    printf("H %x %x %x %x %x %x", m->header.flags, m->header.entry_point, m->header.section_count,
           m->header.string_pool_offset, m->header.string_pool_length, m->header.checksum);
    printf(" | X");
    for (uint32_t i = 0; i < m->section_count && i < NVM_MAX_SECTIONS; i++)
        printf(" %x:%x:%x", m->sections[i].type, m->sections[i].offset, m->sections[i].size);
    printf(" | S");
    for (uint32_t i = 0; i < m->string_count; i++) { printf(" "); puthex((const uint8_t *)m->strings[i], m->string_lengths[i]); }
    printf(" | C "); puthex(m->code, m->code_size);
    printf(" | F");
    for (uint32_t i = 0; i < m->function_count; i++) {
        const NvmFunctionEntry *f = &m->functions[i];
        printf(" %x:%x:%x:%x:%x:%x", f->name_idx, f->arity, f->code_offset, f->code_length, f->local_count, f->upvalue_count);
    }
    printf(" | D");
    for (uint32_t i = 0; i < m->debug_count; i++) printf(" %x:%x", m->debug_entries[i].bytecode_offset, m->debug_entries[i].source_line);
    printf(" | I");
    for (uint32_t i = 0; i < m->import_count; i++) {
        const NvmImportEntry *e = &m->imports[i];
        printf(" %x:%x:%x:%x:", e->module_name_idx, e->function_name_idx, e->param_count, e->return_type);
        puthex(m->import_param_types[i], m->import_param_types[i] ? e->param_count : 0);
    }
}

static NvmModule *load_exact(const uint8_t *src, size_t n) {
    uint8_t *buf = malloc(n ? n : 1);      /* exact size: over-reads are visible to ASan */
    memcpy(buf, src, n);
    NvmModule *m = nvm_deserialize(buf, (uint32_t)n);
    free(buf);
    return m;
}

static uint32_t H(char **save) { char *t = strtok_r(NULL, " ", save); return t ? (uint32_t)strtoull(t, NULL, 16) : 0; }

int main(void) {
    char *line = NULL; size_t cap = 0; ssize_t n;
    while ((n = getline(&line, &cap, stdin)) > 0) {
        while (n > 0 && (line[n-1] == '\n' || line[n-1] == '\r')) line[--n] = 0;
        char *save; char *cmd = strtok_r(line, " ", &save);
        if (!cmd) continue;
        if (!strcmp(cmd, "rt")) {
            NvmModule *m = nvm_module_new();
            m->header.flags = H(&save);
            m->header.entry_point = H(&save);
            char *t;
            while ((t = strtok_r(NULL, " ", &save))) {
                if (!strcmp(t, ";")) continue;
                if (!strcmp(t, "s")) {
                    size_t l; uint8_t *b = unhex(strtok_r(NULL, " ", &save), &l);
                    nvm_add_string(m, (const char *)b, (uint32_t)l); free(b);
                } else if (!strcmp(t, "c")) {
                    size_t l; uint8_t *b = unhex(strtok_r(NULL, " ", &save), &l);
                    nvm_append_code(m, b, (uint32_t)l); free(b);
                } else if (!strcmp(t, "f")) {
                    NvmFunctionEntry f; memset(&f, 0, sizeof f);
                    f.name_idx = H(&save); f.arity = (uint16_t)H(&save); f.code_offset = H(&save);
                    f.code_length = H(&save); f.local_count = (uint16_t)H(&save); f.upvalue_count = (uint16_t)H(&save);
                    nvm_add_function(m, &f);
                } else if (!strcmp(t, "d")) {
                    uint32_t o = H(&save), l = H(&save);
                    nvm_add_debug_entry(m, o, l);
                } else if (!strcmp(t, "i")) {
                    uint32_t mi = H(&save), fi = H(&save); uint16_t pc = (uint16_t)H(&save); uint8_t rt = (uint8_t)H(&save);
                    char *p = strtok_r(NULL, " ", &save);
                    if (p && !strcmp(p, "null")) nvm_add_import(m, mi, fi, pc, rt, NULL);
                    else { size_t l; uint8_t *b = unhex(p, &l); nvm_add_import(m, mi, fi, pc, rt, l ? b : NULL); free(b); }
                }
            }
            dump(m);
            uint32_t sz = 0; uint8_t *bytes = nvm_serialize(m, &sz);
            printf(" # "); puthex(bytes, sz);
            NvmModule *m2 = bytes ? load_exact(bytes, sz) : NULL;
            printf(" # ");
            if (m2) dump(m2); else printf("NULL");
            printf(" # ");
            if (m2) { uint32_t sz2 = 0; uint8_t *b2 = nvm_serialize(m2, &sz2); puthex(b2, sz2); free(b2); nvm_module_free(m2); }
            else printf("none");
            printf("\n");
            free(bytes); nvm_module_free(m);
        } else if (!strcmp(cmd, "load")) {
            size_t l; uint8_t *b = unhex(strtok_r(NULL, " ", &save), &l);
            NvmModule *m = load_exact(b, l);
            if (m) { dump(m); nvm_module_free(m); } else printf("NULL");
            printf("\n"); free(b);
        } else if (!strcmp(cmd, "sweep")) {
            size_t l; uint8_t *b = unhex(strtok_r(NULL, " ", &save), &l);
            printf("A "); int any = 0;
            for (size_t p = 0; p < 8 * l; p++) {
                b[p / 8] ^= (uint8_t)(1u << (p % 8));
                NvmModule *m = load_exact(b, l);
                if (m) { printf(any ? ",%zu" : "%zu", p); any = 1; nvm_module_free(m); }
                b[p / 8] ^= (uint8_t)(1u << (p % 8));
            }
            if (!any) printf("-");
            printf("\n"); free(b);
        } else if (!strcmp(cmd, "truncs")) {
            size_t l; uint8_t *b = unhex(strtok_r(NULL, " ", &save), &l);
            printf("T "); int any = 0;
            for (size_t k = 0; k < l; k++) {
                NvmModule *m = load_exact(b, k);
                if (m) { printf(any ? ",%zu" : "%zu", k); any = 1; nvm_module_free(m); }
            }
            if (!any) printf("-");
            printf("\n"); free(b);
        } else if (!strcmp(cmd, "crc")) {
            size_t l; uint8_t *b = unhex(strtok_r(NULL, " ", &save), &l);
            printf("%x\n", nvm_crc32(b, (uint32_t)l)); free(b);
        } else printf("bad\n");
        fflush(stdout);
    }
    free(line);
    return 0;
}
