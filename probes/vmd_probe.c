/* Probe for C17/C18: the real vmd_protocol.c functions on byte strings, through a pipe.
     hdr <hex>                 -> ok <type-hex> <flags-hex> <len-hex> <restlen> | err      (vmd_msg_recv_header)
     enc <type-hex> <hex|->    -> <hex>                                                    (vmd_msg_send)
     pay <n> <hex>             -> ok <hex> | err                                           (vmd_msg_recv_payload of n bytes)
     crc <hex>                 -> <crc32-hex>                                              (nvm_crc32, nanoisa/nvm_format.c)
   Input lines are limited to 60000 hex digits so that everything fits the pipe buffer. */
#include <stdio.h>
#include <stdlib.h>
#include <string.h>
#include <unistd.h>
#include <fcntl.h>
#include "vmd_protocol.h"
#include "../nanoisa/nvm_format.h"

static int hexv(int c) { return c >= '0' && c <= '9' ? c - '0' : c >= 'a' && c <= 'f' ? c - 'a' + 10 : c >= 'A' && c <= 'F' ? c - 'A' + 10 : -1; }
static size_t unhex(const char *s, unsigned char *out) {
    if (s[0] == '-' ) return 0;
    size_t n = 0;
    while (hexv(s[0]) >= 0 && hexv(s[1]) >= 0) { out[n++] = (unsigned char)(hexv(s[0]) * 16 + hexv(s[1])); s += 2; }
    return n;
}
static void puthex(const unsigned char *b, size_t n) {
    if (n == 0) { printf("-"); return; }
    for (size_t i = 0; i < n; i++) printf("%02x", b[i]);
}

int main(void) {
    static char line[200000];
    static unsigned char buf[100000], back[100000];
    while (fgets(line, sizeof line, stdin)) {
        char *cmd = strtok(line, " \n");
        if (!cmd) continue;
        if (strcmp(cmd, "crc") == 0) {
            char *h = strtok(NULL, " \n");
            size_t n = h ? unhex(h, buf) : 0;
            printf("%x\n", nvm_crc32(buf, (uint32_t)n));
            fflush(stdout);
            continue;
        }
        int p[2];
        if (pipe(p) != 0) { printf("pipe-error\n"); continue; }
        fcntl(p[1], F_SETPIPE_SZ, 1 << 20);
        if (strcmp(cmd, "hdr") == 0) {
            char *h = strtok(NULL, " \n");
            size_t n = h ? unhex(h, buf) : 0;
            if (n) { ssize_t w = write(p[1], buf, n); (void)w; }
            close(p[1]);
            VmdMsgHeader hd; memset(&hd, 0xAA, sizeof hd);
            if (vmd_msg_recv_header(p[0], &hd)) printf("ok %x %x %x %zu\n", hd.msg_type, hd.flags, hd.payload_len, n - 8);
            else printf("err\n");
            close(p[0]);
        } else if (strcmp(cmd, "enc") == 0) {
            char *t = strtok(NULL, " \n"); char *h = strtok(NULL, " \n");
            size_t n = h ? unhex(h, buf) : 0;
            bool ok = vmd_msg_send(p[1], (VmdMsgType)strtoul(t ? t : "0", NULL, 16), buf, (uint32_t)n);
            close(p[1]);
            ssize_t r = read(p[0], back, sizeof back);
            close(p[0]);
            if (!ok) printf("err\n"); else { puthex(back, r < 0 ? 0 : (size_t)r); printf("\n"); }
        } else if (strcmp(cmd, "pay") == 0) {
            char *ns = strtok(NULL, " \n"); char *h = strtok(NULL, " \n");
            size_t want = ns ? strtoul(ns, NULL, 10) : 0;
            size_t n = h ? unhex(h, buf) : 0;
            if (n) { ssize_t w = write(p[1], buf, n); (void)w; }
            close(p[1]);
            if (want > sizeof back) { printf("err\n"); close(p[0]); continue; }
            if (vmd_msg_recv_payload(p[0], back, (uint32_t)want)) { printf("ok "); puthex(back, want); printf("\n"); }
            else printf("err\n");
            close(p[0]);
        } else { close(p[0]); close(p[1]); printf("bad\n"); }
        fflush(stdout);
    }
    return 0;
}
