/* nvm_dump <file.nvm>: load with the real nvm_deserialize and print the module canonically:
   flags=<n> entry=<n>
   strings=<hex>,<hex>,...        ("-" for the empty string, "" when the pool is empty)
   fns=<name_idx>:<arity>:<off>:<len>:<locals>:<upvalues>;...
   imports=<count>
   code=<hex> */
#include <stdio.h>
#include <stdlib.h>
#include <string.h>
#include "nvm_format.h"
int main(int argc, char **argv) {
    if (argc < 2) return 2;
    FILE *f = fopen(argv[1], "rb"); if (!f) { printf("err open\n"); return 1; }
    fseek(f, 0, SEEK_END); long n = ftell(f); fseek(f, 0, SEEK_SET);
    unsigned char *buf = malloc(n > 0 ? n : 1);
    if (fread(buf, 1, n, f) != (size_t)n) { printf("err read\n"); return 1; }
    fclose(f);
    NvmModule *m = nvm_deserialize(buf, (uint32_t)n);
    if (!m) { printf("err load\n"); return 1; }
    printf("flags=%u entry=%u\n", m->header.flags, m->header.entry_point);
    printf("strings=");
    for (uint32_t i = 0; i < m->string_count; i++) {
        if (i) printf(",");
        if (m->string_lengths[i] == 0) printf("-");
        for (uint32_t k = 0; k < m->string_lengths[i]; k++) printf("%02x", (unsigned char)m->strings[i][k]);
    }
    printf("\nfns=");
    for (uint32_t i = 0; i < m->function_count; i++) {
        NvmFunctionEntry *e = &m->functions[i];
        printf("%s%u:%u:%u:%u:%u:%u", i ? ";" : "", e->name_idx, e->arity, e->code_offset, e->code_length, e->local_count, e->upvalue_count);
    }
    printf("\nimports=%u\ncode=", m->import_count);
    for (uint32_t i = 0; i < m->code_size; i++) printf("%02x", m->code[i]);
    printf("\n");
    nvm_module_free(m); free(buf);
    return 0;
}
