/* front_probe: drives the repo's real tokenize / parse_program / type_check on source strings.
   Line protocol on stdin, one answer line per request on stdout:
     lex   <ms> <src-hex>   -> ok <n> <type>:<line>:<col>:<value-hex|-> ...        | lexnull
     expr  <ms> <src-hex>   -> ok <sexp of the value of the first top-level `let`> | lexnull | parsenull | nolet
     ast   <ms> <src-hex>   -> ok <sexp of the whole program>                      | lexnull | parsenull
     front <ms> <src-hex>   -> accept | reject:lex | reject:parse | reject:types   (tokenize, parse_program, type_check)
   Every request runs in a forked child under a wall-clock alarm of <ms> milliseconds, so a hang, a crash or a
   sanitizer abort of the code under test is an ANSWER, not the end of the probe:
     hang <stack>            the alarm fired; <stack> = return addresses as module offsets (resolve with addr2line)
     crash sig=<n> <stack>   fatal signal (handler on an alternate stack, so stack overflow is caught too)
     crash exit=<n>          abnormal exit status (sanitizer reports exit with ASAN_OPTIONS exitcode)
   followed by " diag=<0|1>" (did the child write to stderr) and, for crashes, " err=<hex of stderr tail>".
   The S-expression printer reads only the public ASTNode from nanolang.h. */
#define _GNU_SOURCE
#include <stdio.h>
#include <stdlib.h>
#include <string.h>
#include <stdint.h>
#include <signal.h>
#include <unistd.h>
#include <fcntl.h>
#include <errno.h>
#include <execinfo.h>
#include <dlfcn.h>
#include <sys/wait.h>
#include <sys/time.h>
#include <sys/resource.h>
#include "nanolang.h"

/* symbols some repo objects expect from a main program */
int g_argc = 0;
char **g_argv = NULL;

static int hexv(int c) { return c <= '9' ? c - '0' : (c | 32) - 'a' + 10; }

static void hexs(FILE *o, const char *s) {
    if (!s) { fputc('-', o); return; }
    if (!*s) { fputc('=', o); return; }           /* empty string, distinct from NULL */
    for (; *s; s++) fprintf(o, "%02x", (unsigned char)*s);
}

static void sexp(FILE *o, ASTNode *n);
static void sexp_list(FILE *o, ASTNode **a, int n) { for (int i = 0; i < n; i++) { fputc(' ', o); sexp(o, a ? a[i] : NULL); } }

static void sexp(FILE *o, ASTNode *n) {
    if (!n) { fputs("null", o); return; }
    switch (n->type) {
    case AST_NUMBER: fprintf(o, "(num %lld)", n->as.number); break;
    case AST_FLOAT: fprintf(o, "(flt %.17g)", n->as.float_val); break;
    case AST_STRING: fputs("(str ", o); hexs(o, n->as.string_val); fputc(')', o); break;
    case AST_BOOL: fprintf(o, "(bool %d)", n->as.bool_val ? 1 : 0); break;
    case AST_IDENTIFIER: fputs("(id ", o); hexs(o, n->as.identifier); fputc(')', o); break;
    case AST_PREFIX_OP: fprintf(o, "(op %d", (int)n->as.prefix_op.op); sexp_list(o, n->as.prefix_op.args, n->as.prefix_op.arg_count); fputc(')', o); break;
    case AST_CALL:
        if (n->as.call.name) { fputs("(call ", o); hexs(o, n->as.call.name); }
        else { fputs("(calle ", o); sexp(o, n->as.call.func_expr); }
        sexp_list(o, n->as.call.args, n->as.call.arg_count); fputc(')', o); break;
    case AST_MODULE_QUALIFIED_CALL:
        fputs("(mcall ", o); hexs(o, n->as.module_qualified_call.module_alias); fputc(' ', o);
        hexs(o, n->as.module_qualified_call.function_name);
        sexp_list(o, n->as.module_qualified_call.args, n->as.module_qualified_call.arg_count); fputc(')', o); break;
    case AST_FIELD_ACCESS: fputs("(field ", o); sexp(o, n->as.field_access.object); fputc(' ', o); hexs(o, n->as.field_access.field_name); fputc(')', o); break;
    case AST_TUPLE_INDEX: fputs("(tidx ", o); sexp(o, n->as.tuple_index.tuple); fprintf(o, " %d)", n->as.tuple_index.index); break;
    case AST_TUPLE_LITERAL: fputs("(tuple", o); sexp_list(o, n->as.tuple_literal.elements, n->as.tuple_literal.element_count); fputc(')', o); break;
    case AST_ARRAY_LITERAL: fputs("(array", o); sexp_list(o, n->as.array_literal.elements, n->as.array_literal.element_count); fputc(')', o); break;
    case AST_LET: fputs("(let ", o); hexs(o, n->as.let.name); fprintf(o, " %d %d ", (int)n->as.let.var_type, n->as.let.is_mut ? 1 : 0); sexp(o, n->as.let.value); fputc(')', o); break;
    case AST_SET: fputs("(set ", o); hexs(o, n->as.set.name); fputc(' ', o); sexp(o, n->as.set.value); fputc(')', o); break;
    case AST_IF: fputs("(if ", o); sexp(o, n->as.if_stmt.condition); fputc(' ', o); sexp(o, n->as.if_stmt.then_branch); fputc(' ', o); sexp(o, n->as.if_stmt.else_branch); fputc(')', o); break;
    case AST_COND:
        fputs("(cond", o);
        for (int i = 0; i < n->as.cond_expr.clause_count; i++) { fputs(" (", o); sexp(o, n->as.cond_expr.conditions[i]); fputc(' ', o); sexp(o, n->as.cond_expr.values[i]); fputc(')', o); }
        fputs(" (else ", o); sexp(o, n->as.cond_expr.else_value); fputs("))", o); break;
    case AST_WHILE: fputs("(while ", o); sexp(o, n->as.while_stmt.condition); fputc(' ', o); sexp(o, n->as.while_stmt.body); fputc(')', o); break;
    case AST_FOR: fputs("(for ", o); hexs(o, n->as.for_stmt.var_name); fputc(' ', o); sexp(o, n->as.for_stmt.range_expr); fputc(' ', o); sexp(o, n->as.for_stmt.body); fputc(')', o); break;
    case AST_RETURN: fputs("(return ", o); sexp(o, n->as.return_stmt.value); fputc(')', o); break;
    case AST_BREAK: fputs("(break)", o); break;
    case AST_CONTINUE: fputs("(continue)", o); break;
    case AST_BLOCK: fputs("(block", o); sexp_list(o, n->as.block.statements, n->as.block.count); fputc(')', o); break;
    case AST_UNSAFE_BLOCK: fputs("(unsafe", o); sexp_list(o, n->as.unsafe_block.statements, n->as.unsafe_block.count); fputc(')', o); break;
    case AST_FUNCTION:
        fputs("(fn ", o); hexs(o, n->as.function.name); fprintf(o, " %d %d %d", n->as.function.param_count, (int)n->as.function.return_type, n->as.function.is_extern ? 1 : 0);
        for (int i = 0; i < n->as.function.param_count; i++) { fputc(' ', o); hexs(o, n->as.function.params[i].name); fprintf(o, ":%d", (int)n->as.function.params[i].type); }
        fputc(' ', o); sexp(o, n->as.function.body); fputc(')', o); break;
    case AST_SHADOW: fputs("(shadow ", o); hexs(o, n->as.shadow.function_name); fputc(' ', o); sexp(o, n->as.shadow.body); fputc(')', o); break;
    case AST_PROGRAM: fputs("(program", o); sexp_list(o, n->as.program.items, n->as.program.count); fputc(')', o); break;
    case AST_PRINT: fprintf(o, "(print %d ", n->as.print.is_println ? 1 : 0); sexp(o, n->as.print.expr); fputc(')', o); break;
    case AST_ASSERT: fputs("(assert ", o); sexp(o, n->as.assert.condition); fputc(')', o); break;
    case AST_STRUCT_LITERAL:
        fputs("(structlit ", o); hexs(o, n->as.struct_literal.struct_name);
        for (int i = 0; i < n->as.struct_literal.field_count; i++) { fputs(" (", o); hexs(o, n->as.struct_literal.field_names[i]); fputc(' ', o); sexp(o, n->as.struct_literal.field_values[i]); fputc(')', o); }
        fputc(')', o); break;
    case AST_UNION_CONSTRUCT:
        fputs("(unioncons ", o); hexs(o, n->as.union_construct.union_name); fputc(' ', o); hexs(o, n->as.union_construct.variant_name);
        for (int i = 0; i < n->as.union_construct.field_count; i++) { fputs(" (", o); hexs(o, n->as.union_construct.field_names[i]); fputc(' ', o); sexp(o, n->as.union_construct.field_values[i]); fputc(')', o); }
        fputc(')', o); break;
    case AST_MATCH:
        fputs("(match ", o); sexp(o, n->as.match_expr.expr);
        for (int i = 0; i < n->as.match_expr.arm_count; i++) { fputs(" (", o); hexs(o, n->as.match_expr.pattern_variants[i]); fputc(' ', o); hexs(o, n->as.match_expr.pattern_bindings[i]); fputc(' ', o); sexp(o, n->as.match_expr.arm_bodies[i]); fputc(')', o); }
        fputc(')', o); break;
    case AST_QUALIFIED_NAME:
        fputs("(qname", o); for (int i = 0; i < n->as.qualified_name.part_count; i++) { fputc(' ', o); hexs(o, n->as.qualified_name.name_parts[i]); } fputc(')', o); break;
    case AST_STRUCT_DEF: fputs("(structdef ", o); hexs(o, n->as.struct_def.name); fprintf(o, " %d)", n->as.struct_def.field_count); break;
    case AST_ENUM_DEF: fputs("(enumdef ", o); hexs(o, n->as.enum_def.name); fprintf(o, " %d)", n->as.enum_def.variant_count); break;
    case AST_UNION_DEF: fputs("(uniondef ", o); hexs(o, n->as.union_def.name); fprintf(o, " %d)", n->as.union_def.variant_count); break;
    case AST_IMPORT: fputs("(import ", o); hexs(o, n->as.import_stmt.module_path); fputc(')', o); break;
    case AST_MODULE_DECL: fputs("(module ", o); hexs(o, n->as.module_decl.name); fputc(')', o); break;
    case AST_OPAQUE_TYPE: fputs("(opaque ", o); hexs(o, n->as.opaque_type.name); fputc(')', o); break;
    default: fprintf(o, "(node %d)", (int)n->type); break;
    }
}

/* ------------------------------------------------------------------ child side */
static int g_stack_fd = -1;          /* where a hang / fatal-signal handler writes the stack */

static void write_stack(const char *tag, int sig) {
    void *addrs[48];
    int n = backtrace(addrs, 48);
    char buf[48 * 20 + 64];
    int k = snprintf(buf, sizeof buf, "%s%d", tag, sig);
    for (int i = 0; i < n && k < (int)sizeof buf - 24; i++) {
        Dl_info di;
        uintptr_t a = (uintptr_t)addrs[i];
        if (dladdr(addrs[i], &di) && di.dli_fbase && di.dli_fname && strstr(di.dli_fname, "front_probe"))
            k += snprintf(buf + k, sizeof buf - k, " %lx", (unsigned long)(a - (uintptr_t)di.dli_fbase));
    }
    buf[k++] = '\n';
    if (g_stack_fd >= 0) { ssize_t w = write(g_stack_fd, buf, k); (void)w; }
}
static void on_alarm(int sig) { write_stack("A", sig); _exit(124); }
static void on_fatal(int sig) { write_stack("S", sig); _exit(125); }

static char *unhex(const char *h) {
    size_t n = strlen(h) / 2;
    if (!strcmp(h, "-")) n = 0;
    char *s = malloc(n + 1);
    for (size_t i = 0; i < n; i++) s[i] = (char)(hexv(h[2 * i]) * 16 + hexv(h[2 * i + 1]));
    s[n] = 0;
    return s;
}

static int child_work(const char *cmd, const char *srchex, FILE *o) {
    char *src = unhex(srchex);
    int ntok = 0;
    Token *toks = tokenize(src, &ntok);
    if (!strcmp(cmd, "lex")) {
        if (!toks) { fputs("lexnull", o); return 0; }
        fprintf(o, "ok %d", ntok);
        for (int i = 0; i < ntok; i++) { fprintf(o, " %d:%d:%d:", (int)toks[i].token_type, toks[i].line, toks[i].column); hexs(o, toks[i].value); }
        return 0;
    }
    if (!toks) { fputs(!strcmp(cmd, "front") ? "reject:lex" : "lexnull", o); return 0; }
    ASTNode *prog = parse_program(toks, ntok);
    if (!strcmp(cmd, "front")) {
        if (!prog) { fputs("reject:parse", o); return 0; }
        Environment *env = create_environment();
        typecheck_set_current_file("probe.nano");
        bool ok = type_check(prog, env);
        fputs(ok ? "accept" : "reject:types", o);
        return 0;
    }
    if (!prog) { fputs("parsenull", o); return 0; }
    if (!strcmp(cmd, "ast")) { fputs("ok ", o); sexp(o, prog); return 0; }
    if (!strcmp(cmd, "expr")) {
        for (int i = 0; i < prog->as.program.count; i++) {
            ASTNode *it = prog->as.program.items[i];
            if (it && it->type == AST_LET) { fputs("ok ", o); sexp(o, it->as.let.value); return 0; }
        }
        fputs("nolet", o); return 0;
    }
    fputs("badcmd", o);
    return 0;
}

/* ------------------------------------------------------------------ parent side */
static char *slurp(int fd, size_t *len) {
    size_t cap = 4096, n = 0; char *b = malloc(cap);
    for (;;) {
        if (n + 2048 > cap) { cap *= 2; b = realloc(b, cap); }
        ssize_t r = read(fd, b + n, cap - n - 1);
        if (r < 0 && errno == EINTR) continue;
        if (r <= 0) break;
        n += (size_t)r;
    }
    b[n] = 0; if (len) *len = n; return b;
}

int main(void) {
    char *line = NULL; size_t cap = 0; ssize_t n;
    static char altstack[1 << 16];
    signal(SIGPIPE, SIG_IGN);
    while ((n = getline(&line, &cap, stdin)) > 0) {
        while (n > 0 && (line[n - 1] == '\n' || line[n - 1] == '\r')) line[--n] = 0;
        char *save; char *cmd = strtok_r(line, " ", &save);
        char *ms_s = strtok_r(NULL, " ", &save);
        char *hex = strtok_r(NULL, " ", &save);
        if (!cmd) continue;
        if (!ms_s || !hex) { printf("badreq\n"); fflush(stdout); continue; }
        long ms = atol(ms_s);
        int po[2], pe[2], ps[2];
        if (pipe(po) || pipe(pe) || pipe(ps)) { printf("probe-error pipe\n"); fflush(stdout); continue; }
        fflush(stdout);
        pid_t pid = fork();
        if (pid == 0) {
            close(po[0]); close(pe[0]); close(ps[0]);
            dup2(pe[1], 2);
            g_stack_fd = ps[1];
            stack_t ss; ss.ss_sp = altstack; ss.ss_size = sizeof altstack; ss.ss_flags = 0; sigaltstack(&ss, NULL);
            struct sigaction sa; memset(&sa, 0, sizeof sa); sa.sa_flags = SA_ONSTACK; sigemptyset(&sa.sa_mask);
            sa.sa_handler = on_alarm; sigaction(SIGALRM, &sa, NULL);
            /* fatal signals: only when no sanitizer runtime has installed its own reporter (ASan handles SEGV itself) */
            int sigs[] = { SIGSEGV, SIGBUS, SIGFPE, SIGILL, SIGABRT };
            for (unsigned i = 0; i < sizeof sigs / sizeof *sigs; i++) {
                struct sigaction old; sigaction(sigs[i], NULL, &old);
                if (old.sa_handler == SIG_DFL && !(old.sa_flags & SA_SIGINFO)) { sa.sa_handler = on_fatal; sigaction(sigs[i], &sa, NULL); }
            }
            struct itimerval it; memset(&it, 0, sizeof it);
            it.it_value.tv_sec = ms / 1000; it.it_value.tv_usec = (ms % 1000) * 1000;
            setitimer(ITIMER_REAL, &it, NULL);
            char *obuf = NULL; size_t olen = 0;
            FILE *o = open_memstream(&obuf, &olen);
            child_work(cmd, hex, o);
            fflush(o);
            size_t off = 0;
            while (off < olen) { ssize_t w = write(po[1], obuf + off, olen - off); if (w <= 0) break; off += (size_t)w; }
            _exit(0);
        }
        close(po[1]); close(pe[1]); close(ps[1]);
        /* drain stderr and the answer concurrently enough: stderr first would deadlock if the child blocks on a full answer
           pipe, so both are made non-blocking and polled */
        fcntl(po[0], F_SETFL, O_NONBLOCK); fcntl(pe[0], F_SETFL, O_NONBLOCK); fcntl(ps[0], F_SETFL, O_NONBLOCK);
        size_t ocap = 1 << 16, on = 0, ecap = 1 << 18, en = 0, etot = 0; char *ob = malloc(ocap), *eb = malloc(ecap + 1);
        char sb[2048]; size_t sn = 0;
        int open_o = 1, open_e = 1, open_s = 1;
        while (open_o || open_e || open_s) {
            fd_set rf; FD_ZERO(&rf); int mx = 0;
            if (open_o) { FD_SET(po[0], &rf); if (po[0] > mx) mx = po[0]; }
            if (open_e) { FD_SET(pe[0], &rf); if (pe[0] > mx) mx = pe[0]; }
            if (open_s) { FD_SET(ps[0], &rf); if (ps[0] > mx) mx = ps[0]; }
            if (select(mx + 1, &rf, NULL, NULL, NULL) < 0) { if (errno == EINTR) continue; break; }
            if (open_o && FD_ISSET(po[0], &rf)) {
                if (on + 4096 > ocap) { ocap *= 2; ob = realloc(ob, ocap); }
                ssize_t r = read(po[0], ob + on, ocap - on - 1);
                if (r > 0) on += (size_t)r; else if (r == 0 || (errno != EAGAIN && errno != EINTR)) open_o = 0;
            }
            if (open_e && FD_ISSET(pe[0], &rf)) {
                char tmp[4096]; ssize_t r = read(pe[0], tmp, sizeof tmp);
                if (r > 0) {               /* keep the first ecap bytes (a sanitizer report starts with its verdict) */
                    etot += (size_t)r;
                    size_t c = (size_t)r; if (en + c > ecap) c = ecap - en;
                    memcpy(eb + en, tmp, c); en += c;
                } else if (r == 0 || (errno != EAGAIN && errno != EINTR)) open_e = 0;
            }
            if (open_s && FD_ISSET(ps[0], &rf)) {
                ssize_t r = read(ps[0], sb + sn, sizeof sb - sn - 1);
                if (r > 0) sn += (size_t)r; else if (r == 0 || (errno != EAGAIN && errno != EINTR)) open_s = 0;
                if (sn >= sizeof sb - 1) open_s = 0;
            }
        }
        close(po[0]); close(pe[0]); close(ps[0]);
        ob[on] = 0; sb[sn] = 0;
        while (sn > 0 && (sb[sn - 1] == '\n')) sb[--sn] = 0;
        int st = 0; while (waitpid(pid, &st, 0) < 0 && errno == EINTR) {}
        int diag = etot > 0;
        if (WIFEXITED(st) && WEXITSTATUS(st) == 0) {
            for (size_t i = 0; i < on; i++) if (ob[i] == '\n' || ob[i] == '\r') ob[i] = ' ';
            printf("%s diag=%d\n", ob, diag);
        } else {
            if (WIFEXITED(st) && WEXITSTATUS(st) == 124) printf("hang %s", sb[0] ? sb + 1 : "");
            else if (WIFEXITED(st) && WEXITSTATUS(st) == 125) { char *sp = strchr(sb, ' '); if (sp) *sp = 0; printf("crash sig=%s %s", sb[0] ? sb + 1 : "?", sp ? sp + 1 : ""); }
            else if (WIFEXITED(st)) printf("crash exit=%d", WEXITSTATUS(st));
            else printf("crash sig=%d", WTERMSIG(st));
            printf(" diag=%d err=", diag);
            size_t from = en > 1500 ? en - 1500 : 0, to = en;
            eb[en < ecap ? en : ecap - 1] = 0;
            char *mk = strstr(eb, "ERROR: ");
            char *mu = strstr(eb, "runtime error:");          /* UBSan: "<file>:<line>:<col>: runtime error: ..." */
            if (mu && (!mk || mu < mk)) { mk = mu; while (mk > eb && mk[-1] != '\n') mk--; }
            if (mk) { from = (size_t)(mk - eb); to = from + 4000 < en ? from + 4000 : en; }
            if (to == from) putchar('-');
            for (size_t i = from; i < to; i++) printf("%02x", (unsigned char)eb[i]);
            putchar('\n');
        }
        fflush(stdout);
        free(ob); free(eb);
    }
    return 0;
}
