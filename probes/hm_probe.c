/* hm_probe (C20): drives the open-addressing HashMap<K,V> helpers exactly as src/transpiler.c emits them into native programs: the
   helper text is #included from build/gen/nl_hashmap.inc, which tools/gen/gen_hashmap.py cuts out of the generated C of the compiler
   under test (nanoc -S) on every run.  Same line protocol as nvref_c20:
     hnew <si|is|ss|ii>          new map (<string,int>, <int,string>, <string,string>, <int,int>); the previous one is freed
     put <key> <v> | has <key> | get <key> | rm <key> | len | clear | keys          key = s:<text> | i:<hex>,  v hex (string values are "v<hex>")
   Answer: <out> | size=<n> tombs=<n> cap=<n> st=<one char per slot: . L T> h=<fnv1a64 over "idx:key=val;" of the live slots>
           out = unit | val <hex> | keys <k,k,...>
   String keys are handed over in exactly-sized heap blocks that are freed right after the call; reads of freed keys are left to ASan. */
#include <stdio.h>
#include <stdlib.h>
#include <string.h>
#include <stdint.h>
#include <stdbool.h>
#include "runtime/gc.h"
#include "runtime/dyn_array.h"
#include HM_INC

typedef struct { const char *s; int64_t i; } Key;
static uint64_t H;
static void hmix(const char *s) { for (; *s; s++) { H ^= (uint8_t)*s; H *= 0x100000001b3ULL; } }

static uint64_t v_of_int(int64_t v) { return (uint64_t)v; }
static uint64_t v_of_str(const char *s) { return (s && s[0] == 'v') ? strtoull(s + 1, NULL, 16) : 0; }
static void kfmt_s(char *b, size_t n, const char *k) { snprintf(b, n, "s:%s", k ? k : "(null)"); }
static void kfmt_i(char *b, size_t n, int64_t k) { snprintf(b, n, "i:%llx", (unsigned long long)k); }

#define ENGINE(S, KSEL, KFMT, VPUT, VOF, KEYS_GET) \
static void S##_answer(HashMap_##S *m, const char *out) { \
    char kb[600], eb[700]; H = 0xcbf29ce484222325ULL; \
    printf("%s | size=%lld tombs=%lld cap=%lld st=", out, (long long)m->size, (long long)m->tombstones, (long long)m->capacity); \
    for (int64_t i = 0; i < m->capacity; i++) { \
        int st = m->entries[i].state; putchar(st == 0 ? '.' : st == 1 ? 'L' : st == 2 ? 'T' : '?'); \
        if (st == 1) { KFMT(kb, sizeof kb, m->entries[i].key); snprintf(eb, sizeof eb, "%lld:%s=%llx;", (long long)i, kb, (unsigned long long)VOF(m->entries[i].value)); hmix(eb); } } \
    printf(" h=%016llx\n", (unsigned long long)H); } \
static void S##_cmd(void **mp, const char *cmd, Key k, uint64_t v) { \
    HashMap_##S *m = *mp; char out[64] = "unit"; char vb[40]; snprintf(vb, sizeof vb, "v%llx", (unsigned long long)v); (void)vb; \
    if (!strcmp(cmd, "hnew")) { if (m) nl_hashmap_##S##_free(m); m = nl_hashmap_##S##_new(); *mp = m; } \
    else if (!strcmp(cmd, "put")) nl_hashmap_##S##_put(m, k.KSEL, VPUT); \
    else if (!strcmp(cmd, "has")) snprintf(out, sizeof out, "val %x", nl_hashmap_##S##_has(m, k.KSEL) ? 1 : 0); \
    else if (!strcmp(cmd, "get")) snprintf(out, sizeof out, "val %llx", (unsigned long long)VOF(nl_hashmap_##S##_get(m, k.KSEL))); \
    else if (!strcmp(cmd, "rm")) nl_hashmap_##S##_remove(m, k.KSEL); \
    else if (!strcmp(cmd, "len")) snprintf(out, sizeof out, "val %llx", (unsigned long long)nl_hashmap_##S##_length(m)); \
    else if (!strcmp(cmd, "clear")) nl_hashmap_##S##_clear(m); \
    else if (!strcmp(cmd, "keys")) { DynArray *a = nl_hashmap_##S##_keys(m); char kb[600]; printf("keys "); \
        for (int64_t i = 0; i < dyn_array_length(a); i++) { KFMT(kb, sizeof kb, KEYS_GET(a, i)); printf("%s%s", i ? "," : "", kb); } \
        printf(" | size=%lld\n", (long long)m->size); return; } \
    else { printf("bad\n"); return; } \
    S##_answer(m, out); }

ENGINE(string_int, s, kfmt_s, (int64_t)v, v_of_int, dyn_array_get_string)
ENGINE(int_string, i, kfmt_i, vb, v_of_str, dyn_array_get_int)
ENGINE(string_string, s, kfmt_s, vb, v_of_str, dyn_array_get_string)
ENGINE(int_int, i, kfmt_i, (int64_t)v, v_of_int, dyn_array_get_int)

int main(void) {
    char *line = NULL; size_t cap = 0; ssize_t n; void *maps[4] = {0}; int eng = -1;
    setvbuf(stdout, NULL, _IOLBF, 1 << 16);
    gc_init();
    while ((n = getline(&line, &cap, stdin)) > 0) {
        while (n > 0 && (line[n-1] == '\n' || line[n-1] == '\r')) line[--n] = 0;
        char *save; char *cmd = strtok_r(line, " ", &save); if (!cmd) continue;
        char *t1 = strtok_r(NULL, " ", &save), *t2 = strtok_r(NULL, " ", &save);
        Key k = {0, 0}; char *kcopy = NULL; uint64_t v = t2 ? strtoull(t2, NULL, 16) : 0;
        if (!strcmp(cmd, "hnew")) {
            eng = !t1 ? -1 : !strcmp(t1, "si") ? 0 : !strcmp(t1, "is") ? 1 : !strcmp(t1, "ss") ? 2 : !strcmp(t1, "ii") ? 3 : -1;
        } else if (t1 && t1[0] && t1[1] == ':') {
            if (t1[0] == 's') { size_t m = strlen(t1 + 2); kcopy = malloc(m + 1); memcpy(kcopy, t1 + 2, m + 1); k.s = kcopy; }
            else k.i = (int64_t)strtoull(t1 + 2, NULL, 16);
        }
        if (eng < 0) { printf("skip\n"); continue; }
        if (eng == 0) string_int_cmd(&maps[0], cmd, k, v);
        else if (eng == 1) int_string_cmd(&maps[1], cmd, k, v);
        else if (eng == 2) string_string_cmd(&maps[2], cmd, k, v);
        else int_int_cmd(&maps[3], cmd, k, v);
        free(kcopy);
    }
    if (maps[0]) nl_hashmap_string_int_free(maps[0]);
    if (maps[1]) nl_hashmap_int_string_free(maps[1]);
    if (maps[2]) nl_hashmap_string_string_free(maps[2]);
    if (maps[3]) nl_hashmap_int_int_free(maps[3]);
    return 0;
}
