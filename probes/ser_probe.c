/* ser_probe (C19): drives the repo's real nvm_add_string / nvm_add_function / nvm_append_code / nvm_add_debug_entry /
   nvm_add_import / nvm_serialize / nvm_deserialize and isa_encode.  Same line protocol as nvref_c19.

     mod fill=<z|seed> flags=<n> entry=<n> S:<hex|->,.. C:<hex|-> F:<name.arity.off.len.locals.upvals>,.. D:<off.line>,.. I:<mod.fn.pcount.ret.hex|null|->,..
         -> idx <i,i,..|-> ok <hex of the serialized image>          (idx = what each nvm_add_string call returned)
     load <hex of an .nvm file>   -> the "mod ..." description of the deserialized module (or err)
     encj <op-hex> <junk-seed> <v0> <v1> <v2> <v3>
         -> ok <hex> cnt <operand_count field> slots <s0> <s1> <s2> <s3>   (the raw union slots the encoder was given)
   The DecodedInstruction of encj is filled with junk first and only the typed members are assigned, as emit_op would do
   WITHOUT its "= {0}" initialiser. */
#include <stdio.h>
#include <stdlib.h>
#include <string.h>
#include <stdint.h>
#include "isa.h"
#include "nvm_format.h"

static int hexv(int c) { return c <= '9' ? c - '0' : (c | 32) - 'a' + 10; }
static uint8_t *unhex(const char *t, size_t *n) {
    if (!t || !strcmp(t, "-") || !*t) { *n = 0; return malloc(1); }
    *n = strlen(t) / 2; uint8_t *b = malloc(*n ? *n : 1);
    for (size_t i = 0; i < *n; i++) b[i] = (uint8_t)(hexv(t[2*i]) * 16 + hexv(t[2*i+1]));
    return b;
}
static void puthex(const uint8_t *p, size_t n) { if (!n) printf("-"); for (size_t i = 0; i < n; i++) printf("%02x", p[i]); }

static void do_mod(char *rest) {
    NvmModule *m = nvm_module_new();
    char *save; char *tok;
    printf("idx ");
    int nidx = 0;
    for (tok = strtok_r(rest, " ", &save); tok; tok = strtok_r(NULL, " ", &save)) {
        if (!strncmp(tok, "fill=", 5)) continue;
        if (!strncmp(tok, "flags=", 6)) { m->header.flags = (uint32_t)strtoul(tok + 6, NULL, 10); continue; }
        if (!strncmp(tok, "entry=", 6)) { m->header.entry_point = (uint32_t)strtoul(tok + 6, NULL, 10); continue; }
        char kind = tok[0]; char *list = tok + 2; char *s2; char *it;
        if (kind == 'C') { size_t n; uint8_t *b = unhex(list, &n); if (n) nvm_append_code(m, b, (uint32_t)n); free(b); continue; }
        if (!*list) continue;
        for (it = strtok_r(list, ",", &s2); it; it = strtok_r(NULL, ",", &s2)) {
            if (kind == 'S') {
                size_t n; uint8_t *b = unhex(it, &n);
                /* exactly-sized source so that an over-read in nvm_add_string is an ASan report */
                uint32_t ix = nvm_add_string(m, (const char *)b, (uint32_t)n); free(b);
                printf("%s%u", nidx++ ? "," : "", ix);
            } else if (kind == 'F') {
                unsigned long a[6]; sscanf(it, "%lu.%lu.%lu.%lu.%lu.%lu", &a[0], &a[1], &a[2], &a[3], &a[4], &a[5]);
                NvmFunctionEntry fe; memset(&fe, 0xA5, sizeof fe);
                fe.name_idx = (uint32_t)a[0]; fe.arity = (uint16_t)a[1]; fe.code_offset = (uint32_t)a[2];
                fe.code_length = (uint32_t)a[3]; fe.local_count = (uint16_t)a[4]; fe.upvalue_count = (uint16_t)a[5];
                nvm_add_function(m, &fe);
            } else if (kind == 'D') {
                unsigned long a, b; sscanf(it, "%lu.%lu", &a, &b); nvm_add_debug_entry(m, (uint32_t)a, (uint32_t)b);
            } else if (kind == 'I') {
                unsigned long a[4]; char pt[600]; pt[0] = 0; sscanf(it, "%lu.%lu.%lu.%lu.%599s", &a[0], &a[1], &a[2], &a[3], pt);
                size_t n = 0; uint8_t *b = NULL;
                if (strcmp(pt, "null")) b = unhex(pt, &n);
                nvm_add_import(m, (uint32_t)a[0], (uint32_t)a[1], (uint16_t)a[2], (uint8_t)a[3], b);
                free(b);
            }
        }
    }
    if (!nidx) printf("-");
    uint32_t sz = 0; uint8_t *out = nvm_serialize(m, &sz);
    if (!out) printf(" err\n"); else { printf(" ok "); puthex(out, sz); printf("\n"); free(out); }
    nvm_module_free(m);
}

static void do_load(const char *hex) {
    size_t n; uint8_t *b = unhex(hex, &n);
    NvmModule *m = nvm_deserialize(b, (uint32_t)n); free(b);
    if (!m) { printf("err\n"); return; }
    printf("mod fill=z flags=%u entry=%u S:", m->header.flags, m->header.entry_point);
    for (uint32_t i = 0; i < m->string_count; i++) { if (i) printf(","); puthex((const uint8_t *)m->strings[i], m->string_lengths[i]); }
    printf(" C:"); puthex(m->code, m->code_size);
    printf(" F:");
    for (uint32_t i = 0; i < m->function_count; i++) { NvmFunctionEntry *f = &m->functions[i];
        printf("%s%u.%u.%u.%u.%u.%u", i ? "," : "", f->name_idx, f->arity, f->code_offset, f->code_length, f->local_count, f->upvalue_count); }
    printf(" D:");
    for (uint32_t i = 0; i < m->debug_count; i++) printf("%s%u.%u", i ? "," : "", m->debug_entries[i].bytecode_offset, m->debug_entries[i].source_line);
    printf(" I:");
    for (uint32_t i = 0; i < m->import_count; i++) { NvmImportEntry *e = &m->imports[i];
        printf("%s%u.%u.%u.%u.", i ? "," : "", e->module_name_idx, e->function_name_idx, e->param_count, e->return_type);
        if (!m->import_param_types[i]) printf(e->param_count ? "null" : "-"); else puthex(m->import_param_types[i], e->param_count); }
    printf("\n");
    nvm_module_free(m);
}

static void do_encj(char *rest) {
    char *save; char *t = strtok_r(rest, " ", &save);
    unsigned op = (unsigned)strtoul(t, NULL, 16);
    uint64_t seed = strtoull(strtok_r(NULL, " ", &save), NULL, 10);
    uint64_t v[4] = {0, 0, 0, 0};
    for (int i = 0; i < 4 && (t = strtok_r(NULL, " ", &save)); i++) v[i] = strtoull(t, NULL, 16);
    DecodedInstruction in;
    uint8_t *raw = (uint8_t *)&in; uint64_t x = seed * 6364136223846793005ULL + 1442695040888963407ULL;
    for (size_t i = 0; i < sizeof in; i++) { x = x * 6364136223846793005ULL + 1442695040888963407ULL; raw[i] = seed ? (uint8_t)(x >> 56) : 0; }
    in.opcode = (uint8_t)op;
    const InstructionInfo *info = isa_get_info((uint8_t)op);
    if (info) for (int i = 0; i < info->operand_count; i++) {
        double d; memcpy(&d, &v[i], 8);
        switch (info->operands[i]) {
            case OPERAND_U8: in.operands[i].u8 = (uint8_t)v[i]; break;
            case OPERAND_U16: in.operands[i].u16 = (uint16_t)v[i]; break;
            case OPERAND_U32: in.operands[i].u32 = (uint32_t)v[i]; break;
            case OPERAND_I32: in.operands[i].i32 = (int32_t)(uint32_t)v[i]; break;
            case OPERAND_I64: in.operands[i].i64 = (int64_t)v[i]; break;
            case OPERAND_F64: in.operands[i].f64 = d; break;
            default: break;
        }
    }
    uint8_t *buf = malloc(ISA_MAX_INSTRUCTION_SIZE); memset(buf, 0xEE, ISA_MAX_INSTRUCTION_SIZE);
    uint32_t w = isa_encode(&in, buf, ISA_MAX_INSTRUCTION_SIZE);
    if (!w) printf("err"); else { printf("ok "); puthex(buf, w); }
    printf(" cnt %u slots", (unsigned)in.operand_count);
    for (int i = 0; i < MAX_OPERANDS; i++) { uint64_t s; memcpy(&s, &in.operands[i], 8); printf(" %llx", (unsigned long long)s); }
    printf("\n"); free(buf);
}

int main(void) {
    char *line = NULL; size_t cap = 0; ssize_t n;
    while ((n = getline(&line, &cap, stdin)) > 0) {
        while (n > 0 && (line[n-1] == '\n' || line[n-1] == '\r')) line[--n] = 0;
        if (!strncmp(line, "mod ", 4)) do_mod(line + 4);
        else if (!strncmp(line, "load ", 5)) do_load(line + 5);
        else if (!strncmp(line, "encj ", 5)) do_encj(line + 5);
        else if (n) printf("bad\n");
    }
    return 0;
}
