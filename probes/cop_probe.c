/* cop_probe: drives the repo's real cop_serialize_value / cop_deserialize_value (libnano.a) with the same line protocol
   as nvref_c15.
     ser <cap> <value>     -> ok <bytes-hex> | err          (buffer = heap block of exactly <cap> bytes)
     des <bytes-hex>       -> ok <n> <value> | err          (buffer = heap block of exactly that many bytes)
     desx <bytes-hex>      -> same, but run in a forked child: "crash <signal>" when the child dies (hostile inputs)
     rt <value>            -> ok <n> <value> | err          serialize into an exact-size buffer, then deserialize
   value syntax (one token): v | i<hex> | f<hex> | b0 | b1 | s<hex>|s- | o<hex> | a<etype-hex>[v,v,...] | t<tag-hex>
   ints/floats/opaques are raw 64-bit patterns (memcpy'd in and out). */
#include <stdio.h>
#include <stdlib.h>
#include <string.h>
#include <stdint.h>
#include <unistd.h>
#include <sys/wait.h>
#include "cop_protocol.h"
#include "heap.h"

int g_argc = 0; char **g_argv = NULL;
static VmHeap heap;
static int hexv(int c) { return c <= '9' ? c - '0' : (c | 32) - 'a' + 10; }
static int ishex(int c) { return (c >= '0' && c <= '9') || ((c | 32) >= 'a' && (c | 32) <= 'f'); }

static uint64_t parse_hex(const char **p) {
    uint64_t v = 0;
    while (ishex(**p)) { v = v * 16 + (uint64_t)hexv(**p); (*p)++; }
    return v;
}

static NanoValue parse_value(const char **p) {
    NanoValue v; memset(&v, 0, sizeof v);
    char c = *(*p)++;
    switch (c) {
    case 'v': v.tag = TAG_VOID; break;
    case 'i': { uint64_t x = parse_hex(p); v.tag = TAG_INT; memcpy(&v.as.i64, &x, 8); break; }
    case 'f': { uint64_t x = parse_hex(p); v.tag = TAG_FLOAT; memcpy(&v.as.f64, &x, 8); break; }
    case 'o': { uint64_t x = parse_hex(p); v.tag = TAG_OPAQUE; memcpy(&v.as.i64, &x, 8); break; }
    case 't': { uint64_t x = parse_hex(p); v.tag = (uint8_t)x; break; }
    case 'b': v.tag = TAG_BOOL; v.as.boolean = (*(*p)++ == '1'); break;
    case 's': {
        const char *q = *p; size_t n = 0;
        if (*q == '-') { (*p)++; }
        else { while (ishex(q[n])) n++; }
        size_t len = n / 2;
        char *tmp = malloc(len ? len : 1);
        for (size_t i = 0; i < len; i++) tmp[i] = (char)(hexv(q[2*i]) * 16 + hexv(q[2*i+1]));
        if (*q != '-') *p += n;
        v.tag = TAG_STRING; v.as.string = vm_string_new(&heap, tmp, (uint32_t)len);
        free(tmp);
        break;
    }
    case 'a': {
        uint64_t et = parse_hex(p);
        VmArray *a = vm_array_new(&heap, (uint8_t)et, 8);
        if (**p == '[') (*p)++;
        while (**p && **p != ']') {
            NanoValue e = parse_value(p);
            vm_array_push(a, e);
            if (**p == ',') (*p)++;
        }
        if (**p == ']') (*p)++;
        v.tag = TAG_ARRAY; v.as.array = a;
        break;
    }
    default: v.tag = TAG_VOID; break;
    }
    return v;
}

static void print_value(NanoValue v) {
    uint64_t x;
    switch (v.tag) {
    case TAG_VOID: printf("v"); break;
    case TAG_INT: memcpy(&x, &v.as.i64, 8); printf("i%llx", (unsigned long long)x); break;
    case TAG_FLOAT: memcpy(&x, &v.as.f64, 8); printf("f%llx", (unsigned long long)x); break;
    case TAG_OPAQUE: memcpy(&x, &v.as.i64, 8); printf("o%llx", (unsigned long long)x); break;
    case TAG_BOOL: { unsigned char raw; memcpy(&raw, &v.as.boolean, 1); printf("b%u", (unsigned)raw); break; }
    case TAG_STRING:
        if (!v.as.string) { printf("sNULL"); break; }
        if (v.as.string->length == 0) { printf("s-"); break; }
        printf("s");
        for (uint32_t i = 0; i < v.as.string->length; i++) printf("%02x", (unsigned char)v.as.string->data[i]);
        if (v.as.string->data[v.as.string->length] != 0) printf("!NOTERM");
        break;
    case TAG_ARRAY:
        if (!v.as.array) { printf("aNULL"); break; }
        printf("a%x[", v.as.array->elem_type);
        for (uint32_t i = 0; i < v.as.array->length; i++) { if (i) printf(","); print_value(v.as.array->elements[i]); }
        printf("]");
        break;
    default: printf("t%x", v.tag); break;
    }
}

static uint8_t *unhex(const char *t, size_t *len) {
    *len = (t && strcmp(t, "-")) ? strlen(t) / 2 : 0;
    uint8_t *buf = malloc(*len ? *len : 1);
    for (size_t i = 0; i < *len; i++) buf[i] = (uint8_t)(hexv(t[2*i]) * 16 + hexv(t[2*i+1]));
    return buf;
}

static void do_des(const uint8_t *buf, size_t len) {
    /* exact-size copy so that any over-read is an ASan report */
    uint8_t *b = malloc(len ? len : 1); memcpy(b, buf, len);
    NanoValue out; memset(&out, 0xAB, sizeof out);
    uint32_t r = cop_deserialize_value(b, (uint32_t)len, &out, &heap);
    if (r == 0) printf("err\n");
    else { printf("ok %u ", r); print_value(out); printf("\n"); vm_release(&heap, out); }
    free(b);
}

int main(void) {
    char *line = NULL; size_t cap = 0; ssize_t n;
    vm_heap_init(&heap);
    while ((n = getline(&line, &cap, stdin)) > 0) {
        while (n > 0 && (line[n-1] == '\n' || line[n-1] == '\r')) line[--n] = 0;
        char *save; char *cmd = strtok_r(line, " ", &save);
        if (!cmd) continue;
        if (!strcmp(cmd, "ser")) {
            uint32_t bsz = (uint32_t)strtoul(strtok_r(NULL, " ", &save), NULL, 10);
            const char *p = strtok_r(NULL, " ", &save);
            NanoValue v = parse_value(&p);
            uint8_t *buf = malloc(bsz ? bsz : 1);
            memset(buf, 0xEE, bsz);
            uint32_t w = cop_serialize_value(&v, buf, bsz);
            if (w == 0) printf("err\n");
            else { printf("ok "); for (uint32_t i = 0; i < w; i++) printf("%02x", buf[i]); printf("\n"); }
            free(buf); vm_release(&heap, v);
        } else if (!strcmp(cmd, "rt")) {
            const char *p = strtok_r(NULL, " ", &save);
            NanoValue v = parse_value(&p);
            uint32_t big = 1u << 24;
            uint8_t *buf = malloc(big);
            uint32_t w = cop_serialize_value(&v, buf, big);
            if (w == 0) printf("err\n"); else do_des(buf, w);
            free(buf); vm_release(&heap, v);
        } else if (!strcmp(cmd, "des")) {
            size_t len; uint8_t *buf = unhex(strtok_r(NULL, " ", &save), &len);
            do_des(buf, len); free(buf);
        } else if (!strcmp(cmd, "desx")) {
            size_t len; uint8_t *buf = unhex(strtok_r(NULL, " ", &save), &len);
            fflush(stdout);
            pid_t pid = fork();
            if (pid == 0) {
                alarm(20);
                do_des(buf, len); fflush(stdout); _exit(0);
            }
            int st = 0; waitpid(pid, &st, 0);
            if (WIFSIGNALED(st)) printf("crash %d\n", WTERMSIG(st));
            else if (WEXITSTATUS(st) != 0) printf("crash exit%d\n", WEXITSTATUS(st));
            free(buf);
        } else printf("bad\n");
        fflush(stdout);
    }
    return 0;
}
