/* vm_probe: deserialize -> verify -> execute (under the instruction budget hook h1) -> tear down, one forked
   child per case so that a sanitizer report / fatal signal of the real code is an observable outcome.
   stdin lines:   run <fuel> <hex bytes | ->
   stdout lines:  <class>|<detail>|<module crc or ->|<hex of the program's stdout or ->
     class  = load-reject | verify-reject | has-imports | finished | vmerror | fuel | crash | ub-overflow | timeout
     detail = finished: i:<dec> / b:0|1 / void / tag:<n>;  vmerror: VmResult number;
              crash: <phase>:<signal or exit status>:<first sanitizer line>   (phase = load|verify|run|teardown)
   The input buffer is a heap block of exactly the stated size (an over-read is an ASan report).
   The module dump CRC is nvm_crc32 over the same canonical dump the model computes (LoaderC.dump_module). */
#define _GNU_SOURCE
#include <stdio.h>
#include <stdlib.h>
#include <string.h>
#include <stdint.h>
#include <unistd.h>
#include <signal.h>
#include <poll.h>
#include <errno.h>
#include <sys/wait.h>
#include "vm.h"
#include "verifier.h"
#include "nvm_format.h"

int g_argc = 0; char **g_argv = NULL;

static int hexv(int c) { return c <= '9' ? c - '0' : (c | 32) - 'a' + 10; }

typedef struct { uint8_t *p; size_t n, cap; } Buf;
static void bput(Buf *b, const void *d, size_t n) {
    if (b->n + n > b->cap) { b->cap = (b->n + n) * 2 + 64; b->p = realloc(b->p, b->cap); }
    memcpy(b->p + b->n, d, n); b->n += n;
}
static void b32(Buf *b, uint32_t v) { uint8_t t[4] = { v, v >> 8, v >> 16, v >> 24 }; bput(b, t, 4); }
static void b16(Buf *b, uint16_t v) { uint8_t t[2] = { v, v >> 8 }; bput(b, t, 2); }

static uint32_t module_crc(const NvmModule *m) {
    Buf b = {0};
    b32(&b, m->header.flags); b32(&b, m->header.entry_point);
    b32(&b, m->string_count);
    for (uint32_t i = 0; i < m->string_count; i++) { b32(&b, m->string_lengths[i]); bput(&b, m->strings[i], m->string_lengths[i]); }
    b32(&b, m->function_count);
    for (uint32_t i = 0; i < m->function_count; i++) {
        const NvmFunctionEntry *f = &m->functions[i];
        b32(&b, f->name_idx); b16(&b, f->arity); b32(&b, f->code_offset); b32(&b, f->code_length);
        b16(&b, f->local_count); b16(&b, f->upvalue_count);
    }
    b32(&b, m->code_size); bput(&b, m->code, m->code_size); b32(&b, m->code_capacity);
    b32(&b, m->import_count);
    for (uint32_t i = 0; i < m->import_count; i++) {
        const NvmImportEntry *im = &m->imports[i];
        b32(&b, im->module_name_idx); b32(&b, im->function_name_idx); b16(&b, im->param_count);
        uint8_t rt = im->return_type; bput(&b, &rt, 1);
        if (im->param_count && m->import_param_types[i]) bput(&b, m->import_param_types[i], im->param_count);
    }
    b32(&b, m->debug_count);
    for (uint32_t i = 0; i < m->debug_count; i++) { b32(&b, m->debug_entries[i].bytecode_offset); b32(&b, m->debug_entries[i].source_line); }
    uint32_t c = nvm_crc32(b.p ? b.p : (const uint8_t *)"", (uint32_t)b.n);
    free(b.p);
    return c;
}

static void wr(int fd, const char *s) { size_t n = strlen(s); while (n) { ssize_t k = write(fd, s, n); if (k <= 0) break; s += k; n -= k; } }

/* child: everything the real tools do with an untrusted module */
static void child(int rfd, long long fuel, uint8_t *data, size_t len) {
    char line[256];
    alarm(60);
    wr(rfd, "P load\n");
    NvmModule *mod = nvm_deserialize(data, (uint32_t)len);
    if (!mod) { wr(rfd, "R load-reject||-|-\n"); _exit(0); }
    snprintf(line, sizeof line, "M %08x\n", module_crc(mod)); wr(rfd, line);
    wr(rfd, "P verify\n");
    NvmVerifyResult vr = nvm_verify(mod);
    if (!vr.ok) { wr(rfd, "R verify-reject||M|-\n"); nvm_module_free(mod); _exit(0); }
    if (mod->import_count > 0) { wr(rfd, "R has-imports||M|-\n"); nvm_module_free(mod); _exit(0); }
    wr(rfd, "P run\n");
    static VmState vm;
    vm_init(&vm, mod);
    char *obuf = NULL; size_t olen = 0;
    FILE *out = open_memstream(&obuf, &olen);
    vm.output = out;
    vm_verif_fuel = fuel;
    VmResult r = vm_execute(&vm);
    fflush(out);
    char det[64]; const char *cls;
    if (r == VM_OK) {
        NanoValue v = vm_get_result(&vm);
        cls = "finished";
        if (v.tag == TAG_INT) snprintf(det, sizeof det, "i:%lld", (long long)v.as.i64);
        else if (v.tag == TAG_BOOL) snprintf(det, sizeof det, "b:%d", v.as.boolean ? 1 : 0);
        else if (v.tag == TAG_VOID) snprintf(det, sizeof det, "void");
        else snprintf(det, sizeof det, "tag:%u", v.tag);
    } else if (r == VM_ERR_NOT_IMPLEMENTED && vm_verif_fuel == 0 && strncmp(vm.error_msg, "verif:", 6) == 0) {
        cls = "fuel"; det[0] = 0;
    } else { cls = "vmerror"; snprintf(det, sizeof det, "%d", (int)r); }
    /* result line first (the program's output must survive a crash in teardown for the report), then teardown */
    size_t need = olen * 2 + 128;
    char *res = malloc(need); size_t k = (size_t)snprintf(res, need, "R %s|%s|M|", cls, det);
    if (olen == 0) res[k++] = '-';
    for (size_t i = 0; i < olen; i++) { static const char hx[] = "0123456789abcdef"; res[k++] = hx[(uint8_t)obuf[i] >> 4]; res[k++] = hx[(uint8_t)obuf[i] & 15]; }
    res[k++] = '\n'; res[k] = 0;
    wr(rfd, res);
    wr(rfd, "P teardown\n");
    vm_destroy(&vm);
    fclose(out); free(obuf);
    nvm_module_free(mod);
    free(data);
    wr(rfd, "P done\n");
    _exit(0);
}

static void slurp2(int fa, Buf *a, int fb, Buf *b) {
    struct pollfd p[2] = { { fa, POLLIN, 0 }, { fb, POLLIN, 0 } };
    int open_ = 2; char tmp[65536];
    while (open_ > 0) {
        if (poll(p, 2, -1) < 0) { if (errno == EINTR) continue; break; }
        for (int i = 0; i < 2; i++) {
            if (p[i].fd < 0 || !(p[i].revents & (POLLIN | POLLHUP | POLLERR))) continue;
            ssize_t k = read(p[i].fd, tmp, sizeof tmp);
            if (k > 0) { Buf *t = i ? b : a; if (t->n < (1u << 22)) bput(t, tmp, (size_t)k); }
            else { close(p[i].fd); p[i].fd = -1; open_--; }
        }
    }
}

int main(void) {
    char *line = NULL; size_t cap = 0; ssize_t n;
    signal(SIGPIPE, SIG_IGN);
    while ((n = getline(&line, &cap, stdin)) > 0) {
        while (n > 0 && (line[n-1] == '\n' || line[n-1] == '\r')) line[--n] = 0;
        char *save; char *cmd = strtok_r(line, " ", &save);
        if (!cmd) continue;
        if (strcmp(cmd, "run")) { printf("bad|||\n"); fflush(stdout); continue; }
        char *fs = strtok_r(NULL, " ", &save); char *hx = strtok_r(NULL, " ", &save);
        long long fuel = fs ? atoll(fs) : 0;
        size_t len = (hx && strcmp(hx, "-")) ? strlen(hx) / 2 : 0;
        uint8_t *data = malloc(len ? len : 1);
        if (len == 0) { free(data); data = malloc(1); }
        for (size_t i = 0; i < len; i++) data[i] = (uint8_t)(hexv(hx[2*i]) * 16 + hexv(hx[2*i+1]));
        /* exact-size block: re-allocate so that ASan's redzone starts right at data+len */
        uint8_t *exact = malloc(len ? len : 1); memcpy(exact, data, len); free(data);
        int rp[2], ep[2];
        if (pipe(rp) || pipe(ep)) { perror("pipe"); return 2; }
        fflush(stdout);
        pid_t pid = fork();
        if (pid == 0) {
            close(rp[0]); close(ep[0]);
            dup2(ep[1], 2); dup2(ep[1], 1);     /* anything the real code prints itself goes with stderr */
            child(rp[1], fuel, exact, len);
            _exit(0);
        }
        close(rp[1]); close(ep[1]);
        Buf rb = {0}, eb = {0};
        slurp2(rp[0], &rb, ep[0], &eb);
        int st = 0; waitpid(pid, &st, 0);
        free(exact);
        bput(&rb, "", 1); bput(&eb, "", 1);
        /* parse child's records */
        char phase[32] = "start"; char mcrc[16] = "-"; char *res = NULL; int done = 0;
        for (char *q = (char *)rb.p; q && *q; ) {
            char *e = strchr(q, '\n'); if (e) *e = 0;
            if (q[0] == 'P') { snprintf(phase, sizeof phase, "%s", q + 2); if (!strcmp(phase, "done")) done = 1; }
            else if (q[0] == 'M') snprintf(mcrc, sizeof mcrc, "%s", q + 2);
            else if (q[0] == 'R') res = q + 2;
            q = e ? e + 1 : NULL;
        }
        int clean = WIFEXITED(st) && WEXITSTATUS(st) == 0;
        if (clean && res) {
            /* substitute the module crc for the M placeholder */
            char *bar2 = strchr(res, '|'); bar2 = bar2 ? strchr(bar2 + 1, '|') : NULL;
            if (bar2 && bar2[1] == 'M') { *bar2 = 0; printf("%s|%s%s\n", res, mcrc, bar2 + 2); }
            else printf("%s\n", res);
        } else {
            const char *cls = "crash";
            char first[400] = "";
            char *e1 = strstr((char *)eb.p, "runtime error:");
            char *e2 = strstr((char *)eb.p, "ERROR: AddressSanitizer");
            char *e = e1 ? e1 : e2;
            if (e1 && (strstr(e1, "signed integer overflow") || strstr(e1, "negation of"))) cls = "ub-overflow";
            if (e) { size_t i = 0; while (e[i] && e[i] != '\n' && i < sizeof first - 1) { first[i] = (e[i] == '|' || e[i] == ':' ? '/' : e[i]); i++; } first[i] = 0; }
            /* innermost symbolised frames of the report: "#0 0x.. in <fn> " */
            char fr[200] = ""; int nf = 0;
            for (char *q = (char *)eb.p; nf < 4 && (q = strstr(q, " in ")) != NULL; q += 4) {
                if (q - (char *)eb.p < 8 || !strstr(q - 24 < (char *)eb.p ? (char *)eb.p : q - 24, "#")) continue;
                char nm[48]; size_t i = 0; const char *s = q + 4;
                while (s[i] && s[i] != ' ' && s[i] != '\n' && s[i] != '(' && i < sizeof nm - 1) { nm[i] = s[i]; i++; } nm[i] = 0;
                if (!i || strstr(fr, nm) || !strncmp(nm, "__interceptor", 13) || !strncmp(nm, "__asan", 6) || strstr(nm, "printf") ||
                    !strcmp(nm, "fputc") || !strcmp(nm, "type") || !strcmp(nm, "fwrite") || !strncmp(nm, "_IO_", 4) || !strncmp(nm, "__GI_", 5)) continue;
                if (nf) strncat(fr, ",", sizeof fr - strlen(fr) - 1);
                strncat(fr, nm, sizeof fr - strlen(fr) - 1); nf++;
            }
            if (fr[0]) { strncat(first, " in=", sizeof first - strlen(first) - 1); strncat(first, fr, sizeof first - strlen(first) - 1); }
            if (WIFSIGNALED(st) && WTERMSIG(st) == SIGALRM) cls = "timeout";
            char how[48];
            if (WIFSIGNALED(st)) snprintf(how, sizeof how, "sig%d", WTERMSIG(st)); else snprintf(how, sizeof how, "exit%d", WEXITSTATUS(st));
            printf("%s|%s:%s:%s|%s|-\n", cls, phase, how, first, mcrc);
        }
        (void)done;
        fflush(stdout);
        free(rb.p); free(eb.p);
    }
    return 0;
}
