/* tc_probe: the repo's real front end (tokenize, parse_program, type_check) on source strings, with the diagnostics.
   Line protocol:  tc <ms> <src-hex>  ->  <verdict> err=<hex of stderr, first 16 KiB | ->
     verdict = accept | reject:types | reject:parse | reject:lex | hang | crash:<signal or exit>
   Every request runs in a forked child under an alarm, so the known parser hangs are an answer, not the end of the probe.
   The environment is set up as the drivers do (create_environment, typecheck_set_current_file); the programs of the
   C04/C05 streams import nothing, so process_imports is the identity and is not called. */
#define _GNU_SOURCE
#include <stdio.h>
#include <stdlib.h>
#include <string.h>
#include <signal.h>
#include <unistd.h>
#include <errno.h>
#include <fcntl.h>
#include <sys/wait.h>
#include <sys/time.h>
#include "nanolang.h"

int g_argc = 0;
char **g_argv = NULL;

static int hexv(int c) { return c <= '9' ? c - '0' : (c | 32) - 'a' + 10; }
static char *unhex(const char *h) {
    size_t n = strcmp(h, "-") ? strlen(h) / 2 : 0;
    char *s = malloc(n + 1);
    for (size_t i = 0; i < n; i++) s[i] = (char)(hexv(h[2 * i]) * 16 + hexv(h[2 * i + 1]));
    s[n] = 0;
    return s;
}

static int child(const char *srchex) {
    char *src = unhex(srchex);
    int ntok = 0;
    Token *toks = tokenize(src, &ntok);
    if (!toks) return 10;
    ASTNode *prog = parse_program(toks, ntok);
    if (!prog) return 11;
    Environment *env = create_environment();
    typecheck_set_current_file("probe.nano");
    return type_check(prog, env) ? 0 : 12;
}

int main(void) {
    char *line = NULL; size_t cap = 0; ssize_t n;
    signal(SIGPIPE, SIG_IGN);
    while ((n = getline(&line, &cap, stdin)) > 0) {
        while (n > 0 && (line[n - 1] == '\n' || line[n - 1] == '\r')) line[--n] = 0;
        char *save; char *cmd = strtok_r(line, " ", &save);
        char *ms_s = strtok_r(NULL, " ", &save);
        char *hex = strtok_r(NULL, " ", &save);
        if (!cmd) continue;
        if (strcmp(cmd, "tc") || !ms_s || !hex) { printf("badreq\n"); fflush(stdout); continue; }
        long ms = atol(ms_s);
        int pe[2];
        if (pipe(pe)) { printf("probe-error pipe\n"); fflush(stdout); continue; }
        fflush(stdout);
        pid_t pid = fork();
        if (pid == 0) {
            close(pe[0]); dup2(pe[1], 2); close(pe[1]);
            int dn = open("/dev/null", 1); if (dn >= 0) dup2(dn, 1);
            struct itimerval it; memset(&it, 0, sizeof it);
            it.it_value.tv_sec = ms / 1000; it.it_value.tv_usec = (ms % 1000) * 1000;
            signal(SIGALRM, SIG_DFL);
            setitimer(ITIMER_REAL, &it, NULL);
            _exit(child(hex));
        }
        close(pe[1]);
        static char eb[16384]; size_t en = 0;
        for (;;) {
            char tmp[4096]; ssize_t r = read(pe[0], tmp, sizeof tmp);
            if (r < 0 && errno == EINTR) continue;
            if (r <= 0) break;
            size_t c = (size_t)r; if (en + c > sizeof eb) c = sizeof eb - en;
            memcpy(eb + en, tmp, c); en += c;
        }
        close(pe[0]);
        int st = 0; while (waitpid(pid, &st, 0) < 0 && errno == EINTR) {}
        if (WIFSIGNALED(st)) {
            if (WTERMSIG(st) == SIGALRM) printf("hang"); else printf("crash:sig%d", WTERMSIG(st));
        } else {
            int rc = WEXITSTATUS(st);
            printf("%s", rc == 0 ? "accept" : rc == 10 ? "reject:lex" : rc == 11 ? "reject:parse" : rc == 12 ? "reject:types" : "crash:exit");
            if (rc != 0 && rc != 10 && rc != 11 && rc != 12) printf("%d", rc);
        }
        printf(" err=");
        if (!en) putchar('-');
        for (size_t i = 0; i < en; i++) printf("%02x", (unsigned char)eb[i]);
        putchar('\n'); fflush(stdout);
    }
    return 0;
}
