/* sb_probe (C20): drives the string builder nl_fmt_sb_* exactly as src/stdlib_runtime.c emits it into native programs: the helper
   text is #included from build/gen/nl_fmt_sb.inc, which tools/gen/gen_fmtsb.py extracts from generate_string_operations on every run.
   Same line protocol as nvref_c20:
     sbnew <initial_cap>      start a builder (the previous buffer is freed)
     cstr <n>                 nl_fmt_sb_append_cstr with an n-character piece (exactly-sized heap string; characters depend on the piece index)
     chr                      nl_fmt_sb_append_char
   Answer: len=<len> cap=<cap> nul=<buf[len]==0> strlen=<strlen(buf)> h=<fnv1a64 of buf[0..len)>
   A write outside the block is left to ASan (the probe dies there = SCrash of the model). */
#include <stdio.h>
#include <stdlib.h>
#include <string.h>
#include <stdint.h>
#include <stdbool.h>
#include SB_INC

static void answer(nl_fmt_sb_t *sb) {
    uint64_t h = 0xcbf29ce484222325ULL;
    for (size_t i = 0; i < sb->len; i++) { h ^= (uint8_t)sb->buf[i]; h *= 0x100000001b3ULL; }
    printf("len=%zu cap=%zu nul=%d strlen=%zu h=%016llx\n", sb->len, sb->cap, sb->buf[sb->len] == 0, strlen(nl_fmt_sb_build(sb)), (unsigned long long)h);
}

int main(void) {
    char *line = NULL; size_t cap = 0; ssize_t n; nl_fmt_sb_t sb = {0}; int have = 0; unsigned long k = 0;
    setvbuf(stdout, NULL, _IOLBF, 1 << 16);
    while ((n = getline(&line, &cap, stdin)) > 0) {
        while (n > 0 && (line[n-1] == '\n' || line[n-1] == '\r')) line[--n] = 0;
        char *save; char *cmd = strtok_r(line, " ", &save); if (!cmd) continue;
        char *t1 = strtok_r(NULL, " ", &save);
        if (!strcmp(cmd, "sbnew")) {
            if (have) free(sb.buf);
            sb = nl_fmt_sb_new((size_t)strtoull(t1, NULL, 10)); have = 1; k = 0; answer(&sb);
        } else if (!have) { printf("skip\n");
        } else if (!strcmp(cmd, "cstr")) {
            size_t m = (size_t)strtoull(t1, NULL, 10);
            char *s = malloc(m + 1);
            for (size_t i = 0; i < m; i++) s[i] = (char)('a' + (k + i) % 26);
            s[m] = 0; k++;
            nl_fmt_sb_append_cstr(&sb, s); free(s); answer(&sb);
        } else if (!strcmp(cmd, "chr")) {
            nl_fmt_sb_append_char(&sb, (char)('A' + k % 26)); k++; answer(&sb);
        } else printf("bad\n");
    }
    if (have) free(sb.buf);
    return 0;
}
