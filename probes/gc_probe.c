/* gc_probe (C20): drives the repo's real gc.c.  gc.c is #included so that the probe can print the private gc_state
   (all-objects list order, reference counts, hash-set membership, statistics) after every operation; the gc_* symbols the
   rest of libnano.a needs therefore come from this translation unit (the archive's gc.o is not pulled in).

     alloc <size> <type>   -> ptr <id>      id = 1-based index of the FIRST handle that had this address (address reuse is visible)
     retain <h> | release <h> | managed <h> | collect      h = 1-based handle index (0 = NULL)
     reset                 gc_shutdown(); forget all handles (next history)
     retainsafe <h>        retain only if gc_is_managed(handle) (keeps histories with stale handles inside defined behaviour)
   Answer: <out> | n=<num_objects> use=<current_usage> list=<id:rc,...> set=<ids of handles for which gc_is_managed, sorted>
   A failed assert (SIGABRT) answers "abort"; memory errors are left to the sanitizer (the probe dies). */
#include <signal.h>
#include <setjmp.h>
#include "runtime/gc.c"

static sigjmp_buf jb; static volatile sig_atomic_t armed;
static void on_abort(int s) { (void)s; if (armed) siglongjmp(jb, 1); _exit(99); }

#define MAXH 100000
static void *hptr[MAXH]; static int hid[MAXH]; static int nh;

/* pointer -> canonical id (first handle that had this address): open-addressing table, reset with the history */
#define HT (1 << 18)
static void *ht_key[HT]; static int ht_val[HT];
static size_t ht_slot(void *p) { size_t h = (size_t)p; h ^= h >> 17; h *= 0x9E3779B97F4A7C15ULL; h ^= h >> 29; return h & (HT - 1); }
static int id_of(void *p) { size_t s = ht_slot(p); while (ht_key[s]) { if (ht_key[s] == p) return ht_val[s]; s = (s + 1) & (HT - 1); } return -1; }
static void id_put(void *p, int id) { size_t s = ht_slot(p); while (ht_key[s]) s = (s + 1) & (HT - 1); ht_key[s] = p; ht_val[s] = id; }

static void print_state(void) {
    printf(" | n=%zu use=%zu list=", gc_state.stats.num_objects, gc_state.stats.current_usage);
    int first = 1;
    for (GCHeader *h = gc_state.all_objects; h; h = h->next) {
        printf("%s%d:%u", first ? "" : ",", id_of(gc_header_to_ptr(h)), h->ref_count); first = 0;
    }
    if (first) printf("-");
    printf(" set=");
    first = 1;
    /* canonical ids, ascending, each once */
    for (int i = 1; i <= nh; i++) if (hid[i] == i && gc_is_managed(hptr[i])) { printf("%s%d", first ? "" : ",", i); first = 0; }
    if (first) printf("-");
    printf("\n");
}

int main(void) {
    char *line = NULL; size_t cap = 0; ssize_t n; int dead = 0;
    signal(SIGABRT, on_abort);
    setvbuf(stdout, NULL, _IOLBF, 1 << 16);
    while ((n = getline(&line, &cap, stdin)) > 0) {
        while (n > 0 && (line[n-1] == '\n' || line[n-1] == '\r')) line[--n] = 0;
        char *save; char *cmd = strtok_r(line, " ", &save); if (!cmd) continue;
        char *t1 = strtok_r(NULL, " ", &save), *t2 = strtok_r(NULL, " ", &save);
        if (!strcmp(cmd, "reset")) { gc_shutdown(); nh = 0; dead = 0; memset(ht_key, 0, sizeof ht_key); printf("reset\n"); continue; }
        if (dead) { printf("skip\n"); continue; }
        armed = 1;
        if (sigsetjmp(jb, 1)) { armed = 0; dead = 1; printf("abort\n"); continue; }
        if (!strcmp(cmd, "alloc")) {
            void *p = gc_alloc((size_t)strtoull(t1, NULL, 10), (GCObjectType)atoi(t2));
            int id = id_of(p);
            nh++; hptr[nh] = p; hid[nh] = id > 0 ? id : nh;
            if (id <= 0) id_put(p, nh);
            printf("ptr %d", hid[nh]);
        } else {
            int h = t1 ? atoi(t1) : 0; void *p = (h >= 1 && h <= nh) ? hptr[h] : NULL;
            if (!strcmp(cmd, "retain")) { gc_retain(p); printf("unit"); }
            else if (!strcmp(cmd, "retainsafe")) { if (gc_is_managed(p)) gc_retain(p); printf("unit"); }
            else if (!strcmp(cmd, "release")) { gc_release(p); printf("unit"); }
            else if (!strcmp(cmd, "managed")) printf("bool %d", gc_is_managed(p) ? 1 : 0);
            else if (!strcmp(cmd, "collect")) { gc_collect_cycles(); printf("unit"); }
            else { armed = 0; printf("bad\n"); continue; }
        }
        armed = 0;
        print_state();
    }
    return 0;
}
