/* dyn_probe: drives the repo's real dyn_array.c (+ the emitted nl_array_slice, #included from the text
   the translator extracted from stdlib_runtime.c) with the same line protocol as nvref_c20 (extract/c20_driver.ml).

     new <kindcode> | newcap <kindcode> <cap>   start a history (the previous array is gc_release'd)
     push <k> <hex> | pop <k> | get <k> <i> | set <k> <i> <hex> | pushnull | rm <i> | clear | reserve <n> | len
     clone | slice <a> <b> | pushs <hexbytes> | gets <i> | sets <i> <hexbytes> | pops <size>
     pushse <i> | setse <i> <j>        struct push/set whose source is element i/j of the SAME array (pointer into its own block)
     pushat <k> <i> | setat <k> <i> <j> | pushpop <k>     typed push/set whose value is read from the same array
   k = s-kind letter: i(int) b(u8) f(float) o(bool) s(string) a(array).  Indices/sizes are signed decimal int64.
   Answer, one line per input line:   <out> | k=<code> es=<elem_size> len=<n> cap=<n> d=<null | cell,cell,...>
   out = unit | cell <c> | pop <0|1> <c> | null | len <n>;  cell = v<hex> (scalar raw pattern) | b<hexbytes> | u
   A failed assert() (SIGABRT) is caught: answer "abort", following lines answer "skip" until the next new/newcap.
   Memory errors are NOT caught: the sanitizer report kills the probe (that is outcome Crash of the model). */
#include <stdio.h>
#include <stdlib.h>
#include <string.h>
#include <stdint.h>
#include <stdbool.h>
#include <assert.h>
#include <signal.h>
#include <setjmp.h>
#include "runtime/dyn_array.h"
#include "runtime/gc.h"

#include SLICE_INC

static sigjmp_buf jb;
static volatile sig_atomic_t armed;
static void on_abort(int sig) { (void)sig; if (armed) siglongjmp(jb, 1); _exit(99); }

static int hexv(int c) { return c <= '9' ? c - '0' : (c | 32) - 'a' + 10; }
static size_t unhex(const char *t, uint8_t *buf) {
    if (!t || !strcmp(t, "-")) return 0;
    size_t n = strlen(t) / 2;
    for (size_t i = 0; i < n; i++) buf[i] = (uint8_t)(hexv(t[2*i]) * 16 + hexv(t[2*i+1]));
    return n;
}

static void print_cell(const uint8_t *p, unsigned es, int is_struct) {
    if (is_struct) { printf("b"); if (es == 0) printf("-"); for (unsigned i = 0; i < es; i++) printf("%02x", p[i]); }
    else { uint64_t v = 0; memcpy(&v, p, es > 8 ? 8 : es); printf("v%llx", (unsigned long long)v); }
}
/* cells are rendered into a buffer; arrays longer than FULL cells are abbreviated as
   #<fnv1a64 of the full comma-joined rendering> <first 4>..<last 4> (the driver does the same) */
#define FULL 48
static char *cb; static size_t cb_len, cb_cap;
static void cb_put(const char *s, size_t n) {
    if (cb_len + n + 1 > cb_cap) { cb_cap = (cb_len + n + 1) * 2; cb = realloc(cb, cb_cap); }
    memcpy(cb + cb_len, s, n); cb_len += n; cb[cb_len] = 0;
}
static void render_cell(const uint8_t *p, unsigned es, int is_struct) {
    char tmp[24];
    if (is_struct) { cb_put("b", 1); if (es == 0) cb_put("-", 1); for (unsigned i = 0; i < es; i++) { snprintf(tmp, sizeof tmp, "%02x", p[i]); cb_put(tmp, 2); } }
    else { uint64_t v = 0; memcpy(&v, p, es > 8 ? 8 : es); int n = snprintf(tmp, sizeof tmp, "v%llx", (unsigned long long)v); cb_put(tmp, (size_t)n); }
}
static void print_state(DynArray *a) {
    printf(" | k=%d es=%u len=%lld cap=%lld d=", (int)a->elem_type, (unsigned)a->elem_size, (long long)a->length, (long long)a->capacity);
    if (!a->data) { printf("null\n"); return; }
    if (a->length == 0) { printf("-\n"); return; }
    int st = a->elem_type == ELEM_STRUCT;
    cb_len = 0;
    for (int64_t i = 0; i < a->length; i++) {
        if (i) cb_put(",", 1);
        render_cell((const uint8_t *)a->data + (size_t)i * a->elem_size, a->elem_size, st);
    }
    if (a->length <= FULL) { printf("%s\n", cb); return; }
    uint64_t h = 0xcbf29ce484222325ULL;
    for (size_t i = 0; i < cb_len; i++) { h ^= (uint8_t)cb[i]; h *= 0x100000001b3ULL; }
    printf("#%016llx ", (unsigned long long)h);
    for (int64_t i = 0; i < 4; i++) { print_cell((const uint8_t *)a->data + (size_t)i * a->elem_size, a->elem_size, st); printf(","); }
    printf("..");
    for (int64_t i = a->length - 4; i < a->length; i++) { printf(","); print_cell((const uint8_t *)a->data + (size_t)i * a->elem_size, a->elem_size, st); }
    printf("\n");
}

int main(void) {
    char *line = NULL; size_t cap = 0; ssize_t n;
    DynArray *a = NULL; int dead = 1;
    static uint8_t sbuf[1 << 16], obuf[1 << 16];
    signal(SIGABRT, on_abort);
    setvbuf(stdout, NULL, _IOLBF, 1 << 16);   /* every answered line reaches the pipe before the next call can die */
    while ((n = getline(&line, &cap, stdin)) > 0) {
        while (n > 0 && (line[n-1] == '\n' || line[n-1] == '\r')) line[--n] = 0;
        char *save; char *cmd = strtok_r(line, " ", &save);
        if (!cmd) continue;
        char *t1 = strtok_r(NULL, " ", &save), *t2 = strtok_r(NULL, " ", &save), *t3 = strtok_r(NULL, " ", &save);
        if (!strcmp(cmd, "new") || !strcmp(cmd, "newcap")) {
            if (a) { gc_release(a); a = NULL; }
            a = cmd[3] ? dyn_array_new_with_capacity((ElementType)atoi(t1), strtoll(t2, NULL, 10)) : dyn_array_new((ElementType)atoi(t1));
            dead = (a == NULL);
            if (dead) { printf("oom\n"); continue; }
            printf("unit"); print_state(a); continue;
        }
        if (dead) { printf("skip\n"); continue; }
        armed = 1;
        if (sigsetjmp(jb, 1)) { armed = 0; dead = 1; printf("abort\n"); fflush(stdout); continue; }
        char k = t1 ? t1[0] : 0;
        if (!strcmp(cmd, "push")) {
            uint64_t v = strtoull(t2, NULL, 16); double d; memcpy(&d, &v, 8);
            switch (k) {
                case 'i': dyn_array_push_int(a, (int64_t)v); break;
                case 'b': dyn_array_push_u8(a, (uint8_t)v); break;
                case 'f': dyn_array_push_float(a, d); break;
                case 'o': dyn_array_push_bool(a, v != 0); break;
                case 's': dyn_array_push_string(a, (const char *)(uintptr_t)v); break;
                case 'a': dyn_array_push_array(a, (DynArray *)(uintptr_t)v); break;
            }
            printf("unit");
        } else if (!strcmp(cmd, "pop")) {
            bool ok = false; uint64_t v = 0; double d;
            switch (k) {
                case 'i': v = (uint64_t)dyn_array_pop_int(a, &ok); break;
                case 'b': v = dyn_array_pop_u8(a, &ok); break;
                case 'f': d = dyn_array_pop_float(a, &ok); memcpy(&v, &d, 8); break;
                case 'o': v = dyn_array_pop_bool(a, &ok); break;
                case 's': v = (uint64_t)(uintptr_t)dyn_array_pop_string(a, &ok); break;
                case 'a': v = (uint64_t)(uintptr_t)dyn_array_pop_array(a, &ok); break;
            }
            printf("pop %d v%llx", ok ? 1 : 0, (unsigned long long)v);
        } else if (!strcmp(cmd, "get")) {
            int64_t i = strtoll(t2, NULL, 10); uint64_t v = 0; double d;
            switch (k) {
                case 'i': v = (uint64_t)dyn_array_get_int(a, i); break;
                case 'b': v = dyn_array_get_u8(a, i); break;
                case 'f': d = dyn_array_get_float(a, i); memcpy(&v, &d, 8); break;
                case 'o': v = dyn_array_get_bool(a, i); break;
                case 's': v = (uint64_t)(uintptr_t)dyn_array_get_string(a, i); break;
                case 'a': v = (uint64_t)(uintptr_t)dyn_array_get_array(a, i); break;
            }
            printf("cell v%llx", (unsigned long long)v);
        } else if (!strcmp(cmd, "set")) {
            int64_t i = strtoll(t2, NULL, 10); uint64_t v = strtoull(t3, NULL, 16); double d; memcpy(&d, &v, 8);
            switch (k) {
                case 'i': dyn_array_set_int(a, i, (int64_t)v); break;
                case 'b': dyn_array_set_u8(a, i, (uint8_t)v); break;
                case 'f': dyn_array_set_float(a, i, d); break;
                case 'o': dyn_array_set_bool(a, i, v != 0); break;
                case 's': dyn_array_set_string(a, i, (const char *)(uintptr_t)v); break;
                case 'a': dyn_array_set_array(a, i, (DynArray *)(uintptr_t)v); break;
            }
            printf("unit");
        } else if (!strcmp(cmd, "pushnull")) { dyn_array_push_string_copy(a, NULL); printf("unit");
        } else if (!strcmp(cmd, "rm")) { dyn_array_remove_at(a, strtoll(t1, NULL, 10)); printf("unit");
        } else if (!strcmp(cmd, "clear")) { dyn_array_clear(a); printf("unit");
        } else if (!strcmp(cmd, "reserve")) { dyn_array_reserve(a, strtoll(t1, NULL, 10)); printf("unit");
        } else if (!strcmp(cmd, "len")) { printf("len %lld", (long long)dyn_array_length(a));
        } else if (!strcmp(cmd, "clone")) {
            DynArray *c = dyn_array_clone(a); gc_release(a); a = c; printf("unit");
        } else if (!strcmp(cmd, "slice")) {
            DynArray *c = nl_array_slice(a, strtoll(t1, NULL, 10), strtoll(t2, NULL, 10)); gc_release(a); a = c; printf("unit");
        } else if (!strcmp(cmd, "pushs")) {
            size_t sz = unhex(t1, sbuf);
            /* exactly-sized heap copy so that an over-read of the source is an ASan report */
            uint8_t *src = malloc(sz ? sz : 1); memcpy(src, sbuf, sz);
            dyn_array_push_struct(a, src, sz); free(src); printf("unit");
        } else if (!strcmp(cmd, "gets")) {
            void *p = dyn_array_get_struct(a, strtoll(t1, NULL, 10));
            if (!p) printf("null"); else { printf("cell "); print_cell(p, a->elem_size, 1); }
        } else if (!strcmp(cmd, "sets")) {
            size_t sz = unhex(t2, sbuf); uint8_t *src = malloc(sz ? sz : 1); memcpy(src, sbuf, sz);
            dyn_array_set_struct(a, strtoll(t1, NULL, 10), src, sz); free(src); printf("unit");
        } else if (!strcmp(cmd, "pushse")) {
            /* exactly the call the transpiler emits for (array_push xs (at xs i)) on an array<struct>: the source is the element itself */
            dyn_array_push_struct(a, dyn_array_get_struct(a, strtoll(t1, NULL, 10)), a->elem_size); printf("unit");
        } else if (!strcmp(cmd, "setse")) {
            dyn_array_set_struct(a, strtoll(t1, NULL, 10), dyn_array_get_struct(a, strtoll(t2, NULL, 10)), a->elem_size); printf("unit");
        } else if (!strcmp(cmd, "pushat")) {          /* push_<k>(a, get_<k>(a, i)) */
            int64_t i = strtoll(t2, NULL, 10);
            switch (k) {
                case 'i': dyn_array_push_int(a, dyn_array_get_int(a, i)); break;
                case 'b': dyn_array_push_u8(a, dyn_array_get_u8(a, i)); break;
                case 'f': dyn_array_push_float(a, dyn_array_get_float(a, i)); break;
                case 'o': dyn_array_push_bool(a, dyn_array_get_bool(a, i)); break;
                case 's': dyn_array_push_string(a, dyn_array_get_string(a, i)); break;
                case 'a': dyn_array_push_array(a, dyn_array_get_array(a, i)); break;
            }
            printf("unit");
        } else if (!strcmp(cmd, "setat")) {           /* set_<k>(a, i, get_<k>(a, j)) */
            int64_t i = strtoll(t2, NULL, 10), j = strtoll(t3, NULL, 10);
            switch (k) {
                case 'i': dyn_array_set_int(a, i, dyn_array_get_int(a, j)); break;
                case 'b': dyn_array_set_u8(a, i, dyn_array_get_u8(a, j)); break;
                case 'f': dyn_array_set_float(a, i, dyn_array_get_float(a, j)); break;
                case 'o': dyn_array_set_bool(a, i, dyn_array_get_bool(a, j)); break;
                case 's': dyn_array_set_string(a, i, dyn_array_get_string(a, j)); break;
                case 'a': dyn_array_set_array(a, i, dyn_array_get_array(a, j)); break;
            }
            printf("unit");
        } else if (!strcmp(cmd, "pushpop")) {         /* push_<k>(a, pop_<k>(a, &ok)) */
            bool ok = false;
            switch (k) {
                case 'i': { int64_t v = dyn_array_pop_int(a, &ok); dyn_array_push_int(a, v); break; }
                case 'b': { uint8_t v = dyn_array_pop_u8(a, &ok); dyn_array_push_u8(a, v); break; }
                case 'f': { double v = dyn_array_pop_float(a, &ok); dyn_array_push_float(a, v); break; }
                case 'o': { bool v = dyn_array_pop_bool(a, &ok); dyn_array_push_bool(a, v); break; }
                case 's': { const char *v = dyn_array_pop_string(a, &ok); dyn_array_push_string(a, v); break; }
                case 'a': { DynArray *v = dyn_array_pop_array(a, &ok); dyn_array_push_array(a, v); break; }
            }
            printf("unit");
        } else if (!strcmp(cmd, "pops")) {
            size_t sz = (size_t)strtoull(t1, NULL, 10); bool ok = false;
            uint8_t *dst = malloc(sz ? sz : 1);
            dyn_array_pop_struct(a, dst, sz, &ok);
            if (ok) { memcpy(obuf, dst, sz); printf("pop 1 "); print_cell(obuf, (unsigned)sz, 1); } else printf("pop 0 u");
            free(dst);
        } else { armed = 0; printf("bad\n"); continue; }
        armed = 0;
        print_state(a);
    }
    if (a) gc_release(a);
    fflush(stdout);
    return 0;
}
