/* heap_trace: runs a .nvm module in-process on the real NanoVM (libnano.a of the current /repo tree) with the
   verification hooks installed and, after EVERY instruction,
     (a) emits a trace line (decoded instruction + operand hints, stack depth, every live heap object as
         allocation-ordinal:tag:ref_count:in-degree), and
     (b) AUDITS the heap: recomputes for every registered live object the number of references to it from
         the operand stack (which contains the locals), the globals, the frame closures and the fields of all
         live containers, and reports
            V <step> under   ... ref_count <  in-degree          (lost count)
            V <step> dangling... a reference to an address that is not a registered live object (freed / never allocated)
            V <step> tagmis  ... value tag differs from the object's header type
            V <step> dfree   ... free event for an address that is not registered live
   The audit never dereferences an address that is not a registered live object.

   usage: heap_trace file.nvm|file.asm [max_steps [audit_every]]          trace on stdout, program output discarded (or NANO_TRACE_OUT=1: stderr)
   Line protocol (consumed by tools/props/c14.py, which feeds the I lines to the extracted Coq model):
     I <step> <ip> <opcode-hex> <name> <nops> <operand>... | p <v0> <v1> <v2> | c <arity> <locals> <isclos> | k <key> | d <delta> | e <t0> <t1> <t2>
         v = i<int64> | r<ord> | n          three topmost stack values BEFORE the instruction (v0 = top)
         key = content key of the string on top of the stack AFTER the instruction (-1 when top is not a string)
         c   = callee arity / local_count for CALL*, argc for CALL_EXTERN
         t     = VmArray.elem_type of v0/v1/v2 when that value is an array, else -1 (statistics only; the model has no element tag)
         delta = stack_size after - stack_size before the instruction (an extern call that failed pushes no result)
     A <ord> <tag> / F <ord> <tag>         allocation / free events, in order, between I lines
     S <step> <stack_size> <frame_count> <ord>:<tag>:<rc>:<indeg> ...      state AFTER instruction <step>
     V ...                                 audit violation (see above)
     E <vmresult> <steps> <live> <violations> <msg>     end of a vm_call_function
*/
#include <stdio.h>
#include <stdlib.h>
#include <string.h>
#include <stdint.h>
#include "isa.h"
#include "nvm_format.h"
#include "verifier.h"
#include "assembler.h"
#include "vm.h"
#include "heap.h"
#include "vm_ffi.h"

/* ---------------------------------------------------------------- registry: address -> (ordinal, type) */
typedef struct { void *p; uint32_t ord; uint8_t type; uint8_t state; /* 0 empty 1 live 2 tomb */ uint32_t indeg; } Ent;
static Ent *tab; static size_t tab_cap, tab_used, live_count;
static uint32_t next_ord;
static FILE *T;
static unsigned long violations;
/* the first 64 violations are printed in full (one dangling object can have 10^5 referrers), all are counted */
#define VPRINT(...) do { if (violations < 64) fprintf(T, __VA_ARGS__); } while (0)
static long cur_step = -1;

static size_t hptr(void *p) { uintptr_t x = (uintptr_t)p; x ^= x >> 17; x *= 0x9E3779B97F4A7C15ull; x ^= x >> 29; return (size_t)x; }
static void tab_grow(void);
static Ent *tab_find(void *p) {
    if (!tab_cap) return NULL;
    size_t m = tab_cap - 1, i = hptr(p) & m;
    for (size_t n = 0; n < tab_cap; n++, i = (i + 1) & m) {
        if (tab[i].state == 0) return NULL;
        if (tab[i].state == 1 && tab[i].p == p) return &tab[i];
    }
    return NULL;
}
static void tab_insert(void *p, uint32_t ord, uint8_t type) {
    if ((tab_used + 1) * 2 > tab_cap) tab_grow();
    size_t m = tab_cap - 1, i = hptr(p) & m;
    while (tab[i].state == 1) i = (i + 1) & m;
    if (tab[i].state == 0) tab_used++;
    tab[i].p = p; tab[i].ord = ord; tab[i].type = type; tab[i].state = 1; tab[i].indeg = 0;
    live_count++;
}
static void tab_grow(void) {
    size_t oc = tab_cap; Ent *o = tab;
    tab_cap = oc ? oc * 2 : 1024; tab = calloc(tab_cap, sizeof(Ent)); tab_used = 0; live_count = 0;
    for (size_t i = 0; i < oc; i++) if (o[i].state == 1) tab_insert(o[i].p, o[i].ord, o[i].type);
    free(o);
}

static void heap_cb(int event, void *obj, uint8_t type) {
    if (event == 1) {
        Ent *e = tab_find(obj);
        if (e) { VPRINT("V %ld realloc-live ord=%u\n", cur_step, e->ord); violations++; e->state = 2; live_count--; }
        tab_insert(obj, next_ord, type);
        fprintf(T, "A %u %u\n", next_ord, type);
        next_ord++;
    } else {
        Ent *e = tab_find(obj);
        if (!e) { VPRINT("V %ld dfree addr-not-live type=%u\n", cur_step, type); violations++; return; }
        fprintf(T, "F %u %u\n", e->ord, e->type);
        e->state = 2; live_count--;
    }
}

/* ---------------------------------------------------------------- string content keys */
typedef struct { char *s; uint32_t len; long key; } SK;
static SK *sk; static size_t sk_n, sk_cap;
static long content_key(const char *d, uint32_t len) {
    for (size_t i = 0; i < sk_n; i++) if (sk[i].len == len && memcmp(sk[i].s, d, len) == 0) return sk[i].key;
    if (sk_n == sk_cap) { sk_cap = sk_cap ? sk_cap * 2 : 256; sk = realloc(sk, sk_cap * sizeof(SK)); }
    sk[sk_n].s = malloc(len + 1); memcpy(sk[sk_n].s, d, len); sk[sk_n].len = len; sk[sk_n].key = (long)sk_n;
    return sk[sk_n++].key;
}

/* ---------------------------------------------------------------- audit */
static int is_ref_tag(uint8_t t) {
    return t == TAG_STRING || t == TAG_ARRAY || t == TAG_STRUCT || t == TAG_UNION || t == TAG_TUPLE || t == TAG_HASHMAP || t == TAG_FUNCTION;
}
static void see(NanoValue v, const char *where, long idx, long owner) {
    if (!is_ref_tag(v.tag)) return;
    if (v.as.obj == NULL) return;                  /* vm_retain/vm_release ignore NULL */
    Ent *e = tab_find(v.as.obj);
    if (!e) {
        VPRINT("V %ld dangling %s[%ld] owner=%ld tag=%u (address is not a live registered object)\n", cur_step, where, idx, owner, v.tag);
        violations++; return;
    }
    if (e->type != v.tag) {
        VPRINT("V %ld tagmis %s[%ld] owner=%ld tag=%u objtype=%u ord=%u\n", cur_step, where, idx, owner, v.tag, e->type, e->ord);
        violations++;
    }
    e->indeg++;
}
static void audit_inner(VmState *vm);
/* a violation found by the audit is often followed by a crash of the VM (abort() does not flush stdio): flush at once */
static void audit(VmState *vm) { unsigned long v0 = violations; audit_inner(vm); if (violations != v0) fflush(T); }
static void audit_inner(VmState *vm) {
    for (size_t i = 0; i < tab_cap; i++) if (tab[i].state == 1) tab[i].indeg = 0;
    for (uint32_t i = 0; i < vm->stack_size; i++) see(vm->stack[i], "stack", i, -1);
    for (uint32_t i = 0; i < VM_MAX_GLOBALS; i++) see(vm->globals[i], "global", i, -1);
    for (uint32_t i = 0; i < vm->frame_count; i++)
        if (vm->frames[i].closure) { NanoValue v = {0}; v.tag = TAG_FUNCTION; v.as.closure = vm->frames[i].closure; see(v, "frameclosure", i, -1); }
    /* containers: only registered live ones are dereferenced. Collect first (see() mutates only indeg). */
    for (size_t i = 0; i < tab_cap; i++) {
        if (tab[i].state != 1) continue;
        void *p = tab[i].p; long o = tab[i].ord;
        switch (tab[i].type) {
        case TAG_ARRAY: { VmArray *a = p; for (uint32_t k = 0; k < a->length; k++) see(a->elements[k], "array", k, o); break; }
        case TAG_STRUCT: { VmStruct *s = p; for (uint32_t k = 0; k < s->field_count; k++) see(s->fields[k], "struct", k, o);
                           if (s->field_names) for (uint32_t k = 0; k < s->field_count; k++) if (s->field_names[k]) see(val_string(s->field_names[k]), "structname", k, o);
                           break; }
        case TAG_UNION: { VmUnion *u = p; for (uint32_t k = 0; k < u->field_count; k++) see(u->fields[k], "union", k, o); break; }
        case TAG_TUPLE: { VmTuple *t = p; for (uint32_t k = 0; k < t->count; k++) see(t->elements[k], "tuple", k, o); break; }
        case TAG_FUNCTION: { VmClosure *c = p; for (uint32_t k = 0; k < c->capture_count; k++) see(c->captures[k], "closure", k, o); break; }
        case TAG_HASHMAP: { VmHashMap *m = p; for (uint32_t b = 0; b < m->bucket_count; b++)
                               for (VmHMEntry *e = m->buckets[b]; e; e = e->next) { see(e->key, "hmkey", b, o); see(e->value, "hmval", b, o); }
                            break; }
        default: break;
        }
    }
    for (size_t i = 0; i < tab_cap; i++) {
        if (tab[i].state != 1) continue;
        uint32_t rc = ((VmHeapHeader *)tab[i].p)->ref_count;
        if (rc < tab[i].indeg) {
            VPRINT("V %ld under ord=%u tag=%u rc=%u indeg=%u\n", cur_step, tab[i].ord, tab[i].type, rc, tab[i].indeg);
            violations++;
        }
        if (((VmHeapHeader *)tab[i].p)->obj_type != tab[i].type) {
            VPRINT("V %ld hdrtype ord=%u reg=%u hdr=%u\n", cur_step, tab[i].ord, tab[i].type, ((VmHeapHeader *)tab[i].p)->obj_type);
            violations++;
        }
    }
}

static int cmp_ent(const void *a, const void *b) { uint32_t x = (*(Ent *const *)a)->ord, y = (*(Ent *const *)b)->ord; return x < y ? -1 : x > y; }
static Ent **sorted; static size_t sorted_cap;
static void emit_state(VmState *vm) {
    if (live_count > sorted_cap) { sorted_cap = live_count * 2 + 16; sorted = realloc(sorted, sorted_cap * sizeof(Ent *)); }
    size_t n = 0;
    for (size_t i = 0; i < tab_cap; i++) if (tab[i].state == 1) sorted[n++] = &tab[i];
    if (n > 1) qsort(sorted, n, sizeof(Ent *), cmp_ent);
    fprintf(T, "S %ld %u %u", cur_step, vm->stack_size, vm->frame_count);
    for (size_t i = 0; i < n; i++)
        fprintf(T, " %u:%u:%u:%u", sorted[i]->ord, sorted[i]->type, ((VmHeapHeader *)sorted[i]->p)->ref_count, sorted[i]->indeg);
    fprintf(T, "\n");
}

/* ---------------------------------------------------------------- step hook */
static int have_pending;
static char pend[512];
static char pend_elem[64] = "-1 -1 -1";   /* elem_type tag of the arrays among the three topmost stack values before the instruction */
static uint8_t pend_op; static uint32_t pend_frames, pend_stack;
static long max_steps = 200000;
static long audit_every = 1;     /* > 1: sparse mode for very long runs - trace + audit only every n-th instruction (and at the end) */

static void fmt_val(char *out, size_t n, VmState *vm, uint32_t off) {
    if (off >= vm->stack_size) { snprintf(out, n, "n"); return; }
    NanoValue v = vm->stack[vm->stack_size - 1 - off];
    if (v.tag == TAG_INT) { snprintf(out, n, "i%lld", (long long)v.as.i64); return; }
    if (is_ref_tag(v.tag) && v.as.obj) { Ent *e = tab_find(v.as.obj); if (e) { snprintf(out, n, "r%u", e->ord); return; } snprintf(out, n, "r?"); return; }
    snprintf(out, n, "n");
}

static void finish_pending(VmState *vm) {
    if (!have_pending) return;
    long key = -1;
    if (vm->stack_size > 0) {
        NanoValue v = vm->stack[vm->stack_size - 1];
        if (v.tag == TAG_STRING && v.as.string && tab_find(v.as.string)) key = content_key(v.as.string->data, v.as.string->length);
    }
    fprintf(T, "%s | k %ld | d %ld | e %s\n", pend, key, (long)vm->stack_size - (long)pend_stack, pend_elem);
    if (pend_op != OP_RET && vm->frame_count < pend_frames) fprintf(T, "X %ld implicit-ret\n", cur_step);
    audit(vm);
    emit_state(vm);
    have_pending = 0;
}

static void step_cb(VmState *vm, const DecodedInstruction *in, uint32_t ip) {
    finish_pending(vm);
    if (audit_every > 1 && violations > 0) { vm_verif_fuel = 0; return; }
    if (audit_every > 1 && ((cur_step + 1) % audit_every) != 0) {
        cur_step++;
        if (cur_step >= max_steps) vm_verif_fuel = 0;
        return;
    }
    cur_step++;
    const InstructionInfo *info = isa_get_info(in->opcode);
    char ops[160]; size_t w = 0; ops[0] = 0;
    for (int i = 0; i < in->operand_count && i < MAX_OPERANDS; i++) {
        long long val = 0;
        switch (in->operand_types[i]) {
        case OPERAND_U8: val = in->operands[i].u8; break;
        case OPERAND_U16: val = in->operands[i].u16; break;
        case OPERAND_U32: val = in->operands[i].u32; break;
        case OPERAND_I32: val = in->operands[i].i32; break;
        case OPERAND_I64: val = in->operands[i].i64; break;
        default: val = 0; break;                       /* f64 operands carry no ownership information */
        }
        w += (size_t)snprintf(ops + w, sizeof ops - w, " %lld", val);
    }
    char v0[40], v1[40], v2[40];
    fmt_val(v0, sizeof v0, vm, 0); fmt_val(v1, sizeof v1, vm, 1); fmt_val(v2, sizeof v2, vm, 2);
    {
        int et[3] = { -1, -1, -1 };
        for (uint32_t k = 0; k < 3 && k < vm->stack_size; k++) {
            NanoValue sv = vm->stack[vm->stack_size - 1 - k];
            if (sv.tag == TAG_ARRAY && sv.as.obj && tab_find(sv.as.obj)) et[k] = sv.as.array->elem_type;
        }
        snprintf(pend_elem, sizeof pend_elem, "%d %d %d", et[0], et[1], et[2]);
    }
    long ar = -1, lc = -1, isclos = 0;
    const NvmFunctionEntry *callee = NULL;
    if (in->opcode == OP_CALL && in->operands[0].u32 < vm->module->function_count) callee = &vm->module->functions[in->operands[0].u32];
    if ((in->opcode == OP_CALL_INDIRECT || in->opcode == OP_CLOSURE_CALL) && vm->stack_size > 0) {
        NanoValue f = vm->stack[vm->stack_size - 1];
        if (f.tag == TAG_FUNCTION && f.as.obj && tab_find(f.as.obj)) {
            isclos = 1;
            uint32_t fi = f.as.closure->fn_idx;
            if (fi < vm->module->function_count) callee = &vm->module->functions[fi];
        }
    }
    if (callee) { ar = callee->arity; lc = callee->local_count; }
    if (in->opcode == OP_CALL_EXTERN && in->operands[0].u32 < vm->module->import_count) {
        int a = vm->module->imports[in->operands[0].u32].param_count; ar = a > 16 ? 16 : a; lc = 0;
    }
    snprintf(pend, sizeof pend, "I %ld %u %02x %s %d%s | p %s %s %s | c %ld %ld %ld", cur_step, ip, in->opcode,
             info ? info->name : "?", in->operand_count, ops, v0, v1, v2, ar, lc, isclos);
    pend_op = in->opcode; pend_frames = vm->frame_count; pend_stack = vm->stack_size; have_pending = 1;
    if (cur_step >= max_steps) vm_verif_fuel = 0;
}

static VmResult run_fn(VmState *vm, uint32_t fn) {
    const NvmFunctionEntry *f = &vm->module->functions[fn];
    cur_step++;
    /* the harness call itself is logged as a pseudo-instruction; its state line is emitted before the first real one */
    snprintf(pend, sizeof pend, "I %ld %u ff ENTER 1 %u | p n n n | c 0 %u 0", cur_step, f->code_offset, fn, f->local_count);
    snprintf(pend_elem, sizeof pend_elem, "-1 -1 -1");
    pend_op = OP_RET; pend_frames = vm->frame_count; pend_stack = vm->stack_size; have_pending = 1;
    VmResult r = vm_call_function(vm, fn, NULL, 0);
    finish_pending(vm);
    if (audit_every > 1) {                           /* sparse mode: the state in which the call ended is always audited */
        cur_step++;
        fprintf(T, "I %ld 0 fd FINAL 0 | p n n n | c -1 -1 0 | k -1 | d 0 | e -1 -1 -1\n", cur_step);
        audit(vm); emit_state(vm);
    }
    fprintf(T, "E %d %ld %zu %lu %s\n", (int)r, cur_step + 1, live_count, violations, r == VM_OK ? "-" : vm->error_msg);
    return r;
}

int main(int argc, char **argv) {
    if (argc < 2) { fprintf(stderr, "usage: heap_trace file.nvm [max_steps]\n"); return 2; }
    if (argc > 2) max_steps = atol(argv[2]);
    if (argc > 3) audit_every = atol(argv[3]) > 0 ? atol(argv[3]) : 1;
    T = stdout;
    static char obuf[1 << 16]; setvbuf(T, obuf, _IOFBF, sizeof obuf);
    NvmModule *m = NULL;
    size_t al = strlen(argv[1]);
    if (al > 4 && strcmp(argv[1] + al - 4, ".asm") == 0) {
        /* textual NanoISA assembly (hand-made / generated bytecode the compiler never emits) */
        AsmResult ar; memset(&ar, 0, sizeof ar);
        m = asm_assemble_file(argv[1], &ar);
        if (!m) fprintf(stderr, "asm error line %u: %s\n", ar.line, ar.message);
    } else {
        FILE *f = fopen(argv[1], "rb");
        if (!f) { perror(argv[1]); return 2; }
        fseek(f, 0, SEEK_END); long sz = ftell(f); fseek(f, 0, SEEK_SET);
        uint8_t *data = malloc(sz > 0 ? (size_t)sz : 1);
        if (fread(data, 1, (size_t)sz, f) != (size_t)sz) { fprintf(stderr, "short read\n"); return 2; }
        fclose(f);
        m = nvm_deserialize(data, (uint32_t)sz);
        free(data);
    }
    if (!m) { fprintf(T, "E -1 0 0 0 load-failed\n"); fflush(T); return 3; }
    NvmVerifyResult vr = nvm_verify(m);
    if (!vr.ok) { fprintf(T, "E -2 0 0 0 verify-failed %s\n", vr.error_msg); fflush(T); nvm_module_free(m); return 3; }
    if (m->import_count > 0) {
        vm_ffi_init();
        for (uint32_t i = 0; i < m->import_count; i++) {
            const char *mn = nvm_get_string(m, m->imports[i].module_name_idx);
            if (mn && mn[0]) vm_ffi_load_module(mn);
        }
    }
    static VmState vm;                               /* 1024 frames + 4096 globals: keep it off the C stack */
    vm_init(&vm, m);
    FILE *devnull = fopen("/dev/null", "w");
    vm.output = getenv("NANO_TRACE_OUT") ? stderr : devnull;
    vm_verif_heap_cb = heap_cb;
    vm_verif_step_cb = step_cb;
    vm_verif_fuel = -1;
    VmResult r = VM_OK;
    /* the same sequence as vm_execute(): __init__ (if present), then the entry point */
    if (!(m->header.flags & NVM_FLAG_HAS_MAIN) || m->header.entry_point >= m->function_count) {
        fprintf(T, "E -3 0 0 0 no-entry\n");
    } else {
        for (uint32_t i = 0; i < m->function_count; i++) {
            const char *fn = nvm_get_string(m, m->functions[i].name_idx);
            if (fn && strcmp(fn, "__init__") == 0) { r = run_fn(&vm, i); break; }
        }
        if (r == VM_OK) r = run_fn(&vm, m->header.entry_point);
    }
    /* teardown: vm_destroy releases globals and the stack; every free must hit a registered live object */
    cur_step++;
    fprintf(T, "I %ld 0 fe DESTROY 0 | p n n n | c -1 -1 0 | k -1 | d 0 | e -1 -1 -1\n", cur_step);
    vm_verif_step_cb = NULL;
    uint32_t gc = vm.global_count;
    fflush(T);                                       /* teardown of a corrupted heap may abort */
    vm_destroy(&vm);
    fprintf(T, "D %ld %zu %lu %u\n", cur_step, live_count, violations, gc);
    fflush(T);
    vm_verif_heap_cb = NULL;
    if (m->import_count > 0) vm_ffi_shutdown();
    nvm_module_free(m);
    if (devnull) fclose(devnull);
    return violations ? 10 : (r == VM_OK ? 0 : 1);
}
