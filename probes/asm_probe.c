/* asm_probe: drives the repo's real disasm_module / asm_assemble (src/nanoisa/disassembler.c, assembler.c).
   Line protocol (one answer line per question; all byte strings are contiguous hex, "-" = empty):
     load <path>      -> ok <mod>                         nvm_deserialize of a .nvm file
     dis  <mod>       -> ok <text-hex>                    disasm_module of a module built through the nvm_* API
     asm  <text-hex>  -> ok <mod> | err <code> <line>     asm_assemble of exactly that text (NUL-terminated copy)
     rt   <mod>       -> ok <mod-as-built> <text-hex> A <mod'> | ok <mod-as-built> <text-hex> E <code> <line>
     f64  <bits-hex>  -> ok <text-hex> <bits'-hex> <errno> <consumed>     printf("%.17g") then strtod, as the two tools do
   <mod> = <flags>/<entry>;<strings>;<functions>;<code-hex>
     strings   = s<hex>,s<hex>,...  | -      (every string carries its full stored length, embedded NULs included)
     functions = name_idx/arity/code_offset/code_length/locals/upvalues,... | -      (decimal)
   Modules are built with nvm_module_new / nvm_add_string / nvm_add_function / nvm_append_code, i.e. exactly what
   nvm_deserialize does (so duplicate strings are folded by nvm_add_string before the disassembler sees them). */
#define _GNU_SOURCE
#include <stdio.h>
#include <stdlib.h>
#include <string.h>
#include <stdint.h>
#include <errno.h>
#include "nvm_format.h"
#include "assembler.h"
#include "disassembler.h"

static int hexv(int c) { return c <= '9' ? c - '0' : (c | 32) - 'a' + 10; }
static void puthex(const uint8_t *b, size_t n) {
    if (n == 0) { putchar('-'); return; }
    for (size_t i = 0; i < n; i++) printf("%02x", b[i]);
}

static void print_mod(const NvmModule *m) {
    printf("%u/%u;", m->header.flags, m->header.entry_point);
    if (m->string_count == 0) putchar('-');
    for (uint32_t i = 0; i < m->string_count; i++) {
        if (i) putchar(',');
        putchar('s');
        for (uint32_t k = 0; k < m->string_lengths[i]; k++) printf("%02x", (uint8_t)m->strings[i][k]);
    }
    putchar(';');
    if (m->function_count == 0) putchar('-');
    for (uint32_t i = 0; i < m->function_count; i++) {
        const NvmFunctionEntry *f = &m->functions[i];
        printf("%s%u/%u/%u/%u/%u/%u", i ? "," : "", f->name_idx, f->arity, f->code_offset, f->code_length, f->local_count, f->upvalue_count);
    }
    putchar(';');
    puthex(m->code, m->code_size);
}

/* parse <mod>; returns NULL on malformed description */
static NvmModule *build_mod(char *d) {
    char *sv;
    char *hdr = strtok_r(d, ";", &sv), *strs = strtok_r(NULL, ";", &sv), *fns = strtok_r(NULL, ";", &sv), *code = strtok_r(NULL, ";", &sv);
    if (!hdr || !strs || !fns || !code) return NULL;
    NvmModule *m = nvm_module_new();
    if (!m) return NULL;
    unsigned fl = 0, en = 0;
    if (sscanf(hdr, "%u/%u", &fl, &en) != 2) { nvm_module_free(m); return NULL; }
    m->header.flags = fl; m->header.entry_point = en;
    if (strcmp(strs, "-")) {
        char *s2; for (char *t = strtok_r(strs, ",", &s2); t; t = strtok_r(NULL, ",", &s2)) {
            if (t[0] != 's') { nvm_module_free(m); return NULL; }
            size_t n = strlen(t + 1) / 2;
            uint8_t *b = malloc(n + 1);
            for (size_t i = 0; i < n; i++) b[i] = (uint8_t)(hexv(t[1+2*i]) * 16 + hexv(t[2+2*i]));
            nvm_add_string(m, (const char *)b, (uint32_t)n);
            free(b);
        }
    }
    if (strcmp(fns, "-")) {
        char *s2; for (char *t = strtok_r(fns, ",", &s2); t; t = strtok_r(NULL, ",", &s2)) {
            unsigned a[6];
            if (sscanf(t, "%u/%u/%u/%u/%u/%u", &a[0], &a[1], &a[2], &a[3], &a[4], &a[5]) != 6) { nvm_module_free(m); return NULL; }
            NvmFunctionEntry f; memset(&f, 0, sizeof f);
            f.name_idx = a[0]; f.arity = (uint16_t)a[1]; f.code_offset = a[2]; f.code_length = a[3];
            f.local_count = (uint16_t)a[4]; f.upvalue_count = (uint16_t)a[5];
            nvm_add_function(m, &f);
        }
    }
    if (strcmp(code, "-")) {
        size_t n = strlen(code) / 2;
        uint8_t *b = malloc(n + 1);
        for (size_t i = 0; i < n; i++) b[i] = (uint8_t)(hexv(code[2*i]) * 16 + hexv(code[2*i+1]));
        nvm_append_code(m, b, (uint32_t)n);
        free(b);
    }
    return m;
}

static void do_asm(const char *text) {
    AsmResult r;
    NvmModule *m = asm_assemble(text, &r);
    if (!m) { printf("E %d %u", (int)r.error, r.line); return; }
    printf("A "); print_mod(m);
    nvm_module_free(m);
}

int main(void) {
    char *line = NULL; size_t cap = 0; ssize_t n;
    while ((n = getline(&line, &cap, stdin)) > 0) {
        while (n > 0 && (line[n-1] == '\n' || line[n-1] == '\r')) line[--n] = 0;
        char *sp = strchr(line, ' ');
        if (!sp) { if (n) printf("bad\n"); continue; }
        *sp = 0; char *arg = sp + 1;
        if (!strcmp(line, "load")) {
            FILE *f = fopen(arg, "rb");
            if (!f) { printf("err open\n"); continue; }
            fseek(f, 0, SEEK_END); long sz = ftell(f); fseek(f, 0, SEEK_SET);
            uint8_t *b = malloc(sz > 0 ? (size_t)sz : 1);
            size_t got = fread(b, 1, (size_t)sz, f); fclose(f);
            NvmModule *m = nvm_deserialize(b, (uint32_t)got);
            free(b);
            if (!m) { printf("err deserialize\n"); continue; }
            printf("ok "); print_mod(m); printf("\n");
            nvm_module_free(m);
        } else if (!strcmp(line, "dis") || !strcmp(line, "rt")) {
            int rt = line[0] == 'r';
            NvmModule *m = build_mod(arg);
            if (!m) { printf("bad\n"); continue; }
            char *text = disasm_module(m);
            if (!text) { printf("err\n"); nvm_module_free(m); continue; }
            printf("ok ");
            if (rt) { print_mod(m); putchar(' '); }
            /* exact-size heap copy so that an over-read of the text by the assembler is an ASan report */
            size_t tl = strlen(text);
            puthex((const uint8_t *)text, tl);
            if (rt) {
                char *copy = malloc(tl + 1); memcpy(copy, text, tl + 1);
                putchar(' '); do_asm(copy); free(copy);
            }
            printf("\n");
            free(text); nvm_module_free(m);
        } else if (!strcmp(line, "asm")) {
            size_t hl = strlen(arg);
            size_t tl = (hl == 1 && arg[0] == '-') ? 0 : hl / 2;
            char *text = malloc(tl + 1);
            for (size_t i = 0; i < tl; i++) text[i] = (char)(hexv(arg[2*i]) * 16 + hexv(arg[2*i+1]));
            text[tl] = 0;
            AsmResult r;
            NvmModule *m = asm_assemble(text, &r);
            if (!m) printf("err %d %u\n", (int)r.error, r.line);
            else { printf("ok "); print_mod(m); printf("\n"); nvm_module_free(m); }
            free(text);
        } else if (!strcmp(line, "f64")) {
            uint64_t bits = strtoull(arg, NULL, 16);
            double d; memcpy(&d, &bits, 8);
            char buf[64]; snprintf(buf, sizeof buf, "%.17g", d);
            char *end; errno = 0;
            double v = strtod(buf, &end);
            int e = errno;
            uint64_t b2; memcpy(&b2, &v, 8);
            printf("ok "); puthex((const uint8_t *)buf, strlen(buf));
            printf(" %llx %d %d\n", (unsigned long long)b2, e, (int)(end - buf));
        } else printf("bad\n");
        fflush(stdout);
    }
    return 0;
}
