/* list_probe (C20): drives the runtime list template of the repo with the same line protocol as nvref_c20:
     engine int = src/runtime/list_int.c, str = src/runtime/list_string.c (strdup'd elements),
     gen = the output of scripts/generate_list.sh for `struct Pt` (what the compiler generates for List<UserStruct> without a runtime file).
   The three sources are #included (exit() redirected to the probe so that the C's "Error: ...; exit(1)" is observable); the list_*
   symbols the rest of libnano.a needs therefore come from this translation unit.
     lnew <engine> | lcap <engine> <c>      start a history
     push <v> | pop | ins <i> <v> | rm <i> | set <i> <v> | get <i> | clear | len | cap | empty        (v hex, i decimal)
   Answer: <out> | len=<n> cap=<n> d=<values>     out = unit | val <hex> | nat <n> | bool <0|1>;   "exit" when the C called exit(1)
   (following lines answer "skip" until the next lnew/lcap).  Memory errors are left to the sanitizer. */
#include <stdio.h>
#include <stdlib.h>
#include <string.h>
#include <stdint.h>
#include <stdbool.h>
#include <setjmp.h>

static jmp_buf jb; static int armed;
static void probe_exit(int code) { (void)code; if (armed) longjmp(jb, 1); _Exit(97); }
#define exit(c) probe_exit(c)

#define ensure_capacity ensure_capacity_int_
#include "runtime/list_int.c"
#undef ensure_capacity
#undef INITIAL_CAPACITY
#undef GROWTH_FACTOR
#define ensure_capacity ensure_capacity_str_
#include "runtime/list_string.c"
#undef ensure_capacity
#undef INITIAL_CAPACITY
#undef GROWTH_FACTOR
struct Pt { int64_t a; int64_t b; };
#include LIST_PT_C
#undef exit

typedef enum { E_INT, E_STR, E_GEN } Eng;
static Eng eng; static void *L;

static int    l_len(void) { return eng == E_INT ? list_int_length(L) : eng == E_STR ? list_string_length(L) : nl_list_Pt_length(L); }
static int    l_cap(void) { return eng == E_INT ? list_int_capacity(L) : eng == E_STR ? list_string_capacity(L) : nl_list_Pt_capacity(L); }
static uint64_t of_str(const char *s) { return s ? strtoull(s + 1, NULL, 16) : 0xdeadULL; }
static const char *to_str(uint64_t v) { static char b[40]; snprintf(b, sizeof b, "s%llx", (unsigned long long)v); return b; }
static uint64_t of_pt(struct Pt p) { return p.b == ~p.a ? (uint64_t)p.a : 0xbadbadbadULL; }
static struct Pt to_pt(uint64_t v) { struct Pt p = { (int64_t)v, ~(int64_t)v }; return p; }
static uint64_t raw_at(int i) {
    if (eng == E_INT) return (uint64_t)((List_int *)L)->data[i];
    if (eng == E_STR) return of_str(((List_string *)L)->data[i]);
    return of_pt(((List_Pt *)L)->data[i]);
}
static void state(void) {
    int n = l_len();
    printf(" | len=%d cap=%d d=", n, l_cap());
    if (n == 0) printf("-");
    if (n <= 48) { for (int i = 0; i < n; i++) printf("%s%llx", i ? "," : "", (unsigned long long)raw_at(i)); }
    else {
        uint64_t h = 0xcbf29ce484222325ULL; char tmp[24];
        for (int i = 0; i < n; i++) { int m = snprintf(tmp, sizeof tmp, "%s%llx", i ? "," : "", (unsigned long long)raw_at(i));
            for (int j = 0; j < m; j++) { h ^= (uint8_t)tmp[j]; h *= 0x100000001b3ULL; } }
        printf("#%016llx %llx,..,%llx", (unsigned long long)h, (unsigned long long)raw_at(0), (unsigned long long)raw_at(n - 1));
    }
    printf("\n");
}

int main(void) {
    char *line = NULL; size_t cap = 0; ssize_t n; int dead = 1;
    setvbuf(stdout, NULL, _IOLBF, 1 << 16);
    while ((n = getline(&line, &cap, stdin)) > 0) {
        while (n > 0 && (line[n-1] == '\n' || line[n-1] == '\r')) line[--n] = 0;
        char *save; char *cmd = strtok_r(line, " ", &save); if (!cmd) continue;
        char *t1 = strtok_r(NULL, " ", &save), *t2 = strtok_r(NULL, " ", &save);
        if (!strcmp(cmd, "lnew") || !strcmp(cmd, "lcap")) {
            eng = !strcmp(t1, "int") ? E_INT : !strcmp(t1, "str") ? E_STR : E_GEN;
            int c = cmd[1] == 'c' ? atoi(t2) : -1;
            if (eng == E_INT) L = c < 0 ? list_int_new() : list_int_with_capacity(c);
            else if (eng == E_STR) L = c < 0 ? list_string_new() : list_string_with_capacity(c);
            else L = c < 0 ? nl_list_Pt_new() : nl_list_Pt_with_capacity(c);
            dead = 0; printf("unit"); state(); continue;
        }
        if (dead) { printf("skip\n"); continue; }
        armed = 1;
        if (setjmp(jb)) { armed = 0; dead = 1; printf("exit\n"); continue; }
        if (!strcmp(cmd, "push")) {
            uint64_t v = strtoull(t1, NULL, 16);
            if (eng == E_INT) list_int_push(L, (int64_t)v); else if (eng == E_STR) list_string_push(L, to_str(v)); else nl_list_Pt_push(L, to_pt(v));
            printf("unit");
        } else if (!strcmp(cmd, "pop")) {
            uint64_t v;
            if (eng == E_INT) v = (uint64_t)list_int_pop(L); else if (eng == E_STR) { char *s = list_string_pop(L); v = of_str(s); free(s); } else v = of_pt(nl_list_Pt_pop(L));
            printf("val %llx", (unsigned long long)v);
        } else if (!strcmp(cmd, "ins")) {
            int i = atoi(t1); uint64_t v = strtoull(t2, NULL, 16);
            if (eng == E_INT) list_int_insert(L, i, (int64_t)v); else if (eng == E_STR) list_string_insert(L, i, to_str(v)); else nl_list_Pt_insert(L, i, to_pt(v));
            printf("unit");
        } else if (!strcmp(cmd, "rm")) {
            int i = atoi(t1); uint64_t v;
            if (eng == E_INT) v = (uint64_t)list_int_remove(L, i); else if (eng == E_STR) { char *s = list_string_remove(L, i); v = of_str(s); free(s); } else v = of_pt(nl_list_Pt_remove(L, i));
            printf("val %llx", (unsigned long long)v);
        } else if (!strcmp(cmd, "set")) {
            int i = atoi(t1); uint64_t v = strtoull(t2, NULL, 16);
            if (eng == E_INT) list_int_set(L, i, (int64_t)v); else if (eng == E_STR) list_string_set(L, i, to_str(v)); else nl_list_Pt_set(L, i, to_pt(v));
            printf("unit");
        } else if (!strcmp(cmd, "get")) {
            int i = atoi(t1); uint64_t v;
            if (eng == E_INT) v = (uint64_t)list_int_get(L, i); else if (eng == E_STR) v = of_str(list_string_get(L, i)); else v = of_pt(nl_list_Pt_get(L, i));
            printf("val %llx", (unsigned long long)v);
        } else if (!strcmp(cmd, "clear")) {
            if (eng == E_INT) list_int_clear(L); else if (eng == E_STR) list_string_clear(L); else nl_list_Pt_clear(L);
            printf("unit");
        } else if (!strcmp(cmd, "len")) printf("nat %d", l_len());
        else if (!strcmp(cmd, "cap")) printf("nat %d", l_cap());
        else if (!strcmp(cmd, "empty")) printf("bool %d", eng == E_INT ? list_int_is_empty(L) : eng == E_STR ? list_string_is_empty(L) : nl_list_Pt_is_empty(L));
        else { armed = 0; printf("bad\n"); continue; }
        armed = 0;
        state();
    }
    return 0;
}
