/* isa_probe: drives the repo's real isa_encode / isa_decode with the same line protocol as nvref_c11.
   enc <op-hex> <arg-hex>...  -> ok <bytes-hex> | err
   dec <bytes-hex>            -> ok <n> <op-hex> <arg-hex>... | err
   Buffers are heap blocks of exactly the stated size so an over-read/over-write is an ASan report. */
#include <stdio.h>
#include <stdlib.h>
#include <string.h>
#include <stdint.h>
#include "isa.h"

static int hexv(int c) { return c <= '9' ? c - '0' : (c | 32) - 'a' + 10; }

int main(void) {
    char *line = NULL; size_t cap = 0; ssize_t n;
    while ((n = getline(&line, &cap, stdin)) > 0) {
        while (n > 0 && (line[n-1] == '\n' || line[n-1] == '\r')) line[--n] = 0;
        char *save; char *cmd = strtok_r(line, " ", &save);
        if (!cmd) continue;
        if (!strcmp(cmd, "enc")) {
            DecodedInstruction in; memset(&in, 0, sizeof in);
            char *t = strtok_r(NULL, " ", &save);
            in.opcode = (uint8_t)strtoull(t, NULL, 16);
            int k = 0;
            while ((t = strtok_r(NULL, " ", &save)) && k < MAX_OPERANDS) {
                uint64_t pat = strtoull(t, NULL, 16);
                memcpy(&in.operands[k], &pat, 8);   /* raw pattern: low bytes are what the typed member reads */
                k++;
            }
            in.operand_count = (uint8_t)k;
            uint8_t *buf = malloc(ISA_MAX_INSTRUCTION_SIZE);
            memset(buf, 0xEE, ISA_MAX_INSTRUCTION_SIZE);
            uint32_t w = isa_encode(&in, buf, ISA_MAX_INSTRUCTION_SIZE);
            if (w == 0) printf("err\n");
            else { printf("ok "); for (uint32_t i = 0; i < w; i++) printf("%02x", buf[i]); printf("\n"); }
            free(buf);
        } else if (!strcmp(cmd, "dec")) {
            char *t = strtok_r(NULL, " ", &save);
            size_t len = (t && strcmp(t, "-")) ? strlen(t) / 2 : 0;
            uint8_t *buf = malloc(len ? len : 1);
            for (size_t i = 0; i < len; i++) buf[i] = (uint8_t)(hexv(t[2*i]) * 16 + hexv(t[2*i+1]));
            DecodedInstruction out; memset(&out, 0xAB, sizeof out);
            uint32_t r = isa_decode(buf, len, &out);
            if (r == 0) printf("err\n");
            else {
                printf("ok %u %x", r, out.opcode);
                for (int i = 0; i < out.operand_count; i++) {
                    uint64_t pat = 0;
                    switch (out.operand_types[i]) {
                        case OPERAND_U8: pat = out.operands[i].u8; break;
                        case OPERAND_U16: pat = out.operands[i].u16; break;
                        case OPERAND_U32: pat = out.operands[i].u32; break;
                        case OPERAND_I32: pat = (uint32_t)out.operands[i].i32; break;
                        case OPERAND_I64: pat = (uint64_t)out.operands[i].i64; break;
                        case OPERAND_F64: memcpy(&pat, &out.operands[i].f64, 8); break;
                        default: break;
                    }
                    printf(" %llx", (unsigned long long)pat);
                }
                if (out.byte_length != r) printf(" BYTE_LENGTH_MISMATCH");
                printf("\n");
            }
            free(buf);
        } else printf("bad\n");
    }
    return 0;
}
