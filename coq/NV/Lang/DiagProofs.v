From Coq Require Import String List Bool.
From NV Require Import gen.DiagSites Lang.DiagTriage.
Import ListNotations.

Definition in_triage (id : string) : bool := existsb (fun t => String.eqb (fst t) id) triage.
Definition site_ok (s : string * site_kind) : bool :=
  match snd s with Neither => in_triage (fst s) | _ => true end.
Definition is_finding (d : disposition) : bool := match d with Finding _ => true | Justified _ => false end.

(* every error diagnostic of the type checker fails the compilation in its own block, hands a failing value to its
   caller, or is a triaged site *)
Lemma all_error_sites_flagged_lemma : forallb site_ok diag_sites = true.
Proof. vm_compute. reflexivity. Qed.

(* the sites that print and carry on, as a number (moves when the checker changes) *)
Definition neither_sites : list string := map fst (filter (fun s => match snd s with Neither => true | _ => false end) diag_sites).

(* the sites that print, carry on, and are triaged as findings: each one refutes "every error diagnostic fails the compilation" *)
Definition finding_triaged (id : string) : bool := existsb (fun t => String.eqb (fst t) id && is_finding (snd t)) triage.
Definition nf_pred (s : string * site_kind) : bool := match snd s with Neither => finding_triaged (fst s) | _ => false end.
Notation neither_findings := (filter nf_pred diag_sites).

Lemma filter_spec {A} (f : A -> bool) (l : list A) s : In s (filter f l) -> In s l /\ f s = true.
Proof. intros H. apply filter_In in H. exact H. Qed.

Lemma neither_findings_spec_gen (l : list (string * site_kind)) : forall s, In s (filter nf_pred l) ->
  In s l /\ snd s = Neither /\ finding_triaged (fst s) = true.
Proof.
  intros s H. apply filter_spec in H. destruct H as [H1 H2]. split; [exact H1|].
  unfold nf_pred in H2. destruct (snd s); try discriminate H2. split; [reflexivity|exact H2].
Qed.

Lemma neither_findings_spec : forall s, In s neither_findings ->
  In s diag_sites /\ snd s = Neither /\ finding_triaged (fst s) = true.
Proof. exact (neither_findings_spec_gen diag_sites). Qed.
