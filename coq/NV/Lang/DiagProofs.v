From Coq Require Import String List Bool.
From NV Require Import gen.DiagSites Lang.DiagTriage.
Import ListNotations.

Definition in_triage (id : string) : bool := existsb (fun t => String.eqb (fst t) id) triage.
Definition site_ok (s : string * site_kind) : bool :=
  match snd s with Neither => in_triage (fst s) | _ => true end.
Definition is_finding (d : disposition) : bool := match d with Finding _ => true | Justified _ => false end.

(* every error diagnostic of the type checker fails the compilation in its own block, hands a failing value to its
   caller, or is a triaged site *)
Lemma all_error_sites_flagged_lemma : forallb site_ok diag_sites = true.
Proof. vm_compute. reflexivity. Qed.

(* the sites that print and carry on, as a number (moves when the checker changes) *)
Definition neither_sites : list string := map fst (filter (fun s => match snd s with Neither => true | _ => false end) diag_sites).
