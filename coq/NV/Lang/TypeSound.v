(* Soundness of the reference type checker (Lang/Types.v) for the reference semantics (Lang/Ref.v):
     wt p = true -> forall fuel, run_ref fuel p <> StuckO.
   Fuel induction (the three mutually recursive evaluators of Ref share one fuel) with an environment-typing
   invariant: the run-time environment has, binding for binding, the names, mutability flags and value types of the
   static scope.  Statements additionally keep "the environment at block entry is a suffix of the current one",
   which is what makes leaving a block (Ref.restore) return to a well-typed environment. *)
From Coq Require Import ZArith NArith List Bool Lia.
From NV Require Import Lang.Ast Lang.Ref Lang.Types.
Import ListNotations.

(* ------------------------------------------------------------------ values, environments *)
Definition has_ty (v : value) (t : ty) : Prop :=
  match v, t with
  | VInt _, TInt | VBool _, TBool | VVoid, TVoid | VStr _, TStr | VArr _, TArr => True
  | _, _ => False
  end.

Definition bind_ok (b : ident * (bool * value)) (c : ident * (bool * ty)) : Prop :=
  fst b = fst c /\ fst (snd b) = fst (snd c) /\ has_ty (snd (snd b)) (snd (snd c)).
Definition env_ok (en : env) (L : tenv) : Prop := Forall2 bind_ok en L.

Lemma ty_eqb_eq a b : ty_eqb a b = true -> a = b.
Proof. destruct a, b; simpl; congruence. Qed.
Lemma ty_eqb_refl a : ty_eqb a a = true.
Proof. destruct a; reflexivity. Qed.

Lemma expr_has_spec F G L e t : expr_has F G L e t = true -> ty_expr F G L e = Some t.
Proof.
  unfold expr_has. destruct (ty_expr F G L e) as [t'|]; [|discriminate].
  intros H. apply ty_eqb_eq in H. congruence.
Qed.

Lemma env_ok_length en L : env_ok en L -> length en = length L.
Proof. induction 1; simpl; congruence. Qed.

Lemma lookup_ok x en L : env_ok en L ->
  match tlookup x L with
  | Some (m, t) => exists v, lookup x en = Some (m, v) /\ has_ty v t
  | None => lookup x en = None
  end.
Proof.
  induction 1 as [|[y [m v]] [z [m' t]] en L [H1 [H2 H3]] H IH]; simpl in *; [reflexivity|].
  subst. destruct (N.eqb x z).
  - exists v. split; [reflexivity|assumption].
  - exact IH.
Qed.

Lemma assign_ok x v t en L : env_ok en L -> tlookup x L = Some (true, t) -> has_ty v t ->
  exists en', assign x v en = Some en' /\ env_ok en' L.
Proof.
  induction 1 as [|[y [m w]] [z [m' t']] en L [H1 [H2 H3]] H IH]; simpl in *; [discriminate|].
  subst. intros Hl Hv. destruct (N.eqb x z).
  - injection Hl as -> ->. eexists. split; [reflexivity|].
    constructor; [|assumption]. repeat split; assumption.
  - destruct (IH Hl Hv) as [en' [E Hok]]. rewrite E. eexists. split; [reflexivity|].
    constructor; [|assumption]. repeat split; assumption.
Qed.

Lemma restore_app (ex e0 : env) n : length e0 = n -> restore n (ex ++ e0) = e0.
Proof.
  intros <-. unfold restore. rewrite app_length.
  replace (length ex + length e0 - length e0) with (length ex) by lia.
  rewrite skipn_app, skipn_all, Nat.sub_diag. reflexivity.
Qed.

Lemma env_ok_app_inv en L1 L2 : env_ok en (L1 ++ L2) -> exists e1 e2, en = e1 ++ e2 /\ env_ok e1 L1 /\ env_ok e2 L2.
Proof.
  intros H. apply Forall2_app_inv_r in H. destruct H as [e1 [e2 [H1 [H2 E]]]]. exists e1, e2. auto.
Qed.

(* ------------------------------------------------------------------ operators *)
Lemma unop_ok o t t' v : ty_unop o t = Some t' -> has_ty v t ->
  exists v', eval_unop o v = OV v' /\ has_ty v' t'.
Proof.
  destruct o, t; simpl; try discriminate; intros E; injection E as <-; destruct v; simpl; try contradiction;
    intros _; eexists; split; try reflexivity; exact I.
Qed.

Lemma binop_ok o ta tb t va vb : ty_binop o ta tb = Some t -> has_ty va ta -> has_ty vb tb ->
  match eval_binop o va vb with OV v => has_ty v t | OF _ => True | OStuck => False end.
Proof.
  destruct o; simpl;
    try (destruct ta, tb; try discriminate; intros E; injection E as <-;
         destruct va, vb; simpl; try contradiction; intros _ _;
         repeat match goal with |- context [if ?c then _ else _] => destruct c end; simpl; exact I).
Qed.

Lemma str1_ok o t t' v : ty_str1 o t = Some t' -> has_ty v t ->
  match eval_str1 o v with OV v' => has_ty v' t' | OF _ => True | OStuck => False end.
Proof.
  destruct o, t; simpl; try discriminate; intros E; injection E as <-; destruct v; simpl; try contradiction; intros _; exact I.
Qed.
Lemma str2_ok o ta tb t va vb : ty_str2 o ta tb = Some t -> has_ty va ta -> has_ty vb tb ->
  match eval_str2 o va vb with OV v => has_ty v t | OF _ => True | OStuck => False end.
Proof.
  destruct o, ta, tb; simpl; try discriminate; intros E; injection E as <-;
    destruct va, vb; simpl; try contradiction; intros _ _; try exact I;
    try (destruct (concat_v s s0); exact I).
  destruct (char_at_v s z); exact I.
Qed.
Lemma substr_ok va vb vc : has_ty va TStr -> has_ty vb TInt -> has_ty vc TInt ->
  match eval_substr va vb vc with OV v => has_ty v TStr | OF _ => True | OStuck => False end.
Proof.
  destruct va, vb, vc; simpl; try contradiction. intros _ _ _. destruct (substr_v s z z0); exact I.
Qed.

(* ------------------------------------------------------------------ results *)
Definition good {A} (Q : A -> Prop) (r : res A) : Prop :=
  match r with Stuck => False | Ok a _ => Q a | _ => True end.

Lemma good_bind {A B} (Q : A -> Prop) (Q' : B -> Prop) (r : res A) (k : A -> list N -> res B) :
  good Q r -> (forall a out, r = Ok a out -> Q a -> good Q' (k a out)) -> good Q' (bind r k).
Proof. destruct r; simpl; intros H K; auto. Qed.

Lemma good_weaken {A} (Q Q' : A -> Prop) r : good Q r -> (forall a, Q a -> Q' a) -> good Q' r.
Proof. destruct r; simpl; auto. Qed.

(* ------------------------------------------------------------------ static facts *)
Definition args_ok (F : sigs) (G L : tenv) : list expr -> list ty -> bool :=
  fix go (l : list expr) (ts : list ty) {struct l} : bool :=
    match l, ts with
    | [], [] => true
    | a :: l', t :: ts' => match ty_expr F G L a with Some t' => ty_eqb t' t && go l' ts' | None => false end
    | _, _ => false
    end.

Lemma ty_expr_call F G L f args :
  ty_expr F G L (ECall f args) =
  match slookup f F with
  | Some (ps, r) => if args_ok F G L args ps then Some r else None
  | None => None
  end.
Proof. reflexivity. Qed.

Definition elems_ok (F : sigs) (G L : tenv) : list expr -> bool :=
  fix go (l : list expr) {struct l} : bool :=
    match l with
    | [] => true
    | a :: l' => match ty_expr F G L a with Some TInt => go l' | _ => false end
    end.

Lemma ty_expr_arr F G L es :
  ty_expr F G L (EArr es) = if elems_ok F G L es then Some TArr else None.
Proof. reflexivity. Qed.

Lemma elems_ok_spec F G L es : elems_ok F G L es = true -> Forall (fun a => ty_expr F G L a = Some TInt) es.
Proof.
  induction es as [|a l IH]; simpl; intros H; [constructor|].
  destruct (ty_expr F G L a) as [[| | | |]|] eqn:E; try discriminate. constructor; auto.
Qed.

Lemma ints_of_ok vs : Forall (fun v => has_ty v TInt) vs -> exists l, ints_of vs = Some l.
Proof.
  induction 1 as [|v vs Hv _ [l IH]]; simpl; [eauto|].
  destruct v; simpl in Hv; try contradiction. rewrite IH. eauto.
Qed.

Lemma args_ok_spec F G L args ps : args_ok F G L args ps = true ->
  Forall2 (fun a t => ty_expr F G L a = Some t) args ps.
Proof.
  revert ps. induction args as [|a l IH]; intros [|t ts]; simpl; try discriminate; [constructor|].
  destruct (ty_expr F G L a) as [t'|] eqn:E; [|discriminate].
  intros H. apply andb_true_iff in H. destruct H as [H1 H2]. apply ty_eqb_eq in H1. subst.
  constructor; auto.
Qed.

Lemma wt_stmt_ext F G ret : forall s inl L L', wt_stmt F G ret inl L s = Some L' -> exists ex, L' = ex ++ L.
Proof.
  induction s; intros inl L L'; simpl; intros H.
  - injection H as <-. exists []. reflexivity.
  - destruct (wt_stmt F G ret inl L s1) as [L1|] eqn:E1; [|discriminate].
    destruct (IHs1 _ _ _ E1) as [e1 ->]. destruct (IHs2 _ _ _ H) as [e2 ->].
    exists (e2 ++ e1). rewrite app_assoc. reflexivity.
  - destruct (expr_has F G L e t && negb (is_void t)); [|discriminate]. injection H as <-.
    exists [(x, (mut, t))]. reflexivity.
  - destruct (tlookup x L) as [[[|] t]|]; try discriminate.
    destruct (expr_has F G L e t); [|discriminate]. injection H as <-. exists []. reflexivity.
  - destruct (expr_has F G L c TBool); [|discriminate].
    destruct (wt_stmt F G ret inl L s1); [|discriminate]. destruct (wt_stmt F G ret inl L s2); [|discriminate].
    injection H as <-. exists []. reflexivity.
  - destruct (expr_has F G L c TBool); [|discriminate].
    destruct (wt_stmt F G ret true L s); [|discriminate]. injection H as <-. exists []. reflexivity.
  - destruct (expr_has F G L lo TInt && expr_has F G L hi TInt); [|discriminate].
    destruct (wt_stmt F G ret true ((x, (false, TInt)) :: L) s); [|discriminate]. injection H as <-. exists []. reflexivity.
  - destruct inl; [|discriminate]. injection H as <-. exists []. reflexivity.
  - destruct inl; [|discriminate]. injection H as <-. exists []. reflexivity.
  - destruct e as [e|].
    + destruct (expr_has F G L e ret); [|discriminate]. injection H as <-. exists []. reflexivity.
    + destruct (is_void ret); [|discriminate]. injection H as <-. exists []. reflexivity.
  - destruct (ty_expr F G L e) as [t|]; [|discriminate]. destruct (is_void t); [discriminate|].
    injection H as <-. exists []. reflexivity.
  - destruct (expr_has F G L e TBool); [|discriminate]. injection H as <-. exists []. reflexivity.
  - destruct (ty_expr F G L e) as [t|]; [|discriminate]. injection H as <-. exists []. reflexivity.
Qed.

(* a statement all of whose paths return never ends normally *)
Section Ret.
Variable fns : list fn.
Variable genv : env.
Ltac split_bind H E :=
  match type of H with bind ?r _ = _ => destruct r as [? ?|? ?| |] eqn:E; simpl in H; try discriminate H end.
Lemma returns_not_normal : forall s fuel en out c en' out',
  returns s = true -> exec_stmt fns fuel genv en s out = Ok (c, en') out' -> c <> CNormal.
Proof.
  induction s; intros fuel en out c0 en' out' R H; simpl in R; try discriminate R;
    (destruct fuel as [|fuel]; [simpl in H; discriminate H|]); cbn [exec_stmt] in H.
  - (* seq *)
    split_bind H E1. destruct a as [c1 e1]. simpl in H. destruct c1; simpl in H.
    + destruct (returns s1) eqn:R1.
      * exfalso. eapply IHs1; [reflexivity|exact E1|reflexivity].
      * simpl in R. eapply IHs2; [exact R|exact H].
    + injection H as <- _ _. discriminate.
    + injection H as <- _ _. discriminate.
    + injection H as <- _ _. discriminate.
  - (* if *)
    apply andb_true_iff in R. destruct R as [R1 R2].
    split_bind H E0. destruct a as [zz|bb| |ss|ll]; try discriminate H.
    split_bind H E1. destruct a as [c1 e1]. simpl in H.
    injection H as <- _ _. destruct bb; [eapply IHs1|eapply IHs2]; eauto.
  - (* return *)
    destruct e as [e|].
    + split_bind H E0. injection H as <- _ _. discriminate.
    + injection H as <- _ _. discriminate.
Qed.
End Ret.

Lemma Forall2_snoc {A B} (R : A -> B -> Prop) l1 l2 a b : Forall2 R l1 l2 -> R a b -> Forall2 R (l1 ++ [a]) (l2 ++ [b]).
Proof. intros H Hab. apply Forall2_app; [exact H|constructor; [exact Hab|constructor]]. Qed.
Lemma Forall2_rev' {A B} (R : A -> B -> Prop) l1 l2 : Forall2 R l1 l2 -> Forall2 R (rev l1) (rev l2).
Proof. induction 1; simpl; [constructor|]. apply Forall2_snoc; assumption. Qed.

Lemma bind_params_ok : forall ps vs, Forall2 has_ty vs (map snd ps) ->
  exists en, bind_params ps vs = Some en /\ env_ok (rev en) (params_tenv ps).
Proof.
  assert (K : forall ps vs, Forall2 has_ty vs (map snd ps) ->
            exists en, bind_params ps vs = Some en /\ env_ok en (map (fun p => (fst p, (false, snd p))) ps)).
  { induction ps as [|[x t] ps IH]; intros vs H; inversion H; subst; simpl.
    - exists []. split; [reflexivity|constructor].
    - destruct (IH _ H4) as [en [E Hok]]. rewrite E. eexists. split; [reflexivity|].
      constructor; [|exact Hok]. repeat split; assumption. }
  intros ps vs H. destruct (K ps vs H) as [en [E Hok]]. exists en. split; [exact E|].
  unfold params_tenv. apply Forall2_rev'. exact Hok.
Qed.

(* ------------------------------------------------------------------ the invariant *)
Section Sound.
Variable fns : list fn.
Variable F : sigs.
Variable G : tenv.
Variable genv : env.
Hypothesis HG : env_ok genv G.
Hypothesis HF : forall f ps r, slookup f F = Some (ps, r) ->
  exists d, find_fn fns f = Some d /\ map snd (fparams d) = ps /\ fret d = r /\ wt_fn F G d = true.

Definition expr_sound (fuel : nat) := forall L en e t out, env_ok en L -> ty_expr F G L e = Some t ->
  good (fun v => has_ty v t) (eval_expr fns fuel genv en e out).

(* outcome of a statement checked in scope L (result scope L'): the entry environment survives as a suffix *)
Definition stmt_post (ret : ty) (inl : bool) (L L' : tenv) (r : ctl * env) : Prop :=
  (exists ex en0, snd r = ex ++ en0 /\ env_ok en0 L) /\
  match fst r with
  | CNormal => env_ok (snd r) L'
  | CBreak | CContinue => inl = true
  | CReturn v => has_ty v ret
  end.

Definition stmt_sound (fuel : nat) := forall ret inl L L' en s out, env_ok en L -> wt_stmt F G ret inl L s = Some L' ->
  good (stmt_post ret inl L L') (exec_stmt fns fuel genv en s out).

Definition for_post (ret : ty) (L : tenv) (r : ctl * env) : Prop :=
  env_ok (snd r) L /\ match fst r with CNormal => True | CReturn v => has_ty v ret | _ => False end.

Definition for_sound (fuel : nat) := forall ret L Lb en x i hi body out, env_ok en L ->
  wt_stmt F G ret true ((x, (false, TInt)) :: L) body = Some Lb ->
  good (for_post ret L) (exec_for fns fuel genv en x i hi body out).

Lemma var_sound L en x t out : env_ok en L -> ty_expr F G L (EVar x) = Some t ->
  good (fun v => has_ty v t)
       match lookup x en with
       | Some (_, v) => Ok v out
       | None => match lookup x genv with Some (_, v) => Ok v out | None => Stuck end
       end.
Proof.
  intros He Ht. simpl in Ht.
  pose proof (lookup_ok x en L He) as H1. pose proof (lookup_ok x genv G HG) as H2.
  destruct (tlookup x L) as [[m t1]|].
  - injection Ht as ->. destruct H1 as [v [E Hv]]. rewrite E. exact Hv.
  - rewrite H1. destruct (tlookup x G) as [[m t1]|]; [|discriminate].
    injection Ht as ->. destruct H2 as [v [E Hv]]. rewrite E. exact Hv.
Qed.

Lemma bool_inv v : has_ty v TBool -> exists b, v = VBool b.
Proof. destruct v; simpl; try contradiction. eauto. Qed.
Lemma int_inv v : has_ty v TInt -> exists z, v = VInt z.
Proof. destruct v; simpl; try contradiction. eauto. Qed.

Lemma args_sound fuel L en : expr_sound fuel -> env_ok en L -> forall args ps,
  Forall2 (fun a t => ty_expr F G L a = Some t) args ps -> forall out,
  good (fun vs => Forall2 has_ty vs ps)
    ((fix eval_args (l : list expr) (out0 : list N) : res (list value) :=
        match l with
        | [] => Ok [] out0
        | a :: r => bind (eval_expr fns fuel genv en a out0) (fun v out1 =>
                    bind (eval_args r out1) (fun vs out2 => Ok (v :: vs) out2))
        end) args out).
Proof.
  intros IHe He args ps Ea. induction Ea as [|a p l ps' Hap Hrest IH]; intros out0; [constructor|].
  eapply good_bind; [apply (IHe _ _ _ _ out0 He Hap)|]. intros v o1 _ Hv.
  eapply good_bind; [apply IH|]. intros vs o2 _ Hvs. constructor; assumption.
Qed.

Lemma elems_sound fuel L en : expr_sound fuel -> env_ok en L -> forall es,
  Forall (fun a => ty_expr F G L a = Some TInt) es -> forall out,
  good (fun vs => Forall (fun v => has_ty v TInt) vs)
    ((fix eval_elems (l : list expr) (out0 : list N) : res (list value) :=
        match l with
        | [] => Ok [] out0
        | a :: r => bind (eval_expr fns fuel genv en a out0) (fun v out1 =>
                    bind (eval_elems r out1) (fun vs out2 => Ok (v :: vs) out2))
        end) es out).
Proof.
  intros IHe He es Ea. induction Ea as [|a l Ha Hrest IH]; intros out0; [constructor|].
  eapply good_bind; [apply (IHe _ _ _ _ out0 He Ha)|]. intros v o1 _ Hv.
  eapply good_bind; [apply IH|]. intros vs o2 _ Hvs. constructor; assumption.
Qed.

Lemma arr_inv v : has_ty v TArr -> exists l, v = VArr l.
Proof. destruct v; simpl; try contradiction. eauto. Qed.

Lemma expr_step fuel : expr_sound fuel -> stmt_sound fuel -> expr_sound (S fuel).
Proof.
  intros IHe IHs L en e t out He Ht. destruct e; cbn [eval_expr exec_stmt exec_for].
  - simpl in Ht. injection Ht as <-. exact I.
  - simpl in Ht. injection Ht as <-. exact I.
  - simpl in Ht. injection Ht as <-. exact I.
  - apply (var_sound L); assumption.
  - (* unary *)
    simpl in Ht. destruct (ty_expr F G L e) as [ta|] eqn:Ea; [|discriminate].
    eapply good_bind; [apply (IHe _ _ _ _ out He Ea)|]. intros v o1 _ Hv.
    destruct (unop_ok _ _ _ _ Ht Hv) as [v' [E Hv']]. rewrite E. exact Hv'.
  - (* binary *)
    simpl in Ht. destruct (ty_expr F G L e1) as [ta|] eqn:Ea; [|discriminate].
    destruct (ty_expr F G L e2) as [tb|] eqn:Eb; [|discriminate].
    assert (General : good (fun v => has_ty v t)
              (bind (eval_expr fns fuel genv en e1 out) (fun va out1 =>
               bind (eval_expr fns fuel genv en e2 out1) (fun vb out2 => of_opres (eval_binop o va vb) out2)))).
    { eapply good_bind; [apply (IHe _ _ _ _ out He Ea)|]. intros va o1 _ Hva.
      eapply good_bind; [apply (IHe _ _ _ _ o1 He Eb)|]. intros vb o2 _ Hvb.
      pose proof (binop_ok _ _ _ _ _ _ Ht Hva Hvb) as Hb.
      destruct (eval_binop o va vb); simpl; auto. }
    destruct o; try exact General.
    + (* and *)
      simpl in Ht. destruct ta, tb; try discriminate. injection Ht as <-.
      eapply good_bind; [apply (IHe _ _ _ _ out He Ea)|]. intros va o1 _ Hva.
      destruct (bool_inv _ Hva) as [[|] ->]; [|exact I].
      eapply good_bind; [apply (IHe _ _ _ _ o1 He Eb)|]. intros vb o2 _ Hvb.
      destruct (bool_inv _ Hvb) as [b ->]. exact I.
    + (* or *)
      simpl in Ht. destruct ta, tb; try discriminate. injection Ht as <-.
      eapply good_bind; [apply (IHe _ _ _ _ out He Ea)|]. intros va o1 _ Hva.
      destruct (bool_inv _ Hva) as [[|] ->]; [exact I|].
      eapply good_bind; [apply (IHe _ _ _ _ o1 He Eb)|]. intros vb o2 _ Hvb.
      destruct (bool_inv _ Hvb) as [b ->]. exact I.
  - (* call *)
    rewrite ty_expr_call in Ht. destruct (slookup f F) as [[ps r]|] eqn:Es; [|discriminate].
    destruct (args_ok F G L args ps) eqn:Ea; [|discriminate]. injection Ht as <-.
    apply args_ok_spec in Ea.
    destruct (HF _ _ _ Es) as [d [Ef [Eps [Er Hwt]]]].
    match goal with |- good _ (bind ?ra _) => assert (HA : good (fun vs => Forall2 has_ty vs ps) ra) end.
    { apply (args_sound fuel L en IHe He args ps Ea). }
    eapply good_bind; [exact HA|]. intros vs o1 _ Hvs.
    rewrite Ef. rewrite <- Eps in Hvs. destruct (bind_params_ok _ _ Hvs) as [en' [Eb Hen']]. rewrite Eb.
    unfold wt_fn in Hwt. apply andb_true_iff in Hwt. destruct Hwt as [Hwt Hret].
    apply andb_true_iff in Hwt. destruct Hwt as [_ Hbody].
    destruct (wt_stmt F G (fret d) false (params_tenv (fparams d)) (fbody d)) as [Lb|] eqn:Eb'; [|discriminate].
    eapply good_bind; [apply (IHs _ _ _ _ _ _ o1 Hen' Eb')|]. intros [c en''] o2 Ex [_ Hc].
    simpl in Hc |- *. destruct c; simpl.
    + (* fell off the end: only a void function may *)
      apply orb_true_iff in Hret. destruct Hret as [Hv|Hr].
      * subst r. destruct (fret d); try discriminate. exact I.
      * exfalso. eapply returns_not_normal; [exact Hr|exact Ex|reflexivity].
    + discriminate.
    + discriminate.
    + subst r. exact Hc.
  - (* cond *)
    simpl in Ht. destruct (ty_expr F G L e1) as [tc|] eqn:Ec; [|discriminate].
    destruct tc; try discriminate.
    destruct (ty_expr F G L e2) as [ta|] eqn:Ea; [|discriminate].
    destruct (ty_expr F G L e3) as [tb|] eqn:Eb; [|discriminate].
    destruct (ty_eqb ta tb) eqn:Q; [|discriminate]. injection Ht as <-. apply ty_eqb_eq in Q. subst tb.
    eapply good_bind; [apply (IHe _ _ _ _ out He Ec)|]. intros vc o1 _ Hvc.
    destruct (bool_inv _ Hvc) as [[|] ->]; [apply (IHe _ _ _ _ o1 He Ea)|apply (IHe _ _ _ _ o1 He Eb)].
  - (* array literal *)
    rewrite ty_expr_arr in Ht. destruct (elems_ok F G L es) eqn:Ea; [|discriminate]. injection Ht as <-.
    apply elems_ok_spec in Ea.
    match goal with |- good _ (bind ?ra _) => assert (HA : good (fun vs => Forall (fun v => has_ty v TInt) vs) ra) end.
    { apply (elems_sound fuel L en IHe He es Ea). }
    eapply good_bind; [exact HA|]. intros vs o1 _ Hvs.
    destruct (ints_of_ok _ Hvs) as [l ->]. exact I.
  - (* at: an index out of range is a fault, not a stuck state *)
    simpl in Ht. destruct (ty_expr F G L e1) as [ta|] eqn:Ea; [|discriminate].
    destruct ta; try discriminate.
    destruct (ty_expr F G L e2) as [ti|] eqn:Ei; [|discriminate].
    destruct ti; try discriminate. injection Ht as <-.
    eapply good_bind; [apply (IHe _ _ _ _ out He Ea)|]. intros va o1 _ Hva.
    eapply good_bind; [apply (IHe _ _ _ _ o1 He Ei)|]. intros vi o2 _ Hvi.
    destruct (arr_inv _ Hva) as [l ->]. destruct (int_inv _ Hvi) as [k ->].
    destruct (arr_get l k); exact I.
  - (* array_length *)
    simpl in Ht. destruct (ty_expr F G L e) as [ta|] eqn:Ea; [|discriminate].
    destruct ta; try discriminate. injection Ht as <-.
    eapply good_bind; [apply (IHe _ _ _ _ out He Ea)|]. intros va o1 _ Hva.
    destruct (arr_inv _ Hva) as [l ->]. exact I.
  - (* unary string builtin *)
    simpl in Ht. destruct (ty_expr F G L e) as [ta|] eqn:Ea; [|discriminate].
    eapply good_bind; [apply (IHe _ _ _ _ out He Ea)|]. intros v o1 _ Hv.
    pose proof (str1_ok _ _ _ _ Ht Hv) as Hb. destruct (eval_str1 o v); simpl; auto.
  - (* binary string builtin *)
    simpl in Ht. destruct (ty_expr F G L e1) as [ta|] eqn:Ea; [|discriminate].
    destruct (ty_expr F G L e2) as [tb|] eqn:Eb; [|discriminate].
    eapply good_bind; [apply (IHe _ _ _ _ out He Ea)|]. intros va o1 _ Hva.
    eapply good_bind; [apply (IHe _ _ _ _ o1 He Eb)|]. intros vb o2 _ Hvb.
    pose proof (str2_ok _ _ _ _ _ _ Ht Hva Hvb) as Hb. destruct (eval_str2 o va vb); simpl; auto.
  - (* str_substring *)
    simpl in Ht. destruct (ty_expr F G L e1) as [ta|] eqn:Ea; [|discriminate]. destruct ta; try discriminate.
    destruct (ty_expr F G L e2) as [tb|] eqn:Eb; [|discriminate]. destruct tb; try discriminate.
    destruct (ty_expr F G L e3) as [tc|] eqn:Ec; [|discriminate]. destruct tc; try discriminate. injection Ht as <-.
    eapply good_bind; [apply (IHe _ _ _ _ out He Ea)|]. intros va o1 _ Hva.
    eapply good_bind; [apply (IHe _ _ _ _ o1 He Eb)|]. intros vb o2 _ Hvb.
    eapply good_bind; [apply (IHe _ _ _ _ o2 He Ec)|]. intros vc o3 _ Hvc.
    pose proof (substr_ok _ _ _ Hva Hvb Hvc) as Hb. destruct (eval_substr va vb vc); simpl; auto.
Qed.

(* re-base the suffix part of a statement's post-condition on an outer scope *)
Lemma post_rebase ret inl L exL L' r :
  stmt_post ret inl (exL ++ L) L' r -> stmt_post ret inl L L' r.
Proof.
  intros [[ex [en0 [E H0]]] Hc]. split; [|exact Hc].
  destruct (env_ok_app_inv _ _ _ H0) as [e1 [e2 [-> [_ H2]]]].
  exists (ex ++ e1), e2. split; [|exact H2]. rewrite E, app_assoc. reflexivity.
Qed.

Lemma block_exit (en : env) (L : tenv) (r : ctl * env) ret inl Lb :
  env_ok en L -> stmt_post ret inl L Lb r ->
  env_ok (restore (length en) (snd r)) L /\
  match fst r with CNormal => True | CBreak | CContinue => inl = true | CReturn v => has_ty v ret end.
Proof.
  intros He [[ex [en0 [E H0]]] Hc]. split.
  - rewrite E, restore_app; [exact H0|]. rewrite (env_ok_length _ _ H0), (env_ok_length _ _ He). reflexivity.
  - destruct (fst r); auto.
Qed.

Lemma stmt_step fuel : expr_sound fuel -> stmt_sound fuel -> for_sound fuel -> stmt_sound (S fuel).
Proof.
  intros IHe IHs IHf ret inl L L' en s out He Hw.
  assert (Self : forall en1, env_ok en1 L -> stmt_post ret inl L L (CNormal, en1)).
  { intros en1 H1. split; [exists [], en1; split; [reflexivity|exact H1]|exact H1]. }
  destruct s; cbn [eval_expr exec_stmt exec_for]; simpl in Hw.
  - (* skip *) injection Hw as <-. apply Self, He.
  - (* seq *)
    destruct (wt_stmt F G ret inl L s1) as [L1|] eqn:E1; [|discriminate].
    eapply good_bind; [apply (IHs _ _ _ _ _ _ out He E1)|]. intros [c1 en1] o1 _ [Hsuf Hc].
    simpl in Hc |- *. destruct c1; simpl.
    + destruct (wt_stmt_ext _ _ _ _ _ _ _ E1) as [exL ->].
      eapply good_weaken; [apply (IHs _ _ _ _ _ _ o1 Hc Hw)|]. intros r. apply post_rebase.
    + split; [exact Hsuf|exact Hc].
    + split; [exact Hsuf|exact Hc].
    + split; [exact Hsuf|exact Hc].
  - (* let *)
    destruct (expr_has F G L e t && negb (is_void t)) eqn:Q; [|discriminate]. injection Hw as <-.
    apply andb_true_iff in Q. destruct Q as [Q _]. apply expr_has_spec in Q.
    eapply good_bind; [apply (IHe _ _ _ _ out He Q)|]. intros v o1 _ Hv. simpl.
    split; simpl.
    + exists [(x, (mut, v))], en. split; [reflexivity|exact He].
    + constructor; [|exact He]. repeat split; assumption.
  - (* set *)
    destruct (tlookup x L) as [[[|] t]|] eqn:El; try discriminate.
    destruct (expr_has F G L e t) eqn:Q; [|discriminate]. injection Hw as <-. apply expr_has_spec in Q.
    eapply good_bind; [apply (IHe _ _ _ _ out He Q)|]. intros v o1 _ Hv.
    destruct (assign_ok _ _ _ _ _ He El Hv) as [en' [Ea Hen']]. rewrite Ea. simpl. apply Self, Hen'.
  - (* if *)
    destruct (expr_has F G L c TBool) eqn:Q; [|discriminate]. apply expr_has_spec in Q.
    destruct (wt_stmt F G ret inl L s1) as [L1|] eqn:E1; [|discriminate].
    destruct (wt_stmt F G ret inl L s2) as [L2|] eqn:E2; [|discriminate]. injection Hw as <-.
    eapply good_bind; [apply (IHe _ _ _ _ out He Q)|]. intros vc o1 _ Hvc.
    destruct (bool_inv _ Hvc) as [b ->].
    assert (Hbr : exists Lb, wt_stmt F G ret inl L (if b then s1 else s2) = Some Lb) by (destruct b; eauto).
    destruct Hbr as [Lb Hbr].
    eapply good_bind; [apply (IHs _ _ _ _ _ _ o1 He Hbr)|]. intros r o2 _ Hr. simpl.
    destruct (block_exit _ _ _ _ _ _ He Hr) as [Hen Hc].
    split; simpl.
    + eexists [], _. split; [reflexivity|exact Hen].
    + destruct (fst r); auto.
  - (* while *)
    destruct (expr_has F G L c TBool) eqn:Q; [|discriminate]. apply expr_has_spec in Q.
    destruct (wt_stmt F G ret true L s) as [Lb|] eqn:Eb; [|discriminate]. injection Hw as <-.
    eapply good_bind; [apply (IHe _ _ _ _ out He Q)|]. intros vc o1 _ Hvc.
    destruct (bool_inv _ Hvc) as [[|] ->]; [|simpl; apply Self, He].
    eapply good_bind; [apply (IHs _ _ _ _ _ _ o1 He Eb)|]. intros r o2 _ Hr.
    destruct (block_exit _ _ _ _ _ _ He Hr) as [Hen Hc].
    assert (Again : good (stmt_post ret inl L L)
                      (exec_stmt fns fuel genv (restore (length en) (snd r)) (SWhile c s) o2)).
    { apply IHs; [exact Hen|]. simpl. unfold expr_has. rewrite Q, Eb. reflexivity. }
    destruct (fst r); simpl.
    + exact Again.
    + apply Self, Hen.
    + exact Again.
    + split; simpl; [eexists [], _; split; [reflexivity|exact Hen]|exact Hc].
  - (* for *)
    destruct (expr_has F G L lo TInt && expr_has F G L hi TInt) eqn:Q; [|discriminate].
    apply andb_true_iff in Q. destruct Q as [Q1 Q2]. apply expr_has_spec in Q1. apply expr_has_spec in Q2.
    destruct (wt_stmt F G ret true ((x, (false, TInt)) :: L) s) as [Lb|] eqn:Eb; [|discriminate]. injection Hw as <-.
    eapply good_bind; [apply (IHe _ _ _ _ out He Q1)|]. intros vlo o1 _ Hlo.
    eapply good_bind; [apply (IHe _ _ _ _ o1 He Q2)|]. intros vhi o2 _ Hhi.
    destruct (int_inv _ Hlo) as [a ->]. destruct (int_inv _ Hhi) as [b ->].
    eapply good_weaken; [apply (IHf _ _ _ _ x a b _ o2 He Eb)|]. intros [c0 en1] [H1 H2]. simpl in *.
    split; simpl.
    + eexists [], _. split; [reflexivity|exact H1].
    + destruct c0; auto; contradiction.
  - (* break *) destruct inl; [|discriminate]. injection Hw as <-. simpl.
    split; simpl; [exists [], en; split; [reflexivity|exact He]|reflexivity].
  - (* continue *) destruct inl; [|discriminate]. injection Hw as <-. simpl.
    split; simpl; [exists [], en; split; [reflexivity|exact He]|reflexivity].
  - (* return *)
    destruct e as [e|].
    + destruct (expr_has F G L e ret) eqn:Q; [|discriminate]. injection Hw as <-. apply expr_has_spec in Q.
      eapply good_bind; [apply (IHe _ _ _ _ out He Q)|]. intros v o1 _ Hv. simpl.
      split; simpl; [exists [], en; split; [reflexivity|exact He]|exact Hv].
    + destruct ret; try discriminate. injection Hw as <-. simpl.
      split; simpl; [exists [], en; split; [reflexivity|exact He]|exact I].
  - (* print *)
    destruct (ty_expr F G L e) as [t|] eqn:Q; [|discriminate]. destruct (is_void t); [discriminate|]. injection Hw as <-.
    eapply good_bind; [apply (IHe _ _ _ _ out He Q)|]. intros v o1 _ Hv. simpl. apply Self, He.
  - (* assert *)
    destruct (expr_has F G L e TBool) eqn:Q; [|discriminate]. injection Hw as <-. apply expr_has_spec in Q.
    eapply good_bind; [apply (IHe _ _ _ _ out He Q)|]. intros v o1 _ Hv.
    destruct (bool_inv _ Hv) as [[|] ->]; simpl; [apply Self, He|exact I].
  - (* expression statement *)
    destruct (ty_expr F G L e) as [t|] eqn:Q; [|discriminate]. injection Hw as <-.
    eapply good_bind; [apply (IHe _ _ _ _ out He Q)|]. intros v o1 _ Hv. simpl. apply Self, He.
Qed.

Lemma for_step fuel : stmt_sound fuel -> for_sound fuel -> for_sound (S fuel).
Proof.
  intros IHs IHf ret L Lb en x i hi body out He Hw. cbn [eval_expr exec_stmt exec_for].
  destruct (Z.ltb i hi); [|simpl; split; [exact He|exact I]].
  assert (He' : env_ok ((x, (false, VInt i)) :: en) ((x, (false, TInt)) :: L)).
  { constructor; [|exact He]. repeat split. }
  eapply good_bind; [apply (IHs _ _ _ _ _ _ out He' Hw)|]. intros r o1 _ [[ex [en0 [E H0]]] Hc].
  inversion H0 as [|b c0 en00 L0 Hb H00]; subst.
  assert (Hres : restore (length en) (snd r) = en00).
  { rewrite E. change (ex ++ b :: en00) with (ex ++ [b] ++ en00). rewrite app_assoc.
    apply restore_app. rewrite (env_ok_length _ _ H00), (env_ok_length _ _ He). reflexivity. }
  rewrite Hres. destruct (fst r); simpl.
  - apply (IHf _ _ _ _ _ _ _ _ o1 H00 Hw).
  - split; [exact H00|exact I].
  - apply (IHf _ _ _ _ _ _ _ _ o1 H00 Hw).
  - split; [exact H00|exact Hc].
Qed.

Theorem all_sound : forall fuel, expr_sound fuel /\ stmt_sound fuel /\ for_sound fuel.
Proof.
  induction fuel as [|fuel [IHe [IHs IHf]]].
  - repeat split; red; intros; exact I.
  - split; [|split].
    + apply expr_step; assumption.
    + apply stmt_step; assumption.
    + apply for_step; assumption.
Qed.
End Sound.

(* ------------------------------------------------------------------ programs *)
Lemma sigs_of_find : forall fns f ps r, slookup f (sigs_of fns) = Some (ps, r) ->
  exists d, find_fn fns f = Some d /\ map snd (fparams d) = ps /\ fret d = r /\ In d fns.
Proof.
  induction fns as [|d fns IH]; simpl; intros f ps r H; [discriminate|].
  unfold find_fn. simpl. rewrite (N.eqb_sym (fname d) f). destruct (N.eqb f (fname d)).
  - injection H as <- <-. exists d. auto.
  - destruct (IH _ _ _ H) as [d' [E [H1 [H2 H3]]]]. exists d'. auto.
Qed.

Lemma globals_sound fns fuel : forall gs Gacc genv out, env_ok genv Gacc -> wt_globals Gacc gs = true ->
  good (fun genv' => env_ok genv' (gtenv gs Gacc)) (eval_globals fns fuel gs genv out).
Proof.
  induction gs as [|[[x t] e] gs IH]; intros Gacc genv out Hg Hw; simpl in *; [exact Hg|].
  apply andb_true_iff in Hw. destruct Hw as [Hw Hrest]. apply andb_true_iff in Hw. destruct Hw as [He _].
  apply expr_has_spec in He.
  assert (HF0 : forall f ps r, slookup f [] = Some (ps, r) ->
                 exists d, find_fn fns f = Some d /\ map snd (fparams d) = ps /\ fret d = r /\ wt_fn [] Gacc d = true)
    by (intros; discriminate).
  pose proof (proj1 (all_sound fns [] Gacc genv Hg HF0 fuel)) as Hs.
  eapply good_bind; [apply (Hs [] [] e t out); [constructor|exact He]|]. intros v o1 _ Hv.
  apply IH; [|exact Hrest]. constructor; [|exact Hg]. repeat split; assumption.
Qed.

Theorem wt_sound : forall p, wt p = true -> forall fuel, run_ref fuel p <> StuckO.
Proof.
  intros p Hwt fuel. unfold wt in Hwt.
  apply andb_true_iff in Hwt. destruct Hwt as [Hwt Hmain].
  apply andb_true_iff in Hwt. destruct Hwt as [Hwt _].
  apply andb_true_iff in Hwt. destruct Hwt as [Hgl Hfns].
  set (F := sigs_of (pfns p)) in *. set (G := gtenv (pglobals p) []) in *.
  unfold run_ref.
  pose proof (globals_sound (pfns p) fuel (pglobals p) [] [] [] (Forall2_nil _) Hgl) as Hg.
  destruct (eval_globals (pfns p) fuel (pglobals p) [] []) as [genv out0|f out0| |]; simpl in Hg;
    try discriminate; try contradiction.
  fold G in Hg.
  assert (HF : forall f ps r, slookup f F = Some (ps, r) ->
                 exists d, find_fn (pfns p) f = Some d /\ map snd (fparams d) = ps /\ fret d = r /\ wt_fn F G d = true).
  { intros f ps r H. destruct (sigs_of_find _ _ _ _ H) as [d [E [H1 [H2 H3]]]]. exists d. repeat split; auto.
    rewrite forallb_forall in Hfns. apply Hfns, H3. }
  pose proof (proj1 (all_sound (pfns p) F G genv Hg HF fuel)) as Hs.
  assert (Ht : ty_expr F G [] (ECall (pmain p) []) = Some TInt).
  { rewrite ty_expr_call. destruct (slookup (pmain p) F) as [[[|t0 ps] r]|]; try discriminate.
    destruct r; try discriminate. reflexivity. }
  pose proof (Hs [] [] _ _ out0 (Forall2_nil _) Ht) as Hm.
  destruct (eval_expr (pfns p) fuel genv [] (ECall (pmain p) []) out0) as [v o|f o| |]; simpl in Hm;
    try discriminate; try contradiction.
  destruct v; simpl in Hm; try contradiction. discriminate.
Qed.
