(* Committed triage of the type checker's diagnostic call sites that neither set has_error nor return a failing value in
   their block (gen/DiagSites.v, kind Neither).  Each is either a FINDING (key of known_findings.d/C05.json or C04.json; the
   entry holds a concrete program that the tools do not refuse) or JUSTIFIED (why no rule violation passes through it).
   A site that is Neither and not listed here breaks Properties_C05.all_error_sites_flagged.  Definitions only. *)
From Coq Require Import String List.
Import ListNotations.
Open Scope string_scope.

Inductive disposition := Finding (key : string) | Justified (why : string).

Definition triage : list (string * disposition) := [
  ("check_expression_impl: TYPE MISMATCH / Convert operands to the same type before comparing",
     Finding "c05:order-operands-unchecked");
  ("check_expression_impl: TYPE MISMATCH / Convert operands to the same type before checking equality",
     Finding "c05:equality-operands-unchecked");
  ("check_expression_impl: TYPE MISMATCH / Logical operators require bool operands",
     Finding "c05:logic-operands-unchecked");
  ("check_expression_impl: TYPE MISMATCH / not requires a bool operand",
     Finding "c05:not-operand-unchecked");
  ("check_expression_impl: TYPE MISMATCH / Convert the argument to the expected type",
     Finding "c05:call-arg-type-unchecked");
  ("check_expression_impl: TYPE MISMATCH / Cond clause condition must be a bool",
     Finding "c05:cond-test-unchecked");
  ("check_expression_impl: Error at line _ column _ All cond clause values must have the same type",
     Finding "c05:cond-branch-unchecked");
  ("check_expression_impl: Error at line _ column _ Cond else value must have the same type as clause values",
     Finding "c05:cond-branch-unchecked");
  ("check_expression_impl: TYPE MISMATCH / If condition must be a bool",
     Justified "case AST_IF of check_expression_impl returns TYPE_UNKNOWN unconditionally right after the if statement that holds this diagnostic (the return is outside the diagnostic's block); where that value is dropped is c05:print-arg-unchecked / c05:call-stmt-unchecked");
  ("check_expression_impl: TYPE MISMATCH / Pass the opaque handle or 0 null",
     Finding "c05:opaque-arg-type-unchecked");
  ("check_expression_impl: Error at line _ column _ Cannot infer struct type for anonymous literal in function argume",
     Finding "c05:anon-struct-literal-arg");
  ("check_expression_impl: Error at line _ column _ result_unwrap_or default value type mismatch",
     Finding "c04:result-unwrap-or-default-type");
  ("check_expression_impl: Error at line _ column _ Field type mismatch in variant _ _",
     Finding "c05:variant-field-type-unchecked");
  ("check_expression_impl: Error at line _ column _ Unknown field _ in struct _",
     Finding "c05:struct-literal-unknown-field");
  ("check_expression_impl: Error at line _ column _ Field _ type mismatch in struct _ expected _ got _",
     Finding "c05:struct-literal-field-type-unchecked");
  ("check_expression_impl: Error at line _ column _ Match arms must all return the same type",
     Finding "c05:match-arm-types-unchecked");
  ("type_check: Error Failed to duplicate variant name at index _",
     Justified "strdup returned NULL while registering an enum: memory exhaustion, not a property of the program text");
  ("type_check: Error Enum _ has NULL variant name at index _",
     Justified "a NULL variant name cannot come out of parse_enum_def (every variant name is a strdup of an identifier token); defensive check");
  ("type_check: Error Enum _ has NULL variant name at index _ #2",
     Justified "same defensive check on the second branch (variant_names array itself NULL)");
  ("type_check_module: Error Failed to duplicate variant name at index _",
     Justified "as in type_check: memory exhaustion");
  ("type_check_module: Error Enum _ has NULL variant name at index _",
     Justified "as in type_check: defensive check");
  ("type_check_module: Error Enum _ has NULL variant name at index _ #2",
     Justified "as in type_check: defensive check")
].
