(* Reference semantics of the core language: an executable transcription of docs/SPECIFICATION.md sections 4-8
   (strict left-to-right operands and arguments, short-circuit and/or, static scoping with a per-activation
   environment, block shadowing, immutability by default, 64-bit wrapping integers, truncating / and %;
   immutable arrays of ints: literal elements left to right, (at a i) evaluates a then i and is a fault
   outside 0 <= i < length -- docs/ARRAY_SAFETY.md "always bounds-checked ... runtime panic").
   This is the ORACLE of C02/C03/C06; it deliberately shares no code with the engine models.  Definitions only. *)
From Coq Require Import ZArith NArith List Bool.
From NV Require Import Lang.Ast.
Import ListNotations.
Local Open Scope Z_scope.

Inductive fault := FAssert | FDivZero | FDivOverflow | FOob | FStrDomain.
(* FOob: array index outside 0 <= i < length.  FStrDomain: a string builtin applied outside the domain on which the engines
   agree (Ast.char_at_v / substr_v / concat_v): like a division fault, a partial operation about which nothing is claimed *)

Inductive res (A : Type) :=
  | Ok (a : A) (out : list N)
  | Fault (f : fault) (out : list N)
  | Stuck
  | NoFuel.
Arguments Ok {A}. Arguments Fault {A}. Arguments Stuck {A}. Arguments NoFuel {A}.

Definition bind {A B} (r : res A) (k : A -> list N -> res B) : res B :=
  match r with Ok a out => k a out | Fault f out => Fault f out | Stuck => Stuck | NoFuel => NoFuel end.

Definition env := list (ident * (bool * value)).          (* newest binding first; bool = mutable *)
Fixpoint lookup (x : ident) (e : env) : option (bool * value) :=
  match e with [] => None | (y, b) :: r => if N.eqb x y then Some b else lookup x r end.
(* assign to the newest binding of x; None if unbound or immutable *)
Fixpoint assign (x : ident) (v : value) (e : env) : option env :=
  match e with
  | [] => None
  | (y, (m, w)) :: r =>
      if N.eqb x y then (if m then Some ((y, (m, v)) :: r) else None)
      else match assign x v r with Some r' => Some ((y, (m, w)) :: r') | None => None end
  end.
(* leave a block: drop the bindings made inside it, keep updates to outer variables *)
Definition restore (n : nat) (e : env) : env := skipn (length e - n) e.

Inductive ctl := CNormal | CBreak | CContinue | CReturn (v : value).

Inductive opres := OV (v : value) | OF (f : fault) | OStuck.
Definition min64 : Z := -9223372036854775808.

Definition eval_unop (o : unop) (v : value) : opres :=
  match o, v with
  | UNeg, VInt a => OV (VInt (wrap64 (- a)))
  | UNot, VBool b => OV (VBool (negb b))
  | _, _ => OStuck
  end.

Definition value_eqb (a b : value) : option bool :=
  match a, b with
  | VInt x, VInt y => Some (Z.eqb x y)
  | VBool x, VBool y => Some (Bool.eqb x y)
  | VStr x, VStr y => Some (if list_eq_dec N.eq_dec x y then true else false)
  | _, _ => None
  end.

Definition eval_binop (o : binop) (a b : value) : opres :=
  match o, a, b with
  | BAdd, VInt x, VInt y => OV (VInt (wrap64 (x + y)))
  | BSub, VInt x, VInt y => OV (VInt (wrap64 (x - y)))
  | BMul, VInt x, VInt y => OV (VInt (wrap64 (x * y)))
  | BDiv, VInt x, VInt y =>
      if y =? 0 then OF FDivZero else if (x =? min64) && (y =? -1) then OF FDivOverflow else OV (VInt (Z.quot x y))
  | BMod, VInt x, VInt y =>
      if y =? 0 then OF FDivZero else if (x =? min64) && (y =? -1) then OF FDivOverflow else OV (VInt (Z.rem x y))
  | BEq, _, _ => match value_eqb a b with Some r => OV (VBool r) | None => OStuck end
  | BNe, _, _ => match value_eqb a b with Some r => OV (VBool (negb r)) | None => OStuck end
  | BLt, VInt x, VInt y => OV (VBool (x <? y))
  | BLe, VInt x, VInt y => OV (VBool (x <=? y))
  | BGt, VInt x, VInt y => OV (VBool (x >? y))
  | BGe, VInt x, VInt y => OV (VBool (x >=? y))
  | BAnd, VBool x, VBool y => OV (VBool (x && y))
  | BOr, VBool x, VBool y => OV (VBool (x || y))
  | _, _, _ => OStuck
  end.

(* string builtins (docs/STDLIB.md): byte strings, lengths and indexes in bytes *)
Definition eval_str1 (o : sop1) (v : value) : opres :=
  match o, v with
  | SLen, VStr s => OV (VInt (Z.of_nat (length s)))
  | SOfInt, VInt z => OV (VStr (print_Z z))
  | _, _ => OStuck
  end.
Definition eval_str2 (o : sop2) (a b : value) : opres :=
  match o, a, b with
  | SPlus, VStr x, VStr y | SConcat, VStr x, VStr y =>
      match concat_v x y with Some r => OV (VStr r) | None => OF FStrDomain end
  | SEquals, VStr x, VStr y => OV (VBool (if list_eq_dec N.eq_dec x y then true else false))
  | SContains, VStr x, VStr y => OV (VBool (containsb x y))
  | SCharAt, VStr x, VInt i => match char_at_v x i with Some c => OV (VInt c) | None => OF FStrDomain end
  | _, _, _ => OStuck
  end.
Definition eval_substr (s st ln : value) : opres :=
  match s, st, ln with
  | VStr x, VInt a, VInt b => match substr_v x a b with Some r => OV (VStr r) | None => OF FStrDomain end
  | _, _, _ => OStuck
  end.

Definition of_opres (r : opres) (out : list N) : res value :=
  match r with OV v => Ok v out | OF f => Fault f out | OStuck => Stuck end.

Fixpoint bind_params (ps : list (ident * ty)) (vs : list value) : option env :=
  match ps, vs with
  | [], [] => Some []
  | (x, _) :: ps', v :: vs' => match bind_params ps' vs' with Some e => Some ((x, (false, v)) :: e) | None => None end
  | _, _ => None
  end.

Section Run.
Variable fns : list fn.
Definition find_fn (f : ident) : option fn := find (fun d => N.eqb (fname d) f) fns.

Fixpoint eval_expr (fuel : nat) (genv en : env) (e : expr) (out : list N) {struct fuel} : res value :=
  match fuel with
  | O => NoFuel
  | S fuel' =>
    match e with
    | ENum z => Ok (VInt z) out
    | EBool b => Ok (VBool b) out
    | EStr s => Ok (VStr (unescape s)) out
    | EVar x =>
        match lookup x en with
        | Some (_, v) => Ok v out
        | None => match lookup x genv with Some (_, v) => Ok v out | None => Stuck end
        end
    | EUn o a => bind (eval_expr fuel' genv en a out) (fun v out1 => of_opres (eval_unop o v) out1)
    | EBin BAnd a b =>
        bind (eval_expr fuel' genv en a out) (fun va out1 =>
          match va with
          | VBool false => Ok (VBool false) out1                      (* right operand NOT evaluated *)
          | VBool true => bind (eval_expr fuel' genv en b out1) (fun vb out2 =>
                            match vb with VBool _ => Ok vb out2 | _ => Stuck end)
          | _ => Stuck end)
    | EBin BOr a b =>
        bind (eval_expr fuel' genv en a out) (fun va out1 =>
          match va with
          | VBool true => Ok (VBool true) out1
          | VBool false => bind (eval_expr fuel' genv en b out1) (fun vb out2 =>
                             match vb with VBool _ => Ok vb out2 | _ => Stuck end)
          | _ => Stuck end)
    | EBin o a b =>
        bind (eval_expr fuel' genv en a out) (fun va out1 =>
        bind (eval_expr fuel' genv en b out1) (fun vb out2 =>
        of_opres (eval_binop o va vb) out2))
    | ECond c a b =>
        bind (eval_expr fuel' genv en c out) (fun vc out1 =>
          match vc with
          | VBool true => eval_expr fuel' genv en a out1
          | VBool false => eval_expr fuel' genv en b out1
          | _ => Stuck end)
    | ECall f args =>
        let fix eval_args (l : list expr) (out0 : list N) : res (list value) :=
          match l with
          | [] => Ok [] out0
          | a :: r => bind (eval_expr fuel' genv en a out0) (fun v out1 =>
                      bind (eval_args r out1) (fun vs out2 => Ok (v :: vs) out2))
          end in
        bind (eval_args args out) (fun vs out1 =>
          match find_fn f with
          | None => Stuck
          | Some d =>
              match bind_params (fparams d) vs with
              | None => Stuck
              | Some en' =>      (* parameters enter scope in order: the last one is the newest binding *)
                  bind (exec_stmt fuel' genv (rev en') (fbody d) out1) (fun r out2 =>
                    match fst r with
                    | CReturn v => Ok v out2
                    | CNormal => Ok VVoid out2
                    | _ => Stuck end)
              end
          end)
    | EArr es =>
        let fix eval_elems (l : list expr) (out0 : list N) : res (list value) :=
          match l with
          | [] => Ok [] out0
          | a :: r => bind (eval_expr fuel' genv en a out0) (fun v out1 =>
                      bind (eval_elems r out1) (fun vs out2 => Ok (v :: vs) out2))
          end in
        bind (eval_elems es out) (fun vs out1 =>
          match ints_of vs with Some l => Ok (VArr l) out1 | None => Stuck end)
    | EAt a i =>
        bind (eval_expr fuel' genv en a out) (fun va out1 =>
        bind (eval_expr fuel' genv en i out1) (fun vi out2 =>
          match va, vi with
          | VArr l, VInt k => match arr_get l k with Some z => Ok (VInt z) out2 | None => Fault FOob out2 end
          | _, _ => Stuck end))
    | ELen a =>
        bind (eval_expr fuel' genv en a out) (fun va out1 =>
          match va with VArr l => Ok (VInt (Z.of_nat (length l))) out1 | _ => Stuck end)
    | EStr1 o a => bind (eval_expr fuel' genv en a out) (fun v out1 => of_opres (eval_str1 o v) out1)
    | EStr2 o a b =>
        bind (eval_expr fuel' genv en a out) (fun va out1 =>
        bind (eval_expr fuel' genv en b out1) (fun vb out2 =>
        of_opres (eval_str2 o va vb) out2))
    | ESubstr a b c =>
        bind (eval_expr fuel' genv en a out) (fun va out1 =>
        bind (eval_expr fuel' genv en b out1) (fun vb out2 =>
        bind (eval_expr fuel' genv en c out2) (fun vc out3 =>
        of_opres (eval_substr va vb vc) out3)))
    end
  end
with exec_stmt (fuel : nat) (genv en : env) (s : stmt) (out : list N) {struct fuel} : res (ctl * env) :=
  match fuel with
  | O => NoFuel
  | S fuel' =>
    match s with
    | SSkip => Ok (CNormal, en) out
    | SSeq s1 s2 =>
        bind (exec_stmt fuel' genv en s1 out) (fun r out1 =>
          match fst r with
          | CNormal => exec_stmt fuel' genv (snd r) s2 out1
          | _ => Ok r out1 end)
    | SLet m x _ e =>
        bind (eval_expr fuel' genv en e out) (fun v out1 => Ok (CNormal, (x, (m, v)) :: en) out1)
    | SSet x e =>
        bind (eval_expr fuel' genv en e out) (fun v out1 =>
          match assign x v en with Some en' => Ok (CNormal, en') out1 | None => Stuck end)
    | SIf c s1 s2 =>
        bind (eval_expr fuel' genv en c out) (fun vc out1 =>
          match vc with
          | VBool b =>
              bind (exec_stmt fuel' genv en (if b then s1 else s2) out1) (fun r out2 =>
                Ok (fst r, restore (length en) (snd r)) out2)
          | _ => Stuck end)
    | SWhile c body =>
        bind (eval_expr fuel' genv en c out) (fun vc out1 =>
          match vc with
          | VBool false => Ok (CNormal, en) out1
          | VBool true =>
              bind (exec_stmt fuel' genv en body out1) (fun r out2 =>
                let en2 := restore (length en) (snd r) in
                match fst r with
                | CBreak => Ok (CNormal, en2) out2
                | CReturn v => Ok (CReturn v, en2) out2
                | _ => exec_stmt fuel' genv en2 (SWhile c body) out2
                end)
          | _ => Stuck end)
    | SFor x lo hi body =>
        bind (eval_expr fuel' genv en lo out) (fun vlo out1 =>
        bind (eval_expr fuel' genv en hi out1) (fun vhi out2 =>
          match vlo, vhi with
          | VInt a, VInt b => exec_for fuel' genv en x a b body out2
          | _, _ => Stuck end))
    | SBreak => Ok (CBreak, en) out
    | SContinue => Ok (CContinue, en) out
    | SReturn None => Ok (CReturn VVoid, en) out
    | SReturn (Some e) => bind (eval_expr fuel' genv en e out) (fun v out1 => Ok (CReturn v, en) out1)
    | SPrint nl e =>
        bind (eval_expr fuel' genv en e out) (fun v out1 =>
          Ok (CNormal, en) (out1 ++ print_value v ++ (if nl then [10%N] else [])))
    | SAssert e =>
        bind (eval_expr fuel' genv en e out) (fun v out1 =>
          match v with
          | VBool true => Ok (CNormal, en) out1
          | VBool false => Fault FAssert out1
          | _ => Stuck end)
    | SExpr e => bind (eval_expr fuel' genv en e out) (fun _ out1 => Ok (CNormal, en) out1)
    end
  end
with exec_for (fuel : nat) (genv en : env) (x : ident) (i hi : Z) (body : stmt) (out : list N) {struct fuel}
  : res (ctl * env) :=
  match fuel with
  | O => NoFuel
  | S fuel' =>
      if i <? hi then
        bind (exec_stmt fuel' genv ((x, (false, VInt i)) :: en) body out) (fun r out1 =>
          let en1 := restore (length en) (snd r) in
          match fst r with
          | CBreak => Ok (CNormal, en1) out1
          | CReturn v => Ok (CReturn v, en1) out1
          | _ => exec_for fuel' genv en1 x (i + 1) hi body out1
          end)
      else Ok (CNormal, en) out
  end.

Fixpoint eval_globals (fuel : nat) (gs : list (ident * ty * expr)) (genv : env) (out : list N) : res env :=
  match gs with
  | [] => Ok genv out
  | (x, _, e) :: r =>
      bind (eval_expr fuel genv [] e out) (fun v out1 => eval_globals fuel r ((x, (false, v)) :: genv) out1)
  end.
End Run.

Inductive outcome :=
  | Done (out : list N) (exit : Z)
  | Faulted (f : fault) (out : list N)
  | StuckO
  | OutOfFuel.

Definition run_ref (fuel : nat) (p : program) : outcome :=
  match eval_globals (pfns p) fuel (pglobals p) [] [] with
  | Ok genv out0 =>
      match eval_expr (pfns p) fuel genv [] (ECall (pmain p) []) out0 with
      | Ok (VInt z) out => Done out (z mod 256)
      | Ok _ out => StuckO
      | Fault f out => Faulted f out
      | Stuck => StuckO
      | NoFuel => OutOfFuel
      end
  | Fault f out => Faulted f out
  | Stuck => StuckO
  | NoFuel => OutOfFuel
  end.
