(* Facts about the array operations of the reference semantics (Lang/Ref.v), stated on their own. *)
From Coq Require Import ZArith NArith List Bool.
From NV Require Import Lang.Ast Lang.Ref.
Import ListNotations.
Local Open Scope Z_scope.

(* (at a i): in range the element, out of range the fault -- for every array and every index in Z *)
Lemma at_in_range_or_fault fns fuel genv en a i out l k out1 out2 :
  eval_expr fns fuel genv en a out = Ok (VArr l) out1 ->
  eval_expr fns fuel genv en i out1 = Ok (VInt k) out2 ->
  eval_expr fns (S fuel) genv en (EAt a i) out =
  if ((0 <=? k) && (k <? Z.of_nat (length l)))%bool then Ok (VInt (nth (Z.to_nat k) l 0)) out2 else Fault FOob out2.
Proof.
  intros Ha Hi. cbn [eval_expr]. rewrite Ha. cbn [bind]. rewrite Hi. cbn [bind].
  unfold arr_get. destruct ((0 <=? k) && (k <? Z.of_nat (length l)))%bool; reflexivity.
Qed.

(* the elements of a literal are evaluated left to right, each exactly once *)
Lemma arr_two_elements fns fuel genv en a b out va o1 vb o2 :
  eval_expr fns fuel genv en a out = Ok (VInt va) o1 ->
  eval_expr fns fuel genv en b o1 = Ok (VInt vb) o2 ->
  eval_expr fns (S fuel) genv en (EArr [a; b]) out = Ok (VArr [va; vb]) o2.
Proof. intros Ha Hb. cbn [eval_expr]. rewrite Ha. cbn [bind]. rewrite Hb. reflexivity. Qed.
