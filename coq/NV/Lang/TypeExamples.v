(* Closed example programs used by the property files to show that hypotheses are satisfiable. Definitions only. *)
From Coq Require Import ZArith NArith List Bool.
From NV Require Import Lang.Ast Lang.Types Lang.Mutate.
Import ListNotations.
Local Open Scope N_scope.

(* let v1: int = 5
   fn f2(v3: int, v4: bool) -> int { if v4 { return (+ v3 v1) } else { let mut v5: int = 0  while (< v5 v3) { set v5 (+ v5 1) }  return v5 } }
   fn f6(v7: int) -> void { for v8 in (range 0 v7) { if (== v8 2) { continue }  (println v8) } }
   fn main() -> int { (f6 4)  let v9: int = (f2 3 false)  (println (cond ((> v9 2) "big") (else "small")))  assert (== v9 3)  return (f2 1 true) } *)
Definition ex_prog : program :=
  {| pglobals := [(1, TInt, ENum 5)];
     pfns := [
       {| fname := 2; fparams := [(3, TInt); (4, TBool)]; fret := TInt;
          fbody := SIf (EVar 4) (SReturn (Some (EBin BAdd (EVar 3) (EVar 1))))
                     (SSeq (SLet true 5 TInt (ENum 0))
                     (SSeq (SWhile (EBin BLt (EVar 5) (EVar 3)) (SSet 5 (EBin BAdd (EVar 5) (ENum 1))))
                           (SReturn (Some (EVar 5))))) |};
       {| fname := 6; fparams := [(7, TInt)]; fret := TVoid;
          fbody := SFor 8 (ENum 0) (EVar 7) (SSeq (SIf (EBin BEq (EVar 8) (ENum 2)) SContinue SSkip) (SPrint true (EVar 8))) |};
       {| fname := 0; fparams := []; fret := TInt;
          fbody := SSeq (SExpr (ECall 6 [ENum 4]))
                  (SSeq (SLet false 9 TInt (ECall 2 [ENum 3; EBool false]))
                  (SSeq (SPrint true (ECond (EBin BGt (EVar 9) (ENum 2)) (EStr [98;105;103]) (EStr [115;109;97;108;108])))
                  (SSeq (SAssert (EBin BEq (EVar 9) (ENum 3)))
                        (SReturn (Some (ECall 2 [ENum 1; EBool true])))))) |} ];
     pmain := 0 |}.

(* the test (> v9 2) of the cond in main gets an operand of the wrong type *)
Definition ex_pos_operand : position := {| p_fn := 2; p_path := [1%nat; 1%nat; 0%nat; 0%nat; 0%nat]; p_arg := 1 |}.

(* strings as computed values:
   fn f2(v3: string, v4: int) -> int { return (+ (char_at (str_concat v3 (int_to_string v4)) 0) (str_length (str_substring v3 0 2))) }
   fn main() -> int { return (f2 (+ "a" "b") 7) } *)
Definition ex_strp : program :=
  {| pglobals := [];
     pfns := [
       {| fname := 2; fparams := [(3, TStr); (4, TInt)]; fret := TInt;
          fbody := SReturn (Some (EBin BAdd (EStr2 SCharAt (EStr2 SConcat (EVar 3) (EStr1 SOfInt (EVar 4))) (ENum 0))
                                            (EStr1 SLen (ESubstr (EVar 3) (ENum 0) (ENum 2))))) |};
       {| fname := 0; fparams := []; fret := TInt; fbody := SReturn (Some (ECall 2 [EStr2 SPlus (EStr [97]) (EStr [98]); ENum 7])) |} ];
     pmain := 0 |}.
(* every string builtin of ex_strp, each operand: char_at (string, index), str_concat (both), int_to_string, str_length,
   str_substring (string, start), + on strings (both) *)
Definition ex_strp_positions : list position :=
  [ {| p_fn := 0; p_path := [0%nat; 0%nat]; p_arg := 0 |};              {| p_fn := 0; p_path := [0%nat; 0%nat]; p_arg := 1 |};
    {| p_fn := 0; p_path := [0%nat; 0%nat; 0%nat]; p_arg := 0 |};       {| p_fn := 0; p_path := [0%nat; 0%nat; 0%nat]; p_arg := 1 |};
    {| p_fn := 0; p_path := [0%nat; 0%nat; 0%nat; 1%nat]; p_arg := 0 |};
    {| p_fn := 0; p_path := [0%nat; 1%nat]; p_arg := 0 |};
    {| p_fn := 0; p_path := [0%nat; 1%nat; 0%nat]; p_arg := 0 |};       {| p_fn := 0; p_path := [0%nat; 1%nat; 0%nat]; p_arg := 1 |};
    {| p_fn := 1; p_path := [0%nat; 0%nat]; p_arg := 0 |};              {| p_fn := 1; p_path := [0%nat; 0%nat]; p_arg := 1 |} ].
