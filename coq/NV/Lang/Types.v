(* The REFERENCE type checker of the core language: an executable transcription of the static rules of
   docs/SPECIFICATION.md sections 3 (types, "I catch all type errors at compile time"), 4.4-4.8 (operator and
   call signatures, both branches of a conditional have the same type), 5 (let/set/while/for/return), 6
   (parameters are immutable, a non-void function returns on every path), 8.1-8.4 (static block scoping,
   shadowing, no implicit conversions) and 9.4 (main : () -> int) for the fragment of Lang/Ast.v.
   It deliberately shares no code with src/typechecker.c: it is the ORACLE the real checker is compared with
   (tools/props/c04.py, c05.py).  Definitions only; soundness is Lang/TypeSound.v. *)
From Coq Require Import ZArith NArith List Bool.
From NV Require Import Lang.Ast.
Import ListNotations.

(* typing environments: newest binding first, like Ref.env; bool = mutable *)
Definition tenv := list (ident * (bool * ty)).
Fixpoint tlookup (x : ident) (L : tenv) : option (bool * ty) :=
  match L with [] => None | (y, b) :: r => if N.eqb x y then Some b else tlookup x r end.

(* function signatures, in program order; lookup = first match, like Ref.find_fn *)
Definition sigs := list (ident * (list ty * ty)).
Fixpoint slookup (f : ident) (F : sigs) : option (list ty * ty) :=
  match F with [] => None | (g, s) :: r => if N.eqb f g then Some s else slookup f r end.

Fixpoint nodupb (l : list ident) : bool :=
  match l with [] => true | x :: r => negb (existsb (N.eqb x) r) && nodupb r end.

Definition is_void (t : ty) : bool := match t with TVoid => true | _ => false end.
Definition is_arr (t : ty) : bool := match t with TArr => true | _ => false end.

Definition ty_unop (o : unop) (t : ty) : option ty :=
  match o, t with
  | UNeg, TInt => Some TInt
  | UNot, TBool => Some TBool
  | _, _ => None
  end.

Definition ty_binop (o : binop) (a b : ty) : option ty :=
  match o with
  | BAdd | BSub | BMul | BDiv | BMod => match a, b with TInt, TInt => Some TInt | _, _ => None end
  | BLt | BLe | BGt | BGe => match a, b with TInt, TInt => Some TBool | _, _ => None end
  | BEq | BNe => if ty_eqb a b && negb (is_void a) && negb (is_arr a) then Some TBool else None
      (* (T, T) -> bool for the scalar types and strings; arrays have no equality (the engines compare references) *)
  | BAnd | BOr => match a, b with TBool, TBool => Some TBool | _, _ => None end
  end.

Definition ty_str1 (o : sop1) (t : ty) : option ty :=
  match o, t with
  | SLen, TStr => Some TInt                                      (* str_length : string -> int *)
  | SOfInt, TInt => Some TStr                                    (* int_to_string : int -> string *)
  | _, _ => None
  end.
Definition ty_str2 (o : sop2) (a b : ty) : option ty :=
  match o, a, b with
  | SPlus, TStr, TStr | SConcat, TStr, TStr => Some TStr         (* + on strings, str_concat *)
  | SEquals, TStr, TStr | SContains, TStr, TStr => Some TBool
  | SCharAt, TStr, TInt => Some TInt                             (* char_at : (string, int) -> int *)
  | _, _, _ => None
  end.

Section Check.
Variable F : sigs.
Variable G : tenv.           (* globals *)

Fixpoint ty_expr (L : tenv) (e : expr) {struct e} : option ty :=
  match e with
  | ENum _ => Some TInt
  | EBool _ => Some TBool
  | EStr _ => Some TStr
  | EVar x =>
      match tlookup x L with
      | Some (_, t) => Some t
      | None => match tlookup x G with Some (_, t) => Some t | None => None end
      end
  | EUn o a => match ty_expr L a with Some t => ty_unop o t | None => None end
  | EBin o a b =>
      match ty_expr L a, ty_expr L b with
      | Some ta, Some tb => ty_binop o ta tb
      | _, _ => None
      end
  | ECall f args =>
      match slookup f F with
      | Some (ps, r) =>
          if (fix go (l : list expr) (ts : list ty) {struct l} : bool :=
                match l, ts with
                | [], [] => true
                | a :: l', t :: ts' => match ty_expr L a with Some t' => ty_eqb t' t && go l' ts' | None => false end
                | _, _ => false                                  (* arity *)
                end) args ps
          then Some r else None
      | None => None
      end
  | ECond c a b =>
      match ty_expr L c, ty_expr L a, ty_expr L b with
      | Some TBool, Some ta, Some tb => if ty_eqb ta tb then Some ta else None
      | _, _, _ => None
      end
  | EArr es =>                                                    (* [e1, ..., en] : array<int> when every ei : int *)
      if (fix go (l : list expr) {struct l} : bool :=
            match l with
            | [] => true
            | a :: l' => match ty_expr L a with Some TInt => go l' | _ => false end
            end) es
      then Some TArr else None
  | EAt a i =>                                                    (* at : (array<int>, int) -> int *)
      match ty_expr L a, ty_expr L i with
      | Some TArr, Some TInt => Some TInt
      | _, _ => None
      end
  | ELen a => match ty_expr L a with Some TArr => Some TInt | _ => None end
  | EStr1 o a => match ty_expr L a with Some t => ty_str1 o t | None => None end
  | EStr2 o a b =>
      match ty_expr L a, ty_expr L b with
      | Some ta, Some tb => ty_str2 o ta tb
      | _, _ => None
      end
  | ESubstr a b c =>                                             (* str_substring : (string, int, int) -> string *)
      match ty_expr L a, ty_expr L b, ty_expr L c with
      | Some TStr, Some TInt, Some TInt => Some TStr
      | _, _, _ => None
      end
  end.

Definition expr_has (L : tenv) (e : expr) (t : ty) : bool :=
  match ty_expr L e with Some t' => ty_eqb t' t | None => false end.

(* statements: the result is the scope after the statement (lets extend it); blocks (bodies of if/while/for)
   are checked in the current scope and their declarations are dropped at the end of the block.
   ret = return type of the enclosing function, inl = inside a loop *)
Fixpoint wt_stmt (ret : ty) (inl : bool) (L : tenv) (s : stmt) {struct s} : option tenv :=
  match s with
  | SSkip => Some L
  | SSeq a b => match wt_stmt ret inl L a with Some L1 => wt_stmt ret inl L1 b | None => None end
  | SLet m x t e => if expr_has L e t && negb (is_void t) then Some ((x, (m, t)) :: L) else None
  | SSet x e =>
      match tlookup x L with
      | Some (true, t) => if expr_has L e t then Some L else None
      | _ => None                                   (* unknown, a global constant, a parameter, a loop variable, an immutable let *)
      end
  | SIf c a b =>
      if expr_has L c TBool then
        match wt_stmt ret inl L a, wt_stmt ret inl L b with Some _, Some _ => Some L | _, _ => None end
      else None
  | SWhile c b =>
      if expr_has L c TBool then match wt_stmt ret true L b with Some _ => Some L | None => None end else None
  | SFor x lo hi b =>
      if expr_has L lo TInt && expr_has L hi TInt then
        match wt_stmt ret true ((x, (false, TInt)) :: L) b with Some _ => Some L | None => None end
      else None
  | SBreak | SContinue => if inl then Some L else None
  | SReturn None => if is_void ret then Some L else None
  | SReturn (Some e) => if expr_has L e ret then Some L else None
  | SPrint _ e => match ty_expr L e with Some t => if is_void t then None else Some L | None => None end
  | SAssert e => if expr_has L e TBool then Some L else None
  | SExpr e => match ty_expr L e with Some _ => Some L | None => None end
  end.

(* every path through s ends in a return *)
Fixpoint returns (s : stmt) : bool :=
  match s with
  | SReturn _ => true
  | SSeq a b => returns a || returns b
  | SIf _ a b => returns a && returns b
  | _ => false
  end.

(* parameters enter the scope in declaration order: the last one is the newest binding (Ref: rev of bind_params) *)
Definition params_tenv (ps : list (ident * ty)) : tenv := rev (map (fun p => (fst p, (false, snd p))) ps).

Definition wt_fn (d : fn) : bool :=
  (forallb (fun p => negb (is_void (snd p))) (fparams d) && nodupb (map fst (fparams d))) &&     (* parameters: typed, distinct names *)
  match wt_stmt (fret d) false (params_tenv (fparams d)) (fbody d) with Some _ => true | None => false end &&
  (is_void (fret d) || returns (fbody d)).
End Check.

Definition sig_of (d : fn) : ident * (list ty * ty) := (fname d, (map snd (fparams d), fret d)).
Definition sigs_of (ds : list fn) : sigs := map sig_of ds.

(* top-level constants: each initialiser is a call-free expression over the constants declared before it *)
Fixpoint wt_globals (Gacc : tenv) (gs : list (ident * ty * expr)) : bool :=
  match gs with
  | [] => true
  | (x, t, e) :: r => expr_has [] Gacc [] e t && negb (is_void t) && wt_globals ((x, (false, t)) :: Gacc) r
  end.
Fixpoint gtenv (gs : list (ident * ty * expr)) (acc : tenv) : tenv :=
  match gs with [] => acc | (x, t, _) :: r => gtenv r ((x, (false, t)) :: acc) end.


Definition wt (p : program) : bool :=
  let F := sigs_of (pfns p) in
  let G := gtenv (pglobals p) [] in
  wt_globals [] (pglobals p) &&
  forallb (wt_fn F G) (pfns p) &&
  nodupb (map fname (pfns p)) &&
  match slookup (pmain p) F with Some ([], TInt) => true | _ => false end.
