(* Every mutant of the catalogue Lang/Mutate.mut is rejected by the reference type checker -- for ALL programs, rules and
   positions (no hypothesis on the original program is needed: each rewrite plants a construct that is ill-typed in
   every scope the checker can reach it with).  This is what makes "the real tools must refuse every mutant" a sound
   oracle for C05. *)
From Coq Require Import ZArith NArith List Bool Lia.
From NV Require Import Lang.Ast Lang.Types Lang.Mutate Lang.TypeSound.
Import ListNotations.

(* ------------------------------------------------------------------ induction over expressions (nested lists) *)
Section ExprInd.
Variable P : expr -> Prop.
Hypothesis Hnum : forall z, P (ENum z).
Hypothesis Hbool : forall b, P (EBool b).
Hypothesis Hstr : forall s, P (EStr s).
Hypothesis Hvar : forall x, P (EVar x).
Hypothesis Hun : forall o a, P a -> P (EUn o a).
Hypothesis Hbin : forall o a b, P a -> P b -> P (EBin o a b).
Hypothesis Hcall : forall f args, Forall P args -> P (ECall f args).
Hypothesis Hcond : forall c a b, P c -> P a -> P b -> P (ECond c a b).
Hypothesis Harr : forall es, Forall P es -> P (EArr es).
Hypothesis Hat : forall a i, P a -> P i -> P (EAt a i).
Hypothesis Hlen : forall a, P a -> P (ELen a).
Hypothesis Hstr1 : forall o a, P a -> P (EStr1 o a).
Hypothesis Hstr2 : forall o a b, P a -> P b -> P (EStr2 o a b).
Hypothesis Hsubstr : forall a b c, P a -> P b -> P c -> P (ESubstr a b c).
Fixpoint expr_ind2 (e : expr) : P e :=
  match e with
  | ENum z => Hnum z | EBool b => Hbool b | EStr s => Hstr s | EVar x => Hvar x
  | EUn o a => Hun o a (expr_ind2 a)
  | EBin o a b => Hbin o a b (expr_ind2 a) (expr_ind2 b)
  | ECall f args =>
      Hcall f args ((fix go (l : list expr) : Forall P l :=
                       match l with [] => Forall_nil P | a :: r => Forall_cons a (expr_ind2 a) (go r) end) args)
  | ECond c a b => Hcond c a b (expr_ind2 c) (expr_ind2 a) (expr_ind2 b)
  | EArr es =>
      Harr es ((fix go (l : list expr) : Forall P l :=
                  match l with [] => Forall_nil P | a :: r => Forall_cons a (expr_ind2 a) (go r) end) es)
  | EAt a i => Hat a i (expr_ind2 a) (expr_ind2 i)
  | ELen a => Hlen a (expr_ind2 a)
  | EStr1 o a => Hstr1 o a (expr_ind2 a)
  | EStr2 o a b => Hstr2 o a b (expr_ind2 a) (expr_ind2 b)
  | ESubstr a b c => Hsubstr a b c (expr_ind2 a) (expr_ind2 b) (expr_ind2 c)
  end.
End ExprInd.

(* ------------------------------------------------------------------ literals *)
Lemma wrong_lit_ty F G L t k : exists t', ty_expr F G L (wrong_lit t k) = Some t' /\ t' <> t.
Proof. destruct t; simpl; destruct (N.even k); simpl; eexists; (split; [reflexivity|discriminate]). Qed.

Arguments wrong_lit : simpl never.

Lemma wrong_lit_has F G L t k : expr_has F G L (wrong_lit t k) t = false.
Proof.
  unfold expr_has. destruct (wrong_lit_ty F G L t k) as [t' [E N]]. rewrite E.
  destruct (ty_eqb t' t) eqn:Q; [|reflexivity]. apply ty_eqb_eq in Q. contradiction.
Qed.

Lemma expr_has_none F G L e t : ty_expr F G L e = None -> expr_has F G L e t = false.
Proof. unfold expr_has. intros ->. reflexivity. Qed.

Lemma abs_ty_sound F G L e T t : abs_ty e = Some T -> ty_expr F G L e = Some t -> t = T.
Proof.
  destruct e; simpl; try discriminate.
  - intros H1 H2. congruence.
  - intros H1 H2. congruence.
  - intros H1 H2. congruence.
  - destruct o; intros H1; injection H1 as <-; destruct (ty_expr F G L e) as [ta|]; try discriminate;
      destruct ta; simpl; congruence.
  - intros H1; injection H1 as <-.
    destruct (ty_expr F G L e1) as [ta|]; [|discriminate]. destruct (ty_expr F G L e2) as [tb|]; [|discriminate].
    destruct o; simpl; try (destruct ta, tb; simpl; congruence);
      try (destruct (ty_eqb ta tb && negb (is_void ta) && negb (is_arr ta)); congruence).
Qed.

(* ------------------------------------------------------------------ argument lists *)
Lemma args_ok_length F G L : forall args ps, args_ok F G L args ps = true -> length args = length ps.
Proof.
  induction args as [|a l IH]; intros [|t ts]; simpl; try discriminate; [reflexivity|].
  destruct (ty_expr F G L a); [|discriminate]. intros H. apply andb_true_iff in H. destruct H as [_ H].
  f_equal. apply IH, H.
Qed.

Lemma args_ok_bad_elem F G L a' : ty_expr F G L a' = None ->
  forall pre post ps, args_ok F G L (pre ++ a' :: post) ps = false.
Proof.
  intros Ha. induction pre as [|b pre IH]; intros post [|t ts]; simpl; try reflexivity.
  - rewrite Ha. reflexivity.
  - destruct (ty_expr F G L b); [|reflexivity]. rewrite IH. apply andb_false_r.
Qed.

Lemma args_ok_wrong_lit F G L : forall i args ps t k,
  nth_error ps i = Some t -> i < length args -> args_ok F G L (set_nth_e i (wrong_lit t k) args) ps = false.
Proof.
  induction i as [|i IH]; intros [|a l] [|t0 ts] t k Hn Hl; simpl in *; try discriminate; try lia.
  - injection Hn as ->. destruct (wrong_lit_ty F G L t k) as [t' [E N]]. rewrite E.
    destruct (ty_eqb t' t) eqn:Q; [apply ty_eqb_eq in Q; contradiction|reflexivity].
  - destruct (ty_expr F G L a); [|reflexivity]. rewrite (IH l ts t k Hn); [apply andb_false_r|lia].
Qed.

(* an array literal with an ill-typed element is ill-typed *)
Lemma elems_ok_bad_elem F G L a' : ty_expr F G L a' = None ->
  forall pre post, elems_ok F G L (pre ++ a' :: post) = false.
Proof.
  intros Ha. induction pre as [|b pre IH]; intros post; simpl.
  - rewrite Ha. reflexivity.
  - destruct (ty_expr F G L b) as [[| | | |]|]; try reflexivity. apply IH.
Qed.

(* ------------------------------------------------------------------ contexts *)
Lemma option_map_some {A B} (f : A -> B) o b : option_map f o = Some b -> exists a, o = Some a /\ b = f a.
Proof. destruct o; simpl; [|discriminate]. intros H. injection H as <-. eauto. Qed.

Section Ctx.
Variable F : sigs.
Variable G : tenv.
Variable Q : tenv -> Prop.
Variable fe : expr -> option expr.
Hypothesis Hfe : forall e0 e0' L, fe e0 = Some e0' -> Q L -> ty_expr F G L e0' = None.

Lemma at_expr_ill : forall e pos e' L, at_expr pos fe e = Some e' -> Q L -> ty_expr F G L e' = None.
Proof.
  induction e as [z|b0|s0|x|o a IHa|o a b IHa IHb|f args IHargs|c a b IHc IHa IHb|es IHes|a i IHa IHi|a IHa
                  |so a IHa|so a b IHa IHb|a b c IHa IHb IHc] using expr_ind2;
    intros pos e' L Hat HQL; (destruct pos as [|k pos']; [exact (Hfe _ _ _ Hat HQL)|]);
    simpl in Hat; try discriminate Hat.
  - (* un *)
    destruct k; [|discriminate]. apply option_map_some in Hat. destruct Hat as [a' [Ha ->]].
    simpl. rewrite (IHa _ _ _ Ha HQL). reflexivity.
  - (* bin *)
    destruct k as [|[|k]]; try discriminate; apply option_map_some in Hat; destruct Hat as [a' [Ha ->]]; simpl.
    + rewrite (IHa _ _ _ Ha HQL). reflexivity.
    + rewrite (IHb _ _ _ Ha HQL). destruct (ty_expr F G L a); reflexivity.
  - (* call *)
    apply option_map_some in Hat. destruct Hat as [args' [Hgo ->]].
    assert (S : exists pre a' post, args' = pre ++ a' :: post /\ ty_expr F G L a' = None).
    { revert k args' Hgo. induction IHargs as [|a l Ha Hl IH]; intros k args' Hgo; [discriminate|].
      destruct k as [|k].
      - apply option_map_some in Hgo. destruct Hgo as [a' [E ->]].
        exists [], a', l. split; [reflexivity|]. exact (Ha _ _ _ E HQL).
      - apply option_map_some in Hgo. destruct Hgo as [r' [E ->]].
        destruct (IH _ _ E) as [pre [b' [post [-> Hb]]]]. exists (a :: pre), b', post. split; [reflexivity|exact Hb]. }
    destruct S as [pre [a' [post [-> Ha']]]].
    rewrite ty_expr_call. destruct (slookup f F) as [[ps r]|]; [|reflexivity].
    rewrite (args_ok_bad_elem F G L a' Ha'). reflexivity.
  - (* cond *)
    destruct k as [|[|[|k]]]; try discriminate; apply option_map_some in Hat; destruct Hat as [a' [Ha ->]]; simpl.
    + rewrite (IHc _ _ _ Ha HQL). reflexivity.
    + rewrite (IHa _ _ _ Ha HQL). destruct (ty_expr F G L c) as [[| | | |]|]; reflexivity.
    + rewrite (IHb _ _ _ Ha HQL). destruct (ty_expr F G L c) as [[| | | |]|]; try reflexivity.
      destruct (ty_expr F G L a); reflexivity.
  - (* array literal *)
    apply option_map_some in Hat. destruct Hat as [es' [Hgo ->]].
    assert (S : exists pre a' post, es' = pre ++ a' :: post /\ ty_expr F G L a' = None).
    { revert k es' Hgo. induction IHes as [|a l Ha Hl IH]; intros k es' Hgo; [discriminate|].
      destruct k as [|k].
      - apply option_map_some in Hgo. destruct Hgo as [a' [E ->]].
        exists [], a', l. split; [reflexivity|]. exact (Ha _ _ _ E HQL).
      - apply option_map_some in Hgo. destruct Hgo as [r' [E ->]].
        destruct (IH _ _ E) as [pre [b' [post [-> Hb]]]]. exists (a :: pre), b', post. split; [reflexivity|exact Hb]. }
    destruct S as [pre [a' [post [-> Ha']]]].
    rewrite ty_expr_arr. rewrite (elems_ok_bad_elem F G L a' Ha'). reflexivity.
  - (* at *)
    destruct k as [|[|k]]; try discriminate; apply option_map_some in Hat; destruct Hat as [a' [Ha ->]]; simpl.
    + rewrite (IHa _ _ _ Ha HQL). reflexivity.
    + rewrite (IHi _ _ _ Ha HQL). destruct (ty_expr F G L a) as [[| | | |]|]; reflexivity.
  - (* array_length *)
    destruct k; [|discriminate]. apply option_map_some in Hat. destruct Hat as [a' [Ha ->]].
    simpl. rewrite (IHa _ _ _ Ha HQL). reflexivity.
  - (* unary string builtin *)
    destruct k; [|discriminate]. apply option_map_some in Hat. destruct Hat as [a' [Ha ->]].
    simpl. rewrite (IHa _ _ _ Ha HQL). reflexivity.
  - (* binary string builtin *)
    destruct k as [|[|k]]; try discriminate; apply option_map_some in Hat; destruct Hat as [a' [Ha ->]]; simpl.
    + rewrite (IHa _ _ _ Ha HQL). reflexivity.
    + rewrite (IHb _ _ _ Ha HQL). destruct (ty_expr F G L a); reflexivity.
  - (* str_substring *)
    destruct k as [|[|[|k]]]; try discriminate; apply option_map_some in Hat; destruct Hat as [a' [Ha ->]]; simpl.
    + rewrite (IHa _ _ _ Ha HQL). reflexivity.
    + rewrite (IHb _ _ _ Ha HQL). destruct (ty_expr F G L a) as [[| | | |]|]; reflexivity.
    + rewrite (IHc _ _ _ Ha HQL). destruct (ty_expr F G L a) as [[| | | |]|]; try reflexivity.
      destruct (ty_expr F G L b) as [[| | | |]|]; reflexivity.
Qed.

Variable ret : ty.
Variable fs : stmt -> option stmt.
Variable B : ident -> Prop.
Hypothesis HQ : forall L x m t, Q L -> B x -> Q ((x, (m, t)) :: L).
Hypothesis Hfs : forall s0 s0' inl L, fs s0 = Some s0' -> Q L -> Forall B (binders s0) ->
  wt_stmt F G ret inl L s0' = None.

Lemma wt_stmt_Q : forall s inl L L', wt_stmt F G ret inl L s = Some L' -> Q L -> Forall B (binders s) -> Q L'.
Proof.
  induction s; intros inl L L' H HL HB; simpl in *;
    try (injection H as <-; exact HL).
  - apply Forall_app in HB. destruct HB as [HB1 HB2].
    destruct (wt_stmt F G ret inl L s1) as [L1|] eqn:E1; [|discriminate]. eapply IHs2; eauto.
  - destruct (expr_has F G L e t && negb (is_void t)); [|discriminate]. injection H as <-.
    apply HQ; [exact HL|]. inversion HB; assumption.
  - destruct (tlookup x L) as [[[|] t]|]; try discriminate. destruct (expr_has F G L e t); [|discriminate].
    injection H as <-. exact HL.
  - destruct (expr_has F G L c TBool); [|discriminate].
    destruct (wt_stmt F G ret inl L s1); [|discriminate]. destruct (wt_stmt F G ret inl L s2); [|discriminate].
    injection H as <-. exact HL.
  - destruct (expr_has F G L c TBool); [|discriminate]. destruct (wt_stmt F G ret true L s); [|discriminate].
    injection H as <-. exact HL.
  - destruct (expr_has F G L lo TInt && expr_has F G L hi TInt); [|discriminate].
    destruct (wt_stmt F G ret true ((x, (false, TInt)) :: L) s); [|discriminate]. injection H as <-. exact HL.
  - destruct inl; [|discriminate]. injection H as <-. exact HL.
  - destruct inl; [|discriminate]. injection H as <-. exact HL.
  - destruct e as [e|]; [destruct (expr_has F G L e ret)|destruct (is_void ret)]; try discriminate; injection H as <-; exact HL.
  - destruct (ty_expr F G L e) as [t|]; [|discriminate]. destruct (is_void t); [discriminate|]. injection H as <-. exact HL.
  - destruct (expr_has F G L e TBool); [|discriminate]. injection H as <-. exact HL.
  - destruct (ty_expr F G L e); [|discriminate]. injection H as <-. exact HL.
Qed.

Lemma at_stmt_ill : forall s pos s' inl L, at_stmt pos fe fs s = Some s' -> Q L -> Forall B (binders s) ->
  wt_stmt F G ret inl L s' = None.
Proof.
  induction s; intros pos s' inl L H HL HB; (destruct pos as [|k pos']; [exact (Hfs _ _ _ _ H HL HB)|]);
    simpl in H; try discriminate H.
  - (* seq *)
    simpl in HB. apply Forall_app in HB. destruct HB as [HB1 HB2].
    destruct k as [|[|k]]; try discriminate; apply option_map_some in H; destruct H as [a' [Ha ->]]; simpl.
    + rewrite (IHs1 _ _ _ _ Ha HL HB1). reflexivity.
    + destruct (wt_stmt F G ret inl L s1) as [L1|] eqn:E1; [|reflexivity].
      apply (IHs2 _ _ _ _ Ha); [|exact HB2]. eapply wt_stmt_Q; eauto.
  - (* let *)
    destruct k; [|discriminate]. apply option_map_some in H. destruct H as [e' [He ->]]. simpl.
    rewrite (expr_has_none _ _ _ _ _ (at_expr_ill _ _ _ _ He HL)). reflexivity.
  - (* set *)
    destruct k; [|discriminate]. apply option_map_some in H. destruct H as [e' [He ->]]. simpl.
    destruct (tlookup x L) as [[[|] t]|]; try reflexivity.
    rewrite (expr_has_none _ _ _ _ _ (at_expr_ill _ _ _ _ He HL)). reflexivity.
  - (* if *)
    simpl in HB. apply Forall_app in HB. destruct HB as [HB1 HB2].
    destruct k as [|[|[|k]]]; try discriminate; apply option_map_some in H; destruct H as [a' [Ha ->]]; simpl.
    + rewrite (expr_has_none _ _ _ _ _ (at_expr_ill _ _ _ _ Ha HL)). reflexivity.
    + rewrite (IHs1 _ _ _ _ Ha HL HB1). destruct (expr_has F G L c TBool); reflexivity.
    + rewrite (IHs2 _ _ _ _ Ha HL HB2). destruct (expr_has F G L c TBool); [|reflexivity].
      destruct (wt_stmt F G ret inl L s1); reflexivity.
  - (* while *)
    destruct k as [|[|k]]; try discriminate; apply option_map_some in H; destruct H as [a' [Ha ->]]; simpl.
    + rewrite (expr_has_none _ _ _ _ _ (at_expr_ill _ _ _ _ Ha HL)). reflexivity.
    + rewrite (IHs _ _ _ _ Ha HL HB). destruct (expr_has F G L c TBool); reflexivity.
  - (* for *)
    simpl in HB. inversion HB as [|x0 l0 Hx Hb]; subst.
    destruct k as [|[|[|k]]]; try discriminate; apply option_map_some in H; destruct H as [a' [Ha ->]]; simpl.
    + rewrite (expr_has_none _ _ _ _ _ (at_expr_ill _ _ _ _ Ha HL)). reflexivity.
    + rewrite (expr_has_none _ _ _ _ _ (at_expr_ill _ _ _ _ Ha HL)). rewrite andb_false_r. reflexivity.
    + rewrite (IHs _ _ _ _ Ha (HQ _ _ _ _ HL Hx) Hb).
      destruct (expr_has F G L lo TInt && expr_has F G L hi TInt); reflexivity.
  - (* return *)
    destruct e as [e|]; [|discriminate]. destruct k; [|discriminate].
    apply option_map_some in H. destruct H as [e' [He ->]]. simpl.
    rewrite (expr_has_none _ _ _ _ _ (at_expr_ill _ _ _ _ He HL)). reflexivity.
  - (* print *)
    destruct k; [|discriminate]. apply option_map_some in H. destruct H as [e' [He ->]]. simpl.
    rewrite (at_expr_ill _ _ _ _ He HL). reflexivity.
  - (* assert *)
    destruct k; [|discriminate]. apply option_map_some in H. destruct H as [e' [He ->]]. simpl.
    rewrite (expr_has_none _ _ _ _ _ (at_expr_ill _ _ _ _ He HL)). reflexivity.
  - (* expression statement *)
    destruct k; [|discriminate]. apply option_map_some in H. destruct H as [e' [He ->]]. simpl.
    rewrite (at_expr_ill _ _ _ _ He HL). reflexivity.
Qed.
End Ctx.

(* ------------------------------------------------------------------ the local rewrites are ill-typed *)
Definition anyL : tenv -> Prop := fun _ => True.
Definition anyB : ident -> Prop := fun _ => True.
Lemma anyB_all l : Forall anyB l.
Proof. induction l; constructor; auto; exact I. Qed.

Lemma arith_cmp_int o ta tb t : is_arith_or_cmp o = true -> ty_binop o ta tb = Some t -> ta = TInt /\ tb = TInt.
Proof. destruct o; simpl; try discriminate; intros _; destruct ta, tb; try discriminate; auto. Qed.
Lemma logic_bool o ta tb t : is_logic o = true -> ty_binop o ta tb = Some t -> ta = TBool /\ tb = TBool.
Proof. destruct o; simpl; try discriminate; intros _; destruct ta, tb; try discriminate; auto. Qed.
Lemma eq_same o ta tb t : is_arith_or_cmp o = false -> is_logic o = false -> ty_binop o ta tb = Some t -> ta = tb.
Proof.
  destruct o; simpl; try discriminate; intros _ _; destruct (ty_eqb ta tb) eqn:Q; simpl; try discriminate;
    intros _; apply ty_eqb_eq; exact Q.
Qed.

Lemma rw_operand_ill F G arg e0 e0' L : rw_operand arg e0 = Some e0' -> ty_expr F G L e0' = None.
Proof.
  unfold rw_operand. set (k := N.div arg 2). destruct e0; try discriminate.
  - (* unary *)
    destruct o; intros H; injection H as <-; simpl.
    + destruct (wrong_lit_ty F G L TInt k) as [t' [E N]]. rewrite E. destruct t'; try reflexivity. contradiction.
    + destruct (wrong_lit_ty F G L TBool k) as [t' [E N]]. rewrite E. destruct t'; try reflexivity. contradiction.
  - (* binary *)
    destruct (is_arith_or_cmp o) eqn:A.
    { intros H; injection H as <-. destruct (N.odd arg); simpl.
      - destruct (ty_expr F G L e0_1) as [ta|]; [|reflexivity].
        destruct (wrong_lit_ty F G L TInt k) as [t' [E N]]. rewrite E.
        destruct (ty_binop o ta t') eqn:Bq; [|reflexivity]. destruct (arith_cmp_int _ _ _ _ A Bq) as [_ ->]. contradiction.
      - destruct (wrong_lit_ty F G L TInt k) as [t' [E N]]. rewrite E.
        destruct (ty_expr F G L e0_2) as [tb|]; [|reflexivity].
        destruct (ty_binop o t' tb) eqn:Bq; [|reflexivity]. destruct (arith_cmp_int _ _ _ _ A Bq) as [-> _]. contradiction. }
    destruct (is_logic o) eqn:Lg.
    { intros H; injection H as <-. destruct (N.odd arg); simpl.
      - destruct (ty_expr F G L e0_1) as [ta|]; [|reflexivity].
        destruct (wrong_lit_ty F G L TBool k) as [t' [E N]]. rewrite E.
        destruct (ty_binop o ta t') eqn:Bq; [|reflexivity]. destruct (logic_bool _ _ _ _ Lg Bq) as [_ ->]. contradiction.
      - destruct (wrong_lit_ty F G L TBool k) as [t' [E N]]. rewrite E.
        destruct (ty_expr F G L e0_2) as [tb|]; [|reflexivity].
        destruct (ty_binop o t' tb) eqn:Bq; [|reflexivity]. destruct (logic_bool _ _ _ _ Lg Bq) as [-> _]. contradiction. }
    destruct (N.odd arg).
    + destruct (abs_ty e0_1) as [T|] eqn:Ab; [|discriminate]. intros H; injection H as <-. simpl.
      destruct (ty_expr F G L e0_1) as [ta|] eqn:Ea; [|reflexivity].
      pose proof (abs_ty_sound _ _ _ _ _ _ Ab Ea) as ->.
      destruct (wrong_lit_ty F G L T k) as [t' [E N]]. rewrite E.
      destruct (ty_binop o T t') eqn:Bq; [|reflexivity]. pose proof (eq_same _ _ _ _ A Lg Bq). congruence.
    + destruct (abs_ty e0_2) as [T|] eqn:Ab; [|discriminate]. intros H; injection H as <-. simpl.
      destruct (wrong_lit_ty F G L T k) as [t' [E N]]. rewrite E.
      destruct (ty_expr F G L e0_2) as [tb|] eqn:Eb; [|reflexivity].
      pose proof (abs_ty_sound _ _ _ _ _ _ Ab Eb) as ->.
      destruct (ty_binop o t' T) eqn:Bq; [|reflexivity]. pose proof (eq_same _ _ _ _ A Lg Bq). congruence.
  - (* array literal: the first element *)
    destruct es as [|e1 r]; [discriminate|]. intros H; injection H as <-. rewrite ty_expr_arr. cbn [elems_ok].
    destruct (wrong_lit_ty F G L TInt k) as [t' [E N]]. rewrite E. destruct t'; try reflexivity. contradiction.
  - (* at: index or array operand *)
    intros H; injection H as <-. destruct (N.odd arg); simpl.
    + destruct (ty_expr F G L e0_1) as [[| | | |]|]; try reflexivity.
      destruct (wrong_lit_ty F G L TInt k) as [t' [E N]]. rewrite E. destruct t'; try reflexivity. contradiction.
    + destruct (wrong_lit_ty F G L TArr k) as [t' [E N]]. rewrite E. destruct t'; try reflexivity. contradiction.
  - (* array_length *)
    intros H; injection H as <-. simpl.
    destruct (wrong_lit_ty F G L TArr k) as [t' [E N]]. rewrite E. destruct t'; try reflexivity. contradiction.
  - (* str_length / int_to_string *)
    destruct o; intros H; injection H as <-; simpl.
    + destruct (wrong_lit_ty F G L TStr k) as [t' [E N]]. rewrite E. destruct t'; try reflexivity. contradiction.
    + destruct (wrong_lit_ty F G L TInt k) as [t' [E N]]. rewrite E. destruct t'; try reflexivity. contradiction.
  - (* binary string builtin *)
    intros H; injection H as <-. destruct (N.odd arg); simpl.
    + destruct (ty_expr F G L e0_1) as [ta|]; [|reflexivity].
      destruct o; cbv iota;
        match goal with |- context [wrong_lit ?T k] => destruct (wrong_lit_ty F G L T k) as [t' [E N]] end;
        rewrite E; destruct ta, t'; try reflexivity; contradiction.
    + destruct (wrong_lit_ty F G L TStr k) as [t' [E N]]. rewrite E.
      destruct (ty_expr F G L e0_2) as [tb|]; [|reflexivity]. destruct o, t', tb; try reflexivity; contradiction.
  - (* str_substring *)
    intros H; injection H as <-. destruct (N.odd arg); simpl.
    + destruct (ty_expr F G L e0_1) as [[| | | |]|]; try reflexivity.
      destruct (wrong_lit_ty F G L TInt k) as [t' [E N]]. rewrite E. destruct t'; try reflexivity. contradiction.
    + destruct (wrong_lit_ty F G L TStr k) as [t' [E N]]. rewrite E. destruct t'; try reflexivity. contradiction.
Qed.

Lemma rw_argtype_ill F G arg e0 e0' L : rw_argtype F arg e0 = Some e0' -> ty_expr F G L e0' = None.
Proof.
  unfold rw_argtype. destruct e0; try discriminate.
  destruct (slookup f F) as [[ps r]|] eqn:Es; [|discriminate].
  destruct (nth_error ps (N.to_nat (N.div arg 2))) as [t|] eqn:En; [|discriminate].
  destruct (Nat.ltb (N.to_nat (N.div arg 2)) (length args)) eqn:Lt; [|discriminate].
  intros H; injection H as <-. rewrite ty_expr_call, Es.
  apply Nat.ltb_lt in Lt. rewrite (args_ok_wrong_lit F G L _ _ _ _ arg En Lt). reflexivity.
Qed.

Lemma rw_arity_ill F G plus e0 e0' L : rw_arity F plus e0 = Some e0' -> ty_expr F G L e0' = None.
Proof.
  unfold rw_arity. destruct e0; try discriminate.
  destruct (slookup f F) as [[ps r]|] eqn:Es; [|discriminate].
  set (args' := if plus then args ++ [ENum 0] else removelast args).
  destruct (Nat.eqb (length args') (length ps)) eqn:Q; [discriminate|].
  intros H; injection H as <-. rewrite ty_expr_call, Es.
  destruct (args_ok F G L args' ps) eqn:A; [|reflexivity].
  apply args_ok_length in A. apply Nat.eqb_neq in Q. contradiction.
Qed.

Lemma rw_unknown_fn_ill F G z e0 e0' L : rw_unknown_fn F z e0 = Some e0' -> ty_expr F G L e0' = None.
Proof.
  unfold rw_unknown_fn. destruct e0; try discriminate. destruct (slookup z F) eqn:Es; [discriminate|].
  intros H; injection H as <-. rewrite ty_expr_call, Es. reflexivity.
Qed.

Lemma rw_cond_e_ill F G k e0 e0' L : rw_cond_e k e0 = Some e0' -> ty_expr F G L e0' = None.
Proof.
  unfold rw_cond_e. destruct e0; try discriminate. intros H; injection H as <-. simpl.
  destruct (wrong_lit_ty F G L TBool k) as [t' [E N]]. rewrite E. destruct t'; try reflexivity. contradiction.
Qed.

Lemma rw_cond_s_ill F G ret k s0 s0' inl L : rw_cond_s k s0 = Some s0' -> wt_stmt F G ret inl L s0' = None.
Proof.
  unfold rw_cond_s. destruct s0; try discriminate; intros H; injection H as <-; simpl;
    rewrite wrong_lit_has; reflexivity.
Qed.

Lemma rw_set_immutable_ill F G ret s0 s0' inl L : rw_set_immutable s0 = Some s0' -> wt_stmt F G ret inl L s0' = None.
Proof.
  unfold rw_set_immutable. destruct s0; try discriminate. destruct mut; [discriminate|].
  intros H; injection H as <-. simpl.
  destruct (expr_has F G L e t && negb (is_void t)); [|reflexivity]. simpl. rewrite N.eqb_refl. reflexivity.
Qed.

Lemma rw_void_variable_ill F G ret z s0 s0' inl L : rw_void_variable z s0 = Some s0' -> wt_stmt F G ret inl L s0' = None.
Proof.
  unfold rw_void_variable. destruct s0; try discriminate. intros H; injection H as <-. simpl.
  rewrite andb_false_r. reflexivity.
Qed.

Lemma rw_set_loopvar_ill F G ret s0 s0' inl L : rw_set_loopvar s0 = Some s0' -> wt_stmt F G ret inl L s0' = None.
Proof.
  unfold rw_set_loopvar. destruct s0; try discriminate. intros H; injection H as <-. simpl.
  rewrite N.eqb_refl. destruct (expr_has F G L lo TInt && expr_has F G L hi TInt); reflexivity.
Qed.

Lemma rw_wrong_return_ill F G ret k s0 s0' inl L : rw_wrong_return ret k s0 = Some s0' -> wt_stmt F G ret inl L s0' = None.
Proof.
  unfold rw_wrong_return. destruct s0; try discriminate. destruct e; [|discriminate].
  intros H; injection H as <-. simpl. rewrite wrong_lit_has. reflexivity.
Qed.

Lemma rw_return_novalue_ill F G ret s0 s0' inl L : rw_return_novalue ret s0 = Some s0' -> wt_stmt F G ret inl L s0' = None.
Proof.
  unfold rw_return_novalue. destruct s0; try discriminate. destruct e; [|discriminate].
  destruct (is_void ret) eqn:V; [discriminate|]. intros H; injection H as <-. simpl. rewrite V. reflexivity.
Qed.

(* names *)
Definition unbound (z : ident) (L : tenv) : Prop := tlookup z L = None.
Lemma unbound_cons z L x m t : unbound z L -> x <> z -> unbound z ((x, (m, t)) :: L).
Proof.
  unfold unbound. intros H N. simpl. destruct (N.eqb z x) eqn:Q; [|exact H]. apply N.eqb_eq in Q. congruence.
Qed.

Lemma rw_var_ill F G z e0 e0' L : tlookup z G = None -> rw_var z e0 = Some e0' -> unbound z L -> ty_expr F G L e0' = None.
Proof.
  intros HG. unfold rw_var. destruct e0; try discriminate. intros H; injection H as <-. intros HL.
  simpl. rewrite HL, HG. reflexivity.
Qed.

Lemma rw_out_of_scope_ill F G ret z s0 s0' inl L : tlookup z G = None -> rw_out_of_scope z s0 = Some s0' -> unbound z L ->
  wt_stmt F G ret inl L s0' = None.
Proof.
  intros HG H HL. unfold rw_out_of_scope in H. injection H as <-. simpl. rewrite HL, HG. reflexivity.
Qed.

Lemma exit_block_then_use F G ret z last rest inl L : tlookup z G = None -> unbound z L ->
  wt_stmt F G ret inl L (SSeq (exit_block z last) (SSeq (SPrint true (EVar z)) rest)) = None.
Proof.
  intros HG HL. unfold exit_block. simpl.
  destruct (wt_stmt F G ret inl ((z, (false, TInt)) :: L) last); simpl; rewrite ?HL, ?HG; reflexivity.
Qed.

Lemma rw_out_of_scope_return_ill F G ret z s0 s0' inl L : tlookup z G = None -> rw_out_of_scope_return ret z s0 = Some s0' -> unbound z L ->
  wt_stmt F G ret inl L s0' = None.
Proof. intros HG H HL. unfold rw_out_of_scope_return in H. injection H as <-. apply exit_block_then_use; assumption. Qed.

Lemma rw_out_of_scope_loop_ill F G ret brk z s0 s0' inl L : tlookup z G = None -> rw_out_of_scope_loop brk z s0 = Some s0' -> unbound z L ->
  wt_stmt F G ret inl L s0' = None.
Proof.
  intros HG H HL. unfold rw_out_of_scope_loop in H. destruct s0; try discriminate.
  - injection H as <-.
    set (b' := SSeq (exit_block z (if brk then SBreak else SContinue)) (SSeq (SPrint true (EVar z)) s0)).
    assert (Hb : wt_stmt F G ret true L b' = None) by (apply exit_block_then_use; assumption).
    clearbody b'. simpl. rewrite Hb. destruct (expr_has F G L c TBool); reflexivity.
  - destruct (N.eqb x z) eqn:Q; [discriminate|]. injection H as <-.
    assert (HL' : unbound z ((x, (false, TInt)) :: L)).
    { apply unbound_cons; [exact HL|]. intros E. subst. rewrite N.eqb_refl in Q. discriminate. }
    set (b' := SSeq (exit_block z (if brk then SBreak else SContinue)) (SSeq (SPrint true (EVar z)) s0)).
    assert (Hb : wt_stmt F G ret true ((x, (false, TInt)) :: L) b' = None) by (apply exit_block_then_use; assumption).
    clearbody b'. simpl. rewrite Hb. destruct (expr_has F G L lo TInt && expr_has F G L hi TInt); reflexivity.
Qed.

Lemma memb_false_notin (z : ident) (l : list ident) : memb z l = false -> ~ In z l.
Proof.
  unfold memb. induction l as [|x r IH]; simpl; [tauto|]. intros H [E|Hin].
  - subst. rewrite N.eqb_refl in H. discriminate.
  - apply orb_false_iff in H. destruct H as [_ H]. exact (IH H Hin).
Qed.
Lemma notin_forall_neq (z : ident) (l : list ident) : ~ In z l -> Forall (fun x => x <> z) l.
Proof. induction l; intros H; constructor; [intros E; apply H; left; exact E|apply IHl; intros Hin; apply H; right; exact Hin]. Qed.

Lemma tlookup_notin z (L : tenv) : ~ In z (map fst L) -> tlookup z L = None.
Proof.
  induction L as [|[x b] r IH]; simpl; [reflexivity|]. intros H.
  destruct (N.eqb z x) eqn:Q; [apply N.eqb_eq in Q; subst; exfalso; apply H; left; reflexivity|].
  apply IH. intros Hin. apply H. right. exact Hin.
Qed.

Lemma gtenv_names gs : forall acc, map fst (gtenv gs acc) = rev (map (fun g => fst (fst g)) gs) ++ map fst acc.
Proof.
  induction gs as [|[[x t] e] gs IH]; intros acc; simpl; [reflexivity|].
  rewrite IH. simpl. rewrite <- app_assoc. reflexivity.
Qed.

Lemma fresh_global z p d : fresh_for z p d = true -> tlookup z (gtenv (pglobals p) []) = None.
Proof.
  unfold fresh_for. intros H. apply andb_true_iff in H. destruct H as [_ H]. apply negb_true_iff in H.
  apply tlookup_notin. rewrite gtenv_names, app_nil_r. intros Hin. apply in_rev in Hin.
  exact (memb_false_notin _ _ H Hin).
Qed.

Lemma fresh_params z p d : fresh_for z p d = true -> unbound z (params_tenv (fparams d)).
Proof.
  unfold fresh_for, fn_names. intros H. apply andb_true_iff in H. destruct H as [H _]. apply negb_true_iff in H.
  apply tlookup_notin. unfold params_tenv. rewrite map_rev, map_map. simpl. intros Hin. apply in_rev in Hin.
  apply (memb_false_notin _ _ H). apply in_or_app. left. exact Hin.
Qed.

Lemma fresh_binders z p d : fresh_for z p d = true -> Forall (fun x => x <> z) (binders (fbody d)).
Proof.
  unfold fresh_for, fn_names. intros H. apply andb_true_iff in H. destruct H as [H _]. apply negb_true_iff in H.
  apply notin_forall_neq. intros Hin. apply (memb_false_notin _ _ H). apply in_or_app. right. exact Hin.
Qed.

Lemma tlookup_flag_false x m t (L : tenv) : Forall (fun b : ident * (bool * ty) => fst (snd b) = false) L ->
  tlookup x L = Some (m, t) -> m = false.
Proof.
  induction 1 as [|[y [m' t']] r Hy Hr IH]; simpl; [discriminate|].
  destruct (N.eqb x y); [|exact IH]. intros H. injection H as <- _. exact Hy.
Qed.
Lemma params_flag x m t ps : tlookup x (params_tenv ps) = Some (m, t) -> m = false.
Proof.
  apply tlookup_flag_false. unfold params_tenv. apply Forall_rev. apply Forall_forall.
  intros b Hb. apply in_map_iff in Hb. destruct Hb as [q [<- _]]. reflexivity.
Qed.

Lemma unret_no_return : forall s path s', unret path s = Some s' -> returns s' = false.
Proof.
  induction s; intros path s'; simpl; try discriminate.
  - destruct (returns s1) eqn:R1.
    + destruct (returns s2) eqn:R2; [discriminate|]. intros H. apply option_map_some in H. destruct H as [a' [Ha ->]].
      simpl. rewrite (IHs1 _ _ Ha), R2. reflexivity.
    + intros H. apply option_map_some in H. destruct H as [b' [Hb ->]]. simpl. rewrite R1, (IHs2 _ _ Hb). reflexivity.
  - destruct path as [|[|n] path'].
    + intros H. apply option_map_some in H. destruct H as [a' [Ha ->]]. simpl. rewrite (IHs1 _ _ Ha). reflexivity.
    + intros H. apply option_map_some in H. destruct H as [a' [Ha ->]]. simpl. rewrite (IHs1 _ _ Ha). reflexivity.
    + intros H. apply option_map_some in H. destruct H as [b' [Hb ->]]. simpl. rewrite (IHs2 _ _ Hb). apply andb_false_r.
  - intros H. injection H as <-. reflexivity.
Qed.

(* ------------------------------------------------------------------ one function *)
Definition with_body (d : fn) (b : stmt) : fn := {| fname := fname d; fparams := fparams d; fret := fret d; fbody := b |}.

Lemma body_none_fn F G d b : wt_stmt F G (fret d) false (params_tenv (fparams d)) b = None -> wt_fn F G (with_body d b) = false.
Proof. intros H. unfold wt_fn. simpl. rewrite H. rewrite andb_false_r. reflexivity. Qed.

Lemma mut_body_ill r pos p k d b' :
  mut_body r pos p k d = Some b' ->
  wt_fn (sigs_of (pfns p)) (gtenv (pglobals p) []) (with_body d b') = false.
Proof.
  set (F := sigs_of (pfns p)). set (G := gtenv (pglobals p) []).
  unfold mut_body. fold F.
  (* the generic instance: nothing known about the scope *)
  assert (Any : forall fe fs,
            (forall e0 e0' L, fe e0 = Some e0' -> ty_expr F G L e0' = None) ->
            (forall s0 s0' inl L, fs s0 = Some s0' -> wt_stmt F G (fret d) inl L s0' = None) ->
            at_stmt (p_path pos) fe fs (fbody d) = Some b' -> wt_fn F G (with_body d b') = false).
  { intros fe fs He Hs H. apply body_none_fn.
    apply (at_stmt_ill F G anyL fe (fun e0 e0' L E _ => He e0 e0' L E) (fret d) fs anyB
             (fun _ _ _ _ _ _ => I) (fun s0 s0' inl L E _ _ => Hs s0 s0' inl L E) _ _ _ _ _ H I (anyB_all _)). }
  (* the instance for names: z is bound neither in the scope nor globally *)
  assert (Nm : forall z fe fs, fresh_for z p d = true ->
            (forall e0 e0' L, fe e0 = Some e0' -> unbound z L -> ty_expr F G L e0' = None) ->
            (forall s0 s0' inl L, fs s0 = Some s0' -> unbound z L -> wt_stmt F G (fret d) inl L s0' = None) ->
            at_stmt (p_path pos) fe fs (fbody d) = Some b' -> wt_fn F G (with_body d b') = false).
  { intros z fe fs Hz He Hs H. apply body_none_fn.
    apply (at_stmt_ill F G (unbound z) fe He (fret d) fs (fun x => x <> z)
             (fun L x m t HL Hx => unbound_cons z L x m t HL Hx) (fun s0 s0' inl L E HL _ => Hs s0 s0' inl L E HL) _ _ _ _ _ H).
    - apply fresh_params with (p := p). exact Hz.
    - apply fresh_binders with (p := p). exact Hz. }
  destruct r.
  - apply Any; [intros; eapply rw_operand_ill; eauto|discriminate].
  - apply Any; [intros; eapply rw_argtype_ill; eauto|discriminate].
  - apply Any; [intros; eapply rw_arity_ill; eauto|discriminate].
  - apply Any; [intros; eapply rw_arity_ill; eauto|discriminate].
  - destruct (fresh_for (p_arg pos) p d) eqn:Fr; [|discriminate].
    apply (Nm _ _ _ Fr); [|discriminate]. intros. eapply rw_var_ill; eauto. eapply fresh_global; eauto.
  - apply Any; [intros; eapply rw_unknown_fn_ill; eauto|discriminate].
  - destruct (fresh_for (p_arg pos) p d && local_of_earlier (p_arg pos) p k) eqn:Fr; [|discriminate].
    apply andb_true_iff in Fr. destruct Fr as [Fr _].
    apply (Nm _ _ _ Fr); [|discriminate]. intros. eapply rw_var_ill; eauto. eapply fresh_global; eauto.
  - destruct (fresh_for (p_arg pos) p d) eqn:Fr; [|discriminate].
    apply (Nm _ _ _ Fr); [discriminate|]. intros. eapply rw_out_of_scope_ill; eauto. eapply fresh_global; eauto.
  - apply Any; [discriminate|intros; eapply rw_set_immutable_ill; eauto].
  - (* set on a parameter *)
    destruct (nth_error (fparams d) (N.to_nat (p_arg pos))) as [[x t]|]; [|discriminate].
    intros H; injection H as <-. apply body_none_fn. simpl.
    destruct (tlookup x (params_tenv (fparams d))) as [[m t']|] eqn:E; [|reflexivity].
    rewrite (params_flag _ _ _ _ E). reflexivity.
  - apply Any; [discriminate|intros; eapply rw_set_loopvar_ill; eauto].
  - (* missing return *)
    destruct (is_void (fret d)) eqn:V; [discriminate|]. intros H.
    unfold wt_fn. simpl. rewrite V, (unret_no_return _ _ _ H). rewrite andb_false_r. reflexivity.
  - apply Any; [discriminate|intros; eapply rw_wrong_return_ill; eauto].
  - apply Any; [discriminate|intros; eapply rw_return_novalue_ill; eauto].
  - apply Any; [intros; eapply rw_cond_e_ill; eauto|intros; eapply rw_cond_s_ill; eauto].
  - apply Any; [discriminate|intros; eapply rw_void_variable_ill; eauto].
  - discriminate.
  - discriminate.
  - destruct (fresh_for (p_arg pos) p d) eqn:Fr; [|discriminate].
    apply (Nm _ _ _ Fr); [discriminate|]. intros. eapply rw_out_of_scope_return_ill; eauto. eapply fresh_global; eauto.
  - destruct (fresh_for (p_arg pos) p d) eqn:Fr; [|discriminate].
    apply (Nm _ _ _ Fr); [discriminate|]. intros. eapply rw_out_of_scope_loop_ill; eauto. eapply fresh_global; eauto.
  - destruct (fresh_for (p_arg pos) p d) eqn:Fr; [|discriminate].
    apply (Nm _ _ _ Fr); [discriminate|]. intros. eapply rw_out_of_scope_loop_ill; eauto. eapply fresh_global; eauto.
Qed.

(* ------------------------------------------------------------------ the program *)
Lemma replace_nth_sigs : forall (l : list fn) k d d', nth_error l k = Some d -> sig_of d' = sig_of d ->
  sigs_of (replace_nth k d' l) = sigs_of l.
Proof.
  induction l as [|a l IH]; intros [|k] d d' H E; simpl in *; try discriminate.
  - injection H as ->. rewrite E. reflexivity.
  - f_equal. eapply IH; eauto.
Qed.

Lemma replace_nth_forallb {A} (f : A -> bool) : forall l k d d', nth_error l k = Some d -> f d' = false ->
  forallb f (replace_nth k d' l) = false.
Proof.
  induction l as [|a l IH]; intros [|k] d d' H E; simpl in *; try discriminate.
  - rewrite E. reflexivity.
  - rewrite (IH _ _ _ H E). apply andb_false_r.
Qed.

Theorem mut_in_body_ill : forall r pos p p', mut_in_body r pos p = Some p' -> wt p' = false.
Proof.
  intros r pos p p'. unfold mut_in_body.
  destruct (nth_error (pfns p) (p_fn pos)) as [d|] eqn:En; [|discriminate].
  destruct (mut_body r pos p (p_fn pos) d) as [b'|] eqn:Eb; [|discriminate].
  intros H; injection H as <-. unfold wt. cbn [pglobals pfns pmain].
  change {| fname := fname d; fparams := fparams d; fret := fret d; fbody := b' |} with (with_body d b').
  rewrite (replace_nth_sigs _ _ d (with_body d b') En eq_refl).
  pose proof (mut_body_ill _ _ _ _ _ _ Eb) as Hf.
  rewrite (replace_nth_forallb _ _ _ d _ En Hf). rewrite andb_false_r. reflexivity.
Qed.

Lemma mut_dup_param_ill : forall pos p p', mut_dup_param pos p = Some p' -> wt p' = false.
Proof.
  intros pos p p'. unfold mut_dup_param.
  destruct (nth_error (pfns p) (p_fn pos)) as [d|] eqn:En; [|discriminate].
  destruct (dup_param (N.to_nat (p_arg pos)) (fparams d)) as [ps'|] eqn:Ed; [|discriminate].
  intros H; injection H as <-. unfold wt, with_params. cbn [pglobals pfns pmain].
  assert (Hf : forall F G, wt_fn F G {| fname := fname d; fparams := ps'; fret := fret d; fbody := fbody d |} = false).
  { intros F G. unfold wt_fn. cbn [fparams fret fbody fname].
    unfold dup_param in Ed. destruct (N.to_nat (p_arg pos)) as [|j]; [discriminate|].
    destruct (fparams d) as [|[x t] r]; [discriminate|].
    cbv zeta in Ed. match type of Ed with (if ?c then _ else _) = _ => destruct c eqn:Q; [|discriminate] end.
    injection Ed as <-. apply andb_true_iff in Q. destruct Q as [_ Q]. apply negb_true_iff in Q. cbn [rename_nth] in Q. rewrite Q.
    rewrite andb_false_r. reflexivity. }
  rewrite (replace_nth_forallb _ _ _ d _ En (Hf _ _)). rewrite andb_false_r. reflexivity.
Qed.

Lemma mut_main_param_ill : forall pos p p', mut_main_param pos p = Some p' -> wt p' = false.
Proof.
  intros pos p p'. unfold mut_main_param.
  destruct (nth_error (pfns p) (p_fn pos)) as [d|]; [|discriminate].
  destruct (N.eqb (fname d) (pmain p)); [|discriminate].
  set (q := with_params p (p_fn pos) d ((p_arg pos, TInt) :: fparams d)).
  destruct (slookup (pmain q) (sigs_of (pfns q))) as [[ps r]|] eqn:E.
  - destruct ps as [|t0 ps].
    + destruct r; try discriminate; intros H; injection H as <-; unfold wt; rewrite E; apply andb_false_r.
    + intros H; injection H as <-. unfold wt. rewrite E. apply andb_false_r.
  - intros H; injection H as <-. unfold wt. rewrite E. apply andb_false_r.
Qed.

Theorem mut_ill_typed_any : forall r pos p p', mut r pos p = Some p' -> wt p' = false.
Proof.
  intros r pos p p'. destruct r; unfold mut;
    first [apply mut_in_body_ill | apply mut_dup_param_ill | apply mut_main_param_ill].
Qed.

(* the statement of the design: mutants of WELL-TYPED programs are ill-typed *)
Theorem mut_ill_typed : forall r pos p p', wt p = true -> mut r pos p = Some p' -> wt p' = false.
Proof. intros r pos p p' _. apply mut_ill_typed_any. Qed.
