(* The rule catalogue of C05 as executable single-point mutations of a program:
     mut : rule -> position -> program -> option program
   Each rule breaks exactly one static rule of the language at the addressed place.  MutateProofs.v shows that every
   mutant is rejected by the reference type checker (Lang/Types.v), which is what makes "the real tools must refuse
   every mutant" a sound oracle.  The extracted function is the mutant generator of tools/props/c05.py.
   Definitions only. *)
From Coq Require Import ZArith NArith List Bool.
From NV Require Import Lang.Ast Lang.Types.
Import ListNotations.

Inductive rule :=
  | ROperand        (* operand of the wrong type; path -> EUn/EBin node, or (at a i) / (array_length a) / a non-empty array
                       literal (its first element) / a string builtin; arg = 2*literal choice + operand index *)
  | RArgType        (* argument of the wrong type; path -> ECall node; arg = 2*argument index + literal choice *)
  | RArityPlus      (* one argument too many; path -> ECall *)
  | RArityMinus     (* one argument too few; path -> ECall with at least one argument *)
  | RUnknownName    (* a name that is declared nowhere; path -> EVar; arg = the name *)
  | RUnknownFn      (* call of a function that is declared nowhere; path -> ECall; arg = the name *)
  | ROtherFnLocal   (* a local/parameter of an EARLIER function used in this one; path -> EVar; arg = the name *)
  | ROutOfScope     (* a block-local name used after its block: inserts  if true { let z: int = 0 }  (println z)
                       before the addressed statement; arg = z *)
  | RSetImmutable   (* path -> immutable let: a `set` of that variable is appended *)
  | RSetParam       (* arg = parameter index: a `set` of that parameter is put in front of the body *)
  | RSetLoopVar     (* path -> for: a `set` of the loop variable is put in front of its body *)
  | RMissingReturn  (* one path through the body no longer returns; path = branch choices along the return spine *)
  | RWrongReturn    (* path -> return e: the value is replaced by a literal of another type; arg = literal choice *)
  | RReturnNoValue  (* path -> return e in a non-void function: the value is dropped *)
  | RNonBoolCond    (* path -> if/while/assert statement or cond expression; arg = literal choice *)
  | RVoidVariable   (* path -> expression statement e: it becomes  let z: void = e  (a variable of type void); arg = z *)
  | RDupParam       (* parameter number arg (>= 1) of the function gets the name of its first parameter *)
  | RMainParam      (* the function called main gets a parameter (arg: int) in front *)
  | ROutOfScopeReturn   (* like ROutOfScope, the block ENDS IN RETURN:  if false { let z: int = 0  return <value> }  (println z)
                           before the addressed statement; arg = z *)
  | ROutOfScopeBreak    (* path -> while/for: its body gets  if false { let z: int = 0  break }  (println z)  in front; arg = z *)
  | ROutOfScopeContinue. (* the same with continue *)

Record position := { p_fn : nat; p_path : list nat; p_arg : N }.

(* ---------------------------------------------------------------- literals of a wrong type *)
Definition lit_of (t : ty) : expr :=
  match t with TInt => ENum 0 | TBool => EBool true | TStr => EStr [120%N] | TVoid => ENum 0 | TArr => EArr [] end.
Definition lit_ty (e : expr) : ty := match e with EBool _ => TBool | EStr _ => TStr | _ => TInt end.
(* two literals whose type differs from t, chosen by k *)
Definition wrong_lit (t : ty) (k : N) : expr :=
  match t with
  | TInt => if N.even k then EBool true else EStr [120%N]
  | TBool => if N.even k then ENum 7 else EStr [120%N]
  | TStr => if N.even k then ENum 7 else EBool true
  | TVoid => if N.even k then ENum 7 else EBool true
  | TArr => if N.even k then ENum 7 else EBool true
  end.

(* type of an expression when it does not depend on the scope *)
Definition abs_ty (e : expr) : option ty :=
  match e with
  | ENum _ => Some TInt | EBool _ => Some TBool | EStr _ => Some TStr
  | EUn UNeg _ => Some TInt | EUn UNot _ => Some TBool
  | EBin o _ _ => Some match o with BAdd | BSub | BMul | BDiv | BMod => TInt | _ => TBool end
  | _ => None
  end.

(* ---------------------------------------------------------------- addressing *)
Fixpoint at_expr (pos : list nat) (f : expr -> option expr) (e : expr) {struct e} : option expr :=
  match pos with
  | [] => f e
  | k :: pos' =>
      match e with
      | EUn o a => match k with O => option_map (EUn o) (at_expr pos' f a) | _ => None end
      | EBin o a b =>
          match k with
          | O => option_map (fun a' => EBin o a' b) (at_expr pos' f a)
          | S O => option_map (EBin o a) (at_expr pos' f b)
          | _ => None end
      | ECall g args =>
          option_map (ECall g)
            ((fix go (l : list expr) (k : nat) {struct l} : option (list expr) :=
                match l with
                | [] => None
                | a :: r => match k with
                            | O => option_map (fun a' => a' :: r) (at_expr pos' f a)
                            | S k' => option_map (cons a) (go r k') end
                end) args k)
      | ECond c a b =>
          match k with
          | O => option_map (fun c' => ECond c' a b) (at_expr pos' f c)
          | S O => option_map (fun a' => ECond c a' b) (at_expr pos' f a)
          | S (S O) => option_map (ECond c a) (at_expr pos' f b)
          | _ => None end
      | EArr es =>
          option_map EArr
            ((fix go (l : list expr) (k : nat) {struct l} : option (list expr) :=
                match l with
                | [] => None
                | a :: r => match k with
                            | O => option_map (fun a' => a' :: r) (at_expr pos' f a)
                            | S k' => option_map (cons a) (go r k') end
                end) es k)
      | EAt a i =>
          match k with
          | O => option_map (fun a' => EAt a' i) (at_expr pos' f a)
          | S O => option_map (EAt a) (at_expr pos' f i)
          | _ => None end
      | ELen a => match k with O => option_map ELen (at_expr pos' f a) | _ => None end
      | EStr1 o a => match k with O => option_map (EStr1 o) (at_expr pos' f a) | _ => None end
      | EStr2 o a b =>
          match k with
          | O => option_map (fun a' => EStr2 o a' b) (at_expr pos' f a)
          | S O => option_map (EStr2 o a) (at_expr pos' f b)
          | _ => None end
      | ESubstr a b c =>
          match k with
          | O => option_map (fun a' => ESubstr a' b c) (at_expr pos' f a)
          | S O => option_map (fun b' => ESubstr a b' c) (at_expr pos' f b)
          | S (S O) => option_map (ESubstr a b) (at_expr pos' f c)
          | _ => None end
      | _ => None
      end
  end.

(* fe is applied when the path ends at an expression, fs when it ends at a statement *)
Fixpoint at_stmt (pos : list nat) (fe : expr -> option expr) (fs : stmt -> option stmt) (s : stmt) {struct s} : option stmt :=
  match pos with
  | [] => fs s
  | k :: pos' =>
      match s with
      | SSeq a b =>
          match k with
          | O => option_map (fun a' => SSeq a' b) (at_stmt pos' fe fs a)
          | S O => option_map (SSeq a) (at_stmt pos' fe fs b)
          | _ => None end
      | SLet m x t e => match k with O => option_map (SLet m x t) (at_expr pos' fe e) | _ => None end
      | SSet x e => match k with O => option_map (SSet x) (at_expr pos' fe e) | _ => None end
      | SIf c a b =>
          match k with
          | O => option_map (fun c' => SIf c' a b) (at_expr pos' fe c)
          | S O => option_map (fun a' => SIf c a' b) (at_stmt pos' fe fs a)
          | S (S O) => option_map (SIf c a) (at_stmt pos' fe fs b)
          | _ => None end
      | SWhile c b =>
          match k with
          | O => option_map (fun c' => SWhile c' b) (at_expr pos' fe c)
          | S O => option_map (SWhile c) (at_stmt pos' fe fs b)
          | _ => None end
      | SFor x lo hi b =>
          match k with
          | O => option_map (fun lo' => SFor x lo' hi b) (at_expr pos' fe lo)
          | S O => option_map (fun hi' => SFor x lo hi' b) (at_expr pos' fe hi)
          | S (S O) => option_map (SFor x lo hi) (at_stmt pos' fe fs b)
          | _ => None end
      | SReturn (Some e) => match k with O => option_map (fun e' => SReturn (Some e')) (at_expr pos' fe e) | _ => None end
      | SPrint nl e => match k with O => option_map (SPrint nl) (at_expr pos' fe e) | _ => None end
      | SAssert e => match k with O => option_map SAssert (at_expr pos' fe e) | _ => None end
      | SExpr e => match k with O => option_map SExpr (at_expr pos' fe e) | _ => None end
      | _ => None
      end
  end.

Definition no_e : expr -> option expr := fun _ => None.
Definition no_s : stmt -> option stmt := fun _ => None.

(* ---------------------------------------------------------------- names *)
Fixpoint binders (s : stmt) : list ident :=
  match s with
  | SSeq a b => binders a ++ binders b
  | SLet _ x _ _ => [x]
  | SIf _ a b => binders a ++ binders b
  | SWhile _ b => binders b
  | SFor x _ _ b => x :: binders b
  | _ => []
  end.
Definition memb (x : ident) (l : list ident) : bool := existsb (N.eqb x) l.
Definition fn_names (d : fn) : list ident := map fst (fparams d) ++ binders (fbody d).
Definition global_names (p : program) : list ident := map (fun g => fst (fst g)) (pglobals p).
(* z is bound nowhere in function d and is not a global *)
Definition fresh_for (z : ident) (p : program) (d : fn) : bool :=
  negb (memb z (fn_names d)) && negb (memb z (global_names p)).
(* z is a parameter or local of a function that precedes function number k *)
Definition local_of_earlier (z : ident) (p : program) (k : nat) : bool :=
  existsb (fun d' => memb z (fn_names d')) (firstn k (pfns p)).

(* ---------------------------------------------------------------- the local rewrites *)
Definition is_arith_or_cmp (o : binop) : bool :=
  match o with BAdd | BSub | BMul | BDiv | BMod | BLt | BLe | BGt | BGe => true | _ => false end.
Definition is_logic (o : binop) : bool := match o with BAnd | BOr => true | _ => false end.

Definition rw_operand (arg : N) (e : expr) : option expr :=
  let k := N.div arg 2 in
  let right := N.odd arg in
  match e with
  | EUn UNeg _ => Some (EUn UNeg (wrong_lit TInt k))
  | EUn UNot _ => Some (EUn UNot (wrong_lit TBool k))
  | EBin o a b =>
      if is_arith_or_cmp o then Some (if right then EBin o a (wrong_lit TInt k) else EBin o (wrong_lit TInt k) b)
      else if is_logic o then Some (if right then EBin o a (wrong_lit TBool k) else EBin o (wrong_lit TBool k) b)
      else (* == and != : the other operand decides which literal is wrong *)
        if right then match abs_ty a with Some t => Some (EBin o a (wrong_lit t k)) | None => None end
        else match abs_ty b with Some t => Some (EBin o (wrong_lit t k) b) | None => None end
  | EAt a i => Some (if right then EAt a (wrong_lit TInt k) else EAt (wrong_lit TArr k) i)
  | ELen _ => Some (ELen (wrong_lit TArr k))
  | EArr (_ :: r) => Some (EArr (wrong_lit TInt k :: r))
  (* string builtins: the string operand (even arg) or the other operand (odd arg) becomes a literal of another type *)
  | EStr1 SLen _ => Some (EStr1 SLen (wrong_lit TStr k))
  | EStr1 SOfInt _ => Some (EStr1 SOfInt (wrong_lit TInt k))
  | EStr2 o a b =>
      Some (if right then EStr2 o a (wrong_lit (match o with SCharAt => TInt | _ => TStr end) k) else EStr2 o (wrong_lit TStr k) b)
  | ESubstr a b c => Some (if right then ESubstr a (wrong_lit TInt k) c else ESubstr (wrong_lit TStr k) b c)
  | _ => None
  end.

Fixpoint set_nth_e (n : nat) (v : expr) (l : list expr) : list expr :=
  match l with [] => [] | a :: r => match n with O => v :: r | S n' => a :: set_nth_e n' v r end end.

Definition rw_argtype (F : sigs) (arg : N) (e : expr) : option expr :=
  let i := N.to_nat (N.div arg 2) in
  match e with
  | ECall f args =>
      match slookup f F with
      | Some (ps, _) =>
          match nth_error ps i with
          | Some t => if Nat.ltb i (length args) then Some (ECall f (set_nth_e i (wrong_lit t arg) args)) else None
          | None => None end
      | None => None end
  | _ => None
  end.

Definition rw_arity (F : sigs) (plus : bool) (e : expr) : option expr :=
  match e with
  | ECall f args =>
      match slookup f F with
      | Some (ps, _) =>
          let args' := if plus then args ++ [ENum 0] else removelast args in
          if Nat.eqb (length args') (length ps) then None else Some (ECall f args')
      | None => None end
  | _ => None
  end.

Definition rw_var (z : ident) (e : expr) : option expr :=
  match e with EVar _ => Some (EVar z) | _ => None end.

Definition rw_unknown_fn (F : sigs) (z : ident) (e : expr) : option expr :=
  match e with
  | ECall _ args => match slookup z F with None => Some (ECall z args) | Some _ => None end
  | _ => None
  end.

Definition rw_out_of_scope (z : ident) (s : stmt) : option stmt :=
  Some (SSeq (SIf (EBool true) (SLet false z TInt (ENum 0)) SSkip) (SSeq (SPrint true (EVar z)) s)).

(* the declaring block is never entered at run time (if false), so a tool that wrongly accepts the mutant reaches the use *)
Definition exit_block (z : ident) (last : stmt) : stmt := SIf (EBool false) (SSeq (SLet false z TInt (ENum 0)) last) SSkip.
Definition rw_out_of_scope_return (ret : ty) (z : ident) (s : stmt) : option stmt :=
  Some (SSeq (exit_block z (SReturn (if is_void ret then None else Some (lit_of ret)))) (SSeq (SPrint true (EVar z)) s)).
Definition rw_out_of_scope_loop (brk : bool) (z : ident) (s : stmt) : option stmt :=
  let pre b := SSeq (exit_block z (if brk then SBreak else SContinue)) (SSeq (SPrint true (EVar z)) b) in
  match s with
  | SWhile c b => Some (SWhile c (pre b))
  | SFor x lo hi b => if N.eqb x z then None else Some (SFor x lo hi (pre b))
  | _ => None
  end.

Definition rw_set_immutable (s : stmt) : option stmt :=
  match s with
  | SLet false x t e => Some (SSeq (SLet false x t e) (SSet x (lit_of t)))
  | _ => None
  end.

Definition rw_set_loopvar (s : stmt) : option stmt :=
  match s with
  | SFor x lo hi b => Some (SFor x lo hi (SSeq (SSet x (ENum 0)) b))
  | _ => None
  end.

Definition rw_wrong_return (ret : ty) (k : N) (s : stmt) : option stmt :=
  match s with
  | SReturn (Some _) => Some (SReturn (Some (wrong_lit ret k)))
  | _ => None
  end.

Definition rw_return_novalue (ret : ty) (s : stmt) : option stmt :=
  match s with
  | SReturn (Some _) => if is_void ret then None else Some (SReturn None)
  | _ => None
  end.

Definition rw_cond_s (k : N) (s : stmt) : option stmt :=
  match s with
  | SIf _ a b => Some (SIf (wrong_lit TBool k) a b)
  | SWhile _ b => Some (SWhile (wrong_lit TBool k) b)
  | SAssert _ => Some (SAssert (wrong_lit TBool k))
  | _ => None
  end.
Definition rw_cond_e (k : N) (e : expr) : option expr :=
  match e with ECond _ a b => Some (ECond (wrong_lit TBool k) a b) | _ => None end.

(* make one path through s end without a return: follows the return spine, the path chooses the branch of an if *)
Fixpoint unret (path : list nat) (s : stmt) {struct s} : option stmt :=
  match s with
  | SReturn e => Some (SIf (EBool true) (SReturn e) SSkip)
  | SSeq a b =>
      if returns a then (if returns b then None else option_map (fun a' => SSeq a' b) (unret path a))
      else option_map (SSeq a) (unret path b)
  | SIf c a b =>
      match path with
      | S _ :: path' => option_map (SIf c a) (unret path' b)
      | _ => option_map (fun a' => SIf c a' b) (unret (tl path) a)
      end
  | _ => None
  end.

Definition rw_void_variable (z : ident) (s : stmt) : option stmt :=
  match s with SExpr e => Some (SLet false z TVoid e) | _ => None end.

(* parameter j (>= 1) renamed to the name of parameter 0; only when the result really has a repeated name *)
Fixpoint rename_nth (j : nat) (x : ident) (ps : list (ident * ty)) : list (ident * ty) :=
  match ps with [] => [] | (y, t) :: r => match j with O => (x, t) :: r | S j' => (y, t) :: rename_nth j' x r end end.
Definition dup_param (j : nat) (ps : list (ident * ty)) : option (list (ident * ty)) :=
  match j, ps with
  | S _, (x, _) :: _ =>
      let ps' := rename_nth j x ps in
      if Nat.ltb j (length ps) && negb (nodupb (map fst ps')) then Some ps' else None
  | _, _ => None
  end.

(* ---------------------------------------------------------------- the catalogue *)
Definition mut_body (r : rule) (pos : position) (p : program) (k : nat) (d : fn) : option stmt :=
  let F := sigs_of (pfns p) in
  let path := p_path pos in
  let arg := p_arg pos in
  let body := fbody d in
  match r with
  | ROperand => at_stmt path (rw_operand arg) no_s body
  | RArgType => at_stmt path (rw_argtype F arg) no_s body
  | RArityPlus => at_stmt path (rw_arity F true) no_s body
  | RArityMinus => at_stmt path (rw_arity F false) no_s body
  | RUnknownName => if fresh_for arg p d then at_stmt path (rw_var arg) no_s body else None
  | RUnknownFn => at_stmt path (rw_unknown_fn F arg) no_s body
  | ROtherFnLocal =>
      if fresh_for arg p d && local_of_earlier arg p k then at_stmt path (rw_var arg) no_s body else None
  | ROutOfScope => if fresh_for arg p d then at_stmt path no_e (rw_out_of_scope arg) body else None
  | RSetImmutable => at_stmt path no_e rw_set_immutable body
  | RSetParam =>
      match nth_error (fparams d) (N.to_nat arg) with
      | Some (x, t) => Some (SSeq (SSet x (lit_of t)) body)
      | None => None end
  | RSetLoopVar => at_stmt path no_e rw_set_loopvar body
  | RMissingReturn => if is_void (fret d) then None else unret path body
  | RWrongReturn => at_stmt path no_e (rw_wrong_return (fret d) arg) body
  | RReturnNoValue => at_stmt path no_e (rw_return_novalue (fret d)) body
  | RNonBoolCond => at_stmt path (rw_cond_e arg) (rw_cond_s arg) body
  | RVoidVariable => at_stmt path no_e (rw_void_variable arg) body
  | RDupParam | RMainParam => None                 (* these change the parameter list, not the body: see mut *)
  | ROutOfScopeReturn => if fresh_for arg p d then at_stmt path no_e (rw_out_of_scope_return (fret d) arg) body else None
  | ROutOfScopeBreak => if fresh_for arg p d then at_stmt path no_e (rw_out_of_scope_loop true arg) body else None
  | ROutOfScopeContinue => if fresh_for arg p d then at_stmt path no_e (rw_out_of_scope_loop false arg) body else None
  end.

Fixpoint replace_nth {A} (n : nat) (v : A) (l : list A) : list A :=
  match l with [] => [] | a :: r => match n with O => v :: r | S n' => a :: replace_nth n' v r end end.

Definition mut_in_body (r : rule) (pos : position) (p : program) : option program :=
  match nth_error (pfns p) (p_fn pos) with
  | None => None
  | Some d =>
      match mut_body r pos p (p_fn pos) d with
      | Some b' =>
          let d' := {| fname := fname d; fparams := fparams d; fret := fret d; fbody := b' |} in
          Some {| pglobals := pglobals p; pfns := replace_nth (p_fn pos) d' (pfns p); pmain := pmain p |}
      | None => None end
  end.

Definition with_params (p : program) (k : nat) (d : fn) (ps : list (ident * ty)) : program :=
  {| pglobals := pglobals p;
     pfns := replace_nth k {| fname := fname d; fparams := ps; fret := fret d; fbody := fbody d |} (pfns p);
     pmain := pmain p |}.

Definition mut_dup_param (pos : position) (p : program) : option program :=
  match nth_error (pfns p) (p_fn pos) with
  | Some d => match dup_param (N.to_nat (p_arg pos)) (fparams d) with
              | Some ps' => Some (with_params p (p_fn pos) d ps')
              | None => None end
  | None => None
  end.

(* main with a parameter: produced only when the entry-point rule (main : () -> int) really fails afterwards *)
Definition mut_main_param (pos : position) (p : program) : option program :=
  match nth_error (pfns p) (p_fn pos) with
  | Some d =>
      if N.eqb (fname d) (pmain p) then
        let p' := with_params p (p_fn pos) d ((p_arg pos, TInt) :: fparams d) in
        match slookup (pmain p') (sigs_of (pfns p')) with
        | Some ([], TInt) => None
        | _ => Some p'
        end
      else None
  | None => None
  end.

Definition mut (r : rule) (pos : position) (p : program) : option program :=
  match r with
  | RDupParam => mut_dup_param pos p
  | RMainParam => mut_main_param pos p
  | _ => mut_in_body r pos p
  end.

(* candidate names for ROtherFnLocal at function k (used by the driver to enumerate) *)
Definition earlier_names (p : program) (k : nat) : list ident := flat_map fn_names (firstn k (pfns p)).
