(* Induction principle for expressions with the nested lists of ECall (arguments) and EArr (elements). *)
From Coq Require Import ZArith NArith List Bool.
From NV Require Import Lang.Ast.
Import ListNotations.

Section ExprInd.
Variable P : expr -> Prop.
Hypothesis HNum : forall z, P (ENum z).
Hypothesis HBool : forall b, P (EBool b).
Hypothesis HStr : forall s, P (EStr s).
Hypothesis HVar : forall x, P (EVar x).
Hypothesis HUn : forall o a, P a -> P (EUn o a).
Hypothesis HBin : forall o a b, P a -> P b -> P (EBin o a b).
Hypothesis HCall : forall f args, Forall P args -> P (ECall f args).
Hypothesis HCond : forall c a b, P c -> P a -> P b -> P (ECond c a b).
Hypothesis HArr : forall es, Forall P es -> P (EArr es).
Hypothesis HAt : forall a i, P a -> P i -> P (EAt a i).
Hypothesis HLen : forall a, P a -> P (ELen a).
Hypothesis HStr1 : forall o a, P a -> P (EStr1 o a).
Hypothesis HStr2 : forall o a b, P a -> P b -> P (EStr2 o a b).
Hypothesis HSubstr : forall a b c, P a -> P b -> P c -> P (ESubstr a b c).
Fixpoint expr_ind3 (e : expr) : P e :=
  match e with
  | ENum z => HNum z | EBool b => HBool b | EStr s => HStr s | EVar x => HVar x
  | EUn o a => HUn o a (expr_ind3 a)
  | EBin o a b => HBin o a b (expr_ind3 a) (expr_ind3 b)
  | ECall f args =>
      HCall f args ((fix go (l : list expr) : Forall P l :=
                       match l with [] => Forall_nil P | a :: r => Forall_cons a (expr_ind3 a) (go r) end) args)
  | ECond c a b => HCond c a b (expr_ind3 c) (expr_ind3 a) (expr_ind3 b)
  | EArr es =>
      HArr es ((fix go (l : list expr) : Forall P l :=
                  match l with [] => Forall_nil P | a :: r => Forall_cons a (expr_ind3 a) (go r) end) es)
  | EAt a i => HAt a i (expr_ind3 a) (expr_ind3 i)
  | ELen a => HLen a (expr_ind3 a)
  | EStr1 o a => HStr1 o a (expr_ind3 a)
  | EStr2 o a b => HStr2 o a b (expr_ind3 a) (expr_ind3 b)
  | ESubstr a b c => HSubstr a b c (expr_ind3 a) (expr_ind3 b) (expr_ind3 c)
  end.
End ExprInd.
