(* Core-language abstract syntax shared by the reference semantics (Ref), the reference type checker (Types),
   the engine models in Back and the drivers.  Fragment CoreS of DESIGN.md section 4 plus string literals
   for printing.  Names are numbers (the harness prints ident n as "v<n>" / functions as "f<n>").
   Definitions only. *)
From Coq Require Import ZArith NArith List Bool.
Import ListNotations.

Definition ident := N.

Inductive ty := TInt | TBool | TVoid | TStr | TArr.       (* TArr = array<int> *)
Definition ty_eqb (a b : ty) : bool :=
  match a, b with TInt,TInt | TBool,TBool | TVoid,TVoid | TStr,TStr | TArr,TArr => true | _,_ => false end.

Inductive binop := BAdd | BSub | BMul | BDiv | BMod | BEq | BNe | BLt | BLe | BGt | BGe | BAnd | BOr.
Inductive unop := UNeg | UNot.
(* pure string builtins (docs/STDLIB.md, String Operations / Character Access / Type Conversions) *)
Inductive sop1 := SLen | SOfInt.                                   (* (str_length s)  (int_to_string n) *)
Inductive sop2 := SPlus | SConcat | SEquals | SContains | SCharAt. (* (+ a b) on strings  (str_concat a b)  (str_equals a b)
                                                                      (str_contains a b)  (char_at s i) *)

Inductive expr :=
  | ENum (z : Z)
  | EBool (b : bool)
  | EStr (s : list N)                      (* string literal, bytes *)
  | EVar (x : ident)
  | EUn (o : unop) (a : expr)
  | EBin (o : binop) (a b : expr)
  | ECall (f : ident) (args : list expr)
  | ECond (c a b : expr)                   (* (cond (c a) (else b)) *)
  | EArr (es : list expr)                  (* array literal [e1, e2, ...] of ints; arrays are immutable values *)
  | EAt (a i : expr)                       (* (at a i) *)
  | ELen (a : expr)                        (* (array_length a) *)
  | EStr1 (o : sop1) (a : expr)
  | EStr2 (o : sop2) (a b : expr)
  | ESubstr (s st ln : expr).              (* (str_substring s start length) *)

Fixpoint expr_mentions (x : ident) (e : expr) : bool :=
  match e with
  | ENum _ | EBool _ | EStr _ => false
  | EVar y => N.eqb x y
  | EUn _ a => expr_mentions x a
  | EBin _ a b => expr_mentions x a || expr_mentions x b
  | ECall _ args => (fix go (l : list expr) : bool := match l with [] => false | a :: r => expr_mentions x a || go r end) args
  | ECond c a b => expr_mentions x c || expr_mentions x a || expr_mentions x b
  | EArr es => (fix go (l : list expr) : bool := match l with [] => false | a :: r => expr_mentions x a || go r end) es
  | EAt a i => expr_mentions x a || expr_mentions x i
  | ELen a => expr_mentions x a
  | EStr1 _ a => expr_mentions x a
  | EStr2 _ a b => expr_mentions x a || expr_mentions x b
  | ESubstr a b c => expr_mentions x a || expr_mentions x b || expr_mentions x c
  end.

(* programs of the array-free fragment (the language before arrays were added) *)
Fixpoint expr_no_arrays (e : expr) : bool :=
  match e with
  | ENum _ | EBool _ | EStr _ | EVar _ => true
  | EUn _ a => expr_no_arrays a
  | EBin _ a b => expr_no_arrays a && expr_no_arrays b
  | ECall _ args => (fix go (l : list expr) : bool := match l with [] => true | a :: r => expr_no_arrays a && go r end) args
  | ECond c a b => expr_no_arrays c && expr_no_arrays a && expr_no_arrays b
  | EArr _ | EAt _ _ | ELen _ => false
  | EStr1 _ a => expr_no_arrays a
  | EStr2 _ a b => expr_no_arrays a && expr_no_arrays b
  | ESubstr a b c => expr_no_arrays a && expr_no_arrays b && expr_no_arrays c
  end.

Inductive stmt :=
  | SSkip
  | SSeq (s1 s2 : stmt)
  | SLet (mut : bool) (x : ident) (t : ty) (e : expr)
  | SSet (x : ident) (e : expr)
  | SIf (c : expr) (s1 s2 : stmt)          (* bodies are blocks: a new scope each; absent else = SSkip *)
  | SWhile (c : expr) (body : stmt)
  | SFor (x : ident) (lo hi : expr) (body : stmt)   (* for x in (range lo hi) *)
  | SBreak
  | SContinue
  | SReturn (e : option expr)
  | SPrint (nl : bool) (e : expr)          (* (print e) / (println e) used as a statement *)
  | SAssert (e : expr)
  | SExpr (e : expr).                      (* expression statement, value discarded *)

Record fn := { fname : ident; fparams : list (ident * ty); fret : ty; fbody : stmt }.
(* top-level constants: let g: t = e  (immutable) *)
Record program := { pglobals : list (ident * ty * expr); pfns : list fn; pmain : ident }.

Fixpoint stmt_no_arrays (s : stmt) : bool :=
  match s with
  | SSkip | SBreak | SContinue | SReturn None => true
  | SSeq a b => stmt_no_arrays a && stmt_no_arrays b
  | SLet _ _ _ e | SSet _ e | SReturn (Some e) | SPrint _ e | SAssert e | SExpr e => expr_no_arrays e
  | SIf c a b => expr_no_arrays c && stmt_no_arrays a && stmt_no_arrays b
  | SWhile c b => expr_no_arrays c && stmt_no_arrays b
  | SFor _ lo hi b => expr_no_arrays lo && expr_no_arrays hi && stmt_no_arrays b
  end.
(* fallback side condition for consumers that do not (yet) cover arrays; defined once, here *)
Definition no_arrays (p : program) : bool :=
  forallb (fun d => stmt_no_arrays (fbody d)) (pfns p) && forallb (fun g => expr_no_arrays (snd g)) (pglobals p).

(* a string literal is kept as spelled in the source; its value is the spelling with the escape sequences
   backslash-n, -t, -r, -0, -backslash, -doublequote, -quote translated (what the C compiler does for the native
   backend, codegen.c for the VM); as in C, the value ends at the first NUL *)
Fixpoint unescape_raw (s : list N) : list N :=
  match s with
  | 92 :: c :: r =>
      let k := match c with
               | 110 => Some 10 | 116 => Some 9 | 114 => Some 13 | 48 => Some 0
               | 92 => Some 92 | 34 => Some 34 | 39 => Some 39 | _ => None end%N in
      match k with Some b => b :: unescape_raw r | None => 92%N :: c :: unescape_raw r end
  | c :: r => c :: unescape_raw r
  | [] => []
  end%N.
Fixpoint until_nul (s : list N) : list N :=
  match s with [] => [] | c :: r => if N.eqb c 0 then [] else c :: until_nul r end.
Definition unescape (s : list N) : list N := until_nul (unescape_raw s).

Inductive value := VInt (z : Z) | VBool (b : bool) | VVoid | VStr (s : list N) | VArr (l : list Z).

Definition binop_eqb (a b : binop) : bool :=
  match a, b with
  | BAdd,BAdd | BSub,BSub | BMul,BMul | BDiv,BDiv | BMod,BMod | BEq,BEq | BNe,BNe | BLt,BLt | BLe,BLe | BGt,BGt | BGe,BGe | BAnd,BAnd | BOr,BOr => true
  | _,_ => false end.

(* 64-bit two's complement wrap *)
Definition wrap64 (z : Z) : Z := ((z + 9223372036854775808) mod 18446744073709551616 - 9223372036854775808)%Z.
Definition in64 (z : Z) : bool := ((-9223372036854775808 <=? z) && (z <=? 9223372036854775807))%Z.

(* decimal text of an integer, as bytes *)
Fixpoint dec_digits (fuel : nat) (n : N) (acc : list N) : list N :=
  match fuel with
  | O => acc
  | S f => let d := (48 + n mod 10)%N in
           if (n <? 10)%N then d :: acc else dec_digits f (n / 10)%N (d :: acc)
  end.
Definition print_N (n : N) : list N := dec_digits 25 n [].     (* 25 digits cover 2^64 *)
Definition print_Z (z : Z) : list N :=
  match z with Z0 => [48%N] | Zpos p => print_N (Npos p) | Zneg p => 45%N :: print_N (Npos p) end.
Definition print_bool (b : bool) : list N :=
  if b then [116;114;117;101]%N else [102;97;108;115;101]%N.
(* an array prints as [e1, e2, ...] on both engines *)
Fixpoint print_elems (first : bool) (l : list Z) : list N :=
  match l with [] => [] | z :: r => (if first then [] else [44;32]%N) ++ print_Z z ++ print_elems false r end.
Definition print_value (v : value) : list N :=
  match v with
  | VInt z => print_Z z | VBool b => print_bool b | VVoid => [118;111;105;100]%N | VStr s => s
  | VArr l => [91%N] ++ print_elems true l ++ [93%N]
  end.

(* the values of the elements of an array literal: all ints, or the literal is ill-formed *)
Fixpoint ints_of (vs : list value) : option (list Z) :=
  match vs with
  | [] => Some []
  | VInt z :: r => match ints_of r with Some l => Some (z :: l) | None => None end
  | _ :: _ => None
  end.
(* element k of an array, None outside 0 <= k < length *)
Definition arr_get (l : list Z) (k : Z) : option Z :=
  if ((0 <=? k) && (k <? Z.of_nat (length l)))%Z then Some (nth (Z.to_nat k) l 0%Z) else None.

(* ---- strings as computed values: byte lists without NUL (a literal ends at its first NUL, no operation creates one).
   The string builtins on their COMMON DOMAIN: where the engines disagree with each other the operation has no value here
   (None) -- char_at outside 0 <= i < length (VM: -1, native: 0 and a message, evaluator: void; findings
   lang:char-at-out-of-range), str_substring with a negative operand or one of 2^32 and more (the VM narrows both to 32 bits;
   finding lang:str-substring-u32), a concatenation longer than 1 MiB (the native runtime scans at most 2^20 bytes of a
   string operand -- strnlen(s, 1024*1024) in nl_str_concat / nl_str_substring / char_at: finding lang:native-string-1mib). *)
Definition str_limit : Z := 4294967296.
Definition str_max : Z := 1048576.
Fixpoint prefixb (p s : list N) : bool :=
  match p, s with
  | [], _ => true
  | x :: p', y :: s' => N.eqb x y && prefixb p' s'
  | _ :: _, [] => false
  end.
(* does s contain p as a contiguous substring (strstr); the empty string is contained in every string *)
Fixpoint containsb (s p : list N) : bool :=
  prefixb p s || match s with [] => false | _ :: r => containsb r p end.
Definition concat_v (x y : list N) : option (list N) :=
  if (Z.of_nat (length x + length y) <=? str_max)%Z then Some (x ++ y) else None.
Definition char_at_v (s : list N) (i : Z) : option Z :=
  if ((0 <=? i) && (i <? Z.of_nat (length s)))%Z then Some (Z.of_N (nth (Z.to_nat i) s 0%N mod 256)) else None.     (* (unsigned char)s[i] *)
(* start beyond the end: the empty string; start + length beyond the end: up to the end (the operands are clamped to the
   length before they become naturals) *)
Definition substr_v (s : list N) (st ln : Z) : option (list N) :=
  if ((0 <=? st) && (st <? str_limit) && (0 <=? ln) && (ln <? str_limit))%Z
  then let n := Z.of_nat (length s) in
       Some (firstn (Z.to_nat (Z.min ln n)) (skipn (Z.to_nat (Z.min st n)) s))
  else None.
