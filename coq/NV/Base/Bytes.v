(* Little-endian byte strings over N; two's complement views.  Proof-carrying base file. *)
From Coq Require Import NArith ZArith List Lia Bool.
Import ListNotations.
Local Open Scope N_scope.
Ltac Zify.zify_post_hook ::= Z.div_mod_to_equations.

Definition byte := N.

Fixpoint le_bytes (k : nat) (n : N) : list byte :=
  match k with O => [] | S k' => (n mod 256) :: le_bytes k' (n / 256) end.
Fixpoint of_le (bs : list byte) : N :=
  match bs with [] => 0 | b :: r => b + 256 * of_le r end.

Definition byte_okb (b : byte) : bool := b <? 256.
Definition bytes_ok (bs : list byte) : Prop := Forall (fun b => b < 256) bs.
Definition bytes_okb (bs : list byte) : bool := forallb byte_okb bs.

Lemma bytes_okb_spec bs : bytes_okb bs = true <-> bytes_ok bs.
Proof.
  unfold bytes_okb, bytes_ok, byte_okb. rewrite forallb_forall, Forall_forall.
  split; intros H x Hx; specialize (H x Hx); [apply N.ltb_lt in H|apply N.ltb_lt]; exact H.
Qed.

Lemma le_bytes_length k n : length (le_bytes k n) = k.
Proof. revert n; induction k; simpl; intros; auto. Qed.

Lemma le_bytes_ok k n : bytes_ok (le_bytes k n).
Proof.
  revert n; induction k as [|k IH]; intros n; simpl; constructor.
  - apply N.mod_lt; lia.
  - apply IH.
Qed.

Lemma of_le_le_bytes k n : n < 256 ^ N.of_nat k -> of_le (le_bytes k n) = n.
Proof.
  revert n; induction k as [|k IH]; intros n H.
  - simpl in *. lia.
  - cbn [le_bytes of_le]. rewrite IH.
    + pose proof (N.div_mod n 256). lia.
    + rewrite Nat2N.inj_succ, N.pow_succ_r' in H.
      apply N.div_lt_upper_bound; lia.
Qed.

Lemma le_bytes_of_le bs : bytes_ok bs -> le_bytes (length bs) (of_le bs) = bs.
Proof.
  induction 1 as [|b r Hb Hr IH]; [reflexivity|].
  cbn [length le_bytes of_le]. f_equal.
  - rewrite (N.mul_comm 256), N.mod_add by lia. apply N.mod_small; lia.
  - rewrite (N.mul_comm 256), N.div_add by lia. rewrite (N.div_small b) by lia. simpl. exact IH.
Qed.

Lemma of_le_bound bs : bytes_ok bs -> of_le bs < 256 ^ N.of_nat (length bs).
Proof.
  induction 1 as [|b r Hb Hr IH]; [simpl; lia|].
  cbn [length of_le]. rewrite Nat2N.inj_succ, N.pow_succ_r'. lia.
Qed.

Lemma bytes_ok_app a b : bytes_ok (a ++ b) <-> bytes_ok a /\ bytes_ok b.
Proof. unfold bytes_ok. apply Forall_app. Qed.

Lemma bytes_ok_firstn n bs : bytes_ok bs -> bytes_ok (firstn n bs).
Proof.
  unfold bytes_ok. rewrite !Forall_forall. intros H x Hx. apply H.
  rewrite <- (firstn_skipn n bs). apply in_or_app; left; exact Hx.
Qed.
Lemma bytes_ok_skipn n bs : bytes_ok bs -> bytes_ok (skipn n bs).
Proof.
  unfold bytes_ok. rewrite !Forall_forall. intros H x Hx. apply H.
  rewrite <- (firstn_skipn n bs). apply in_or_app; right; exact Hx.
Qed.

(* two's complement: signed view of a k-bit pattern and back *)
Definition to_signed (bits : N) (n : N) : Z :=
  if n <? 2 ^ (bits - 1) then Z.of_N n else (Z.of_N n - 2 ^ Z.of_N bits)%Z.
Definition of_signed (bits : N) (z : Z) : N := Z.to_N (z mod 2 ^ Z.of_N bits).

Lemma of_to_signed bits n : 0 < bits -> n < 2 ^ bits -> of_signed bits (to_signed bits n) = n.
Proof.
  intros Hb Hn. unfold of_signed, to_signed.
  assert (E : (2 ^ Z.of_N bits = Z.of_N (2 ^ bits))%Z) by (rewrite N2Z.inj_pow; reflexivity).
  destruct (N.ltb_spec n (2 ^ (bits - 1))).
  - rewrite Z.mod_small by (rewrite E; lia). apply N2Z.id.
  - rewrite E.
    replace ((Z.of_N n - Z.of_N (2 ^ bits)) mod Z.of_N (2 ^ bits))%Z with (Z.of_N n).
    + apply N2Z.id.
    + symmetry. rewrite <- (Z.mod_add _ 1) by lia.
      replace (Z.of_N n - Z.of_N (2 ^ bits) + 1 * Z.of_N (2 ^ bits))%Z with (Z.of_N n) by lia.
      apply Z.mod_small. lia.
Qed.

Lemma to_of_signed bits z : 0 < bits ->
  (- 2 ^ (Z.of_N bits - 1) <= z < 2 ^ (Z.of_N bits - 1))%Z -> to_signed bits (of_signed bits z) = z.
Proof.
  intros Hb Hz. unfold of_signed, to_signed.
  assert (E : (2 ^ Z.of_N bits = 2 * 2 ^ (Z.of_N bits - 1))%Z).
  { rewrite <- Z.pow_succ_r by lia. f_equal. lia. }
  assert (E1 : Z.of_N (2 ^ (bits - 1)) = (2 ^ (Z.of_N bits - 1))%Z).
  { rewrite N2Z.inj_pow, N2Z.inj_sub by lia. reflexivity. }
  assert (P : (0 < 2 ^ (Z.of_N bits - 1))%Z) by (apply Z.pow_pos_nonneg; lia).
  destruct (Z.ltb_spec z 0).
  - replace (z mod 2 ^ Z.of_N bits)%Z with (z + 2 ^ Z.of_N bits)%Z.
    + destruct (N.ltb_spec (Z.to_N (z + 2 ^ Z.of_N bits)) (2 ^ (bits - 1))); rewrite Z2N.id by lia; lia.
    + symmetry. rewrite <- (Z.mod_add _ 1) by lia. rewrite Z.mul_1_l. apply Z.mod_small. lia.
  - rewrite Z.mod_small by lia.
    destruct (N.ltb_spec (Z.to_N z) (2 ^ (bits - 1))); rewrite Z2N.id by lia; lia.
Qed.
