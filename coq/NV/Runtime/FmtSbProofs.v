(* Proofs about NV.Runtime.FmtSb: with the looping growth rule, ensure establishes needed <= cap, every append fits, and the builder
   is list concatenation. *)
From Coq Require Import NArith List Bool Lia.
From NV Require Import Base.Bytes Runtime.FmtSb.
Import ListNotations.
Local Open Scope N_scope.

Definition HALF : N := 9223372036854775808.      (* SIZE_MAX / 2 + 1 = 2^63 *)

Lemma grow_loop_ok : forall fuel c needed, 0 < c -> needed <= HALF -> needed <= c * 2 ^ N.of_nat fuel ->
  exists c', grow_loop fuel 2 c needed = Some c' /\ needed <= c' /\ c <= c'.
Proof.
  induction fuel as [|k IH]; intros c needed Hc Hn Hb; cbn [grow_loop].
  - simpl in Hb. rewrite N.mul_1_r in Hb. destruct (c <? needed) eqn:E; [apply N.ltb_lt in E; lia|].
    exists c. repeat split; auto; lia.
  - destruct (c <? needed) eqn:E.
    + apply N.ltb_lt in E.
      assert (Hs : (c * 2) mod SIZE = c * 2) by (apply N.mod_small; unfold SIZE, HALF in *; lia).
      rewrite Hs.
      destruct (IH (c * 2) needed ltac:(lia) Hn) as (c' & G & A & B).
      { rewrite Nat2N.inj_succ, N.pow_succ_r' in Hb. lia. }
      exists c'. repeat split; auto; lia.
    + apply N.ltb_ge in E. exists c. repeat split; auto; lia.
Qed.

Definition loop_params (P : sbparams) : Prop :=
  sb_mode P = GrowLoop /\ sb_factor P = 2 /\ 0 < sb_default P /\ sb_slack P = 1 /\ 0 < sb_new_default P.

(* ensure establishes needed <= cap for every needed up to SIZE_MAX/2 + 1, keeps length and text, never shrinks *)
Theorem ensure_ok P s extra : loop_params P -> b_len s + extra + 1 <= HALF ->
  exists s', ensure P s extra = SOk s' /\ b_len s + extra + 1 <= b_cap s' /\ b_len s' = b_len s /\ b_text s' = b_text s /\ b_cap s <= b_cap s'.
Proof.
  intros (M & F & D & K & _) Hn. unfold ensure. rewrite K.
  rewrite N.mod_small by (unfold SIZE, HALF in *; lia).
  destruct (b_len s + extra + 1 <=? b_cap s) eqn:E.
  - apply N.leb_le in E. exists s. repeat split; auto; lia.
  - apply N.leb_gt in E. rewrite M, F.
    set (c0 := if b_cap s =? 0 then sb_default P else b_cap s).
    assert (H0 : 0 < c0) by (unfold c0; destruct (b_cap s =? 0) eqn:Z; [exact D|apply N.eqb_neq in Z; lia]).
    assert (Hc : b_cap s <= c0) by (unfold c0; destruct (b_cap s =? 0) eqn:Z; [apply N.eqb_eq in Z; lia|lia]).
    destruct (grow_loop_ok 64 c0 (b_len s + extra + 1) H0 Hn) as (c' & G & A & B).
    { change (2 ^ N.of_nat 64) with SIZE. unfold SIZE, HALF in *. lia. }
    rewrite G. exists (set_cap s c'). unfold set_cap; cbn. repeat split; auto; lia.
Qed.

Definition sb_inv (s : sbuf) : Prop := b_len s + 1 <= b_cap s /\ b_len s = N.of_nat (length (b_text s)).

Lemma sb_new_inv P i : loop_params P -> sb_inv (sb_new P i).
Proof.
  intros (_ & _ & _ & _ & D). unfold sb_new, sb_inv; cbn. split; [|reflexivity].
  destruct (i =? 0) eqn:Z; [lia|apply N.eqb_neq in Z; lia].
Qed.

Theorem append_cstr_ok P s piece : loop_params P -> sb_inv s -> b_len s + N.of_nat (length piece) + 1 <= HALF ->
  exists s', append_cstr P s piece = SOk s' /\ b_text s' = b_text s ++ piece /\ sb_inv s' /\ b_len s' = b_len s + N.of_nat (length piece).
Proof.
  intros LP (I1 & I2) Hn. unfold append_cstr.
  destruct (ensure_ok P s (N.of_nat (length piece)) LP Hn) as (s1 & E & A & B & C & D). rewrite E.
  rewrite B. destruct (b_len s + N.of_nat (length piece) + 1 <=? b_cap s1) eqn:F; [|apply N.leb_gt in F; lia].
  eexists. split; [reflexivity|]. cbn. rewrite C. split; [reflexivity|]. split; [|reflexivity].
  unfold sb_inv; cbn. split; [lia|]. rewrite app_length, Nat2N.inj_add. lia.
Qed.

(* the builder is list concatenation: after any sequence of appends whose total stays below SIZE_MAX/2 the text is the concatenation
   of the pieces, and no write left the block *)
Theorem append_all_is_concat P : loop_params P -> forall pieces s, sb_inv s ->
  b_len s + N.of_nat (length (concat pieces)) + 1 <= HALF ->
  exists s', append_all P s pieces = SOk s' /\ b_text s' = b_text s ++ concat pieces /\ sb_inv s'.
Proof.
  intros LP. induction pieces as [|p r IH]; intros s I Hn; cbn [append_all concat].
  - exists s. rewrite app_nil_r. auto.
  - cbn [concat] in Hn. rewrite app_length, Nat2N.inj_add in Hn.
    destruct (append_cstr_ok P s p LP I ltac:(lia)) as (s1 & A & T & I1 & L1). rewrite A.
    destruct (IH s1 I1 ltac:(rewrite L1; lia)) as (s' & B & T' & I').
    exists s'. split; [exact B|]. split; [rewrite T', T, app_assoc; reflexivity|exact I'].
Qed.
