(* Executable model of the string builder nl_fmt_sb_* that src/stdlib_runtime.c emits into every native program (behind println /
   to_string of arrays, structs and unions).  Definitions only (extracted).

   The buffer is a heap block of [b_cap] bytes; [b_text] are the b_len bytes written so far, a NUL sits at buf[len].
   nl_fmt_sb_ensure(sb, extra): needed = len + extra + slack (size_t arithmetic); if needed <= cap return; new_cap = cap ? cap : default;
   GROW; realloc.  GROW is NOT written here: it is [sb_mode] of the parameters NV.gen.FmtSbParams, which tools/gen/gen_fmtsb.py reads from
   the statement the current source emits:   GrowLoop f  =  while (new_cap < needed) new_cap *= f;     GrowOnce f  =  one guarded
   multiplication.  A write that does not fit the block is [SCrash] (heap-buffer-overflow); a growth loop that does not end within 64
   rounds is [SLoop] (size_t wraps to 0).  malloc / realloc are assumed to succeed. *)
From Coq Require Import NArith List Bool.
From NV Require Import Base.Bytes.
Import ListNotations.
Local Open Scope N_scope.

Inductive grow_mode := GrowLoop | GrowOnce | GrowUnknown.
Record sbparams := { sb_mode : grow_mode; sb_factor : N; sb_default : N; sb_slack : N; sb_new_default : N }.
Record sbuf := { b_len : N; b_cap : N; b_text : list byte }.
Inductive sres := SOk (s : sbuf) | SCrash | SLoop.

Definition SIZE : N := 18446744073709551616.      (* size_t is 64 bits *)

Fixpoint grow_loop (fuel : nat) (f c needed : N) : option N :=
  if c <? needed then match fuel with O => None | S k => grow_loop k f ((c * f) mod SIZE) needed end else Some c.

Definition set_cap (s : sbuf) (c : N) : sbuf := {| b_len := b_len s; b_cap := c; b_text := b_text s |}.

Definition ensure (P : sbparams) (s : sbuf) (extra : N) : sres :=
  let needed := (b_len s + extra + sb_slack P) mod SIZE in
  if needed <=? b_cap s then SOk s else
  let c0 := if b_cap s =? 0 then sb_default P else b_cap s in
  match sb_mode P with
  | GrowLoop => match grow_loop 64 (sb_factor P) c0 needed with Some c => SOk (set_cap s c) | None => SLoop end
  | GrowOnce => if c0 <? needed
                then (if SIZE / 2 <=? c0 then SOk s                  (* "if (new_cap > SIZE_MAX / 2) return;" *)
                      else SOk (set_cap s ((c0 * sb_factor P) mod SIZE)))
                else SOk (set_cap s c0)
  | GrowUnknown => SLoop
  end.

(* nl_fmt_sb_new(initial_cap) *)
Definition sb_new (P : sbparams) (initial : N) : sbuf :=
  {| b_len := 0; b_cap := if initial =? 0 then sb_new_default P else initial; b_text := [] |}.

(* nl_fmt_sb_append_cstr: ensure(n); memcpy(buf + len, s, n); len += n; buf[len] = 0 *)
Definition append_cstr (P : sbparams) (s : sbuf) (piece : list byte) : sres :=
  let n := N.of_nat (length piece) in
  match ensure P s n with
  | SOk s1 => if b_len s1 + n + 1 <=? b_cap s1
              then SOk {| b_len := b_len s1 + n; b_cap := b_cap s1; b_text := b_text s1 ++ piece |}
              else SCrash
  | r => r
  end.
(* nl_fmt_sb_append_char: ensure(1); buf[len++] = c; buf[len] = 0 *)
Definition append_char (P : sbparams) (s : sbuf) (c : byte) : sres := append_cstr P s [c].

Fixpoint append_all (P : sbparams) (s : sbuf) (pieces : list (list byte)) : sres :=
  match pieces with
  | [] => SOk s
  | p :: r => match append_cstr P s p with SOk s1 => append_all P s1 r | x => x end
  end.
